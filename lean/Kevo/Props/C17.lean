/-
  C17 — Every transaction ends and releases the database.

  Model: Kevo.Model.Registry (transaction flags active/hasReadLock/hasWriteLock over a reader-writer lock whose
  misuse is an explicit `panic`; RegistryImpl.Begin with its worker goroutine and the UNBUFFERED hand-off; Get/Remove;
  CleanupStaleTransactions with an explicit clock; CleanupConnection; GracefulShutdown; the transaction RPC handlers)
  on the interleaving semantics Kevo.Model.Conc: any number of concurrent calls, any interleaving, deadlines fire
  at arbitrary moments. `Kevo.Gen.Tx.cfg` carries the constants extracted from the source (TTLs, idle limit, channel
  capacity); `cfg_unbuffered` is re-checked on every run.
  Tie to the code: facts `tx.*` (CAS guards, mutex per method, select arms + channel capacity + rollback on the Done
  arm, every Remove call site preceded by Commit/Rollback, constants) + component `registry` (real registry/manager,
  scripted clients, probe "a fresh read-write transaction begins within a deadline" after every scenario).
  Excluded by the property: a client that asks for a second transaction while holding one.
-/
import Kevo.Proofs.Registry
import Kevo.Gen.Tx
namespace Kevo.Props.C17
open Kevo Kevo.Conc Kevo.Registry Kevo.Proofs.Registry
open Kevo.TxLock (Mode)

/-- The lock is never unlocked by somebody who does not hold it: no reachable state is a panic, whatever the
    interleaving of Commit / Rollback / cleanup / shutdown / late Begin workers. -/
theorem never_unlock_unlocked (cfg : Cfg) (hcap : cfg.chanCap = 0) (sched : Sched) (s : State)
    (h : reach (sys cfg) sched = some s) : s.panicked = false :=
  (inv_reach cfg hcap sched s h).noPanic

/-- Commit/Rollback take effect at most once: in every reachable state each transaction has released the lock
    exactly once iff it has ended and not at all while active; it holds the lock iff it is active. Any further
    Commit/Rollback/Get/Put answers "closed" and changes nothing but the ghost counter of closed calls; the FIRST
    finisher is the one that releases. (Calls on one transaction are atomic w.r.t. each other: tx.mu; any number of
    handler threads may hold a reference to the same transaction and race to finish it.) -/
theorem finish_once (cfg : Cfg) (hcap : cfg.chanCap = 0) (sched : Sched) (s : State)
    (h : reach (sys cfg) sched = some s) (x : Nat) (tx : TxS) (htx : s.txs x = some tx) :
    tx.unlocks = (if tx.active then 0 else 1) ∧ (s.lock.heldBy x ↔ tx.active = true) ∧
    (tx.active = false →
        finishTx s x = { s with txs := setFn s.txs x (some { tx with closedCalls := tx.closedCalls + 1 }) } ∧
        touchTx s x = { s with txs := setFn s.txs x (some { tx with closedCalls := tx.closedCalls + 1 }) }) ∧
    (tx.active = true → ∀ tx', (finishTx s x).txs x = some tx' →
        tx'.active = false ∧ tx'.unlocks = 1 ∧ ¬ (finishTx s x).lock.heldBy x ∧ (finishTx s x).panicked = false) := by
  have hI := inv_reach cfg hcap sched s h
  refine ⟨(hI.flags x tx htx).2.2.2.2.2, held_iff_active hI x tx htx, ?_, ?_⟩
  · intro ha
    refine ⟨finishTx_closed s x tx htx ha, ?_⟩
    unfold touchTx; simp [htx, ha]
  · intro ha tx' htx'
    have hI' := inv_finishTx hI x
    have hin := finishTx_inactive hI x tx' htx'
    refine ⟨hin, ?_, ?_, hI'.noPanic⟩
    · have := (hI'.flags x tx' htx').2.2.2.2.2; rw [hin] at this; simpa using this
    · rw [held_iff_active hI' x tx' htx', hin]; simp

/-- The same over a whole call sequence: starting from a reachable state in which transaction x is active, after ANY
    sequence of Commit/Rollback (`true`) and Get/Put/Delete/scan (`false`) calls on x by any callers, x has unlocked
    exactly once if the sequence contains a finish and not at all otherwise; it holds the lock iff no finish happened;
    nothing panicked. -/
theorem finish_once_sequence (cfg : Cfg) (hcap : cfg.chanCap = 0) (sched : Sched) (s : State)
    (h : reach (sys cfg) sched = some s) (x : Nat) (tx : TxS) (htx : s.txs x = some tx) (ha : tx.active = true)
    (calls : List Bool) :
    ∃ tx', (applyCalls s x calls).txs x = some tx' ∧ tx'.unlocks = (if calls.any id then 1 else 0) ∧
      ((applyCalls s x calls).lock.heldBy x ↔ calls.any id = false) ∧ (applyCalls s x calls).panicked = false := by
  have hI := inv_reach cfg hcap sched s h
  obtain ⟨hI', tx', e1, e2⟩ := applyCalls_spec hI x tx htx calls
  rw [ha] at e2
  refine ⟨tx', e1, ?_, ?_, hI'.noPanic⟩
  · have := (hI'.flags x tx' e1).2.2.2.2.2
    rw [this, e2]
    cases calls.any id <;> simp
  · rw [held_iff_active hI' x tx' e1, e2]
    cases calls.any id <;> simp

/-- No orphaned lock: whoever holds the database lock is an active transaction that is registered (the cleanup
    will reach it), or owned by a live handler call that always finishes it, or owned by a Begin worker / Begin
    caller that will register it or roll it back. -/
theorem no_orphan_lock (cfg : Cfg) (hcap : cfg.chanCap = 0) (sched : Sched) (s : State)
    (h : reach (sys cfg) sched = some s) (x : Nat) (hx : s.lock.heldBy x) :
    ∃ tx, s.txs x = some tx ∧ tx.active = true ∧ (registered s x ∨ ∃ t, (s.th t).owns x) := by
  have hI := inv_reach cfg hcap sched s h
  obtain ⟨tx, htx⟩ := held_allocated hI x hx
  have ha := (held_iff_active hI x tx htx).1 hx
  exact ⟨tx, htx, ha, hI.owned x tx htx ha⟩

/-- ... and an owner can always move: a Begin worker that holds a transaction can hand it to the caller or (the
    caller left only after the deadline) roll it back; a caller that received one can register it; a handler with
    its own transaction can finish it. -/
theorem owner_can_move (cfg : Cfg) (sched : Sched) (s : State) (h : reach (sys cfg) sched = some s) (t : Tid) (x : Nat)
    (ho : (s.th t).owns x) :
    (step cfg s t .handoff).isSome ∨ (step cfg s t .workerTimeout).isSome ∨ (step cfg s t .register).isSome ∨
    (step cfg s t .dFinish).isSome := by
  have hB := beginInv_reach cfg sched s h
  cases hth : s.th t with
  | idle => rw [hth] at ho; cases ho
  | op y => rw [hth] at ho; cases ho
  | finishing a b => rw [hth] at ho; cases ho
  | removing a b => rw [hth] at ho; cases ho
  | direct y => right; right; right; simp [step, hth]
  | «begin» c m d ca w =>
    rw [hth] at ho
    rcases ho with ho | ho
    · subst ho; right; right; left; simp [step, hth]
    · subst ho
      cases ca with
      | waiting => left; simp [step, hth]
      | got y => have := hB.got t c m d y _ hth; cases this
      | left =>
        rcases hB.left t c m d _ hth with h1 | h1
        · subst h1; right; left; simp [step, hth]
        · cases h1

/-- the instance for the constants found in the source. -/
theorem no_orphan_lock_code (sched : Sched) (s : State) (h : reach (sys Kevo.Gen.Tx.cfg) sched = some s) (x : Nat)
    (hx : s.lock.heldBy x) :
    ∃ tx, s.txs x = some tx ∧ tx.active = true ∧ (registered s x ∨ ∃ t, (s.th t).owns x) :=
  no_orphan_lock Kevo.Gen.Tx.cfg Kevo.Gen.Tx.cfg_unbuffered sched s h x hx

/-- After CleanupStaleTransactions at time `now` no registered transaction is older than its TTL or idle longer
    than the limit, and every transaction it removed has been rolled back (not active, not holding the lock). -/
theorem cleanup_complete (cfg : Cfg) (hcap : cfg.chanCap = 0) (sched : Sched) (s s' : State) (t : Tid)
    (h : reach (sys cfg) sched = some s) (hs : step cfg s t .cleanupStale = some s') :
    (∀ e ∈ s'.reg, ∀ tx, s'.txs e.tx = some tx → s'.now - tx.created ≤ tx.ttl ∧ s'.now - tx.lastActive ≤ cfg.idle) ∧
    (∀ e ∈ s.reg, e ∉ s'.reg → ∀ tx, s'.txs e.tx = some tx → tx.active = false ∧ ¬ s'.lock.heldBy e.tx) := by
  have hI := inv_reach cfg hcap sched s h
  simp [step] at hs
  subst hs
  have hxs : ∀ e ∈ s.reg, (fun e => !stale cfg s e) e = false → e.tx ∈ (s.reg.filter (stale cfg s)).map (·.tx) := by
    intro e he hk
    simp at hk
    simp only [List.mem_map, List.mem_filter]
    exact ⟨e, ⟨he, hk⟩, rfl⟩
  constructor
  · intro e he tx htx
    simp only [List.mem_filter] at he
    obtain ⟨_, hns⟩ := he
    simp only at htx
    obtain ⟨tx0, h0, e1, e2, e3⟩ := finishAll_times s _ e.tx tx htx
    have hnow : (finishAll s ((s.reg.filter (stale cfg s)).map (·.tx))).now = s.now := (finishAll_frame s _).2.2.2.2.1
    simp only [hnow, e1, e2, e3]
    simp [stale, h0] at hns
    omega
  · intro e he hne tx htx
    have hk : (fun e => !stale cfg s e) e = false := by
      cases hst : stale cfg s e with
      | true => simp [hst]
      | false => exfalso; apply hne; simp [List.mem_filter, he, hst]
    exact cleanup_dropped hI _ _ hxs e he hk tx htx

/-- CleanupConnection(c): no handle of connection c survives, each of its transactions has been rolled back, other
    connections keep their handles. -/
theorem connection_cleanup (cfg : Cfg) (hcap : cfg.chanCap = 0) (sched : Sched) (s s' : State) (t : Tid) (c : Nat)
    (h : reach (sys cfg) sched = some s) (hs : step cfg s t (.cleanupConn c) = some s') :
    (∀ e ∈ s'.reg, e.conn ≠ c) ∧
    (∀ e ∈ s.reg, e.conn = c → ∀ tx, s'.txs e.tx = some tx → tx.active = false ∧ ¬ s'.lock.heldBy e.tx) ∧
    (∀ e ∈ s.reg, e.conn ≠ c → e ∈ s'.reg) := by
  have hI := inv_reach cfg hcap sched s h
  simp [step] at hs
  subst hs
  have hxs : ∀ e ∈ s.reg, (fun e : Entry => e.conn != c) e = false → e.tx ∈ (s.reg.filter (fun e => e.conn == c)).map (·.tx) := by
    intro e he hk
    simp at hk
    simp only [List.mem_map, List.mem_filter]
    exact ⟨e, ⟨he, by simp [hk]⟩, rfl⟩
  refine ⟨?_, ?_, ?_⟩
  · intro e he; simp [List.mem_filter] at he; exact he.2
  · intro e he hc tx htx
    exact cleanup_dropped hI _ _ hxs e he (by simp [hc]) tx htx
  · intro e he hc; simp [List.mem_filter, he, hc]

/-- GracefulShutdown: the registry is empty and every transaction that was registered has been rolled back; if no
    call is in flight the database lock is free. -/
theorem shutdown_releases_all (cfg : Cfg) (hcap : cfg.chanCap = 0) (sched : Sched) (s s' : State) (t : Tid)
    (h : reach (sys cfg) sched = some s) (hs : step cfg s t .shutdown = some s') :
    s'.reg = [] ∧ (∀ e ∈ s.reg, ∀ tx, s'.txs e.tx = some tx → tx.active = false ∧ ¬ s'.lock.heldBy e.tx) ∧
    (quiescent s → s'.lock.free) := by
  have hI := inv_reach cfg hcap sched s h
  have hreach' : reach (sys cfg) (sched ++ [(t, .shutdown)]) = some s' := by
    rw [reach_snoc, h]; exact hs
  have hI' := inv_reach cfg hcap _ s' hreach'
  simp [step] at hs
  subst hs
  have hxs : ∀ e ∈ s.reg, (fun _ : Entry => false) e = false → e.tx ∈ s.reg.map (·.tx) := by
    intro e he _
    simp only [List.mem_map]
    exact ⟨e, he, rfl⟩
  have hfil : s.reg.filter (fun _ => false) = [] := List.filter_eq_nil_iff.2 (by simp)
  refine ⟨rfl, ?_, ?_⟩
  · intro e he tx htx
    have := cleanup_dropped hI (fun _ => false) _ hxs e he rfl tx (by rw [hfil]; exact htx)
    rw [hfil] at this
    exact this
  · intro hq
    have hnone : ∀ x, ¬ ({ finishAll s (s.reg.map (·.tx)) with reg := [] } : State).lock.heldBy x := by
      intro x hx
      obtain ⟨tx, htx⟩ := held_allocated hI' x hx
      have ha := (held_iff_active hI' x tx htx).1 hx
      rcases hI'.owned x tx htx ha with ⟨e, he, _⟩ | ⟨u, hu⟩
      · cases he
      · have hth : ({ finishAll s (s.reg.map (·.tx)) with reg := [] } : State).th = s.th := (finishAll_frame s _).1
        rw [hth] at hu
        exact hq u x hu
    constructor
    · cases hw : ({ finishAll s (s.reg.map (·.tx)) with reg := [] } : State).lock.writer with
      | none => rfl
      | some x => exact absurd (Or.inl hw) (hnone x)
    · cases hr : ({ finishAll s (s.reg.map (·.tx)) with reg := [] } : State).lock.readers with
      | nil => rfl
      | cons x l => exact absurd (Or.inr (by rw [hr]; simp)) (hnone x)

/-- Liveness, full statement (not proved: needs temporal reasoning over infinite fair runs, and Go's writer
    preference, which the model does not contain): in every infinite run in which time keeps advancing, the
    cleanup ticker keeps firing, every in-flight call eventually takes its next step and an enabled lock
    acquisition is eventually taken, every Begin of a read-write transaction eventually acquires the lock or
    its caller gets the timeout error. -/
def writer_eventually_begins_statement (cfg : Cfg) : Prop :=
  ∀ (run : Nat → State) (sch : Nat → Tid × Action),
    run 0 = (sys cfg).init → (∀ i, step cfg (run i) (sch i).1 (sch i).2 = some (run (i + 1))) →
    (∀ i, ∃ j, j ≥ i ∧ (sch j).2 = .cleanupStale) → (∀ i n, ∃ j, j ≥ i ∧ (run j).now ≥ n) →
    (∀ i t x, ((run i).th t).owns x → ∃ j, j ≥ i ∧ ¬ ((run j).th t).owns x) →
    (∀ i t c m d ca, (run i).th t = .begin c m d ca .blocked → (∀ k, k ≥ i → ∃ j, j ≥ k ∧ (run j).lock.compatible m = true) →
        ∃ j, j ≥ i ∧ (run j).th t ≠ .begin c m d ca .blocked) →
    ∀ i t c d ca, (run i).th t = .begin c .rw d ca .blocked →
      ∃ j, j ≥ i ∧ ∀ c' d' ca', (run j).th t ≠ .begin c' .rw d' ca' .blocked

/-- The part that is proved: when no call is in flight, one cleanup pass after the transactions' lifetimes have
    expired leaves the registry empty and the lock FREE, so a read-write transaction can begin at once
    (abandoned handles cannot block writers for longer than the TTL plus one cleanup period). -/
theorem writer_eventually_begins_partial (cfg : Cfg) (hcap : cfg.chanCap = 0) (sched : Sched) (s s1 s2 : State)
    (t u v : Tid) (d : Nat) (h : reach (sys cfg) sched = some s) (hq : quiescent s)
    (hexp : ∀ e ∈ s.reg, ∀ tx, s.txs e.tx = some tx → s.now + d > tx.created + tx.ttl)
    (h1 : step cfg s t (.advance d) = some s1) (h2 : step cfg s1 u .cleanupStale = some s2) (hv : s2.th v = .idle) :
    s2.reg = [] ∧ s2.lock.free ∧ (step cfg s2 v (.dBegin .rw)).isSome := by
  have hr1 : reach (sys cfg) (sched ++ [(t, .advance d)]) = some s1 := by rw [reach_snoc, h]; exact h1
  have hr2 : reach (sys cfg) ((sched ++ [(t, .advance d)]) ++ [(u, .cleanupStale)]) = some s2 := by
    rw [reach_snoc, hr1]; exact h2
  have hI := inv_reach cfg hcap sched s h
  have hI2 := inv_reach cfg hcap _ s2 hr2
  simp [step] at h1
  subst h1
  simp [step] at h2
  have hreg : s2.reg = [] := by
    rw [← h2]
    simp only
    rw [List.filter_eq_nil_iff]
    intro e he
    simp
    have hlt := hI.regAlloc e he
    cases htx : s.txs e.tx with
    | none => have := (hI.allocd e.tx).1 htx; omega
    | some tx =>
      have := hexp e he tx htx
      simp [stale, htx]
      left; omega
  have hth : s2.th = s.th := by rw [← h2]; exact (finishAll_frame _ _).1
  have hnone : ∀ x, ¬ s2.lock.heldBy x := by
    intro x hx
    obtain ⟨tx, htx⟩ := held_allocated hI2 x hx
    have ha := (held_iff_active hI2 x tx htx).1 hx
    rcases hI2.owned x tx htx ha with ⟨e, he, _⟩ | ⟨w, hw⟩
    · rw [hreg] at he; cases he
    · rw [hth] at hw; exact hq w x hw
  have hfree : s2.lock.free := by
    constructor
    · cases hw : s2.lock.writer with
      | none => rfl
      | some x => exact absurd (Or.inl hw) (hnone x)
    · cases hr : s2.lock.readers with
      | nil => rfl
      | cons x l => exact absurd (Or.inr (by rw [hr]; simp)) (hnone x)
  refine ⟨hreg, hfree, ?_⟩
  simp [step, hv, RW.compatible, hfree.1, hfree.2]

/-! ### the defect that was repaired (D23): with a buffered result channel the late transaction is parked
    in the channel after the caller left — the lock is held by a transaction nobody owns. -/
theorem buffered_channel_orphan_witness :
    ∃ sched s, reach (sys { roTTL := 1, rwTTL := 1, idle := 1, chanCap := 1 }) sched = some s ∧
      s.lock.heldBy 0 ∧ ¬ registered s 0 ∧ ∀ t, ¬ (s.th t).owns 0 := by
  refine ⟨[(1, .callBegin 7 .rw), (1, .workerAcquire), (1, .ctxFire), (1, .callerTimeout), (1, .workerPark)], ?_⟩
  simp [reach, run, sys, step, setTh, setFn, alloc, RW.compatible, RW.acquire, RW.heldBy, registered]
  intro t
  by_cases ht : t = 1 <;> simp [ht, Th.owns]

/-! ### non-vacuity -/

def cfg0 : Cfg := { roTTL := 100, rwTTL := 50, idle := 20, chanCap := 0 }

/-- begin-timeout under contention, double finish by two racing handlers, abandon + cleanup, shutdown. -/
def demo : Sched :=
  [ (1, .callBegin 7 .rw), (1, .workerAcquire), (1, .handoff), (1, .register),         -- handle 1 = tx 0 (rw)
    (2, .callBegin 8 .rw), (2, .ctxFire), (2, .callerTimeout),                          -- Begin times out while blocked
    (3, .hGetFinish 1), (4, .hGetFinish 1), (3, .hFinish), (4, .hFinish),               -- two racing finishers
    (2, .workerAcquire), (2, .workerTimeout),                                           -- the late worker rolls back
    (3, .hRemove), (4, .hRemove),
    (5, .callBegin 9 .ro), (5, .workerAcquire), (5, .handoff), (5, .register),          -- handle 2 = tx 2 (ro), abandoned
    (6, .hGetOp 2), (6, .hOp false), (6, .hGetOp 2), (6, .hOp true),
    (0, .advance 30), (0, .cleanupStale),
    (7, .dBegin .rw), (7, .dOp), (7, .dFinish), (0, .shutdown) ]

example : (reach (sys cfg0) demo).isSome = true := by decide
example : (reach (sys cfg0) demo).map (fun s => (s.panicked, s.reg.length, s.lock.writer, s.lock.readers, s.nextTx)) =
    some (false, 0, none, [], 4) := by decide
example : (reach (sys cfg0) demo).map (fun s => (s.txs 0).map (fun x => (x.active, x.unlocks, x.closedCalls))) =
    some (some (false, 1, 1)) := by decide
/-- finish_once_sequence on a concrete transaction: get, commit, get, rollback = one unlock, two closed answers. -/
example : ((reach (sys cfg0) [(1, .dBegin .rw)]).map fun s =>
    ((applyCalls s 0 [false, true, false, true]).txs 0).map (fun t => (t.active, t.unlocks, t.closedCalls))) =
    some (some (false, 1, 2)) := by decide
/-- the unbuffered hand-off cannot park: the D23 schedule is not executable with the extracted capacity. -/
example : (reach (sys Kevo.Gen.Tx.cfg)
    [(1, .callBegin 7 .rw), (1, .workerAcquire), (1, .ctxFire), (1, .callerTimeout), (1, .workerPark)]).isSome = false := by decide

end Kevo.Props.C17
