/-
  C09 — The write-ahead log replays exactly what was appended, in order.

  Statements only concern the model (Kevo.Model.Wal / WalLog); the tie to pkg/wal is the differential
  component `wal` (byte equality of log files, equality of ReplayWALDir / GetEntriesFrom output) and the
  constants regenerated into Kevo.Gen.Consts.
-/
import Kevo.Model.WalLog
import Kevo.Spec.Log
import Kevo.Proofs.Wal
import Kevo.Gen.Consts
namespace Kevo.Props.C09
open Kevo Kevo.Wal Kevo.Spec

/-- well-formed entry: what the format can represent (lengths fit their fields) and a known op type.
    `EntryWF p e := (e.op = put ∨ delete ∨ merge) ∧ e.seq < 2^64 ∧ |key| < 2^32 ∧ |val| < 2^32` -/
abbrev EntryWF := Kevo.Proofs.Wal.EntryWF
/-- an operation the log accepts: known op type, sizes within the format; batch entries must each fit one
    physical record (the code rejects larger ones: error branch `tooLarge`, covered by `batch_too_large`). -/
abbrev OpWF := Kevo.Proofs.Wal.OpWF
/-- run a program on the model log. -/
abbrev runLog := Kevo.Proofs.Wal.runLog

/-- (1) one entry, any size (single record or FIRST/MIDDLE*/LAST), followed by arbitrary further bytes, is read
    back exactly, consuming exactly its own bytes and leaving the reader with no pending fragments. -/
theorem readEntry_encodeEntry (p : WalParams) (hp : p.WF) (crc : Bytes → Nat) (hcrc : ∀ bs, crc bs < 2 ^ 32)
    (e : Entry) (he : EntryWF p e) (rest : Bytes) (fuel : Nat) (hf : (encodeEntry p crc e).length < fuel) :
    readEntry p crc fuel {} (encodeEntry p crc e ++ rest) = (.ok (norm p e), {}, rest) :=
  Kevo.Proofs.Wal.readEntry_encodeEntry p hp crc hcrc e he rest fuel hf

/-- (2) a file that is the concatenation of the encodings of any list of well-formed entries replays to exactly
    that list, in order, with nothing skipped and no error. -/
theorem replay_file (p : WalParams) (hp : p.WF) (crc : Bytes → Nat) (hcrc : ∀ bs, crc bs < 2 ^ 32)
    (es : List Entry) (hes : ∀ e ∈ es, EntryWF p e) :
    let r := replayFile p crc (es.flatMap (encodeEntry p crc))
    r.entries = es.map (norm p) ∧ r.skipped = 0 ∧ r.outcome = .ok :=
  Kevo.Proofs.Wal.replay_file p hp crc hcrc es hes

/-- (3) the property: for every program of appends, batches, rotations and reopenings, replaying the directory
    yields exactly the appended operations (types, keys, values, sequence numbers) in append order, and the
    counter continues where the abstract log says. -/
theorem replay_program (p : WalParams) (hp : p.WF) (crc : Bytes → Nat) (hcrc : ∀ bs, crc bs < 2 ^ 32)
    (ops : List LogOp) (hops : ∀ o ∈ ops, OpWF p o) (hov : ops.length + 1 < p.maxSeq) :
    let l := runLog p crc ops
    let a := ALog.run ops
    (l.replay p crc).entries = a.entries.map (norm p) ∧ (l.replay p crc).isErr = false ∧ l.next = a.next :=
  Kevo.Proofs.Wal.replay_program p hp crc hcrc ops hops hov

/-- (4) reading from a sequence number yields exactly the stored operations at or after it, in order. -/
theorem entriesFrom_spec (p : WalParams) (hp : p.WF) (crc : Bytes → Nat) (hcrc : ∀ bs, crc bs < 2 ^ 32)
    (ops : List LogOp) (hops : ∀ o ∈ ops, OpWF p o) (hov : ops.length + 1 < p.maxSeq) (s : Nat) :
    (runLog p crc ops).entriesFrom p crc s =
      some (((ALog.run ops).entries.map (norm p)).filter (fun e => e.seq ≥ s)) :=
  Kevo.Proofs.Wal.entriesFrom_spec p hp crc hcrc ops hops hov s

/-- (5) sequence numbers in the replayed log are non-decreasing and equal only inside one batch: consecutive
    appended operations get consecutive numbers. -/
theorem seq_of_program (p : WalParams) (ops : List LogOp) :
    (ALog.run ops).entries.Pairwise (fun a b => a.seq ≤ b.seq) ∧ ∀ e ∈ (ALog.run ops).entries, e.seq < (ALog.run ops).next :=
  Kevo.Proofs.Wal.seq_of_program p ops

/-- error branch: a batch containing an entry beyond the single-record limit is rejected as a whole: the log
    (files and counter) is exactly what it was. -/
theorem batch_too_large (p : WalParams) (crc : Bytes → Nat) (l : Log) (es : List (Nat × Bytes × Bytes))
    (hne : es ≠ []) (hseq : l.next < p.maxSeq)
    (h : ∃ t ∈ es, payloadSize p { op := t.1, seq := 0, key := t.2.1, val := t.2.2 } > p.maxRecord) :
    (l.batch p crc es).1 = .error .tooLarge ∧ (l.batch p crc es).2 = l :=
  Kevo.Proofs.Wal.batch_too_large p crc l es hne hseq h

/-- The checksum hypothesis is necessary: the record stores only the low 32 bits of `crc data` while the reader
    compares the full value, so for a checksum function exceeding 2^32 a freshly written record reads back as
    corrupt (hash/crc32 returns a uint32, so the implementation satisfies `hcrc`). -/
theorem crc_range_needed :
    ∃ (p : WalParams) (crc : Bytes → Nat) (e : Entry), p.WF ∧ EntryWF p e ∧
      (readEntry p crc 100 {} (encodeEntry p crc e ++ [])).1 = .error .corrupt :=
  ⟨_, _, _, Kevo.Proofs.Wal.cexParams_wf, Kevo.Proofs.Wal.cexEntry_wf, Kevo.Proofs.Wal.crc_counterexample⟩

/-- the generated constants satisfy the shape the proofs need. -/
theorem consts_wf : Kevo.Gen.walParams.WF := Kevo.Gen.walParams_wf

/-! non-vacuity: a 3-fragment put, a delete and a batch are well-formed inputs of the theorems. -/
example : EntryWF Kevo.Gen.walParams { op := 1, seq := 7, key := [1, 2, 3], val := List.replicate 70000 0 } := by
  refine ⟨Or.inl rfl, by decide, by decide, ?_⟩
  show (List.replicate 70000 (0 : UInt8)).length < 2 ^ 32
  rw [List.length_replicate]; decide
example : OpWF Kevo.Gen.walParams (.batch [(1, [97], [98]), (2, [99], [])]) := by
  intro t ht
  simp at ht
  rcases ht with rfl | rfl <;> decide

end Kevo.Props.C09
