/-
  C15 — Replicas cannot stall or fail the primary.

  Model: Kevo.Repl.Fault — the micro-steps of a client write (storage Manager.mu.Lock, wal.mu.Lock, record written,
  observers notified SYNCHRONOUSLY = for each session `session.mu.Lock; Stream.Send`, unlock: facts repl.wal.*,
  repl.broadcast.*, repl.sendToReplica.* pinned from the source), `Send` enabled iff the session's in-flight window
  (gRPC flow control, parameter `window`) is not full or the connection is broken (error, swallowed); reads need the lock
  the writer holds; environment = replicas that drain or do not drain, acknowledge or never do, break the connection; time;
  heartbeatManager.checkSessions as a translated predicate with an explicit clock (constants from heartbeat.go).
  PARTIAL by nature: "normal time" is not expressible; the model distinguishes enabled / never enabled. The full statement
  is FALSE on the pinned tree (D32): refuted below; the conditional statement is proved.
-/
import Kevo.Proofs.Repl
namespace Kevo.Props.C15
open Kevo.Repl.Fault Kevo.Gen.Repl Kevo.Proofs.Repl.Fault

/-- FULL statement (false on the pinned tree, kept): whatever the replicas do — any schedule of writer micro-steps and
    environment steps from any start state — the writer is never found blocked. -/
def primary_ops_complete_statement : Prop :=
  ∀ (c : Cfg) (s : St) (evs : List Ev), exec c s evs ≠ none

/-- C15, proved part: if every connected session always has room in its window or a broken connection, then along ANY
    interleaving with acknowledgements / missing acknowledgements / slow apply / abrupt disconnects / time the writer is
    never blocked, no client write returns an error (send errors are swallowed: `failedOps` unchanged), and a write
    completes within its own `remaining s` (≤ sessions + 5) micro-steps. -/
theorem primary_ops_complete_partial (c : Cfg) (evs : List Ev) (s : St)
    (hok : ∀ k s', exec c s (evs.take k) = some s' → SendOK c s') :
    ∃ s', exec c s evs = some s' ∧ s'.failedOps = s.failedOps ∧ s.completed ≤ s'.completed ∧
      (remaining s ≤ writerCount evs → s.completed < s'.completed) :=
  primary_ops_complete c evs s hok

/-- one connected session whose replica stopped reading, window 2 -/
def stalledStart : St :=
  { now := 0, sess := [{ connected := true, broken := false, inflight := 0, lastAct := 0, lastAck := 0 }], pc := .idle,
    completed := 0, failedOps := 0 }

/-- D32: a reachable state (two writes completed, the third inside the observer call; the replica never drains) in which
    no client step is enabled: the write cannot move, and a read cannot start -/
theorem stalled_reader_blocks_witness :
    ∃ s, exec (defaultCfg 2) stalledStart (List.replicate 15 Ev.w) = some s ∧ s.completed = 2 ∧
      wstep (defaultCfg 2) s = none ∧ getEnabled s = false :=
  ⟨{ now := 0, sess := [{ connected := true, broken := false, inflight := 2, lastAct := 0, lastAck := 0 }], pc := .notify 0,
     completed := 2, failedOps := 0 }, by decide, by decide, by decide, by decide⟩

theorem primary_ops_complete_statement_false : ¬ primary_ops_complete_statement := by
  intro h
  exact h (defaultCfg 2) stalledStart (List.replicate 16 Ev.w) (by decide)

/-- D32: nothing but that replica draining its stream (or its connection breaking) unblocks the primary — not
    acknowledgements, not time, not the other sessions -/
theorem blocked_stays_blocked (c : Cfg) (s : St) (i : Nat) (x : Sess) (e : Env)
    (hpc : s.pc = .notify i) (hx : s.sess[i]? = some x) (hc : x.connected = true) (hb : x.broken = false)
    (hw : c.window ≤ x.inflight) (h1 : e ≠ .drain i) (h2 : e ≠ .brk i) :
    wstep c (env s e) = none ∧ getEnabled (env s e) = false :=
  Kevo.Proofs.Repl.Fault.blocked_stays_blocked c s i x e hpc hx hc hb hw h1 h2

/-- an abrupt disconnect does not fail or block the write: the send error is swallowed and the session leaves the topology -/
theorem abrupt_disconnect_swallowed :
    ∃ s, exec (defaultCfg 2) stalledStart ([.e (.brk 0)] ++ List.replicate 6 Ev.w) = some s ∧ s.completed = 1 ∧
      s.failedOps = 0 ∧ topology s.sess = [] :=
  ⟨{ now := 0, sess := [{ connected := false, broken := true, inflight := 0, lastAct := 0, lastAck := 0 }], pc := .idle,
     completed := 1, failedOps := 0 }, by decide, by decide, by decide, by decide⟩

/-- heartbeat: a session without activity for more than Timeout is marked disconnected by the next check … -/
theorem dropped_after_timeout (c : Cfg) (now : Nat) (x : Sess) (hc : x.connected = true) (ht : c.timeout < now - x.lastAct) :
    checkOne c now x = some { x with connected := false } ∧ topology [{ x with connected := false }] = [] :=
  ⟨checkOne_drops c now x hc ht, by simp [topology]⟩

/-- … so after a completed check every session in the reported topology had activity within Timeout -/
theorem topology_recent_after_check (c : Cfg) (now : Nat) (l l' : List Sess) (h : checkAll c now l = some l') :
    ∀ y ∈ topology l', now - y.lastAct ≤ c.timeout :=
  checkAll_recent c now l l' h

/-- D32, second clause: with the default heartbeat configuration (generated constants) a replica that reads every message and
    NEVER acknowledges is kept for ever: the primary's own keep-alive sends refresh LastActivity -/
theorem never_acking_reader_not_dropped_witness (n now : Nat) :
    ∃ y, silentRounds (defaultCfg 2) (hbIntervalMs + 1) n now
        { connected := true, broken := false, inflight := 0, lastAct := now, lastAck := 0 } = some y ∧
      y.connected = true ∧ y.lastAck = 0 :=
  silent_reader_kept (defaultCfg 2) (hbIntervalMs + 1) (by decide) (by decide) (by decide) (by decide) n now 0

/-- the check itself blocks inside Send when the stalled session's window is full: the stalled reader is never dropped -/
theorem check_blocks_on_stalled_reader_witness :
    checkOne (defaultCfg 2) (hbIntervalMs + 1) { connected := true, broken := false, inflight := 2, lastAct := 0, lastAck := 0 } = none := by
  decide

/-- repaired tree (fix 91e362a, was D38): every nested lock acquisition sequence of the primary's code paths (pinned facts
    repl.*.lockOrder) is strictly increasing in the rank storage Manager.mu < wal.mu < Primary.mu < session.mu: no cycle -/
theorem lock_paths_ordered : ∀ p ∈ Kevo.Repl.Locks.lockPaths, Kevo.Repl.Locks.increasing p.2 = true := by decide

/-- repaired order, write path against poll path (cursor read under session.mu and released before the WAL is touched, WAL
    read under wal.mu alone, send under session.mu alone): no consistent state is stuck -/
theorem consistent_lock_order_no_deadlock :
    ∀ s ∈ Kevo.Repl.Locks.allStates false, Kevo.Repl.Locks.consistent s = true → Kevo.Repl.Locks.stuck false s = false := by decide

/-- HISTORICAL witness (the order BEFORE fix 91e362a, no longer in the tree): poll path session.mu → wal.mu against write
    path wal.mu → session.mu reaches in two steps a consistent state in which neither can move — what the repair removed -/
theorem historical_lock_order_deadlock_witness :
    (Kevo.Repl.Locks.wStep { w := .idle, p := .idle }).bind (Kevo.Repl.Locks.pStep true) = some { w := .hasWal, p := .sess } ∧
    Kevo.Repl.Locks.stuck true { w := .hasWal, p := .sess } = true ∧
    Kevo.Repl.Locks.consistent { w := .hasWal, p := .sess } = true := by decide

/-- residual (reported, not exercised by any server code path): Manager.Status still takes Primary.mu.RLock before the WAL
    counter — the one path outside the order -/
theorem status_path_outside_order_witness : Kevo.Repl.Locks.increasing Kevo.Repl.Locks.statusPath.2 = false := by decide

/-! ### non-vacuity of the partial theorem: a draining replica, window 2 -/
example :
    ∃ s, exec (defaultCfg 2) stalledStart ([Ev.w, .w, .w, .w, .e (.drain 0), .w, .w, .e (.ack 0 1), .e (.tick 5)]) = some s ∧
      s.completed = 1 ∧ SendOK (defaultCfg 2) s :=
  ⟨{ now := 5, sess := [{ connected := true, broken := false, inflight := 0, lastAct := 0, lastAck := 1 }], pc := .idle,
     completed := 1, failedOps := 0 }, by decide, by decide, by intro x hx; simp at hx; subst hx; decide⟩

end Kevo.Props.C15
