/-
  C16 — A replica refuses client writes but keeps applying replicated ones.

  Model: Kevo.Model.Service — every exported method of engine.EngineFacade and every RPC of the KevoService
  descriptor is a ROW of the API table (guards in source order, delegate, classification), regenerated from the
  source on every run into Kevo.Gen.Api; `run row arg eng` gives a facade row its meaning (the guards, then the
  delegate), `handle rows req st` a service handler (its guard chain, then the delegate through the facade rows).
  Spec: a row classified `clientMutator` must be refused on a read-only engine and leave the data as it was; the
  replication path (*Internal rows, EngineApplier.Apply) must still apply; reads must be answered; GetNodeInfo must say
  what the node is. Tie: kvfacts (table + expectations), differential component `service` (real gRPC server over
  bufconn + embedded twin + this model).
  Reading of "client-initiated": rows of kind internalMutator / internalAccess (PutInternal, DeleteInternal,
  ApplyBatchInternal, SetReadOnly, GetWAL, GetTransactionManager, GetRWLock, IncrementTx*) are the replication /
  internal surface (listed by `internal_surface`); BeginTransaction(false) is modelled as coded (silent downgrade, D33).
-/
import Kevo.Proofs.ServiceApi
namespace Kevo.Props.C16
open Kevo Kevo.Service Kevo.Proofs.Service Kevo.Proofs.ServiceApi

/-- (1) the table is complete: every method of interfaces.Engine has a facade row, every RPC of the service descriptor
    and of the generated server interface has a service row, every row has a known classification, and every service
    row is one of the handlers the model gives a meaning to. A newly added method is a new row; if the rule set cannot
    classify it, or it is an RPC the model does not know, this theorem no longer holds. -/
theorem table_complete :
    (∀ m ∈ Kevo.Gen.ifaceMethods, ∃ row ∈ Kevo.Gen.facadeTable, row.name = m ∧ row.kind ≠ .unknown) ∧
    (∀ m ∈ Kevo.Gen.rpcDescriptor ++ Kevo.Gen.rpcServerInterface, ∃ row ∈ Kevo.Gen.serviceTable, row.name = m ∧ row.kind ≠ .unknown) ∧
    (∀ row ∈ Kevo.Gen.apiTable, row.kind ≠ .unknown) ∧
    (∀ row ∈ Kevo.Gen.serviceTable, row ∈ Kevo.Gen.rows.service) ∧
    (∀ row ∈ Kevo.Gen.rows.service, row ∈ Kevo.Gen.serviceTable) := by decide

/-- the exported bypasses, by name: the replication / internal surface, outside "client-initiated" -/
theorem internal_surface :
    ((Kevo.Gen.facadeTable.filter (fun r => r.kind = .internalMutator)).map (·.name) = ["ApplyBatchInternal", "DeleteInternal", "PutInternal"]) ∧
    ((Kevo.Gen.facadeTable.filter (fun r => r.kind = .internalAccess)).map (·.name) =
      ["GetRWLock", "GetTransactionManager", "GetWAL", "IncrementTxAborted", "IncrementTxCompleted", "SetReadOnly"]) ∧
    ((Kevo.Gen.apiTable.filter (fun r => r.kind = .clientMutator)).map (fun r => (r.layer, r.name)) =
      [(.facade, "ApplyBatch"), (.facade, "Delete"), (.facade, "Put"),
       (.service, "BatchWrite"), (.service, "Compact"), (.service, "Delete"), (.service, "Put")]) := by decide

theorem mutators_covered : ∀ row ∈ Kevo.Gen.apiTable, row.kind = .clientMutator →
    (row.layer = .facade ∧ roCheck row.guards = true) ∨
    (row.layer = .service ∧ row ∈ [Kevo.Gen.s_Put, Kevo.Gen.s_Delete, Kevo.Gen.s_BatchWrite, Kevo.Gen.s_Compact]) := by decide

/-- (2) THE property: every row of the table classified as a client mutator — embedded (facade) or remote (service) —
    run on a read-only engine leaves the data exactly as it was; and if the call is an actual mutation within the
    request limits on an open engine that does not have to wait for the transaction lock, the caller gets a read-only
    error (engine: "engine is in read-only mode"; BatchWrite / forced Compact: "cannot write to a read-only transaction").
    `runRow` = `run row` for a facade row, the handler of the RPC for a service row. -/
theorem readonly_rejects_all : ∀ row ∈ Kevo.Gen.apiTable, row.kind = .clientMutator →
    ∀ (a : Arg) (st : Svc) (o : RowOut), runRow Kevo.Gen.rows row a st = some o → st.eng.readOnly = true →
      o.store = st.eng.store ∧
      (st.eng.closed = false → o.blocked = false → a.mutates = true →
        (∀ req, row.layer = .service → reqOf row.name a = some req → withinLimits Kevo.Gen.limits req = true) →
        ∃ e, o.err = some e ∧ e.isReadOnly = true) := by
  intro row hrow hkind a st o hrun hro
  rcases mutators_covered row hrow hkind with ⟨hl, hchk⟩ | ⟨hl, hmem⟩
  · simp only [runRow, hl, Option.some.injEq] at hrun
    subst hrun
    obtain ⟨h1, _, h3⟩ := ro_rejects row hchk a st.eng hro
    refine ⟨by simp only [h1], ?_⟩
    intro hc _ _ _
    exact ⟨.readOnlyMode, h3 hc, rfl⟩
  · simp only [List.mem_cons, List.not_mem_nil, or_false] at hmem
    rcases hmem with rfl | rfl | rfl | rfl
    · -- Put
      cases a <;> simp [runRow, Kevo.Gen.s_Put, reqOf] at hrun
      rename_i k v
      subst hrun
      obtain ⟨h1, e, h2, h3⟩ := svc_put_readonly k v st hro
      refine ⟨by show (handle R (.put k v) st).2.eng.store = _; rw [h1], ?_⟩
      intro hc _ _ hlim
      have hl' := hlim (.put k v) rfl (by simp [Kevo.Gen.s_Put, reqOf])
      refine ⟨e, by show errOfResp (handle R (.put k v) st).1 = _; rw [h2]; rfl, ?_⟩
      rw [h3 hc hl']; rfl
    · -- Delete
      cases a <;> simp [runRow, Kevo.Gen.s_Delete, reqOf] at hrun
      rename_i k
      subst hrun
      obtain ⟨h1, e, h2, h3⟩ := svc_delete_readonly k st hro
      refine ⟨by show (handle R (.delete k) st).2.eng.store = _; rw [h1], ?_⟩
      intro hc _ _ hlim
      have hl' := hlim (.delete k) rfl (by simp [Kevo.Gen.s_Delete, reqOf])
      refine ⟨e, by show errOfResp (handle R (.delete k) st).1 = _; rw [h2]; rfl, ?_⟩
      rw [h3 hc hl']; rfl
    · -- BatchWrite
      cases a <;> simp [runRow, Kevo.Gen.s_BatchWrite, reqOf] at hrun
      rename_i ops
      subst hrun
      obtain ⟨h1, h2⟩ := svc_batch_readonly (ops.map toBOp) st hro
      refine ⟨by show (handle R (.batchWrite (ops.map toBOp)) st).2.eng.store = _; rw [h1], ?_⟩
      intro hc hb hm hlim
      have hl' := hlim (.batchWrite (ops.map toBOp)) rfl (by simp [Kevo.Gen.s_BatchWrite, reqOf])
      have hne : ops.map toBOp ≠ [] := by
        cases ops with
        | nil => simp [Arg.mutates] at hm
        | cons x r => simp
      have hnb : (handle R (.batchWrite (ops.map toBOp)) st).1 ≠ .blocked := by
        intro h
        have hb' : isBlocked (handle R (.batchWrite (ops.map toBOp)) st).1 = false := hb
        rw [h] at hb'; cases hb'
      refine ⟨.roTx, ?_, rfl⟩
      show errOfResp (handle R (.batchWrite (ops.map toBOp)) st).1 = _
      rw [h2 hc hnb hne hl']; rfl
    · -- Compact
      cases a <;> simp [runRow, Kevo.Gen.s_Compact, reqOf] at hrun
      rename_i f
      subst hrun
      obtain ⟨h1, h2⟩ := svc_compact_readonly f st hro
      refine ⟨by show (handle R (.compact f) st).2.eng.store = _; rw [h1], ?_⟩
      intro hc hb hm _
      have hf : f = true := by cases f <;> simp [Arg.mutates] at hm ⊢
      have hnb : (handle R (.compact f) st).1 ≠ .blocked := by
        intro h
        have hb' : isBlocked (handle R (.compact f) st).1 = false := hb
        rw [h] at hb'; cases hb'
      refine ⟨.roTx, ?_, rfl⟩
      show errOfResp (handle R (.compact f) st).1 = _
      rw [h2 hc hnb hf]; rfl

/-- the generic lemma behind (2): a guard that returns before the delegate leaves the engine exactly as it was -/
theorem guard_returns_no_effect (row : Row) (a : Arg) (e : Eng) (h : (guardErr row.guards e.closed e.readOnly).isSome) :
    (run row a e).eng = e ∧ (run row a e).err = guardErr row.guards e.closed e.readOnly :=
  Kevo.Proofs.Service.guard_returns_no_effect row a e h

/-- (3) the *Internal rows do not test the read-only flag and equal the unguarded operation — the same storage
    operation as the client row of the same name — whatever the flag says -/
theorem internal_applies : ∀ row ∈ Kevo.Gen.facadeTable, row.kind = .internalMutator →
    Guard.readOnly ∉ row.guards ∧
    (∃ crow ∈ Kevo.Gen.facadeTable, crow.kind = .clientMutator ∧ crow.name ++ "Internal" = row.name ∧ crow.op = row.op) ∧
    ∀ (a : Arg) (e : Eng), e.closed = false →
      run row a e = { val := (applyOp row.op a e).1, eng := (applyOp row.op a e).2 } := by
  have hchk : ∀ row ∈ Kevo.Gen.facadeTable, row.kind = .internalMutator →
      Guard.readOnly ∉ row.guards ∧
      (∃ crow ∈ Kevo.Gen.facadeTable, crow.kind = .clientMutator ∧ crow.name ++ "Internal" = row.name ∧ crow.op = row.op) ∧
      passCheck row.guards = true ∧ row.op ≠ .txBegin := by decide
  intro row hrow hkind
  obtain ⟨h1, h2, h3, h4⟩ := hchk row hrow hkind
  exact ⟨h1, h2, fun a e hc => run_unguarded row h3 h4 a e hc⟩

/-- (3b) replicated operations keep being applied on a read-only engine: EngineApplier.Apply of a put, a delete and a
    merge entry performs exactly the storage operation and leaves the engine read-only -/
theorem replicated_apply_still_works (e : Eng) (hro : e.readOnly = true) (hc : e.closed = false) (k v : Bytes) :
    applyEntry Kevo.Gen.rows 1 k v e = (none, { e with store := Kevo.Engine.put e.store k v }) ∧
    applyEntry Kevo.Gen.rows 2 k v e = (none, { e with store := Kevo.Engine.delete e.store k }) ∧
    applyEntry Kevo.Gen.rows 3 k v e = (none, { e with store := Kevo.Engine.put e.store k v }) :=
  replicated_apply e hro hc k v

/-- (4) reads are served: a reader row of the facade does not look at the read-only flag, answers with the storage
    read and leaves the engine as it is; over the service Get and Scan answer with the stored value / the specified
    scan of the data — formulas in which the flag does not occur. -/
theorem reads_served :
    (∀ row ∈ Kevo.Gen.facadeTable, row.kind = .reader → ∀ (a : Arg) (e : Eng), e.closed = false →
      (run row a e).err = none ∧ (run row a e).eng = e ∧ (run row a e).val = (applyOp row.op a e).1 ∧
      ∀ b, (applyOp row.op a { e with readOnly := b }).1 = (applyOp row.op a e).1) ∧
    (∀ (st : Svc) (k : Bytes), withinLimits Kevo.Gen.limits (.get k) = true → st.eng.closed = false →
      handle Kevo.Gen.rows (.get k) st = (match Kevo.Engine.get st.eng.store k with | some v => .found v | none => .notFound, st)) ∧
    (∀ (st : Svc) (o : ScanOpts), st.eng.closed = false → st.eng.wlock = false →
      handle Kevo.Gen.rows (.scan o) st = (.pairs (scanSpec o (storeView st.eng.store) (storeRangeView st.eng.store)), st)) := by
  have hchk : ∀ row ∈ Kevo.Gen.facadeTable, row.kind = .reader →
      passCheck row.guards = true ∧ row.op ≠ .txBegin ∧ isReadOp row.op = true := by decide
  refine ⟨?_, fun st k hl hc => svc_get_served st k hl hc, fun st o hc hw => svc_scan_served st o hc hw⟩
  intro row hrow hkind a e hc
  obtain ⟨h1, h2, h3⟩ := hchk row hrow hkind
  have hr := applyOp_read row.op h3 a e
  rw [run_unguarded row h1 h2 a e hc]
  exact ⟨rfl, hr.1, rfl, hr.2⟩

/-- (5) GetNodeInfo reports role, primary address and read-only status truthfully: for a node whose read-only mode
    was set by its replication manager (`mgr.isSome ∨ ¬ readOnly`: the only caller of SetReadOnly in the server), the
    response is what the node is — the configured role, for a replica the configured primary address, the engine's flag. -/
theorem node_info_truthful (st : Svc) (hw : st.mgr.isSome = true ∨ st.eng.readOnly = false) :
    handle Kevo.Gen.rows .getNodeInfo st = (.node (nodeTruth st.mgr st.eng.readOnly), st) ∧
    (nodeTruth st.mgr st.eng.readOnly).readOnly = st.eng.readOnly ∧
    (∀ m, st.mgr = some m → (nodeTruth st.mgr st.eng.readOnly).role = roleOfMode m.mode ∧
      (m.mode = "replica" → (nodeTruth st.mgr st.eng.readOnly).primary = m.primaryAddr)) ∧
    (st.mgr = none → (nodeTruth st.mgr st.eng.readOnly).role = .standalone) := by
  rw [handle_getNodeInfo]
  cases hm : st.mgr with
  | some m =>
    refine ⟨rfl, rfl, ?_, fun h => (by cases h)⟩
    intro m' hm'
    cases hm'
    refine ⟨rfl, fun hr => ?_⟩
    simp [nodeTruth, managerInfo, hr]
  | none =>
    have hro : st.eng.readOnly = false := by
      rcases hw with h | h
      · rw [hm] at h; cases h
      · exact h
    rw [hro]
    exact ⟨rfl, rfl, fun m h => (by cases h), fun _ => rfl⟩

/-- the hypothesis of (5) is needed: a service without a replication manager answers "not read-only" even if somebody
    set the engine's flag (not reachable through the server, which sets the flag only through its manager) -/
theorem node_info_unwired_witness :
    ∃ st : Svc, st.mgr = none ∧ st.eng.readOnly = true ∧
      ∃ i, (handle Kevo.Gen.rows .getNodeInfo st).1 = .node i ∧ i.readOnly = false :=
  ⟨{ eng := { store := { cfg := { memTableSize := 1 } }, readOnly := true } }, rfl, rfl, {}, by rw [handle_getNodeInfo]; rfl, rfl⟩

/-- (6) BeginTransaction(readOnly = false) on a read-only engine, as coded (D33): no error — the caller silently gets
    a READ-ONLY transaction; every write through it fails with the read-only-transaction error and leaves the
    transaction as it was, and commit (or rollback) changes nothing in the data. -/
theorem begin_readwrite_downgraded (e : Eng) (hro : e.readOnly = true) (hc : e.closed = false) (hw : e.wlock = false) :
    run Kevo.Gen.rows.fBegin (.flag false) e = { val := .tx true, eng := { e with rlocks := e.rlocks + 1 } } ∧
    ∀ (t : Tx), t.ro = true → t.active = true →
      (∀ ws : List TxWrite, (txWrites t ws).2 = t ∧ ∀ r ∈ (txWrites t ws).1, r = some .roTx) ∧
      (∀ e' : Eng, (t.commit e').1 = none ∧ (t.commit e').2.2.store = e'.store ∧ (t.rollback e').2.2.store = e'.store) := by
  refine ⟨begin_downgraded e hro hc hw, ?_⟩
  intro t htro hta
  refine ⟨fun ws => txWrites_ro t htro hta ws, fun e' => ⟨?_, commit_ro t htro e', rollback_store t e'⟩⟩
  rw [commit_active_ro t e' htro hta]

/-- (6b) the same over the service: the handle returned for BeginTransaction(read_only = false) is a read-only
    transaction; TxPut / TxDelete through it are refused and change nothing, commit and rollback leave the data alone -/
theorem begin_readwrite_downgraded_service (st : Svc) (hro : st.eng.readOnly = true) (hc : st.eng.closed = false)
    (hw : st.eng.wlock = false) :
    let r := handle Kevo.Gen.rows (.begin false) st
    r.1 = .txid (st.nextID + 1) ∧ r.2.tx? (st.nextID + 1) = some { ro := true } ∧ r.2.eng.store = st.eng.store ∧
    ∀ (st' : Svc) (id : Nat) (t : Tx), st'.tx? id = some t → t.ro = true → ∀ k v,
      handle Kevo.Gen.rows (.txPut id k v) st' = (.err .svcRoTx, st') ∧
      handle Kevo.Gen.rows (.txDelete id k) st' = (.err .svcRoTx, st') ∧
      (handle Kevo.Gen.rows (.commit id) st').2.eng.store = st'.eng.store ∧
      (handle Kevo.Gen.rows (.rollback id) st').2.eng.store = st'.eng.store := by
  have hb := svc_begin_downgraded st hro hc hw
  refine ⟨by rw [hb], ?_, by rw [hb], fun st' id t h ht k v => svc_ro_handle st' id t h ht k v⟩
  rw [hb]
  simp [Svc.tx?, List.lookup]

/-- the scope of (2)/(6): a read-write transaction that was already open when the engine was switched to read-only
    still commits — Commit applies its batch on the storage manager, below the facade guard. (Not reachable through the
    server: Manager.startReplica sets the flag before the service accepts requests; recorded as an assumption.) -/
theorem open_readwrite_tx_commits_on_replica_witness :
    ∃ (e : Eng) (t : Tx), e.readOnly = true ∧ t.ro = false ∧ (t.commit e).1 = none ∧
      Kevo.Engine.get e.store [1] = none ∧ Kevo.Engine.get (t.commit e).2.2.store [1] = some [2] :=
  ⟨{ store := { cfg := { memTableSize := 64 } }, readOnly := true, wlock := true }, { ro := false, buf := [([1], some [2])] },
    by decide, by decide, by decide, by decide, by decide⟩

/-! non-vacuity: the table has client mutators; a read-only replica state on which they are run; a downgrade. -/
example : (Kevo.Gen.apiTable.filter (fun r => r.kind = .clientMutator)).length = 7 := by decide
example : ∃ row ∈ Kevo.Gen.apiTable, row.kind = .clientMutator ∧ row.layer = .service := ⟨Kevo.Gen.s_BatchWrite, by decide, rfl, rfl⟩
example : (runRow Kevo.Gen.rows Kevo.Gen.f_Put (.kv [1] [2])
    { eng := { store := { cfg := { memTableSize := 64 } }, readOnly := true } }).map (·.err) = some (some .readOnlyMode) := by decide
example : (runRow Kevo.Gen.rows Kevo.Gen.s_BatchWrite (.batch [(false, [1], [2])])
    { eng := { store := { cfg := { memTableSize := 64 } }, readOnly := true } }).map (·.err) = some (some .roTx) := by decide
example : (applyEntry Kevo.Gen.rows 1 [1] [2] { store := { cfg := { memTableSize := 64 } }, readOnly := true }).1 = none := by decide

end Kevo.Props.C16
