/-
  C18 — The memtable is a correct ordered multi-version map under concurrent readers.

  Sequential part (full strength, about Kevo.Model.Engine's memtable core + Kevo.Model.MemTable): any insert/delete
  sequence with arbitrary (non-monotone, repeated) sequence numbers. Tie to pkg/memtable: differential component `mem`
  (every Put/Delete/Get/iterator/adapter/pool call on the real code against the model), the comparison function and the
  visibility test TRANSLATED from the source (Kevo.Gen.MemTable, `compare_is_entryLt`, `visible_is_isVisible`), and the
  pinned facts `mem18.*`.

  Concurrent part (PARTIAL: model level). Kevo.Model.ConcSkipList abstracts pointer publication to atomic list splices
  (justified by the call order `node.setNext` before `prev.setNext`, levels bottom-up: facts `mem18.Insert.*`) and assumes
  sequentially consistent atomics. Theorems quantify over EVERY schedule (`acts : List Act`, unbounded, any number of
  readers, arbitrary heights). The implementation side is searched by the component `memconc` (race build, yield hooks).
  `rl = true` is the code as it is today: Seek/Find load `current.getNext(0)` a second time after the search loop — for that
  variant `seek_concurrent_statement` / `find_concurrent_statement` are REFUTED (`…_witness`) and the `…_partial`
  theorems say what still holds; for `rl = false` (keep the pointer loaded last) the full statements are proved.
-/
import Kevo.Model.MemTable
import Kevo.Model.ConcSkipList
import Kevo.Proofs.MemTable
import Kevo.Proofs.MemTableGen
import Kevo.Proofs.ConcSkipList
import Kevo.Gen.MemTable
namespace Kevo.Props.C18
open Kevo Kevo.Engine Kevo.MemTable

/-! ## sequential -/

/-- the translated `entry.compareWithEntry` orders entries exactly like the model's `entryLt` (Insert walks while it is
    negative), and is 0 exactly on equal key and sequence number. -/
theorem compare_is_entryLt (a b : MEntry) :
    (Kevo.Gen.MemTable.compareWithEntry a b < 0 ↔ entryLt a b = true) ∧
    (Kevo.Gen.MemTable.compareWithEntry a b = 0 ↔ a.key = b.key ∧ a.seq = b.seq) :=
  ⟨Kevo.Proofs.MemTableGen.compareWithEntry_neg_iff a b, Kevo.Proofs.MemTableGen.compareWithEntry_zero_iff a b⟩

/-- the translated `Iterator.isVisible` is the model's snapshot filter -/
theorem visible_is_isVisible (snap : Nat) (e : MEntry) : Kevo.Gen.MemTable.isVisible snap e.seq = visibleAt snap e :=
  Kevo.Proofs.MemTableGen.isVisible_eq snap e

/-- After ANY sequence of inserts/deletes (`ops`, in call order; arbitrary sequence numbers) a lookup finds nothing iff
    the key was never written, and otherwise an inserted entry of the key with the greatest sequence number. -/
theorem find_max_seq (ops : List MEntry) (k : Bytes) :
    match findIn (level0 ops) k with
    | none => ∀ x ∈ ops, x.key ≠ k
    | some b => b ∈ ops ∧ b.key = k ∧ ∀ x ∈ ops, x.key = k → x.seq ≤ b.seq := by
  rw [Kevo.Proofs.MemTable.findIn_level0]
  exact Kevo.Proofs.MemTable.specFind_spec ops k

/-- … and among several inserts with that greatest number it is the LATEST one (this decides batches). -/
theorem find_latest_among_equals (k : Bytes) (pre post : List MEntry) (e : MEntry) (hk : e.key = k)
    (hpre : ∀ x ∈ pre, x.key = k → x.seq ≤ e.seq) (hpost : ∀ x ∈ post, x.key = k → x.seq < e.seq) :
    findIn (level0 (pre ++ e :: post)) k = some e := by
  rw [Kevo.Proofs.MemTable.findIn_level0]
  exact Kevo.Proofs.MemTable.specFind_latest k pre post e hk hpre hpost

/-- MemTable.Get on the table built by the calls: `none` = not found, `some none` = found but deleted (the winning entry
    is a deletion marker), `some (some v)`. -/
theorem get_spec (ops : List MEntry) (k : Bytes) :
    (build ops).get k = (Kevo.Proofs.MemTable.specFind ops k).map (·.val) := by
  unfold MemTable.get
  rw [Kevo.Proofs.MemTable.build_entries, Kevo.Proofs.MemTable.findIn_level0]

/-- Iteration order: the level-0 list holds every inserted entry exactly once (a permutation of the inserts) in the order
    key ascending, then sequence number descending. -/
theorem iter_sorted (ops : List MEntry) :
    (level0 ops).Perm ops ∧
    (level0 ops).Pairwise (fun a b => ltB a.key b.key = true ∨ (a.key = b.key ∧ a.seq ≥ b.seq)) :=
  ⟨Kevo.Proofs.MemTable.level0_perm ops, Kevo.Proofs.MemTable.level0_sorted ops⟩

/-- entries equal in key AND sequence number appear newest insert first -/
theorem ties_latest_first (ops : List MEntry) (k : Bytes) (s : Nat) :
    (level0 ops).filter (fun x => x.key == k && x.seq == s) = (ops.filter (fun x => x.key == k && x.seq == s)).reverse := by
  have step : ∀ (ops L : List MEntry),
      (ops.foldl (fun acc e => insertSorted e acc) L).filter (fun x => x.key == k && x.seq == s) =
        (ops.filter (fun x => x.key == k && x.seq == s)).reverse ++ L.filter (fun x => x.key == k && x.seq == s) := by
    intro ops
    induction ops with
    | nil => intro L; simp
    | cons e es ih =>
      intro L
      rw [List.foldl_cons, ih]
      rw [Kevo.Proofs.MemTable.filter_tie_insertSorted (fun x => x.key == k && x.seq == s) e (by
        intro x hx he
        simp only [Bool.and_eq_true, beq_iff_eq] at hx he
        cases h : entryLt x e with
        | false => rfl
        | true =>
          rw [Kevo.Proofs.MemTable.entryLt_iff] at h
          rcases h with h | ⟨_, h⟩
          · rw [hx.1, he.1, ltB_irrefl] at h; contradiction
          · omega) L]
      by_cases he : (e.key == k && e.seq == s) = true
      · simp [he]
      · simp [he]
  have := step ops []
  simpa [level0] using this

/-- With the coded rule `if seqNum > nextSeqNum { nextSeqNum = seqNum + 1 }` and the coded filter (`snapshotSeq == 0` =
    unfiltered, else `seqNum <= snapshotSeq`, snapshotSeq = nextSeqNum) EVERY entry is visible to a fresh iterator of the
    table built by any sequence of calls — including `seq = 0` (nextSeqNum stays 0 = unfiltered) and `seq = nextSeqNum`
    (`<=`). Sequence numbers are natural numbers here: 2^64−1 would wrap nextSeqNum to 0 (assumption, see propdefs). -/
theorem snapshot_all_visible (ops : List MEntry) :
    (build ops).visible = (build ops).entries ∧ iterAll (build ops) = level0 ops := by
  have hb : Kevo.Proofs.MemTable.SeqBound (build ops) :=
    Kevo.Proofs.MemTable.SeqBound.foldl ops {} (by intro e he; simp at he)
  refine ⟨hb.visible, ?_⟩
  rw [Kevo.Proofs.MemTable.iterAll_eq, hb.visible, Kevo.Proofs.MemTable.build_entries]

/-- full iteration with the iterator operations (SeekToFirst, then Next while Valid) returns exactly the entries that pass
    the snapshot filter, in list order; for an immutable table: all. -/
theorem iter_all (m : MemTable) :
    iterAll m = m.entries.filter (visibleAt (snapOf m)) ∧ (m.immutable = true → iterAll m = m.entries) := by
  rw [Kevo.Proofs.MemTable.iterAll_eq]
  refine ⟨Kevo.Proofs.MemTable.visible_eq_filter m, ?_⟩
  intro h
  simp [MemTable.visible, h]

/-- Seek(t) on a sorted table lands on the first visible entry whose key is not below t, or nowhere if there is none. -/
theorem seek_spec (ops : List MEntry) (snap : Nat) (t : Bytes) :
    match (({ snap := snap } : Iter).seek (level0 ops) t).pos with
    | some j => ∃ hj : j < (level0 ops).length, visibleAt snap (level0 ops)[j] = true ∧ ltB (level0 ops)[j].key t = false ∧
        ∀ m, (hm : m < j) → visibleAt snap ((level0 ops)[m]'(by omega)) = true → ltB ((level0 ops)[m]'(by omega)).key t = true
    | none => ∀ m, (hm : m < (level0 ops).length) → visibleAt snap (level0 ops)[m] = true → ltB (level0 ops)[m].key t = true :=
  Kevo.Proofs.MemTable.seek_pos_spec (level0 ops) (Kevo.Proofs.MemTable.level0_sorted ops) snap t

/-- IteratorAdapter.SeekToLast (forward scan, then Seek(lastKey)): invalid iff nothing is visible; otherwise it stands on
    the FIRST (newest) visible version of the greatest visible key. -/
theorem last_spec (ops : List MEntry) (snap : Nat) :
    match ((level0 ops).filter (visibleAt snap)).getLast? with
    | none => (({ snap := snap } : Iter).last (level0 ops)).valid (level0 ops) = false
    | some l => ∃ j, ∃ hj : j < (level0 ops).length, (({ snap := snap } : Iter).last (level0 ops)).pos = some j ∧
        visibleAt snap (level0 ops)[j] = true ∧ (level0 ops)[j].key = l.key ∧
        ∀ m, (hm : m < j) → visibleAt snap ((level0 ops)[m]'(by omega)) = true → ltB ((level0 ops)[m]'(by omega)).key l.key = true :=
  Kevo.Proofs.MemTable.last_pos_spec (level0 ops) (Kevo.Proofs.MemTable.level0_sorted ops) snap

/-- An immutable table never changes: every further Put/Delete is a no-op (state, lookups and iteration included). -/
theorem immutable_frozen (m : MemTable) (h : m.immutable = true) (ops : List MEntry) :
    ops.foldl MemTable.add m = m ∧ (∀ k, (ops.foldl MemTable.add m).get k = m.get k) ∧
    iterAll (ops.foldl MemTable.add m) = iterAll m := by
  rw [Kevo.Proofs.MemTable.foldl_add_immutable h ops]
  exact ⟨rfl, fun _ => rfl, rfl⟩

/-- the table handed out by SwitchToNewMemTable is immutable, holds what the active table held, and stays in the pool -/
theorem switch_freezes (p : Pool) :
    p.switch.2.immutable = true ∧ p.switch.2.entries = p.active.entries ∧
    p.switch.1.immutables = p.immutables ++ [p.switch.2] ∧ p.switch.1.active.entries = [] ∧ p.switch.1.flushPending = false :=
  ⟨rfl, rfl, rfl, rfl, rfl⟩

/-- MemTablePool.Get answers from the NEWEST layer that knows the key: the active table first, then the immutable tables
    newest first; inside the layer the entry with the greatest sequence number (find_max_seq). -/
theorem pool_get_newest_layer (p : Pool) (k : Bytes) (pre post : List MemTable) (m : MemTable)
    (hl : poolLayers p = pre ++ m :: post) (hpre : ∀ x ∈ pre, x.get k = none) (r : Option Bytes) (hm : m.get k = some r) :
    p.get k = some r := by
  rw [Kevo.Proofs.MemTable.pool_get_layers, hl, List.findSome?_append]
  have : pre.findSome? (fun m => m.get k) = none := by
    rw [List.findSome?_eq_none_iff]
    exact hpre
  rw [this]
  simp [hm]

theorem pool_get_none (p : Pool) (k : Bytes) (h : ∀ x ∈ poolLayers p, x.get k = none) : p.get k = none := by
  rw [Kevo.Proofs.MemTable.pool_get_layers, List.findSome?_eq_none_iff]
  exact h

/-- switching tables does not change any lookup; the flush-pending flag is set exactly by the size rule and is sticky -/
theorem pool_switch_get (p : Pool) (k : Bytes) : (p.switch.1).get k = p.get k :=
  Kevo.Proofs.MemTable.pool_switch_get p k

theorem pool_flush_rule (cfg : Cfg) (p : Pool) (e : MEntry) :
    (p.add cfg e).flushPending = (p.flushPending || decide ((p.active.add e).size ≥ cfg.memTableSize)) ∧
    (p.add cfg e).immutables = p.immutables := ⟨rfl, rfl⟩

/-! ## concurrent (model level) -/

open Kevo.ConcSkipList
open Kevo.Proofs.ConcSkipList (inv_reachable gtCur inRange)

/-- `LevelsOK` in EVERY state of EVERY schedule (writer micro-steps and reader loads interleaved arbitrarily): every
    level is strictly sorted (entry order; equal entries newest first), level 0 consists exactly of the nodes whose
    level-0 link has happened and is, entry by entry, the sequential level-0 list of those inserts; every level is a
    sublist of the level below and of level 0. -/
theorem levelsOK_invariant (rl : Bool) (acts : List Act) :
    let s := run rl ConcSkipList.init acts
    (∀ l, (s.levels l).Pairwise (fun a b => nodeLt a b = true)) ∧
    (∀ n, n ∈ s.levels 0 ↔ n ∈ s.done) ∧
    (s.levels 0).map (·.e) = level0 (s.done.map (·.e)) ∧
    ((s.levels 0).map (·.e)).Pairwise (fun a b => ltB a.key b.key = true ∨ (a.key = b.key ∧ a.seq ≥ b.seq)) ∧
    (∀ l, (s.levels (l + 1)).Sublist (s.levels l)) ∧
    (∀ l, (s.levels l).Sublist (s.levels 0)) := by
  intro s
  have h := (inv_reachable rl acts).levels
  refine ⟨h.sorted, h.done, h.refines, h.entries_sorted, ?_, h.sublist⟩
  intro l
  exact Kevo.Proofs.ConcSkipList.sublist_of_subset_sorted _ _ (h.sorted (l + 1)) (h.sorted l) (h.chain l)

/-- Every node a reader has ever stood on (`trace`: each value it loaded and moved to) is a node of level 0; it moves
    strictly forward in the list order, so the keys it visits never go backwards (and it visits no node twice): the
    trace is a sublist of level 0. -/
theorem reader_sees_wellformed (rl : Bool) (acts : List Act) (r : Nat) :
    let s := run rl ConcSkipList.init acts
    (∀ n ∈ (s.readers r).trace, n ∈ s.levels 0) ∧
    (s.readers r).trace.Pairwise (fun a b => nodeLt a b = true) ∧
    (s.readers r).trace.Pairwise (fun a b => entryLt b.e a.e = false) ∧
    (s.readers r).trace.Sublist (s.levels 0) ∧
    (∀ n ∈ (s.readers r).out, n ∈ s.levels 0) ∧ (s.readers r).out.Pairwise (fun a b => nodeLt a b = true) := by
  intro s
  have h := inv_reachable rl acts
  have hb := (h.readers r).basic
  refine ⟨hb.tmem, hb.tsorted, ?_, ?_, fun n hn => hb.tmem n (hb.omem n hn), hb.osorted⟩
  · refine List.Pairwise.imp ?_ hb.tsorted
    intro a b hab
    exact (Kevo.Proofs.MemTable.not_entryLt_iff a.e b.e).mpr (Kevo.Proofs.ConcSkipList.nodeLt_le hab)
  · exact Kevo.Proofs.ConcSkipList.sublist_of_subset_sorted _ _ hb.tsorted (h.levels.sorted 0) hb.tmem

/-- A traversal (SeekToFirst/Next…, or Seek(t)/Next…) that started after the inserts `snap` had finished has, at every
    moment, emitted every entry of `snap` in its range that is not beyond its current position; once it reaches the end
    it has emitted ALL of them. -/
theorem reader_complete (rl : Bool) (acts : List Act) (r : Nat) :
    let s := run rl ConcSkipList.init acts
    let rd := s.readers r
    (rd.mode = .scan → ∀ m ∈ rd.snap, inRange rd.op m = true → gtCur rd.cur m = false → m ∈ rd.out) ∧
    (∀ res, rd.mode = .finished res → (∀ k, rd.op ≠ .find k) → ∀ m ∈ rd.snap, inRange rd.op m = true → m ∈ rd.out) := by
  intro s rd
  have hm := ((inv_reachable rl acts).readers r).mode
  unfold Kevo.Proofs.ConcSkipList.ModeInv at hm
  constructor
  · intro hmode
    rw [show (s.readers r).mode = .scan from hmode] at hm
    exact hm.2.1
  · intro res hmode hnf
    rw [show (s.readers r).mode = .finished res from hmode] at hm
    exact (hm.2 hnf).1

/-- the full claim about Seek: the entry it lands on is not below the target -/
def seek_concurrent_statement (rl : Bool) : Prop :=
  ∀ (acts : List Act) (r : Nat) (t : Bytes) (y : Node),
    ((run rl ConcSkipList.init acts).readers r).op = .seek t →
    ((run rl ConcSkipList.init acts).readers r).out.head? = some y → ltB y.e.key t = false

/-- What holds for Seek(t) in every schedule, for the code as it is (`rl` arbitrary): no entry that was there when the Seek
    started and is at or above the target lies before the landing node; and a landing BELOW the target can only be on a
    node that was linked while the Seek was running. -/
theorem seek_concurrent_partial (rl : Bool) (acts : List Act) (r : Nat) (t : Bytes) (y : Node)
    (hop : ((run rl ConcSkipList.init acts).readers r).op = .seek t)
    (hy : ((run rl ConcSkipList.init acts).readers r).out.head? = some y) :
    (∀ m ∈ ((run rl ConcSkipList.init acts).readers r).snap, ltB m.e.key t = false → nodeLt m y = false) ∧
    (ltB y.e.key t = false ∨ y ∉ ((run rl ConcSkipList.init acts).readers r).snap) ∧
    y ∈ (run rl ConcSkipList.init acts).levels 0 := by
  have hr := (inv_reachable rl acts).readers r
  have hm := hr.mode
  have hy0 : y ∈ (run rl ConcSkipList.init acts).levels 0 :=
    hr.basic.tmem y (hr.basic.omem y (List.mem_of_mem_head? hy))
  unfold Kevo.Proofs.ConcSkipList.ModeInv at hm
  have key : Kevo.Proofs.ConcSkipList.Landed rl ((run rl ConcSkipList.init acts).readers r) t := by
    cases hmode : ((run rl ConcSkipList.init acts).readers r).mode with
    | idle => rw [hmode] at hm; intro y' hy'; rw [hm] at hy'; simp at hy'
    | search l => rw [hmode] at hm; intro y' hy'; rw [hm.1] at hy'; simp at hy'
    | reload => rw [hmode] at hm; intro y' hy'; rw [hm.2.1] at hy'; simp at hy'
    | scan => rw [hmode] at hm; exact (hm.2.2 t hop).2
    | fscan best =>
      rw [hmode] at hm
      obtain ⟨k, c, h1, _⟩ := hm
      rw [hop] at h1; cases h1
    | finished res =>
      rw [hmode] at hm
      exact (hm.2 (by intro k hk; rw [hop] at hk; cases hk)).2 t hop
  obtain ⟨h1, _, h3⟩ := key y hy
  exact ⟨h1, h3, hy0⟩

/-- REFUTATION for the code as it is (`rl = true`): reader: Seek([3]) walks to key [1], loads its successor (key [4]) and
    leaves the loop; the writer links key [2]; the reader loads `current.getNext(0)` AGAIN and lands on [2] < [3]. -/
theorem seek_concurrent_witness : ¬ seek_concurrent_statement true := by
  intro h
  have := h [.wBegin { key := [1], seq := 1, val := some [7] } 1, .wLink,
             .wBegin { key := [4], seq := 2, val := some [9] } 2, .wLink, .wLink,
             .rStart 0 (.seek [3]) 1, .rStep 0, .rStep 0, .rStep 0,
             .wBegin { key := [2], seq := 3, val := some [8] } 1, .wLink, .rStep 0]
    0 [3] { id := 2, e := { key := [2], seq := 3, val := some [8] } } (by decide) (by decide)
  revert this
  decide

/-- the variant that keeps the pointer it loaded last is correct in every schedule -/
theorem seek_concurrent_noreload : seek_concurrent_statement false := by
  intro acts r t y hop hy
  have hr := (inv_reachable false acts).readers r
  have hm := hr.mode
  unfold Kevo.Proofs.ConcSkipList.ModeInv at hm
  have key : Kevo.Proofs.ConcSkipList.Landed false ((run false ConcSkipList.init acts).readers r) t := by
    cases hmode : ((run false ConcSkipList.init acts).readers r).mode with
    | idle => rw [hmode] at hm; intro y' hy'; rw [hm] at hy'; simp at hy'
    | search l => rw [hmode] at hm; intro y' hy'; rw [hm.1] at hy'; simp at hy'
    | reload => rw [hmode] at hm; intro y' hy'; rw [hm.2.1] at hy'; simp at hy'
    | scan => rw [hmode] at hm; exact (hm.2.2 t hop).2
    | fscan best =>
      rw [hmode] at hm
      obtain ⟨k, c, h1, _⟩ := hm
      rw [hop] at h1; cases h1
    | finished res =>
      rw [hmode] at hm
      exact (hm.2 (by intro k hk; rw [hop] at hk; cases hk)).2 t hop
  exact (key y hy).2.1 rfl

/-- the full claim about a concurrent Find: it returns an entry of the key at least as new as every version that was
    complete when it started (so: not "nothing" if there was one). -/
def find_concurrent_statement (rl : Bool) : Prop :=
  ∀ (acts : List Act) (r : Nat) (k : Bytes) (res : Option Node),
    ((run rl ConcSkipList.init acts).readers r).op = .find k →
    ((run rl ConcSkipList.init acts).readers r).mode = .finished res →
    ∀ m ∈ ((run rl ConcSkipList.init acts).readers r).snap, m.e.key = k → ∃ b, res = some b ∧ b.e.key = k ∧ m.e.seq ≤ b.e.seq

/-- What holds for Find(k) in every schedule (`rl` arbitrary): a returned entry is a linked entry of the key, at least as
    new as every version complete at the start; "not found" although a version existed can only happen when a node with a
    SMALLER key was linked while the Find was running (the re-load then yields that node). -/
theorem find_concurrent_partial (rl : Bool) (acts : List Act) (r : Nat) (k : Bytes) (res : Option Node)
    (hop : ((run rl ConcSkipList.init acts).readers r).op = .find k)
    (hmode : ((run rl ConcSkipList.init acts).readers r).mode = .finished res) :
    match res with
    | some b => b ∈ (run rl ConcSkipList.init acts).levels 0 ∧ b.e.key = k ∧
        ∀ m ∈ ((run rl ConcSkipList.init acts).readers r).snap, m.e.key = k → m.e.seq ≤ b.e.seq
    | none => (∀ m ∈ ((run rl ConcSkipList.init acts).readers r).snap, m.e.key ≠ k) ∨
        (rl = true ∧ ∃ y ∈ (run rl ConcSkipList.init acts).levels 0,
          y ∉ ((run rl ConcSkipList.init acts).readers r).snap ∧ ltB y.e.key k = true) := by
  have hm := ((inv_reachable rl acts).readers r).mode
  unfold Kevo.Proofs.ConcSkipList.ModeInv at hm
  rw [hmode] at hm
  have := hm.1 k hop
  cases res with
  | some b => exact this
  | none => exact this

theorem find_concurrent_witness : ¬ find_concurrent_statement true := by
  intro h
  have := h [.wBegin { key := [1], seq := 1, val := some [7] } 1, .wLink,
             .wBegin { key := [4], seq := 2, val := some [9] } 2, .wLink, .wLink,
             .rStart 0 (.find [4]) 1, .rStep 0, .rStep 0, .rStep 0,
             .wBegin { key := [2], seq := 3, val := some [8] } 1, .wLink, .rStep 0]
    0 [4] none (by decide) (by decide) { id := 1, e := { key := [4], seq := 2, val := some [9] } } (by decide) (by decide)
  obtain ⟨b, hb, _⟩ := this
  cases hb

theorem find_concurrent_noreload : find_concurrent_statement false := by
  intro acts r k res hop hmode m hm hmk
  have := find_concurrent_partial false acts r k res hop hmode
  cases res with
  | some b => exact ⟨b, rfl, this.2.1, this.2.2 m hm hmk⟩
  | none =>
    rcases this with h | ⟨h, _⟩
    · exact absurd hmk (h m hm)
    · cases h

/-- which variant the SOURCE is (`Kevo.Gen.MemTable.seekReloads`, regenerated from Iterator.Seek / SkipList.Find on every
    run): refuted for the re-loading code, proved for the pointer-keeping code. -/
theorem seek_find_for_source :
    (Kevo.Gen.MemTable.seekReloads = true →
      ¬ seek_concurrent_statement Kevo.Gen.MemTable.seekReloads ∧ ¬ find_concurrent_statement Kevo.Gen.MemTable.seekReloads) ∧
    (Kevo.Gen.MemTable.seekReloads = false →
      seek_concurrent_statement Kevo.Gen.MemTable.seekReloads ∧ find_concurrent_statement Kevo.Gen.MemTable.seekReloads) := by
  constructor
  · intro h; rw [h]; exact ⟨seek_concurrent_witness, find_concurrent_witness⟩
  · intro h; rw [h]; exact ⟨seek_concurrent_noreload, find_concurrent_noreload⟩

/-- "an immutable table never changes" at this level: steps that are not writer steps leave every level list (and the set
    of completed inserts) untouched, whatever the readers do. -/
theorem immutable_frozen_conc (rl : Bool) (s : ConcSkipList.St) (acts : List Act)
    (h : ∀ a ∈ acts, (∃ r op l, a = .rStart r op l) ∨ (∃ r, a = .rStep r)) :
    (run rl s acts).levels = s.levels ∧ (run rl s acts).done = s.done := by
  induction acts generalizing s with
  | nil => exact ⟨rfl, rfl⟩
  | cons a as ih =>
    have ha := h a (by simp)
    have hs : (step rl s a).levels = s.levels ∧ (step rl s a).done = s.done :=
      Kevo.Proofs.ConcSkipList.levels_reader_step rl s a
        (by intro e ht hh; rcases ha with ⟨_, _, _, h1⟩ | ⟨_, h1⟩ <;> rw [h1] at hh <;> cases hh)
        (by intro hh; rcases ha with ⟨_, _, _, h1⟩ | ⟨_, h1⟩ <;> rw [h1] at hh <;> cases hh)
    have := ih (step rl s a) (fun b hb => h b (by simp [hb]))
    show (run rl (step rl s a) as).levels = s.levels ∧ (run rl (step rl s a) as).done = s.done
    rw [this.1, this.2]
    exact hs

/-! ## non-vacuity: the hypotheses are satisfiable on non-trivial values -/

/-- three inserts with a repeated and a non-monotone sequence number and a deletion marker -/
example : findIn (level0 [{ key := [1], seq := 5, val := some [1] }, { key := [1], seq := 5, val := none },
    { key := [1], seq := 2, val := some [3] }]) [1] = some { key := [1], seq := 5, val := none } := by decide

example : ∀ x ∈ ([{ key := [1], seq := 5, val := some [1] }] : List MEntry), x.key = [1] → x.seq ≤ 5 := by
  intro x hx _; simp at hx; subst hx; exact Nat.le_refl _

/-- a pool with a shadowed key: the active table's deletion marker wins over the value in the immutable table -/
def examplePool : Pool :=
  { active := build [({ key := [1], seq := 9, val := none } : MEntry)],
    immutables := [setImmutable (build [({ key := [1], seq := 3, val := some [4] } : MEntry)])] }

example : examplePool.get [1] = some none := by decide

/-- a schedule with two inserts of different heights and a reader running in between -/
example : ((run true ConcSkipList.init [.wBegin { key := [1], seq := 1, val := some [7] } 1, .wLink,
    .rStart 0 .first 0, .rStep 0, .wBegin { key := [2], seq := 2, val := none } 2, .wLink, .rStep 0, .wLink, .rStep 0]).readers 0).out.map (·.e.key)
    = [[1], [2]] := by decide

end Kevo.Props.C18
