/-
  C19 — The network API behaves like the embedded API.

  Model: Kevo.Model.Service. `handle rows req st` is a handler of pkg/grpc/service.KevoServiceServer: the guard chain of
  its row in the GENERATED API table (request limits with their constants, handle lookup, read-only-transaction test),
  then the delegate (facade rows, transaction methods, the registry as a handle table, the iterator chosen by the
  option combination and the consumer loop). `embed rows req st` is the same request translated to calls of the
  embedded API, with the specified scan (`scanSpec`) in place of the iterator machinery. Handles are the counter
  values of "tx-<n>" (0 = a token the registry never issued).
  Tie: kvfacts (limits, guard order per handler, option chain and loop shape of Scan/TxScan, every RPC of the
  descriptor has a row) + differential component `service`: the real server over an in-process gRPC connection, the
  translated calls on a twin engine, and this model, line by line.
-/
import Kevo.Proofs.ServiceApi
import Kevo.Gen.Consts
namespace Kevo.Props.C19
open Kevo Kevo.Service Kevo.Proofs.Service Kevo.Proofs.ServiceApi

/-- the documented limits are the generated constants: key 1..4096 bytes, value ≤ 10 MB, batch ≤ 1000 operations -/
theorem limits_are_documented : Kevo.Gen.limits = { maxKey := 4096, maxValue := 10 * 1024 * 1024, maxBatch := 1000 } := by decide

/-- every RPC of the service descriptor is a row with a handler the model gives a meaning to (and nothing else is) -/
theorem rpc_table_complete :
    (∀ m ∈ Kevo.Gen.rpcDescriptor ++ Kevo.Gen.rpcServerInterface, ∃ row ∈ Kevo.Gen.serviceTable, row.name = m ∧ row.kind ≠ .unknown) ∧
    (∀ row ∈ Kevo.Gen.serviceTable, row ∈ Kevo.Gen.rows.service) ∧ (∀ row ∈ Kevo.Gen.rows.service, row ∈ Kevo.Gen.serviceTable) := by decide

/-- FULL statement: for every request within the limits, in every state whose registered transactions are open and
    whose read-only flag was set through the replication manager, the service answers what the embedded API answers
    (up to the wording of the refusal of a write on a read-only transaction) and ends in the same state. -/
def svc_equiv_statement : Prop :=
  ∀ (req : Req) (st : Svc), withinLimits Kevo.Gen.limits req = true → AllActive st → Wired st →
    (handle Kevo.Gen.rows req st).1.norm = (embed Kevo.Gen.rows req st).1.norm ∧
    (handle Kevo.Gen.rows req st).2 = (embed Kevo.Gen.rows req st).2

/-- PROVED part: the full statement for an open engine and every request except Compact — get, put, delete, batch
    write (one read-write transaction; per-operation validation = no validation within the limits), scans (the iterator
    machinery = the specified filter), begin / commit / rollback and TxGet / TxPut / TxDelete / TxScan by handle, statistics,
    node information. Simulation: handler = guard chain ∘ delegate, and within the limits no guard fires. -/
theorem svc_equiv_partial (req : Req) (st : Svc) (hl : withinLimits Kevo.Gen.limits req = true) (ha : AllActive st) (hw : Wired st)
    (hopen : st.eng.closed = false) (hnc : notCompact req = true) :
    (handle Kevo.Gen.rows req st).1.norm = (embed Kevo.Gen.rows req st).1.norm ∧
    (handle Kevo.Gen.rows req st).2 = (embed Kevo.Gen.rows req st).2 :=
  Kevo.Proofs.ServiceApi.svc_equiv_partial req st hl hopen ha hw hnc

def closedState : Svc := { eng := { store := { cfg := { memTableSize := 64 } }, closed := true } }

/-- REFUTATION of the full statement (known finding KF-C19-GET-ERROR-AS-NOTFOUND): on a closed engine the embedded Get
    fails with "engine is closed", the service answers found = false — every engine error is reported as "not found". -/
theorem svc_equiv_witness : ¬ svc_equiv_statement := by
  intro h
  have h1 := (h (.get [1]) closedState (by decide) (by intro p hp; cases hp) (Or.inr rfl)).1
  have h2 : (handle Kevo.Gen.rows (.get [1]) closedState).1.norm = .notFound := rfl
  have h3 : (embed Kevo.Gen.rows (.get [1]) closedState).1.norm = .err .closed := rfl
  rw [h2, h3] at h1
  cases h1

/-- … and the second place where the service is not the embedded API (known finding KF-C19-COMPACT-MARKER): a forced
    Compact commits the key "__compact_marker__" = "force" into the user's key space (the embedded maintenance calls
    change no data: `embed (.compact _)` leaves the state as it is). -/
theorem compact_marker_witness (st : Svc) (hc : st.eng.closed = false) (hro : st.eng.readOnly = false)
    (hw : st.eng.wlock = false) (hr : st.eng.rlocks = 0) :
    (handle Kevo.Gen.rows (.compact true) st).2.eng.store = Kevo.Engine.batch st.eng.store [(false, compactMarker, compactForce)] ∧
    (embed Kevo.Gen.rows (.compact true) st).2 = st :=
  ⟨compact_marker_written st hc hro hw hr, rfl⟩

/-- a request outside the key / value / batch limits is rejected (or, for a batch, waits for the lock like any batch)
    and leaves the whole service state — data, locks, handle table — exactly as it was. For a batch this includes an
    invalid operation in the middle: the operations before it are not applied. -/
theorem reject_no_effect (req : Req) (st : Svc) (h : withinLimits Kevo.Gen.limits req = false) :
    (handle Kevo.Gen.rows req st).2 = st ∧
    ((∃ e, (handle Kevo.Gen.rows req st).1 = .err e) ∨ (handle Kevo.Gen.rows req st).1 = .blocked) :=
  Kevo.Proofs.ServiceApi.reject_no_effect req st h

/-- a request that names a handle the registry does not hold is rejected with "transaction not found", no effect -/
theorem unknown_handle_rejected (st : Svc) (id : Nat) (h : st.tx? id = none) (req : Req) (hr : req.handle? = some id) :
    handle Kevo.Gen.rows req st = (.err .noHandle, st) :=
  Kevo.Proofs.ServiceApi.unknown_handle_rejected st id h req hr

/-- a handle is unusable after commit or rollback — whatever the outcome of the commit — and stays unusable through
    every later sequence of requests (the registry never issues a number twice): each request naming it is rejected
    with "transaction not found" and has no effect. -/
theorem handle_dead_after_finish (st : Svc) (hi : HandlesIssued st) (id : Nat) (hid : id ≤ st.nextID)
    (fin : Req) (hfin : fin = .commit id ∨ fin = .rollback id) (later : List Req) (req : Req) (hr : req.handle? = some id) :
    let st' := runReqs Kevo.Gen.rows (handle Kevo.Gen.rows fin st).2 later
    handle Kevo.Gen.rows req st' = (.err .noHandle, st') := by
  intro st'
  have hdead : (handle Kevo.Gen.rows fin st).2.tx? id = none := by
    rcases hfin with rfl | rfl
    · exact commit_kills_handle st id
    · exact rollback_kills_handle st id
  have hf := handle_frame Kevo.Gen.rows fin st hi
  have := dead_stays_dead Kevo.Gen.rows later _ hf.2.1 id (Nat.le_trans hid hf.1) hdead
  exact Kevo.Proofs.ServiceApi.unknown_handle_rejected st' id this req hr

/-- the invariant used above holds initially and is kept by every request -/
theorem handles_issued_invariant (reqs : List Req) (st : Svc) (hi : HandlesIssued st) :
    HandlesIssued (runReqs Kevo.Gen.rows st reqs) := by
  induction reqs generalizing st with
  | nil => exact hi
  | cons r rs ih => exact ih _ (handle_frame Kevo.Gen.rows r st hi).2.1

/-- every combination of the option fields (prefix, suffix, start, end — present or empty) selects exactly one branch
    of the Scan / TxScan chain, and what the chosen iterator yields through the consumer loop (deletion markers
    skipped and not counted, at most `limit` results) is the specified filter for that combination: prefix ∧ suffix /
    prefix / suffix / the range iterator's run / everything, live entries only, first `limit` of them. -/
theorem scan_options_total (o : ScanOpts) :
    (∃ b, branchCond o b ∧ ∀ b', branchCond o b' → b' = b) ∧
    (∀ b, chooseBranch o = b ↔ branchCond o b) ∧
    (∀ (full : List KV) (range : Option Bytes → Option Bytes → List KV),
      scanRun o full range = scanSpec o full range) := by
  refine ⟨⟨chooseBranch o, (chooseBranch_iff o _).mp rfl, fun b' hb' => ((chooseBranch_iff o b').mpr hb').symm⟩,
    chooseBranch_iff o, scanRun_eq_scanSpec o⟩

/-- protobuf normalisation is the identity on non-empty byte strings and identifies "absent" with "empty" -/
theorem pb_normalisation (b : Bytes) : pbValue (pbBytes b) = b ∧ (pbBytes b = none ↔ b = []) := by
  cases b <;> simp [pbValue, pbBytes]

/-! non-vacuity: requests at the limits; a sequence with interleaved handles; a scan over a run with a deletion marker -/
example : withinLimits Kevo.Gen.limits (.put (List.replicate 4096 1) [2]) = true ∧
    withinLimits Kevo.Gen.limits (.put (List.replicate 4097 1) [2]) = false := by
  constructor <;> (simp only [withinLimits, keyOk, valOk, keyBad, valBad, Kevo.Gen.limits, List.length_replicate]; decide)
example :
    let st0 : Svc := { eng := { store := { cfg := { memTableSize := 64 } } } }
    let st := runReqs Kevo.Gen.rows st0 [.begin true, .begin true, .commit 1]
    (st.tx? 1).isNone ∧ (st.tx? 2).isSome ∧ st.nextID = 2 := by decide
example : scanSpec { pfx := [97], limit := 1 } [([97], none), ([97, 98], some [1]), ([97, 99], some [2]), ([98], some [3])] (fun _ _ => [])
    = [([97, 98], [1])] := by decide

/-- the record limit of the model is the log's constant, regenerated from wal.go on every run -/
theorem maxBatchRecord_is_wal_constant : Kevo.Service.maxBatchRecord = Kevo.Gen.walParams.maxRecord := by decide

/-- a commit the log refuses (one buffered entry larger than a log record) fails with the log's error for the service and
    the embedded API alike (both run `Tx.commit`): nothing is applied, the transaction is finished, the write lock is free;
    `handle_dead_after_finish` then applies to its handle. Exercised by the `limits` cases (handle reuse after the refusal). -/
theorem refused_commit_no_effect (t : Tx) (e : Eng) (ha : t.active = true) (hro : t.ro = false) (hne : t.buf.isEmpty = false)
    (hc : e.closed = false) (hbig : (bufOps t.buf).all batchEntryFits = false) :
    (t.commit e).1 = some .recordTooLarge ∧ (t.commit e).2.1.active = false ∧
    (t.commit e).2.2.store = e.store ∧ (t.commit e).2.2.wlock = false := by
  simp [Tx.commit, ha, hro, hne, hc, hbig, unlock]

example (v : Bytes) (hv : v.length = 40000) : (bufOps [([1], some v)]).all batchEntryFits = false := by
  simp [bufOps, batchEntryFits, maxBatchRecord, hv]

end Kevo.Props.C19
