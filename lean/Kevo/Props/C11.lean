/-
  C11 — An SSTable reads back exactly what was written into it.

  Statements are about Kevo.Model.Block / Kevo.Model.Table; the tie to pkg/sstable is the differential
  component `sst` (byte equality of serialised blocks and table files, every iterator call result,
  Reader.Get, open errors on altered files) plus the constants regenerated into Kevo.Gen.Consts.
-/
import Kevo.Model.Table
import Kevo.Proofs.Table
import Kevo.Proofs.TableCache
import Kevo.Gen.Consts
namespace Kevo.Props.C11
open Kevo Kevo.Block Kevo.Table

abbrev EntryWF := Kevo.Proofs.Table.EntryWF
abbrev HashOK := Kevo.Proofs.Table.HashOK
abbrev ParamsWF := Kevo.Proofs.Table.Params.WF
abbrev collectB := Kevo.Proofs.Table.collectB
abbrev collectT := Kevo.Proofs.Table.collectT

theorem block_roundtrip (ri : Nat) (hri : 0 < ri) (hash : Bytes → Nat) (hh : HashOK hash) (es : List BEntry)
    (hne : es ≠ []) (hwf : ∀ e ∈ es, EntryWF e) (hsz : (Block.encode ri hash es).length < 2 ^ 32) :
    ∃ r, Block.openBlock hash (Block.encode ri hash es) = some r ∧ Block.decodeAll r = es :=
  Kevo.Proofs.Table.block_roundtrip ri hri hash hh es hne hwf hsz

theorem block_iter_all (es : List BEntry) :
    collectB (es.length + 1) ({ es := es } : Block.Iter).first = es :=
  Kevo.Proofs.Table.block_iter_all es

theorem block_seek_spec (es : List BEntry) (hasc : Block.strictAsc es = true) (t : Bytes) :
    let r := ({ es := es } : Block.Iter).seek t
    match r.1.cur with
    | some e => r.2 = true ∧ r.1.valid = true ∧ e ∈ es ∧ ltB e.key t = false ∧ (∀ e' ∈ es, ltB e'.key t = false → ltB e'.key e.key = false)
    | none => r.2 = false ∧ r.1.valid = false ∧ ∀ e ∈ es, ltB e.key t = true :=
  Kevo.Proofs.Table.block_seek_spec es hasc t

theorem table_roundtrip (p : Params) (hp : ParamsWF p) (hash fnv : Bytes → Nat) (hh : HashOK hash) (ts : Nat)
    (hts : ts < 2 ^ 64) (bloom : Bool) (es : List BEntry) (hne : es ≠ []) (hasc : Block.strictAsc es = true)
    (hwf : ∀ e ∈ es, EntryWF e) (hsz : (Table.encode p hash fnv ts bloom es).length < 2 ^ 32) :
    ∃ r, Table.openTable p hash (Table.encode p hash fnv ts bloom es) = some r ∧ Table.allEntries hash r = some es :=
  Kevo.Proofs.Table.table_roundtrip p hp hash fnv hh ts hts bloom es hne hasc hwf hsz

theorem table_iter_all (es : List BEntry) :
    collectT (es.length + 1) ({ es := es } : Table.TIter).first = es :=
  Kevo.Proofs.Table.table_iter_all es

theorem table_seek_spec (es : List BEntry) (hasc : Block.strictAsc es = true) (t : Bytes) :
    let r := ({ es := es } : Table.TIter).seek t
    match r.1.cur with
    | some e => r.2 = true ∧ r.1.valid = true ∧ e ∈ es ∧ ltB e.key t = false ∧ (∀ e' ∈ es, ltB e'.key t = false → ltB e'.key e.key = false)
    | none => r.2 = false ∧ r.1.valid = false ∧ ∀ e ∈ es, ltB e.key t = true :=
  Kevo.Proofs.Table.table_seek_spec es hasc t

theorem table_get_spec (p : Params) (hp : ParamsWF p) (hash fnv : Bytes → Nat) (hh : HashOK hash) (ts : Nat)
    (hts : ts < 2 ^ 64) (bloom : Bool) (es : List BEntry) (hne : es ≠ []) (hasc : Block.strictAsc es = true)
    (hwf : ∀ e ∈ es, EntryWF e) (hsz : (Table.encode p hash fnv ts bloom es).length < 2 ^ 32) (k : Bytes) :
    ∀ r, Table.openTable p hash (Table.encode p hash fnv ts bloom es) = some r →
      Table.get hash fnv r k = (match es.find? (fun e => e.key = k) with
        | some e => .found e.val
        | none => .notFound) :=
  Kevo.Proofs.Table.table_get_spec p hp hash fnv hh ts hts bloom es hne hasc hwf hsz k

/-- the reader's block cache is transparent. For any open reader whose index names one size per block offset, any cache
    capacity, any eviction choice (`victim`: Go evicts whichever key its map iteration yields first) and any history of
    lookups starting from a sound cache, every lookup returns what the uncached lookup returns. -/
theorem cache_transparent (hash fnv : Bytes → Nat) (cap : Nat) (victim : Cache → Nat) (r : Table.Reader)
    (hlf : Kevo.Proofs.TableCache.LocFun r.index) (ks : List Bytes) :
    (Table.getsC hash fnv cap victim r ks []).1 = ks.map (Table.get hash fnv r) :=
  (Kevo.Proofs.TableCache.getsC_eq hash fnv cap victim r hlf ks [] (Kevo.Proofs.TableCache.cacheOK_nil hash r)).1

/-- point lookup through the cache, for EVERY history of lookups on a written table (the statement's "finds every written
    key and nothing else" is about a reader that is used more than once): whatever was looked up before, whatever the
    cache evicted, the k-th lookup finds exactly the written entry. -/
theorem table_get_cached_spec (p : Params) (hp : ParamsWF p) (hash fnv : Bytes → Nat) (hh : HashOK hash) (ts : Nat)
    (hts : ts < 2 ^ 64) (bloom : Bool) (es : List BEntry) (hne : es ≠ []) (hasc : Block.strictAsc es = true)
    (hwf : ∀ e ∈ es, EntryWF e) (hsz : (Table.encode p hash fnv ts bloom es).length < 2 ^ 32)
    (cap : Nat) (victim : Cache → Nat) (ks : List Bytes) :
    ∀ r, Table.openTable p hash (Table.encode p hash fnv ts bloom es) = some r →
      (Table.getsC hash fnv cap victim r ks []).1 = ks.map (fun k => match es.find? (fun e => e.key = k) with
        | some e => .found e.val
        | none => .notFound) := by
  intro r hr
  exact Kevo.Proofs.TableCache.table_get_cached_aux p hp.split.1 hash fnv hh ts hts bloom (hp.split.2 bloom) es hne hasc hwf hsz
    r hr cap victim ks

/-- the cache stays within its capacity (`max cap 1`: a cache of capacity 0 still holds the block just stored) -/
theorem cache_bounded (cap : Nat) (victim : Cache → Nat) (c : Cache) (off : Nat) (es : List BEntry)
    (hv : victim c < c.length) (h : c.length ≤ max cap 1) : (c.put cap victim off es).length ≤ max cap 1 :=
  Kevo.Proofs.TableCache.cache_put_length cap victim c off es hv h

/-! non-vacuity: a full cache of capacity 2 evicts the chosen victim and stores the new block under its offset -/
example : Cache.put 2 (fun _ => 1) [(0, []), (70, [])] 140 [{ key := [1], val := none, seq := 4 }]
    = [(140, [{ key := [1], val := none, seq := 4 }]), (0, [])] := by decide
example : (Cache.put 2 (fun _ => 1) [(0, []), (70, [])] 140 []).get 70 = none := by decide

/-- the constants extracted from the source satisfy the shape the proofs need. -/
theorem consts_wf : ParamsWF Kevo.Gen.tableParams := by
  unfold ParamsWF Kevo.Proofs.Table.Params.WF; decide

/-! non-vacuity: a two-entry list with a tombstone satisfies all hypotheses on entries. -/
example : ∀ e ∈ [({ key := [1], val := some [], seq := 3 } : BEntry), { key := [2], val := none, seq := 9 }], EntryWF e := by
  intro e he
  simp at he
  rcases he with rfl | rfl <;> (unfold EntryWF Kevo.Proofs.Table.EntryWF; simp)
example : Block.strictAsc [({ key := [1], val := some [], seq := 3 } : BEntry), { key := [2], val := none, seq := 9 }] = true := by
  decide

/-! non-vacuity with the empty key (a legal key): a list whose FIRST key is `[]` satisfies all hypotheses on entries,
    the iterator is valid on that entry, and `Seek([])` lands on it. -/
example : ∀ e ∈ [({ key := [], val := some [7], seq := 1 } : BEntry), { key := [0], val := none, seq := 2 }], EntryWF e := by
  intro e he
  simp at he
  rcases he with rfl | rfl <;> (unfold EntryWF Kevo.Proofs.Table.EntryWF; simp)
example : Block.strictAsc [({ key := [], val := some [7], seq := 1 } : BEntry), { key := [0], val := none, seq := 2 }] = true := by
  decide
example : (({ es := [({ key := [], val := some [7], seq := 1 } : BEntry), { key := [0], val := none, seq := 2 }] } : Block.Iter).first).valid = true := by
  decide
example : ((({ es := [({ key := [], val := some [7], seq := 1 } : BEntry), { key := [0], val := none, seq := 2 }] } : Table.TIter).seek []).1.cur)
    = some { key := [], val := some [7], seq := 1 } := by
  decide

end Kevo.Props.C11
