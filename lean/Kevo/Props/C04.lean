/-
  C04 — Transactions are serializable with respect to each other.

  Model: Kevo.Model.TxLock on the interleaving semantics Kevo.Model.Conc (one reader-writer lock for the whole
  database; read-only = shared, read-write = exclusive for the whole life of the transaction; private buffer;
  commit = one atomic batch, then unlock). Thread ids, transactions, keys and schedule length are unbounded.
  Serial specification: `serialRun sched order` runs the SAME programs (`progOf sched t` = the calls thread t made,
  in order) one whole transaction at a time from the empty database (Kevo.TxLock.runTx / serialFrom).
  Tie to the code: facts `tx.*` (lock taken by mode before BeginTransaction returns; Commit: CAS ≺ ApplyBatch ≺ unlock;
  reads consult the buffer first; unlock guarded by CAS) + component `txconc` (real engine, 2–8 goroutines, yield
  hooks, serial-order oracle in lock-acquisition order + brute force over all orders).
  Not covered: writes issued outside transactions (`rawPut/rawDel`) are deliberately not ordered
  (`raw_write_breaks_snapshot_witness`); fairness of sync.RWMutex.
-/
import Kevo.Proofs.TxLock
namespace Kevo.Props.C04
open Kevo Kevo.Spec Kevo.Conc Kevo.TxLock Kevo.Proofs.TxLock

/-- Every executable schedule without raw writes is equivalent to running the finished transactions one at a
    time in lock-acquisition order: same final database, same result for every read of every transaction; the
    order is a permutation of the finished transactions and never puts a transaction before one that had already
    ended when it acquired the lock. Unfinished transactions have contributed nothing to `s.db`. -/
theorem tx_strict_serializable (sched : Sched) (s : State) (h : reach sys sched = some s) (hraw : noRawWrites sched) :
    ∃ order, order.Perm (finished s) ∧ respectsRealTime order s ∧
      serialRun sched order = (s.db, order.map fun t => (t, readsOf s t)) :=
  Kevo.Proofs.TxLock.tx_strict_serializable sched s h hraw

/-- `respectsRealTime` in the usual form: if a ended before b acquired the lock then b is not before a. -/
theorem realTime_before (order : List Tid) (s : State) (hrt : respectsRealTime order s) (l1 l2 l3 : List Tid) (a b : Tid)
    (ho : order = l1 ++ b :: l2 ++ a :: l3) : ¬ s.finIdx a < s.acqIdx b := by
  subst ho
  unfold respectsRealTime at hrt
  rw [List.append_assoc, List.pairwise_append] at hrt
  have := hrt.2.1
  rw [List.cons_append, List.pairwise_cons] at this
  exact this.1 a (by simp)

/-- the order of the theorem is the lock-acquisition order (the begin step IS the acquisition) and every finished
    transaction acquired the lock strictly before it ended. -/
theorem order_is_acquisition_order (sched : Sched) (s : State) (h : reach sys sched = some s) :
    (lockOrder s).Pairwise (fun a b => s.acqIdx a < s.acqIdx b) ∧
    (∀ t ∈ lockOrder s, s.acqIdx t < s.finIdx t ∧ s.finIdx t < s.clock) ∧
    ∀ t, t ∈ lockOrder s ↔ (s.tx t).phase = .done := by
  have hL := lockInv_reach sched s h
  exact ⟨hL.sorted.filter _, fun t ht => hL.finLt t ((mem_lockOrder hL t).1 ht), mem_lockOrder hL⟩

/-- mutual exclusion (the invariant behind the theorem): a writer is alone; readers exclude writers. -/
theorem writer_excludes_all (sched : Sched) (s : State) (h : reach sys sched = some s) (t u : Tid)
    (ht : (s.tx t).phase = .active) (hm : (s.tx t).mode = .rw) (hu : (s.tx u).phase = .active) : u = t := by
  have hL := lockInv_reach sched s h
  have hw := (hL.rw_iff t).1 ⟨ht, hm⟩
  cases hmu : (s.tx u).mode with
  | rw =>
    have := (hL.rw_iff u).1 ⟨hu, hmu⟩
    rw [hw] at this; simp at this; exact this.symm
  | ro =>
    have := (hL.ro_iff u).1 ⟨hu, hmu⟩
    rw [hL.wExcl t hw] at this; cases this

/-- A transaction sees its own uncommitted writes: the next Get of k returns the last value it wrote (none = deleted). -/
theorem own_writes_visible (sched : Sched) (s : State) (h : reach sys sched = some s) (hraw : noRawWrites sched)
    (t : Tid) (k : Bytes) (w : Option Bytes) (hact : (s.tx t).phase = .active) (hm : (s.tx t).mode = .rw)
    (hw : lastWrite k (progOf sched t) = some w) (s' : State) (hs : step s t (.get k) = some s') :
    readsOf s' t = readsOf s t ++ [.get k w] := by
  have hI := serInv_reach sched s h hraw
  rw [get_step_reads t k hact hs]
  have := buf_lookup_of_prog hI t k hact hm
  simp [view, this, hw]

/-- No dirty read: a Get of a key the transaction has not written itself returns the value produced by the serial
    execution of the FINISHED transactions only — whatever other transactions have buffered is invisible. -/
theorem no_dirty_read (sched : Sched) (s : State) (h : reach sys sched = some s) (hraw : noRawWrites sched)
    (t : Tid) (k : Bytes) (hact : (s.tx t).phase = .active)
    (hnw : (s.tx t).mode = .ro ∨ lastWrite k (progOf sched t) = none) (s' : State) (hs : step s t (.get k) = some s') :
    ∃ order, order.Perm (finished s) ∧ readsOf s' t = readsOf s t ++ [.get k ((serialRun sched order).1 k)] := by
  have hI := serInv_reach sched s h hraw
  have hL := lockInv_reach sched s h
  refine ⟨lockOrder s, lockOrder_perm hL, ?_⟩
  rw [get_step_reads t k hact hs, lockOrder_serial hL hI]
  have hlook : (s.tx t).buf.lookup k = none := by
    cases hm : (s.tx t).mode with
    | ro => rw [ro_buf_empty hI t hact hm]; rfl
    | rw =>
      rcases hnw with h1 | h1
      · rw [hm] at h1; cases h1
      · rw [buf_lookup_of_prog hI t k hact hm, h1]
  simp [view, hlook]

/-- writes of a transaction stay private until commit: Put/Delete never change the shared database. -/
theorem buffered_write_private (s s' : State) (t : Tid) (k v : Bytes) :
    (step s t (.put k v) = some s' → s'.db = s.db) ∧ (step s t (.del k) = some s' → s'.db = s.db) := by
  constructor <;>
  · intro hs
    simp only [step, txOp] at hs
    split at hs
    · cases hs
    · simp at hs; subst hs; rfl
    · simp at hs; subst hs; split <;> rfl

/-- A read-only transaction reads one and the same committed state for its whole life: the database produced by
    the serial execution of the transactions that acquired the lock before it. -/
theorem ro_snapshot (sched : Sched) (s : State) (h : reach sys sched = some s) (hraw : noRawWrites sched)
    (t : Tid) (hm : (s.tx t).mode = .ro) (hne : (s.tx t).phase ≠ .idle) :
    ∃ pre post, s.acq = pre ++ t :: post ∧ ∀ r ∈ readsOf s t, r.evaluatedOn (serialRun sched pre).1 := by
  have hI := serInv_reach sched s h hraw
  have hL := lockInv_reach sched s h
  have htacq : t ∈ s.acq := (hL.acqMem t).2 hne
  obtain ⟨pre, post, hsplit⟩ := List.append_of_mem htacq
  refine ⟨pre, post, hsplit, ?_⟩
  have hser := hI.ser
  rw [hsplit, serOK_append] at hser
  obtain ⟨d1, hpre, htl⟩ := hser
  simp only [SerOK] at htl
  rw [serOK_iff] at hpre
  have hd1 : (serialRun sched pre).1 = d1 := by unfold serialRun; rw [hpre]
  rw [hd1]
  obtain ⟨ops, hops⟩ := hI.shape t hne
  have hreads : readsOf s t = (runTx d1 (progOf sched t)).2 := htl.1.symm
  rw [hreads, hops, hm]
  simp only [runTx]
  exact fold_reads_ro ops (startRun .ro d1) rfl rfl (by simp [startRun])

/-! ### non-vacuity: concrete schedules -/

def kA : Bytes := [97]
def kB : Bytes := [98]

/-- two writers and a reader, interleaved: T1 rw (put a, get a, commit), T2 ro begins after T1, T3 rw waits for T2. -/
def demo : Sched :=
  [(1, .begin .rw), (1, .put kA [1]), (1, .get kA), (1, .get kB), (1, .commit), (2, .begin .ro), (4, .begin .ro),
   (2, .get kA), (4, .scan none none), (4, .rollback), (2, .commit), (2, .get kA), (3, .begin .rw), (3, .del kA),
   (3, .put kB [2]), (3, .get kA), (3, .commit), (3, .commit), (5, .begin .rw), (5, .put kA [9])]

example : (reach sys demo).isSome = true := by decide
example : noRawWrites demo := by simp [noRawWrites, demo, Action.isRaw]
/-- a writer cannot begin while a reader is active, and nobody while a writer is: the schedules are not executable. -/
example : (reach sys [(1, .begin .ro), (2, .begin .rw)]).isSome = false := by decide
example : (reach sys [(1, .begin .rw), (2, .begin .ro)]).isSome = false := by decide
example : (reach sys [(1, .begin .ro), (2, .begin .ro), (1, .commit), (2, .rollback), (3, .begin .rw)]).isSome = true := by decide

/-- what the demo computes: acquisition order 1,2,4,3,5; finish order 1,4,2,3; T1 saw its own write. -/
example : (reach sys demo).map (fun s => (s.acq, s.fin)) = some ([1, 2, 4, 3, 5], [1, 4, 2, 3]) := by decide
example : (reach sys demo).map (fun s => (s.db kA, s.db kB)) = some (none, some [2]) := by decide
example : (reach sys demo).map (fun s => (s.tx 5).phase == .active && (s.tx 3).closedCalls == 1) = some true := by decide

/-- Raw writes are not ordered by the lock: a read-only transaction that reads k twice around a raw put sees two
    different values, so no single database explains its reads. -/
theorem raw_write_breaks_snapshot_witness :
    ∃ sched s, reach sys sched = some s ∧ (s.tx 0).mode = .ro ∧ ¬ ∃ db0 : KVMap, ∀ r ∈ readsOf s 0, r.evaluatedOn db0 := by
  refine ⟨[(0, .begin .ro), (0, .get kA), (1, .rawPut kA [1]), (0, .get kA)], ?_⟩
  simp [reach, run, sys, step, txOp, compatible, tick, setFn, acquire, readsOf, view, KVMap.set, emptyMap,
        Read.evaluatedOn]
  intro db0
  cases db0 kA <;> simp

end Kevo.Props.C04
