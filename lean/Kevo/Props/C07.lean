/-
  C07 — Concurrent use never races, crashes or hangs the process.                                  (PARTIAL)

  What is proved: two generic theorems about the interleaving semantics of Kevo.Model.ConcCore
  (`lockset_drf`, `lockorder_no_deadlock`, plus the pairwise generalisation and a progress theorem), and their
  instances for the lock-set / lock-order / pairing TABLES that extract/extract_locks.go regenerates from /repo's
  source on every run (Kevo.Gen.Locks), discharged by `decide` and lifted by Kevo.Proofs.ConcTable.

  What this decides: freedom from data races ON THE ENUMERATED SHARED FIELDS, and freedom from lock-cycle deadlock,
  for every program that conforms to the tables (`Conforms`, `EdgeConforms`, `Paired`: the soundness of the
  syntactic lock analysis is an assumption, validated dynamically by the `race` component under the race detector).
  It does not decide panics or fatal errors in general, preemption inside a Go statement, weak-memory effects, real
  blocking times, or Go's writer preference on RWMutex.

  History: on the tree before the repairs three fields failed the table check and raced under the detector
  (D21 storage.Manager.immutableMTs, fixed b06fb7d; D39 storage.Manager.wal read in GetWAL, fixed 66945ef; D22
  transaction.TransactionImpl.lastActiveTime, fixed 0084479) and Manager.Close ignored the flush goroutine (D40, fixed
  3b93c94; Close is now part of the tables). No field is excluded any more; `historical_d21_race_witness` keeps the
  old rows of immutableMTs as evidence that the check can fail.
-/
import Kevo.Proofs.ConcCore
import Kevo.Proofs.ConcTable
import Kevo.Gen.Locks
namespace Kevo.Props.C07
open Kevo.LConc Kevo.Gen.Locks

/-! ### the two generic theorems (proved once) -/

theorem lockset_drf (P : Prog) (x : Var) (h : (∃ m, Protects P m x) ∨ AllAtomic P x) :
    ∀ sched s, reach P sched = some s → ¬ Race P s x :=
  Kevo.LConc.lockset_drf P x h

theorem pairwise_drf (P : Prog) (x : Var) (h : PairProtected P x) :
    ∀ sched s, reach P sched = some s → ¬ Race P s x :=
  Kevo.LConc.pairwise_drf P x h

theorem lockorder_no_deadlock (P : Prog) (hac : Acyclic (Edge P)) (hp : Paired P) :
    ∀ sched s, reach P sched = some s → ¬ Deadlock P s :=
  Kevo.LConc.lockorder_no_deadlock P hac hp

theorem lockorder_progress (P : Prog) (rank : Lock → Nat) (N : Nat)
    (hrank : ∀ a b, Edge P a b → rank a < rank b) (hN : ∀ a, rank a ≤ N) (hp : Paired P) :
    ∀ sched s, reach P sched = some s → ∀ t, Unfinished P s t → ∃ u, (step P s u).isSome :=
  Kevo.LConc.lockorder_progress P rank N hrank hN hp

/-! ### instances for the generated tables -/

def fieldId (name : String) : Nat := fieldNames.idxOf name
def lockId (name : String) : Nat := lockNames.idxOf name

/-- fields whose protection mixes sync/atomic with a lock: `Manager.wal` is stored atomically (under flushMu), loaded
    atomically by getWAL without a lock, and read plainly only under flushMu — pairwise check only. -/
def mixedNames : List String := ["storage.Manager.wal"]
def mixed : List Nat := mixedNames.map fieldId

set_option maxRecDepth 8192 in
theorem table_fields_ok : ∀ f ∈ fields, fieldOK sites f = true := by decide

/-- data-race freedom on EVERY enumerated field, for every conforming program (instance of `pairwise_drf`). -/
theorem fields_race_free : ∀ f ∈ fields,
    ∀ P, Conforms sites P → ∀ sched s, reach P sched = some s → ¬ Race P s f :=
  fun f hf P hc => table_drf sites f (table_fields_ok f hf) P hc

set_option maxRecDepth 8192 in
theorem table_discipline_ok : ∀ f ∈ fields, f ∉ mixed → disciplineOK sites lockNames.length f = true := by
  decide

/-- the same through the classic lock-set discipline (one lock held at every site, exclusively at writes; or all
    accesses atomic) — instance of `lockset_drf`; every field except the mixed atomic/lock one. -/
theorem fields_lockset_discipline : ∀ f ∈ fields, f ∉ mixed →
    ∀ P, Conforms sites P → ∀ sched s, reach P sched = some s → ¬ Race P s f :=
  fun f hf hm P hc => table_lockset_drf sites lockNames.length f (table_discipline_ok f hf hm) P hc

set_option maxRecDepth 8192 in
/-- the mixed list is not padding: each of its fields is a tracked field and really fails the classic discipline. -/
theorem mixed_are_mixed : ∀ f ∈ mixed, f ∈ fields ∧ disciplineOK sites lockNames.length f = false := by decide

/-- the rows of storage.Manager.immutableMTs BEFORE b06fb7d (D21): scheduleFlush wrote under mu (lock 1),
    FlushMemTables truncated under flushMu (lock 0). -/
def d21Sites : List Site :=
  [{ field := 0, write := true, atomic := false, held := [(1, .ex)] },
   { field := 0, write := true, atomic := false, held := [(0, .ex)] },
   { field := 0, write := false, atomic := false, held := [(1, .sh)] }]

/-- the check can fail, and a failing table has a conforming program with a reachable race. -/
theorem historical_d21_race_witness : fieldOK d21Sites 0 = false ∧
    ∃ P, Conforms d21Sites P ∧ ∃ sched s, reach P sched = some s ∧ Race P s 0 :=
  ⟨by decide, race_of_disjoint_writers d21Sites 0 1 0 (by decide) (by decide) (by decide)⟩

set_option maxRecDepth 8192 in
theorem lock_order_ranked : ranksOK edges ranks = true := by decide

/-- no reachable state has a cycle of threads each waiting for a lock held by the next. -/
theorem no_lock_cycle : ∀ P, EdgeConforms edges P → Paired P →
    ∀ sched s, reach P sched = some s → ¬ Deadlock P s :=
  fun P hc hp => table_no_deadlock edges ranks lock_order_ranked P hc hp

/-- while some thread has work left, some thread can move (no global hang by locks). -/
theorem lock_progress : ∀ P, EdgeConforms edges P → Paired P →
    ∀ sched s, reach P sched = some s → ∀ t, Unfinished P s t → ∃ u, (step P s u).isSome :=
  fun P hc hp => table_progress edges ranks lock_order_ranked P hc hp

/-- pairing: every acquire is released on all paths or by a defer, except the transaction lock, which
    BeginTransaction hands over to the transaction object (released by Commit/Rollback: C17). -/
theorem pairing_table : unpaired =
    ["transaction.Manager.BeginTransaction:branch-changes-lock-state",
     "transaction.TransactionImpl.releaseReadLock:release-without-acquire:transaction.Manager.txLock",
     "transaction.TransactionImpl.releaseWriteLock:release-without-acquire:transaction.Manager.txLock"] := by decide

/-- what the syntactic analysis could not resolve: no lock expression; calls made under a lock only to WAL
    observers (replication callbacks; none registered on an embedded engine: C15) and inside the merged iterator
    of a single caller. -/
theorem unknowns_table : unknownLocks = [] ∧ unknownCalls =
    ["engine.MergedIterator.IsTombstone:iter.IsTombstone", "engine.MergedIterator.IsTombstone:source.GetIterator",
     "engine.MergedIterator.SeekToLast:m.sources[i].GetLevel",
     "wal.WAL.notifyBatchObservers:observer.OnWALBatchWritten", "wal.WAL.notifyEntryObservers:observer.OnWALEntryWritten",
     "wal.WAL.notifySyncObservers:observer.OnWALSync"] := by decide

/-! non-vacuity: the tables are not empty, the protected fields have writing sites, and a conforming program exists
    that exercises a protected field from two threads. -/
example : sites.length > 40 ∧ edges.length > 20 ∧ fields.length = fieldNames.length := by decide
example : (rowsOf sites (fieldId "storage.Manager.sstables")).any (·.write) = true := by decide
example : fieldId "storage.Manager.immutableMTs" ∈ fields ∧ fieldId "storage.Manager.wal" ∈ fields ∧
    fieldId "transaction.TransactionImpl.lastActiveTime" ∈ fields := by decide

end Kevo.Props.C07
