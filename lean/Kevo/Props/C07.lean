/-
  C07 — Concurrent use never races, crashes or hangs the process.                                  (PARTIAL)

  What is proved: two generic theorems about the interleaving semantics of Kevo.Model.ConcCore
  (`lockset_drf`, `lockorder_no_deadlock`, plus the pairwise generalisation and a progress theorem), and their
  instances for the lock-set / lock-order / pairing TABLES that extract/extract_locks.go regenerates from /repo's
  source on every run (Kevo.Gen.Locks), discharged by `decide` and lifted by Kevo.Proofs.ConcTable.

  What this decides: freedom from data races ON THE ENUMERATED SHARED FIELDS, and freedom from lock-cycle deadlock,
  for every program that conforms to the tables (`Conforms`, `EdgeConforms`, `Paired`: the soundness of the
  syntactic lock analysis is an assumption, validated dynamically by the `race` component under the race detector).
  It does not decide panics or fatal errors in general, preemption inside a Go statement, weak-memory effects, real
  blocking times, or Go's writer preference on RWMutex.

  Known racy fields are excluded EXPLICITLY from the table theorem and must really fail the check
  (`known_racy_are_racy`), so the list cannot go stale:
    storage.Manager.immutableMTs              D21  appended under mu, read/truncated under flushMu only
    storage.Manager.wal                       D36  plain read under mu.RLock in GetWAL, atomic store under flushMu only
    transaction.TransactionImpl.lastActiveTime D22 written under tx.mu, read under the registry lock only
-/
import Kevo.Proofs.ConcCore
import Kevo.Proofs.ConcTable
import Kevo.Gen.Locks
namespace Kevo.Props.C07
open Kevo.Conc Kevo.Gen.Locks

/-! ### the two generic theorems (proved once) -/

theorem lockset_drf (P : Prog) (x : Var) (h : (∃ m, Protects P m x) ∨ AllAtomic P x) :
    ∀ sched s, reach P sched = some s → ¬ Race P s x :=
  Kevo.Conc.lockset_drf P x h

theorem pairwise_drf (P : Prog) (x : Var) (h : PairProtected P x) :
    ∀ sched s, reach P sched = some s → ¬ Race P s x :=
  Kevo.Conc.pairwise_drf P x h

theorem lockorder_no_deadlock (P : Prog) (hac : Acyclic (Edge P)) (hp : Paired P) :
    ∀ sched s, reach P sched = some s → ¬ Deadlock P s :=
  Kevo.Conc.lockorder_no_deadlock P hac hp

theorem lockorder_progress (P : Prog) (rank : Lock → Nat) (N : Nat)
    (hrank : ∀ a b, Edge P a b → rank a < rank b) (hN : ∀ a, rank a ≤ N) (hp : Paired P) :
    ∀ sched s, reach P sched = some s → ∀ t, Unfinished P s t → ∃ u, (step P s u).isSome :=
  Kevo.Conc.lockorder_progress P rank N hrank hN hp

/-! ### instances for the generated tables -/

def fieldId (name : String) : Nat := fieldNames.idxOf name
def lockId (name : String) : Nat := lockNames.idxOf name

def knownRacyNames : List String :=
  ["storage.Manager.immutableMTs", "storage.Manager.wal", "transaction.TransactionImpl.lastActiveTime"]

def knownRacy : List Nat := knownRacyNames.map fieldId

set_option maxRecDepth 8192 in
theorem table_fields_ok : ∀ f ∈ fields, f ∉ knownRacy → fieldOK sites f = true := by decide

/-- data-race freedom on every enumerated field except the known racy ones, for every conforming program. -/
theorem fields_race_free : ∀ f ∈ fields, f ∉ knownRacy →
    ∀ P, Conforms sites P → ∀ sched s, reach P sched = some s → ¬ Race P s f :=
  fun f hf hk P hc => table_drf sites f (table_fields_ok f hf hk) P hc

set_option maxRecDepth 8192 in
theorem table_discipline_ok : ∀ f ∈ fields, f ∉ knownRacy → disciplineOK sites lockNames.length f = true := by
  decide

/-- the same through the classic lock-set discipline (one lock held at every site, exclusively at writes; or all
    accesses atomic) — instance of `lockset_drf`. -/
theorem fields_lockset_discipline : ∀ f ∈ fields, f ∉ knownRacy →
    ∀ P, Conforms sites P → ∀ sched s, reach P sched = some s → ¬ Race P s f :=
  fun f hf hk P hc => table_lockset_drf sites lockNames.length f (table_discipline_ok f hf hk) P hc

set_option maxRecDepth 8192 in
/-- every excluded field is a tracked field and really fails the check (the exclusion list cannot go stale). -/
theorem known_racy_are_racy : ∀ f ∈ knownRacy, f ∈ fields ∧ fieldOK sites f = false := by decide

set_option maxRecDepth 8192 in
/-- D21 as a schedule: a program that conforms to the table and reaches a state with a race on immutableMTs
    (scheduleFlush appends under `mu`, FlushMemTables truncates under `flushMu`). -/
theorem immutableMTs_race_witness :
    ∃ P, Conforms sites P ∧ ∃ sched s, reach P sched = some s ∧ Race P s (fieldId "storage.Manager.immutableMTs") :=
  race_of_disjoint_writers sites (fieldId "storage.Manager.immutableMTs")
    (lockId "storage.Manager.mu") (lockId "storage.Manager.flushMu") (by decide) (by decide) (by decide)

set_option maxRecDepth 8192 in
theorem lock_order_ranked : ranksOK edges ranks = true := by decide

/-- no reachable state has a cycle of threads each waiting for a lock held by the next. -/
theorem no_lock_cycle : ∀ P, EdgeConforms edges P → Paired P →
    ∀ sched s, reach P sched = some s → ¬ Deadlock P s :=
  fun P hc hp => table_no_deadlock edges ranks lock_order_ranked P hc hp

/-- while some thread has work left, some thread can move (no global hang by locks). -/
theorem lock_progress : ∀ P, EdgeConforms edges P → Paired P →
    ∀ sched s, reach P sched = some s → ∀ t, Unfinished P s t → ∃ u, (step P s u).isSome :=
  fun P hc hp => table_progress edges ranks lock_order_ranked P hc hp

/-- pairing: every acquire is released on all paths or by a defer, except the transaction lock, which
    BeginTransaction hands over to the transaction object (released by Commit/Rollback: C17). -/
theorem pairing_table : unpaired =
    ["transaction.Manager.BeginTransaction:branch-changes-lock-state",
     "transaction.TransactionImpl.releaseReadLock:release-without-acquire:transaction.Manager.txLock",
     "transaction.TransactionImpl.releaseWriteLock:release-without-acquire:transaction.Manager.txLock"] := by decide

/-- what the syntactic analysis could not resolve: no lock expression; calls made under a lock only to WAL
    observers (replication callbacks; none registered on an embedded engine: C15) and inside the merged iterator
    of a single caller. -/
theorem unknowns_table : unknownLocks = [] ∧ unknownCalls =
    ["engine.MergedIterator.IsTombstone:iter.IsTombstone", "engine.MergedIterator.IsTombstone:source.GetIterator",
     "engine.MergedIterator.SeekToLast:m.sources[i].GetLevel",
     "wal.WAL.notifyBatchObservers:observer.OnWALBatchWritten", "wal.WAL.notifyEntryObservers:observer.OnWALEntryWritten",
     "wal.WAL.notifySyncObservers:observer.OnWALSync"] := by decide

/-! non-vacuity: the tables are not empty, the protected fields have writing sites, and a conforming program exists
    that exercises a protected field from two threads. -/
example : sites.length > 40 ∧ edges.length > 20 ∧ fields.length = fieldNames.length := by decide
example : (rowsOf sites (fieldId "storage.Manager.sstables")).any (·.write) = true := by decide
example : fieldId "storage.Manager.sstables" ∈ fields ∧ fieldId "storage.Manager.sstables" ∉ knownRacy := by decide

end Kevo.Props.C07
