/-
  C06 — Concurrent gets, puts and deletes are linearizable.                                         (PARTIAL)

  Model: Kevo.Model.ConcStorage — unboundedly many client threads running arbitrary programs of put / get / delete
  against storage.Manager: RW lock `mu`, writer micro-steps (lock; getWAL; Append = status check, buffer, maybeSync
  Closed check; memtable insert = linearization point; scheduleFlush; unlock) with the ErrWALRotating retry, reader
  (rlock; lookup = linearization point; runlock), the flush goroutine's rotation (SetRotating; new log + pointer swap;
  close) and its store micro-steps (rotate / flush + publish a table under mu / truncate the list), ghost call /
  linearization / return trace. The store layer is a parameter (`Store`) whose axioms are proved for the abstract
  map (`mapStore`) and for the sequential engine model of C01 (`engineStore`, Kevo.Proofs.ConcStorageEngine).
  Spec: Kevo.Spec.Lin — the standard definition of linearizability and the map specification with failing writes.

  PARTIAL: the model preempts only between its micro-steps: it cannot exhibit preemption inside a Go statement,
  weak-memory effects, real blocking times (the 10 ms sleeps are a retry count) or panics outside the modelled ones.
  Tie: lock-set / lock-order / call-order facts; stress component `lin` on the real engine.
-/
import Kevo.Proofs.ConcStorage
import Kevo.Proofs.ConcStorageEngine
import Kevo.Proofs.Lin
namespace Kevo.Props.C06
open Kevo Kevo.Spec Kevo.Lin Kevo.ConcStorage

/-- the once-proved bridge: a well-formed ghost trace (every linearization point after its call and before its
    return, at most one per operation) whose linearization log is legal gives the STANDARD definition. -/
theorem witness_linearizable {Op Out : Type} (S : SeqSpec Op Out) (rtr : List (TEv Op Out))
    (hwf : WF rtr) (hlegal : legal S ((linlog rtr).map (·.2))) : Lin.linearizable S (history rtr) :=
  Kevo.Lin.witness_linearizable S rtr hwf hlegal

/-- (1) every reachable history is linearizable w.r.t. the map specification: there is a total order of the completed
    (and some pending) operations, consistent with real-time precedence, in which every get returns the latest
    preceding write of its key, a successful write takes effect and a failed write has no effect (in memory). -/
theorem linearizable (S : Store) (cfg : Cfg) (sched : List Act) (s : St S) (h : reach S cfg sched = some s) :
    Lin.linearizable mapSpec (hist s) :=
  Kevo.ConcStorage.linearizable S cfg sched s h

/-- (1') the same for the sequential engine model of C01 as the store (memtable pool, immutable list, SSTables; flush
    and rotation as concurrent background micro-steps). -/
theorem linearizable_engine (ecfg : Engine.Cfg) (cfg : Cfg) (sched : List Act) (s : St (engineStore ecfg))
    (h : reach (engineStore ecfg) cfg sched = some s) : Lin.linearizable mapSpec (hist s) :=
  Kevo.ConcStorage.linearizable (engineStore ecfg) cfg sched s h

/-- (2) a write that returned success was linearized exactly once (with output ok) ... -/
theorem success_once (S : Store) (cfg : Cfg) (sched : List Act) (s : St S) (h : reach S cfg sched = some s)
    (i : Nat) (hr : Ev.ret i COut.ok ∈ hist s) :
    ∃ op, (i, op, COut.ok) ∈ linlog s.tr ∧ ∀ q ∈ linlog s.tr, q.1 = i → q = (i, op, COut.ok) :=
  Kevo.ConcStorage.success_once S cfg sched s h i hr

/-- ... and its record is in the log. -/
theorem success_in_log (S : Store) (cfg : Cfg) (sched : List Act) (s : St S) (h : reach S cfg sched = some s)
    (i : Nat) (hr : Ev.ret i COut.ok ∈ hist s) : i ∈ allRecs s :=
  Kevo.ConcStorage.success_in_log S cfg sched s h i hr

/-- (3) a write that returned an error took no effect: neither in memory (it is linearized with output err, which the
    specification maps to "state unchanged") nor in the log (no record of it in any log file). FULL strength since the
    repair f92d9b5; before it (D19) syncLocked refused a log that had started rotating after the record was buffered. -/
theorem error_no_effect (S : Store) (cfg : Cfg) (sched : List Act) (s : St S) (h : reach S cfg sched = some s)
    (i : Nat) (hr : Ev.ret i COut.err ∈ hist s) :
    (∃ op, (i, op, COut.err) ∈ linlog s.tr) ∧ i ∉ allRecs s :=
  Kevo.ConcStorage.error_no_effect S cfg sched s h i hr

/-- (3a) an acknowledged write is in the log exactly once. -/
theorem log_once (S : Store) (cfg : Cfg) (sched : List Act) (s : St S) (h : reach S cfg sched = some s)
    (i : Nat) (hr : Ev.ret i COut.ok ∈ hist s) : (allRecs s).count i = 1 :=
  Kevo.ConcStorage.log_once S cfg sched s h i hr

/-- (3b) the reason: an append never fails after its record was buffered — the only refusal left in syncLocked is a
    CLOSED log, and a log is closed (and the pointer swapped) only while nobody is inside Append on it (Close and
    GetNextSequence need the log's mutex; the appending thread is the holder of `mu`). -/
theorem no_late (S : Store) (cfg : Cfg) (sched : List Act) (s : St S) (h : reach S cfg sched = some s) : s.late = 0 :=
  Kevo.ConcStorage.no_late S cfg sched s h

/-- (3c) the former D19 schedule (record buffered, then SetRotating, then the sync) now ends with success and exactly
    one record. -/
theorem rotation_inside_append_ok : ∃ sched s, reach mapStore { syncImmediate := true } sched = some s ∧
    Ev.ret 0 COut.ok ∈ hist s ∧ (allRecs s).count 0 = 1 ∧ s.late = 0 :=
  Kevo.ConcStorage.rotation_inside_append_ok

/-- (3d) errors still exist (so `error_no_effect` is not vacuous): three attempts that all find the log Rotating at the
    entry of Append return an error, and the log stays empty. -/
theorem error_reachable_witness : ∃ sched s, reach mapStore { syncImmediate := true } sched = some s ∧
    Ev.ret 0 COut.err ∈ hist s ∧ allRecs s = [] :=
  Kevo.ConcStorage.error_reachable_witness

/-- (4) the lock does its job: a thread inside the writer's critical section excludes every other writer and reader. -/
theorem mutual_exclusion (S : Store) (cfg : Cfg) (sched : List Act) (s : St S) (h : reach S cfg sched = some s)
    (t u : Nat) (r r' : Run) (ht : s.th t = some r) (hu : s.th u = some r') (hw : holdsW r = true)
    (hx : holdsW r' = true ∨ holdsR r' = true) : t = u :=
  Kevo.ConcStorage.mutual_exclusion S cfg sched s h t u r r' ht hu hw hx

/-! non-vacuity: a 2-writer / 1-reader schedule with a rotation and a background flush step on the engine store is
    reachable, all three operations return, and the reader (which starts after writer 0 returned) sees its value. -/
def exSched : List Act :=
  [.start 0 (.put [1] [7]), .step 0, .step 0, .step 0, .step 0, .rot, .step 0, .step 0, .step 0,   -- put [1] [7] by thread 0, SetRotating inside
   .start 2 (.get [1]), .start 1 (.del [2]), .step 2, .step 2, .rot, .bg 0, .step 2, .step 2, .bg 2, -- get by thread 2 overlapping the pointer swap
   .step 1, .step 1, .step 1, .step 1, .step 1, .step 1, .step 1, .rot]                             -- delete by thread 1 on the new log; old log closed                                     -- delete by thread 1

def exProj (o : Option (St (engineStore { memTableSize := 40 }))) :
    Option (Nat × List (List Nat) × Nat × Bool × List (Nat × Option Bytes)) :=
  o.map (fun s => (s.tr.length, s.wals.map (·.recs), s.late, (s.th 0).isNone && (s.th 1).isNone && (s.th 2).isNone,
                   s.tr.filterMap (fun e => match e with | .ret i (.val v) => some (i, v) | _ => none)))

example : exProj (reach (engineStore { memTableSize := 40 }) { syncImmediate := false } exSched) =
    some (9, [[0], [2]], 0, true, [(1, some [7])]) := rfl

end Kevo.Props.C06
