/-
  C13 — A replica applies the primary's log in order, exactly once.

  Statements concern the model (Kevo.Model.Applier); the tie to pkg/replication is the differential component
  `applier` (real WALBatchApplier, real serialiser, real Primary selection, real EngineApplier; line-by-line
  equality with the model driver), the source facts in extract/expect/applier.json, and the constants regenerated
  into Kevo.Gen.Applier.

  Vocabulary. `L` = the primary's log; a log WITHOUT shared numbers is numbered `first, first+1, …`
  (`NoSharedSeq first L`); `start` = the replica's start position (everything numbered ≤ start applied, `first ≤ start+1`);
  a delivery schedule is a list of events: `deliver m` (a stream message built from the log entries `m`), `poll`
  / `pollAck` (the primary's own selection rule from expectedNext / lastAck+1, cut at the poll limit),
  `ack`, `reconnect`. Nothing is assumed about the order, repetition or loss of messages.
  `applied` = the entries for which the apply callback returned nil, in call order (`appliedLog`).
-/
import Kevo.Model.Applier
import Kevo.Proofs.Applier
import Kevo.Gen.Applier
namespace Kevo.Props.C13
open Kevo Kevo.Applier Kevo.Proofs.Applier

/-- numbered `first, first+1, first+2, …`: no two entries share a number (no transaction in the log) -/
abbrev NoSharedSeq (first : Nat) (L : List Entry) : Prop := SeqFrom first L
/-- entries as the log reader hands them out: known operation type, number < 2^64-1, key ≤ 1 MiB, value ≤ 10 MiB,
    a delete carries no value -/
abbrev LogOK (P : Params) (L : List Entry) : Prop := ∀ e ∈ L, EntryOK P e
/-- the log a replica at `start` has still to apply: `L.dropWhile (seq ≤ start)` -/
abbrev rest (start : Nat) (L : List Entry) : List Entry := after start L
/-- the run of a schedule on a fresh replica (`NewReplica(start, …)`) -/
abbrev runFrom {κ : Type} (P : Params) (cb : κ → Entry → κ × Bool) (L : List Entry) (start : Nat) (k : κ)
    (s : List Event) : Replica κ := Replica.run P cb L (Replica.new start k) s

/-- (0) the wire encoding is lossless: `DeserializeWALEntry (SerializeWALEntry e) = e`. -/
theorem deserialize_serialize (P : Params) (hP : P.WF) (e : Entry) (he : EntryOK P e) :
    deserialize P (serialize P e) = .ok e :=
  Kevo.Proofs.Applier.deserialize_serialize P hP e he

/-- (1) THE PROPERTY for logs without shared numbers. Whatever the schedule — any split of the log into batches
    (`Contiguous`: every message is a run of consecutive log entries, which is what every sender of the code
    forms), any duplication, reordering, loss, overlap of pushed and polled batches, polls, acknowledgements and
    reconnects at any point — the sequence of entries handed to the apply callback is a PREFIX of the log from
    the start position: in primary order, none skipped, none twice. (Callback that does not fail.) -/
theorem applied_is_prefix {κ : Type} (P : Params) (hP : P.WF) (L : List Entry) (first start : Nat)
    (hL : NoSharedSeq first L) (hOK : LogOK P L) (hpos : first ≤ start + 1) (hb : start + 1 < 2 ^ 64)
    (cb : κ → Entry → κ × Bool) (hcb : ∀ k e, (cb k e).2 = true) (k : κ)
    (s : List Event) (hs : ∀ ev ∈ s, Contiguous L ev) :
    (runFrom P cb L start k s).applied <+: rest start L := by
  have hC : Ctx P L first start := ⟨hP, hL, hOK, hpos, hb⟩
  obtain ⟨c, _, hI, _, _⟩ := run_inv hC cb s _ 0 (Inv.init hC k) (fun ev h => (hs ev h).genuine)
  have hcl := run_clean hC cb hcb s (Replica.new start k) rfl hs
  show (Replica.run P cb L (Replica.new start k) s).applied <+: after start L
  rw [hcl, hI.com, after_eq_drop start L first hL]
  exact List.take_prefix _ _

/-- the name FRAMEWORK.md asks for the proved part of an open full-strength statement -/
theorem applied_is_prefix_partial {κ : Type} (P : Params) (hP : P.WF) (L : List Entry) (first start : Nat)
    (hL : NoSharedSeq first L) (hOK : LogOK P L) (hpos : first ≤ start + 1) (hb : start + 1 < 2 ^ 64)
    (cb : κ → Entry → κ × Bool) (hcb : ∀ k e, (cb k e).2 = true) (k : κ)
    (s : List Event) (hs : ∀ ev ∈ s, Contiguous L ev) :
    (runFrom P cb L start k s).applied <+: rest start L :=
  applied_is_prefix P hP L first start hL hOK hpos hb cb hcb k s hs

/-- (2) For ARBITRARY messages (any lists of genuine log entries: holes, reversals, repeats inside a message) and
    an ARBITRARY callback (failing whenever it likes): the entries of the batches that `ApplyEntries` completed —
    what the counters speak about — are exactly `c` entries of the log from the start position, the counters are
    `maxApplied = start + c`, `expectedNext = start + c + 1`, and all of them have really been handed to the
    callback, in that order (sublist of `applied`). -/
theorem committed_is_prefix {κ : Type} (P : Params) (hP : P.WF) (L : List Entry) (first start : Nat)
    (hL : NoSharedSeq first L) (hOK : LogOK P L) (hpos : first ≤ start + 1) (hb : start + 1 < 2 ^ 64)
    (cb : κ → Entry → κ × Bool) (k : κ) (s : List Event) (hs : ∀ ev ∈ s, Genuine L ev) :
    let r := runFrom P cb L start k s
    ∃ c, r.committed = (rest start L).take c ∧ r.committed.length = c ∧
      r.app.maxApplied = start + c ∧ r.app.expectedNext = start + c + 1 ∧ r.committed.Sublist r.applied := by
  have hC : Ctx P L first start := ⟨hP, hL, hOK, hpos, hb⟩
  obtain ⟨c, _, hI, _, _⟩ := run_inv hC cb s _ 0 (Inv.init hC k) hs
  refine ⟨c, ?_, ?_, hI.max, by rw [hI.next]; omega, hI.sub⟩
  · show (Replica.run P cb L (Replica.new start k) s).committed = (after start L).take c
    rw [hI.com, after_eq_drop start L first hL]
  · show (Replica.run P cb L (Replica.new start k) s).committed.length = c
    rw [hI.com, List.length_take, List.length_drop]
    rcases hI.len with h | h <;> omega

/-- (3) The reported numbers — `maxApplied`, `Replica.lastAppliedSeq` (GetLastAppliedSequence), `lastAck` and every
    acknowledgement sent — never decrease along a run (`s₁` then `s₂`) and never exceed what has been applied:
    they are bounded by `maxApplied = start + c`, and the `c` log entries numbered `start+1 … start+c` have all
    been handed to the callback. Arbitrary messages of genuine entries, arbitrary callback. -/
theorem reported_monotone {κ : Type} (P : Params) (hP : P.WF) (L : List Entry) (first start : Nat)
    (hL : NoSharedSeq first L) (hOK : LogOK P L) (hpos : first ≤ start + 1) (hb : start + 1 < 2 ^ 64)
    (cb : κ → Entry → κ × Bool) (k : κ) (s₁ s₂ : List Event) (hs : ∀ ev ∈ s₁ ++ s₂, Genuine L ev) :
    let a := runFrom P cb L start k s₁
    let b := runFrom P cb L start k (s₁ ++ s₂)
    (a.app.maxApplied ≤ b.app.maxApplied ∧ a.lastApplied ≤ b.lastApplied ∧ a.app.lastAck ≤ b.app.lastAck) ∧
    (b.lastApplied ≤ b.app.maxApplied ∧ b.app.lastAck ≤ b.app.maxApplied ∧ (∀ x ∈ b.acks, x ≤ b.app.maxApplied)) ∧
    (∃ c, b.app.maxApplied = start + c ∧ ((rest start L).take c).length = c ∧ ((rest start L).take c).Sublist b.applied) := by
  have hC : Ctx P L first start := ⟨hP, hL, hOK, hpos, hb⟩
  obtain ⟨c1, _, hI1, _, _⟩ := run_inv hC cb s₁ _ 0 (Inv.init hC k) (fun ev h => hs ev (by simp [h]))
  obtain ⟨c2, h12, hI2, hla, hak⟩ := run_inv hC cb s₂ _ c1 hI1 (fun ev h => hs ev (by simp [h]))
  have hrun : Replica.run P cb L (Replica.new start k) (s₁ ++ s₂) =
      Replica.run P cb L (Replica.run P cb L (Replica.new start k) s₁) s₂ := by
    simp [Replica.run, List.foldl_append]
  show (_ ∧ _ ∧ _) ∧ (_ ∧ _ ∧ _) ∧ _
  simp only [runFrom, hrun]
  refine ⟨⟨by rw [hI1.max, hI2.max]; omega, hla, hak⟩, ⟨hI2.la, hI2.ack, hI2.acks⟩, ⟨c2, hI2.max, ?_, ?_⟩⟩
  · show ((after start L).take c2).length = c2
    rw [after_eq_drop start L first hL, List.length_take, List.length_drop]
    rcases hI2.len with h | h <;> omega
  · show ((after start L).take c2).Sublist _
    rw [after_eq_drop start L first hL, ← hI2.com]; exact hI2.sub

/-- (4a) An error in the middle of a batch skips nothing: whenever `ApplyEntries` fails on a batch of genuine
    entries — rejected first number, hole inside the batch, callback error — the applier is left exactly as it
    was (`expectedNext` still points at or before the failed entry, which therefore must be delivered again
    before anything later is accepted) … although the entries `done` before the failure HAVE been applied. -/
theorem apply_error_no_skip {κ : Type} (P : Params) (hP : P.WF) (cb : κ → Entry → κ × Bool) (a : Applier) (k : κ)
    (e : Entry) (m : List Entry) (hok : ∀ x ∈ e :: m, EntryOK P x) :
    let res := applyEntries P cb a k ((e :: m).map (toWire P))
    res.outcome ≠ .ok → res.app = a ∧ res.ret = a.maxApplied ∧ res.done <+: (e :: m) ∧
      (res.done ≠ [] → SeqFrom a.expectedNext res.done) := by
  intro res hne
  obtain ⟨hgap, hrun⟩ := applyEntries_spec P hP cb a k e m hok
  by_cases hseq : e.seq = a.expectedNext
  · obtain ⟨j, _, hd, hs, hcase⟩ := hrun hseq
    rcases hcase with ⟨ho, _⟩ | ⟨_, happ, hret⟩
    · exact absurd ho hne
    · exact ⟨happ, hret, hd ▸ List.take_prefix _ _, fun _ => by rw [hd, ← hseq]; exact hs⟩
  · obtain ⟨_, happ, hd, hret⟩ := hgap hseq
    exact ⟨happ, hret, hd ▸ List.nil_prefix, fun h => absurd hd h⟩

/-- (4b) … and globally, for arbitrary messages of genuine entries and an arbitrary callback: the numbers handed to
    the callback never jump ahead — an entry is applied only after every earlier entry (from the start position)
    has been applied at least once. (`NoSkip f xs`: each element of `xs` is ≤ the smallest number not seen so far,
    starting from `f`.) Re-application is NOT excluded here: see `partial_batch_reapplied_witness`. -/
theorem applied_no_skip {κ : Type} (P : Params) (hP : P.WF) (L : List Entry) (first start : Nat)
    (hL : NoSharedSeq first L) (hOK : LogOK P L) (hpos : first ≤ start + 1) (hb : start + 1 < 2 ^ 64)
    (cb : κ → Entry → κ × Bool) (k : κ) (s : List Event) (hs : ∀ ev ∈ s, Genuine L ev) :
    NoSkip (start + 1) ((runFrom P cb L start k s).applied.map (·.seq)) := by
  have hC : Ctx P L first start := ⟨hP, hL, hOK, hpos, hb⟩
  obtain ⟨c, _, hI, _, _⟩ := run_inv hC cb s _ 0 (Inv.init hC k) hs
  exact hI.ns

/-- the primary's selection for a log without shared numbers is a run of the log (so `poll` is a contiguous
    message) and consists of genuine entries numbered ≥ `from` in any log. -/
theorem select_spec (L : List Entry) (from_ limit cap : Nat) :
    (∀ e ∈ select L from_ limit cap, e ∈ L ∧ e.seq ≥ from_) ∧ (select L from_ limit cap).length ≤ limit ∧
    (∀ first, NoSharedSeq first L → select L from_ limit cap <:+: L) := by
  refine ⟨fun e he => ?_, by simp [select, List.length_take]; omega, fun first h => select_infix h _ _ _⟩
  have := List.mem_filter.mp (List.mem_of_mem_take (List.mem_of_mem_take he))
  exact ⟨this.1, by simpa using this.2⟩

/-- the response byte cap (repair 7e3a1f2) never empties a selection: whenever the log holds an entry numbered `from` or
    later and the entry limit is positive, the response carries at least one entry — the stream always advances — and
    the selection is a PREFIX of the uncapped one (the cap only shortens a response, it never reorders or skips) -/
theorem select_cap_progress (L : List Entry) (from_ limit cap : Nat) (hl : 0 < limit)
    (h : ∃ e ∈ L, e.seq ≥ from_) :
    select L from_ limit cap ≠ [] ∧ select L from_ limit cap <+: (L.filter (fun e => e.seq ≥ from_)).take limit := by
  refine ⟨?_, List.take_prefix _ _⟩
  obtain ⟨e, he, hge⟩ := h
  have hmem : e ∈ L.filter (fun e => decide (e.seq ≥ from_)) := List.mem_filter.mpr ⟨he, by simpa using hge⟩
  unfold select
  simp only []
  cases hf : L.filter (fun e => decide (e.seq ≥ from_)) with
  | nil => rw [hf] at hmem; cases hmem
  | cons x xs =>
    obtain ⟨n, rfl⟩ : ∃ n, limit = n + 1 := ⟨limit - 1, by omega⟩
    rw [List.take_succ_cons]
    have := Kevo.Proofs.Applier.capCount_pos cap x (xs.take n)
    obtain ⟨m, hm⟩ : ∃ m, capCount cap 0 0 (x :: xs.take n) = m + 1 := ⟨_, (Nat.succ_pred_eq_of_pos this).symm⟩
    rw [hm, List.take_succ_cons]
    exact List.cons_ne_nil _ _

/-- WHEN does the hypothesis `NoSharedSeq` hold? Exactly for primaries that never commit a multi-entry batch: the
    abstract log of C08/C09 (`Kevo.Spec.ALog`, to which the WAL model is proved to refine in C09) of a history
    without a batch of two or more entries is numbered 1, 2, 3, … -/
theorem no_transactions_no_shared_seq (ops : List Kevo.Spec.LogOp) (h : ∀ o ∈ ops, NoTx o) :
    NoSharedSeq 1 (Kevo.Spec.ALog.run ops).entries :=
  noSharedSeq_of_program ops h

/-- … and a single two-entry batch already produces a log outside the hypothesis (but of the WAL's shape). -/
example : let L := (Kevo.Spec.ALog.run [.append 1 [97] [1], .batch [(1, [98], [2]), (2, [99], [])], .append 1 [100] [3]]).entries
    ¬ NoSharedSeq 1 L ∧ L.map (·.seq) = [1, 2, 2, 3] := by
  decide

/-- the generated constants have the shape the proofs need -/
theorem consts_wf : Kevo.Gen.applierParams.WF := Kevo.Gen.applierParams_wf

/-! ## The full-strength statements, and why they are false on this tree (D29 and partial batches)

On this tree a transaction is written by `wal.AppendBatch` as several entries SHARING one sequence number, while
`ApplyEntries` demands `entries[i] = entries[i-1] + 1` inside a batch and `entries[0] = expectedNext` at its head:
to the applier a number is one entry. The witnesses below run the model (constants as extracted, poll limit 100)
with `decide`; the same schedules are run against the real code by the `applier` component (fixed case `cut100`
and the `shared` cases), where they are reported as KNOWN FINDING KF-C13-shared-seq. -/

/-- the shape of a log written by the WAL: numbers never decrease and grow by at most one (equal inside a transaction) -/
def walShaped : List Entry → Bool
  | [] => true
  | [_] => true
  | a :: b :: tl => (b.seq == a.seq || b.seq == a.seq + 1) && walShaped (b :: tl)

/-- FULL STATEMENT (open, false here): as `applied_is_prefix` but for every log the WAL can produce, transactions
    included. -/
def applied_is_prefix_statement : Prop :=
  ∀ (P : Params) (L : List Entry) (start : Nat) (s : List Event),
    P.WF → walShaped L = true → LogOK P L → start + 1 < 2 ^ 64 → (∀ ev ∈ s, Contiguous L ev) →
    (runFrom P (fun (_ : Unit) _ => ((), true)) L start () s).applied <+: rest start L

/-- FULL STATEMENT (open, false here) for faulty deliveries: logs without shared numbers, but messages that are
    arbitrary lists of genuine entries and an apply callback that may fail. -/
def applied_is_prefix_faults_statement : Prop :=
  ∀ (P : Params) (L : List Entry) (first start : Nat) (cb : Bool → Entry → Bool × Bool) (k : Bool) (s : List Event),
    P.WF → NoSharedSeq first L → LogOK P L → first ≤ start + 1 → start + 1 < 2 ^ 64 → (∀ ev ∈ s, Genuine L ev) →
    (runFrom P cb L start k s).applied <+: rest start L

def P0 : Params := Kevo.Gen.applierParams
def put (seq k v : Nat) : Entry := { op := 1, seq, key := [UInt8.ofNat k], val := [UInt8.ofNat v] }
/-- a callback that never fails -/
def cbOk : Unit → Entry → Unit × Bool := fun _ _ => ((), true)
/-- a callback that fails once, on the first entry numbered 2 it is handed -/
def cbFailOnce : Bool → Entry → Bool × Bool := fun armed e => if armed && e.seq == 2 then (false, false) else (armed, true)

/-- 99 single writes, a transaction of two entries under number 100, one more write -/
def cutLog : List Entry :=
  (List.range 99).map (fun i => put (i + 1) 107 i) ++ [put 100 116 1, put 100 116 2, put 101 122 3]
/-- a write, a transaction of two entries under number 2, a write -/
def txLog : List Entry := [put 1 97 1, put 2 116 1, put 2 116 2, put 3 122 1]
/-- three single writes -/
def plainLog : List Entry := [put 1 97 1, put 2 98 2, put 3 99 3]

set_option maxRecDepth 100000 in
/-- D29, the 100-entry cut. A fresh replica served by the primary's own rule (`poll` = entries from expectedNext,
    first 100): the first selection ends in the MIDDLE of the transaction; the replica applies it, reports and
    acknowledges 100; the next selection starts at 101, so the second entry of the transaction is never sent:
    it is skipped, while the replica reports 101. -/
theorem shared_seq_cut_witness :
    (select cutLog 1 P0.pollLimit P0.pollBytes).length = 100 ∧ (select cutLog 1 P0.pollLimit P0.pollBytes).getLast? = some (put 100 116 1) ∧
    (let r := runFrom P0 cbOk cutLog 0 () [.poll, .ack, .poll]
     r.applied = cutLog.take 100 ++ [put 101 122 3] ∧ put 100 116 2 ∉ r.applied ∧
     r.acks = [100] ∧ r.lastApplied = 101 ∧ r.app.expectedNext = 102 ∧ ¬ (r.applied <+: rest 0 cutLog)) := by
  decide

/-- D29, the whole transaction in one message: the first entry of the transaction is applied, the second is a
    "gap within batch"; nothing is counted, the Nack asks again from 1, and every retransmission applies
    `put 1` and the first half of the transaction AGAIN. The replica never gets past the transaction. -/
theorem shared_seq_in_batch_witness :
    (let r := runFrom P0 cbOk txLog 0 () [.poll, .poll, .poll]
     r.applied = [put 1 97 1, put 2 116 1, put 1 97 1, put 2 116 1, put 1 97 1, put 2 116 1] ∧
     r.nacks = [1, 1, 1] ∧ r.app.maxApplied = 0 ∧ r.app.expectedNext = 1 ∧ r.committed = []) := by
  decide

/-- D29, entry-by-entry pushes (what `RespectTxBoundaries` produces): the second entry of the transaction carries
    a number the replica has already counted: "gap", Nack from 3, and the retransmission continues with number 3.
    The second entry is skipped for good. -/
theorem shared_seq_push_witness :
    (let r := runFrom P0 cbOk txLog 0 ()
        [.deliver [put 1 97 1], .deliver [put 2 116 1], .deliver [put 2 116 2], .poll]
     r.applied = [put 1 97 1, put 2 116 1, put 3 122 1] ∧ r.nacks = [3] ∧ r.lastApplied = 3 ∧
     ¬ (r.applied <+: rest 0 txLog)) := by
  decide

/-- the open statement is false: the cut schedule is a counterexample. -/
theorem applied_is_prefix_statement_witness : ¬ applied_is_prefix_statement := by
  intro h
  have hs : ∀ ev ∈ [Event.poll, .ack, .poll], Contiguous cutLog ev := by
    intro ev hev
    simp only [List.mem_cons, List.not_mem_nil, or_false] at hev
    rcases hev with rfl | rfl | rfl <;> trivial
  have := h P0 cutLog 0 [.poll, .ack, .poll] consts_wf (by decide) (by decide) (by decide) hs
  exact shared_seq_cut_witness.2.2.2.2.2.2.2 this

/-- Partial batches (no shared numbers needed): `ApplyEntries` hands entries to the callback while it is still
    validating the batch and returns early without counting them. (a) a message with a hole `[1, 3]`: entry 1 is
    applied, "gap within batch", counters unchanged; the retransmission applies entry 1 again. (b) the callback
    fails on entry 2 of `[1, 2, 3]`: entry 1 has been applied and is not counted; the retransmission applies it
    again. In both runs `applied = [1, 1, 2, 3]`: not a prefix of the log — yet nothing is skipped
    (`applied_no_skip`) and what is counted is the prefix (`committed_is_prefix`). -/
theorem partial_batch_reapplied_witness :
    (let r := runFrom P0 cbOk plainLog 0 () [.deliver [put 1 97 1, put 3 99 3], .poll]
     r.applied = [put 1 97 1, put 1 97 1, put 2 98 2, put 3 99 3] ∧ r.committed = plainLog ∧ r.nacks = [1] ∧
     ¬ (r.applied <+: rest 0 plainLog)) ∧
    (let r := runFrom P0 cbFailOnce plainLog 0 true [.deliver plainLog, .poll]
     r.applied = [put 1 97 1, put 1 97 1, put 2 98 2, put 3 99 3] ∧ r.committed = plainLog ∧ r.failures = 1 ∧
     ¬ (r.applied <+: rest 0 plainLog)) := by
  decide

/-- the open statement for faulty deliveries is false: run (b) above is a counterexample. -/
theorem applied_is_prefix_faults_statement_witness : ¬ applied_is_prefix_faults_statement := by
  intro h
  have := h P0 plainLog 1 0 cbFailOnce true [.deliver plainLog, .poll] consts_wf (by decide) (by decide)
    (by decide) (by decide) (by decide)
  exact partial_batch_reapplied_witness.2.2.2.2 this

/-! ## non-vacuity: the hypotheses of the theorems hold for a concrete schedule with a duplicated, an overlapping
    and a reordered message, a lost message, a poll and a reconnect; the conclusion is not trivially true
    (everything after the start position is applied, exactly once). -/

/-- six entries numbered 1..6, among them a delete (no value) and a merge -/
def exLog : List Entry :=
  [put 1 97 1, put 2 98 2, { op := 2, seq := 3, key := [97], val := [] }, put 4 99 3,
   { op := 3, seq := 5, key := [98], val := [7, 7] }, put 6 100 4]

/-- replica at 2; batches [3,4] and [5]: [5] arrives first (gap), then [3,4], a duplicate of [3,4], an overlap
    [4,5] (rejected), reconnect, the sender's poll (5,6), acknowledgement, a late duplicate of [5] -/
def exSched : List Event :=
  [.deliver (exLog.drop 4 |>.take 1), .deliver (exLog.drop 2 |>.take 2), .deliver (exLog.drop 2 |>.take 2),
   .deliver (exLog.drop 3 |>.take 2), .reconnect, .poll, .ack, .deliver (exLog.drop 4 |>.take 1)]

example : P0.WF ∧ NoSharedSeq 1 exLog ∧ LogOK P0 exLog ∧ 1 ≤ 2 + 1 ∧ (∀ ev ∈ exSched, Contiguous exLog ev) ∧
    (runFrom P0 cbOk exLog 2 () exSched).applied = exLog.drop 2 ∧
    (runFrom P0 cbOk exLog 2 () exSched).nacks = [3, 5, 5, 7] ∧
    (runFrom P0 cbOk exLog 2 () exSched).acks = [6] := by
  decide

/-- the general theorems apply to the faulty run of `partial_batch_reapplied_witness` (arbitrary callback, a
    message with a hole): the hypotheses hold … -/
example : NoSharedSeq 1 plainLog ∧ LogOK P0 plainLog ∧
    (∀ ev ∈ [Event.deliver [put 1 97 1, put 3 99 3], .poll], Genuine plainLog ev) := by
  decide

/-- … and `EntryOK` admits a key at the 1 MiB limit and excludes a delete that carries a value. -/
example : EntryOK P0 { op := 1, seq := 2 ^ 64 - 2, key := List.replicate 1048576 0, val := [] } := by
  refine ⟨Or.inl rfl, by decide, ?_, fun _ => by decide, fun h => absurd h (by decide)⟩
  show (List.replicate 1048576 (0 : UInt8)).length ≤ _
  rw [List.length_replicate]; decide
example : ¬ EntryOK P0 { op := 2, seq := 1, key := [1], val := [1] } := by decide

end Kevo.Props.C13
