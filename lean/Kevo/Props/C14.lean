/-
  C14 — A connected replica converges to the primary's state.

  Model: Kevo.Model.Repl (message level; transition table and constants regenerated from state.go / primary.go into
  Kevo.Gen.Repl). PARTIAL by nature and by the state of the pinned tree:
  * "within bounded time" is real time; the model gives "finitely many fair rounds" and their number ⌈backlog/q⌉ for the guaranteed message size q (1 ≤ q ≤ limit, byte cap).
  * proved: convergence for every history of puts / deletes / single-operation transactions (no shared sequence number),
    whenever and however often the replica connected, lost messages or connections, PROVIDED fresh deliveries keep
    happening (`Fair`). On a stable log object the replica's own reconnect cycle is such a delivery
    (`fair_round_exists`); after a flush on the primary it is not (`stuck_after_flush`).
  * refuted for the full statement (witnesses on the model, replayed end to end by component `repl`): multi-operation
    transactions (D29, both clauses), a flush/rotation on the primary (D30);
    D31/D35 make every pushed batch / every applied batch cost an ERROR + back-off + reconnect.
  * repaired meanwhile (fix 236f30e, D35b): a session now starts with the entry BEFORE the requested one acknowledged, so
    the write that follows a caught-up replica is fetched by the next poll (`poll_fetches_write_after_catch_up`,
    `one_entry_late_converges`); the scenario class `onelate` is checked at full strength.
-/
import Kevo.Proofs.Repl
namespace Kevo.Props.C14
open Kevo.Repl Kevo.Gen.Repl Kevo.Proofs.Repl

/-- FULL statement (false on the pinned tree, kept): whatever the primary executed before — single writes, deletes,
    multi-key transactions, flushes/rotations — and whenever the replica joined or was restarted, once the primary is
    quiet every schedule that is fair for the primitive steps reaches the primary's visible state and stays there. -/
def converges_statement : Prop :=
  ∀ (acts : List Act) (x : Exec), x.w 0 = run (init pollLimit) acts → Quiescent x → PrimFair x →
    ∃ T, ∀ t, T ≤ t → converged (x.w t)

/-- every state reachable by covered histories satisfies the invariant "the replica holds a prefix of the log and every
    uncompressed batch in flight is a contiguous piece of the log" -/
theorem invariant_reachable (acts : List Act) (hcov : ∀ a ∈ acts, a.covered = true) :
    Inv (run (init pollLimit) acts) :=
  inv_run _ acts (inv_init pollLimit) hcov

/-- C14, proved part (liveness over fair schedules, ranking argument `|L| − applied`). -/
theorem converges_under_fairness (acts : List Act) (hcov : ∀ a ∈ acts, a.covered = true) (x : Exec)
    (h0 : x.w 0 = run (init pollLimit) acts) (hq : Quiescent x) (hf : Fair x) :
    ∃ T, ∀ t, T ≤ t → caughtUp (x.w t) ∧ (x.w t).ap.view = viewOf (x.w 0).log := by
  have hinv : Inv (x.w 0) := h0 ▸ invariant_reachable acts hcov
  have hlim : 0 < (x.w 0).limit := by
    have : (run (init pollLimit) acts).limit = pollLimit := by
      have : ∀ (w : World) (l : List Act), (∀ a ∈ l, a.covered = true) → Inv w → (run w l).limit = w.limit := by
        intro w l
        induction l generalizing w with
        | nil => intros; rfl
        | cons a t ih =>
          intro hc hi
          have h1 := inv_step_client a hi (hc a List.mem_cons_self)
          have hl : (step w a).limit = w.limit := by
            cases a <;> first
              | exact (inv_step_internal _ hi rfl).2.limit
              | (simp only [step, append]; repeat' split) <;> first | rfl | (unfold send; split <;> rfl)
          exact (ih (step w a) (fun b hb => hc b (List.mem_cons_of_mem _ hb)) h1.1).trans hl
      exact this _ acts hcov (inv_init pollLimit)
    rw [h0, this]; exact pollLimit_pos
  exact converges x hq hinv hlim hf

/-- `q` entries per message are guaranteed by the response byte cap (`pollBytes`, 8 MiB, regenerated from the source):
    every window the primary cuts an answer from keeps at least `min q (window length)` entries -/
abbrev Quantum := Kevo.Proofs.Repl.Quantum

/-- the byte cap never empties an answer: one entry per message is always guaranteed (an entry larger than the whole cap is
    still sent, alone) -/
theorem quantum_one (w : World) (hl : 0 < w.limit) : Quantum w 1 := Kevo.Proofs.Repl.quantum_one w hl

/-- a log whose entries together fit the cap is never cut by it: the full poll limit is guaranteed -/
theorem quantum_limit (w : World) (hs : (w.log.map Entry.size).sum ≤ pollBytes) : Quantum w w.limit :=
  Kevo.Proofs.Repl.quantum_limit w hs

/-- number of rounds: with `q` entries per message guaranteed, ⌈backlog / q⌉ fresh deliveries suffice (each one moves the
    cursor by min(q, backlog)); `q = 1` always (`quantum_one`): at most `backlog` rounds whatever the entry sizes;
    `q = limit` for a log that fits the cap (`quantum_limit`): ⌈backlog / limit⌉ rounds -/
theorem rounds_bound (x : Exec) (hq : Quiescent x) (h0 : Inv (x.w 0)) (q : Nat) (hl : 0 < q) (hqu : Quantum (x.w 0) q) (t : Nat)
    (hk : ((x.w 0).log.length + 1 - (x.w 0).ap.exp + q - 1) / q ≤ freshCount x t) :
    caughtUp (x.w t) ∧ converged (x.w t) :=
  Kevo.Proofs.Repl.rounds_bound x hq h0 q hl hqu t hk

theorem ranking_lower_bound (x : Exec) (hq : Quiescent x) (h0 : Inv (x.w 0)) (q : Nat) (hqu : Quantum (x.w 0) q) (t : Nat) :
    min ((x.w 0).log.length + 1) ((x.w 0).ap.exp + q * freshCount x t) ≤ (x.w t).ap.exp :=
  exp_lower_bound x hq h0 q hqu t

/-- the cap does cut: three entries of 3 MiB each in a log of three — the answer to "from 1" carries two of them
    (6 MiB ≤ 8 MiB < 9 MiB), the third follows in the next round; an entry of 9 MiB is still sent, alone -/
example : (selectFrom [{ seq := 1, key := 1, val := some (3145728 * 65536) }, { seq := 2, key := 2, val := some (3145728 * 65536 + 1) },
    { seq := 3, key := 3, val := some (3145728 * 65536 + 2) }] 1 100).map (·.seq) = [1, 2] := by decide
example : (selectFrom [{ seq := 1, key := 1, val := some (9437184 * 65536) }, { seq := 2, key := 2, val := some 5 }] 1 100).map (·.seq)
    = [1] := by decide

/-- safety: once caught up, no protocol or network step (poll, reconnect, stale or duplicated batches, loss) changes the
    replica's view -/
theorem stays_converged (w : World) (a : Act) (h : Inv w) (hc : caughtUp w) (ha : a.external = false) :
    caughtUp (step w a) ∧ converged (step w a) ∧ (step w a).ap.view = w.ap.view :=
  Kevo.Proofs.Repl.stays_converged w a h hc ha

/-- non-vacuity of `Fair`: while the primary holds the engine's current log object, the reconnect cycle the replica runs
    after every error (back-off, connect, initial send) ends in a fresh delivery -/
theorem fair_round_exists (w : World) (h : Inv w) (hs : w.stable = true) (hst : w.st = stError) (hl : 0 < w.limit)
    (hb : w.ap.exp ≤ w.log.length) :
    Fresh (run w [.backoff, .connect]) .recv ∧ Inv (run w [.backoff, .connect]) ∧ Ext w (run w [.backoff, .connect]) :=
  fresh_of_reconnect w h hs hst hl hb

/-- D30, general: once the primary's log object was replaced (and no uncompressed batch is still in flight), NO schedule
    of protocol and network steps changes the replica: it never converges if it has not already -/
theorem stuck_after_flush (w : World) (acts : List Act) (hs : w.stable = false) (hc : NoPlainBatch w)
    (ha : ∀ a ∈ acts, a.external = false) (hn : ¬ converged w) : ¬ converged (run w acts) := by
  obtain ⟨h1, h2⟩ := frozen_run w acts hs hc ha
  unfold converged at *; rw [h1, h2]; exact hn

/-! ### witnesses (decide on the model; replayed end to end by component `repl`) -/

/-- D35: the transition requested after a batch was handled in STREAMING is not in the table; neither is the one requested
    when data arrives in WAITING -/
theorem applied_batch_forces_backoff_witness :
    (stStreamingEntries, afterStreamingApply) ∉ allowed ∧ (stWaitingForData, stApplyingEntries) ∉ allowed ∧
    (run (init pollLimit) [.put 1 1, .connect, .recv]).st = stError ∧
    caughtUp (run (init pollLimit) [.put 1 1, .connect, .recv]) := by decide

/-- D31: pushed batches are flagged compressed, nothing compresses; the replica errors without applying them -/
theorem pushed_batch_rejected_witness :
    pushFlaggedCompressed = true ∧ compressCallers = 0 ∧
    (let w := run (init pollLimit) [.connect, .put 1 1, .put 2 2, .recv]
     w.st = stError ∧ w.ap.exp = 1 ∧ ¬ converged w) := by decide

/-- D29: after a transaction with two operations the reconnect cycle is a fixed point that is not converged -/
theorem stuck_after_transaction_witness :
    let w := run (init pollLimit) [.put 1 1, .tx [(2, some 2), (3, some 3)], .put 4 4, .connect, .recv]
    cycle (cycle w) = cycle w ∧ ¬ converged (cycle w) ∧ (cycle w).ap.exp = 1 := by decide

theorem stuck_after_transaction (k : Nat) :
    let w := cycle (run (init pollLimit) [.put 1 1, .tx [(2, some 2), (3, some 3)], .put 4 4, .connect, .recv])
    ¬ converged (Nat.repeat cycle k w) := by
  intro w
  have hfix : cycle w = w := stuck_after_transaction_witness.1
  have : Nat.repeat cycle k w = w := by
    induction k with
    | zero => rfl
    | succ k ih => show cycle (Nat.repeat cycle k w) = w; rw [ih, hfix]
  rw [this]; exact stuck_after_transaction_witness.2.1

/-- D29, second clause: when the per-message limit cuts a transaction in two, the first half is applied, the cursor moves
    past the shared number and the second half is skipped for good: the replica's cursor is at the engine's next number, its view differs
    (limit 3 here; the mechanism is the same for 100) -/
theorem split_transaction_skipped_witness :
    let w := run (init 3) [.put 1 1, .put 2 2, .tx [(3, some 3), (4, some 4), (5, some 5)], .connect, .recv]
    (cycle w).ap.exp = (cycle w).next ∧ ¬ converged (cycle w) ∧ cycle (cycle w) = cycle w := by decide

/-- D30: a flush on the primary; the entries written afterwards never reach the replica -/
theorem stuck_after_flush_witness :
    let w := run (init pollLimit) [.put 1 1, .connect, .recv, .backoff, .connect, .flush, .put 2 2, .put 3 3]
    w.stable = false ∧ NoPlainBatch w ∧ ¬ converged w ∧
    run w [.poll, .timeout, .recv, .timeout, .poll, .backoff, .connect, .recv] = run w [.timeout, .timeout] := by
  exact ⟨by decide, noPlain_of_bool _ (by decide), by decide, by decide⟩

/-- repaired tree (236f30e; was D35b): for a connected replica in STREAMING that applied nothing since it connected, the
    periodic poll is a fresh delivery: a write arriving after the replica caught up no longer waits for another write -/
theorem poll_fetches_write_after_catch_up (w : World) (h : Inv w) (hs : w.stable = true) (ho : w.sessOpen = true)
    (hst : w.st = stStreamingEntries) (hc : w.chan = []) (hla : w.lastAck + 1 = w.ap.exp) (hl : 0 < w.limit)
    (hb : w.ap.exp ≤ w.log.length) : Fresh (step w .poll) .recv :=
  poll_is_fresh w h hs ho hst hc hla hl hb

/-- the former D35b witness now converges: the only write after the replica caught up is fetched by the next poll, both
    when the replica is still in STREAMING (applied at once) and when it already moved to WAITING (the transition
    WAITING→APPLYING is refused — D35 — and the reconnect that follows delivers it) -/
theorem one_entry_late_converges :
    (let w := run (init pollLimit) [.connect, .put 1 1, .poll, .recv]
     caughtUp w ∧ converged w) ∧
    (let w := run (init pollLimit) [.connect, .timeout, .put 1 1, .poll, .recv, .backoff, .connect, .recv]
     caughtUp w ∧ converged w) ∧
    (run (init pollLimit) [.connect, .timeout, .put 1 1, .poll, .recv]).st = stError := by decide

/-- the full statement does not hold on the pinned tree: after a flush on the primary a schedule that is fair for every
    protocol step, without any loss, never converges (D30) -/
theorem converges_statement_false : ¬ converges_statement := by
  intro h
  let acts : List Act := [.put 1 1, .connect, .recv, .backoff, .connect, .flush, .put 2 2, .put 3 3]
  let w0 := run (init pollLimit) acts
  have hw := stuck_after_flush_witness
  obtain ⟨T, hT⟩ := h acts (rrExec w0) rfl (fun t => (rrAct_internal t).1) (rr_primFair w0)
  have hc := hT T (Nat.le_refl _)
  obtain ⟨_, _, f3, f4⟩ := rr_frozen w0 hw.1 hw.2.1 T
  have : converged w0 := by
    unfold converged at *
    show w0.ap.view = viewOf w0.log
    rw [← f3, ← f4]; exact hc
  exact hw.2.2.1 this

/-! ### non-vacuity: a covered history that converges with exactly ⌈7/3⌉ = 3 deliveries (connect + two reconnect cycles) -/
example :
    let w := run (init 3) ((List.range 7).map fun i => Act.put i i)
    ¬ caughtUp (cycle (run w [.connect, .recv])) ∧
    caughtUp (cycle (cycle (run w [.connect, .recv]))) ∧ converged (cycle (cycle (run w [.connect, .recv]))) := by
  decide

example : Inv (run (init pollLimit) [.put 1 1, .del 1, .tx [(2, some 2)], .flush, .connect, .drop, .swallow]) :=
  invariant_reachable _ (by decide)

end Kevo.Props.C14
