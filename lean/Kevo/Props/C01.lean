/-
  C01 — Reads return the latest write through every storage layer.

  Model: Kevo.Model.Engine (logical contents of log files, memtables, pool, SSTables; Put/Delete/ApplyBatch/Get/
  FlushMemTables/rotation/reopen with log recovery exactly as coded). Spec: Kevo.Spec.Map. Tie: differential
  component `engine` (every call result, sequence counters, log and table contents after each program).
  Scope of the theorem: programs over put/delete/batch(= committed transaction)/get/flush/reopen with the log
  intact; compaction and log retirement are the subject of C12.
-/
import Kevo.Proofs.Engine
namespace Kevo.Props.C01
open Kevo Kevo.Engine Kevo.Spec Kevo.Proofs.Engine

theorem get_refines (cfg : Cfg) (hcfg : 0 < cfg.memTableSize) (ops : List Op) :
    engOutputs (init cfg) ops = mapOutputs emptyMap ops :=
  Kevo.Proofs.Engine.get_refines cfg hcfg ops

theorem flush_preserves_view (cfg : Cfg) (hcfg : 0 < cfg.memTableSize) (ops : List Op) (k : Bytes) :
    get (flushMemTables (engRun (init cfg) ops)) k = get (engRun (init cfg) ops) k :=
  Kevo.Proofs.Engine.flush_preserves_view cfg hcfg ops k

theorem reopen_preserves_view (cfg : Cfg) (hcfg : 0 < cfg.memTableSize) (ops : List Op) (k : Bytes) :
    get (reopen (engRun (init cfg) ops)) k = get (engRun (init cfg) ops) k :=
  Kevo.Proofs.Engine.reopen_preserves_view cfg hcfg ops k

/-! non-vacuity: a program that moves a key through active table, immutable table, SSTable and a reopen,
    with a shadowing delete, evaluated on the model. -/
example : engOutputs (init { memTableSize := 40 })
    [.put [1] [10], .put [2] (List.replicate 40 7), .get [1], .del [1], .flush, .get [1], .reopen, .get [1], .get [2]]
    = [some [10], none, none, some (List.replicate 40 7)] := by decide

end Kevo.Props.C01
