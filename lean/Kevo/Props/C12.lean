/-
  C12 — Compaction preserves content; deleted keys stay deleted.

  Model: Kevo.Model.Compaction (loading/ordering of the directory, SelectCompaction, CompactRange, CompactFiles with the
  coded source order, duplicate skip, tombstone filter with explicit tracker state and clock, output cutting, sequence
  number 0, file tracker, one cycle as a sequence of directory states, log retirement, the engine with its compaction
  manager). Tie: component `compaction` (every call result, hook-site trace, directory view before / in the middle /
  after every compaction, full table dumps, reads after retire + reopen), guard chains of Overlaps / ShouldKeep /
  ShouldKeepTombstone regenerated from the source into Kevo.Gen.Compaction, call-order and sort facts.

  What is proved at full strength: for EVERY task, tracker state and clock, IF the untouched files are recency-ordered
  around the inputs (`RecencyOrdered`) and no dropped deletion marker shadows an untouched older version
  (`TombstoneSafe`), the newest-wins view of outputs + untouched equals the view before (also while inputs and
  outputs coexist and for every subset of the outputs); outputs are sorted, duplicate-free, non-empty; with the log
  retired the reopened engine reads exactly that view; inputs disappear only after all outputs exist.

  What the code does NOT guarantee (full statements kept below as `…_statement`, refuted by `…_witness`, each witness
  replayed on the real code from corpus/compaction/*.script):
    * TombstoneSafe  — BasicTombstoneFilter drops every marker the in-memory tracker does not know (deletes committed
                       in a transaction, deletes made before a restart)                        KF-C12-TOMBSTONE (D26)
    * RecencyOrdered — CompactRange writes its outputs below untouched files that hold older versions of keys outside
                       the requested range                                                     KF-C12-RANGE
    * recency of flushed tables — after a restart the recovered memtables (old history) are flushed again as NEW
                       level-0 files above tables that hold newer versions                     KF-C12-REFLUSH
-/
import Kevo.Proofs.Compaction
import Kevo.Spec.Map
namespace Kevo.Props.C12
open Kevo Kevo.Engine Kevo.Compaction Kevo.Proofs.Compaction

/-! ### proved -/

theorem compact_preserves_merged_view (cfg : Kevo.Compaction.Cfg) (tr : Tracker) (now clock : Nat) (task : Task)
    (untouched : List SST) (hwf : TaskWF task untouched clock) (hro : RecencyOrdered task untouched)
    (hsafe : TombstoneSafe cfg tr now task untouched) :
    mergedView (compactFiles cfg tr now clock task ++ untouched) = mergedView (task.inputs ++ untouched) :=
  Kevo.Proofs.Compaction.compact_preserves_merged_view cfg tr now clock task untouched hwf hro hsafe

theorem compact_mid_states_preserve_view (cfg : Kevo.Compaction.Cfg) (tr : Tracker) (now clock : Nat) (task : Task)
    (untouched : List SST) (hwf : TaskWF task untouched clock) (hro : RecencyOrdered task untouched) (written : List SST)
    (hsub : ∀ o ∈ written, o ∈ compactFiles cfg tr now clock task) (hd : DistinctTs written) :
    mergedView (written ++ (task.inputs ++ untouched)) = mergedView (task.inputs ++ untouched) := by
  funext k
  exact compact_mid_key cfg tr now clock task untouched hwf hro written hsub hd k

theorem outputs_sorted_unique (cfg : Kevo.Compaction.Cfg) (tr : Tracker) (now clock : Nat) (task : Task) :
    SortedKV ((compactFiles cfg tr now clock task).flatMap kvs) ∧
    (∀ o ∈ compactFiles cfg tr now clock task, SortedKV (kvs o) ∧ kvs o ≠ [] ∧ ∀ e ∈ o.entries, e.seq = 0) :=
  Kevo.Proofs.Compaction.outputs_sorted_unique cfg tr now clock task

theorem deleted_stays_deleted (cfg : Kevo.Compaction.Cfg) (tr : Tracker) (now clock : Nat) (task : Task)
    (untouched : List SST) (hwf : TaskWF task untouched clock) (hro : RecencyOrdered task untouched)
    (hsafe : TombstoneSafe cfg tr now task untouched) (k : Bytes)
    (hdel : mergedView (task.inputs ++ untouched) k = none) :
    mergedView (compactFiles cfg tr now clock task ++ untouched) k = none :=
  Kevo.Proofs.Compaction.deleted_stays_deleted cfg tr now clock task untouched hwf hro hsafe k hdel

theorem reopen_on_compacted_dir (c : CSt) (hlog : c.eng.wal.flatten = []) (k : Bytes) :
    Engine.get (creopen c).eng k = mergedView c.dir k :=
  Kevo.Proofs.Compaction.reopen_on_compacted_dir c hlog k

theorem inputs_removed_after_outputs (dir : List SST) (ft : FileTracker) (task : Task) (outputs : List SST)
    (hfresh : ∀ o ∈ outputs, ∀ x ∈ ft.obsolete ++ task.inputs, sameFile o x = false) :
    (∃ m, (cycleSteps dir ft task outputs).1.map (·.1) =
        List.replicate outputs.length Ev.outputFinished ++ [Ev.outputsDone, Ev.inputsMarked] ++ List.replicate m Ev.inputDeleted) ∧
    (∀ s ∈ (cycleSteps dir ft task outputs).1, s.1 ≠ Ev.inputDeleted → ∀ t ∈ dir, t ∈ s.2) ∧
    (∀ s ∈ (cycleSteps dir ft task outputs).1, s.1 = Ev.inputDeleted → ∀ o ∈ outputs, o ∈ s.2) :=
  Kevo.Proofs.Compaction.inputs_removed_after_outputs dir ft task outputs hfresh

/-- a selection that shares no key with the files it leaves untouched (what the repaired CompactRange selects) needs no
    further hypothesis -/
theorem disjoint_selection_preserves_view (cfg : Kevo.Compaction.Cfg) (tr : Tracker) (now clock : Nat) (task : Task)
    (untouched : List SST) (hwf : TaskWF task untouched clock) (hdis : KeyDisjoint task untouched) :
    mergedView (compactFiles cfg tr now clock task ++ untouched) = mergedView (task.inputs ++ untouched) :=
  Kevo.Proofs.Compaction.compact_preserves_merged_view cfg tr now clock task untouched hwf
    (recencyOrdered_of_disjoint hdis) (tombstoneSafe_of_disjoint hdis)

/-! ### the coded cycle: partial theorem, full statement, witnesses -/

/-- a directory as the engine produces it -/
def DirOK (c : CSt) : Prop :=
  DistinctTs c.dir ∧ (∀ t ∈ c.dir, t.ts < c.eng.clock) ∧ c.ft.pending = [] ∧ c.ft.obsolete = []

instance (c : CSt) : Decidable (DirOK c) := by
  unfold DirOK DistinctTs; infer_instance

/-- FULL STATEMENT (not a theorem): TriggerCompaction never changes the merged view of the directory. -/
def trigger_preserves_view_statement : Prop :=
  ∀ (sizeOf : SST → Nat) (c : CSt), DirOK c → mergedView (ccompact sizeOf c).st.dir = mergedView c.dir

/-- the part that is proved: with the two hypotheses on the selected task named -/
theorem trigger_preserves_view_partial (sizeOf : SST → Nat) (c : CSt) (hft : c.ft.pending = [] ∧ c.ft.obsolete = [])
    (task : Task) (hsel : selectCompaction c.cfg sizeOf c.dir = some task) (untouched : List SST)
    (hp : c.dir.Perm (task.inputs ++ untouched)) (hwf : TaskWF task untouched c.eng.clock)
    (hRecencyOrdered : RecencyOrdered task untouched)
    (hTombstoneSafe : TombstoneSafe c.cfg c.tracker c.now task untouched) :
    mergedView (ccompact sizeOf c).st.dir = mergedView c.dir :=
  ccompact_preserves_view sizeOf c hft task hsel untouched hp hwf hRecencyOrdered hTombstoneSafe

def a : Bytes := [97]
def b : Bytes := [98]
def z : Bytes := [122]

/-- level 2 holds a=1, level 0 holds the deletion marker of a (written by a transaction or before a restart: the
    tracker is empty), level 1 is empty: the cycle promotes the level-0 file and drops the marker. -/
def tombstoneDir : CSt :=
  { cfg := { maxMemTables := 2 }, eng := { cfg := { memTableSize := 64 }, clock := 10 },
    dir := [{ level := 2, fileNum := 1, ts := 3, entries := [{ key := a, seq := 0, val := some [49] }] },
            { level := 0, fileNum := 2, ts := 5, entries := [{ key := a, seq := 2, val := none }] }] }

theorem tombstone_rule_witness :
    mergedView tombstoneDir.dir a = none ∧ mergedView (ccompact (fun _ => 1) tombstoneDir).st.dir a = some [49] := by
  decide

theorem trigger_preserves_view_refuted : ¬ trigger_preserves_view_statement := by
  intro h
  have h1 := congrFun (h (fun _ => 1) tombstoneDir (by decide)) a
  rw [tombstone_rule_witness.1, tombstone_rule_witness.2] at h1
  exact absurd h1 (by decide)

/-- the same directory with the delete known to the tracker: the marker is kept and the view preserved -/
example : mergedView (ccompact (fun _ => 1) { tombstoneDir with tracker := ({} : Tracker).add a 0 }).st.dir a = none := by
  decide

/-- a tracked delete older than the retention is dropped as well (the clock cannot be advanced in a differential run) -/
example : mergedView (ccompact (fun _ => 1) { tombstoneDir with tracker := ({} : Tracker).add a 0, now := 86400 }).st.dir a
    = some [49] := by decide

/-- FULL STATEMENT (not a theorem): CompactRange never changes the merged view of the directory. -/
def range_preserves_view_statement : Prop :=
  ∀ (c : CSt) (lo hi : Bytes), DirOK c → mergedView (crange c lo hi).st.dir = mergedView c.dir

/-- level 1 holds a=1; level 0 holds a=2, z=1. CompactRange [z, z] selects only the level-0 file and writes it to
    level 2, below the older a=1. -/
def rangeDir (closure : Bool) : CSt :=
  { cfg := { rangeClosure := closure }, eng := { cfg := { memTableSize := 64 }, clock := 10 },
    dir := [{ level := 1, fileNum := 1, ts := 3, entries := [{ key := a, seq := 0, val := some [49] }] },
            { level := 0, fileNum := 2, ts := 5, entries := [{ key := a, seq := 2, val := some [50] }, { key := z, seq := 3, val := some [49] }] }] }

theorem range_selection_witness :
    mergedView (rangeDir false).dir a = some [50] ∧ mergedView (crange (rangeDir false) z z).st.dir a = some [49] := by
  decide

theorem range_preserves_view_refuted : ¬ range_preserves_view_statement := by
  intro h
  have h1 := congrFun (h (rangeDir false) z z (by decide)) a
  rw [range_selection_witness.1, range_selection_witness.2] at h1
  exact absurd h1 (by decide)

/-- with the repair switch `rangeClosure` the selection is closed under key-range overlap and the view is preserved -/
example : mergedView (crange (rangeDir true) z z).st.dir a = some [50] := by decide

/-! ### whole workloads: every read returns the latest write -/

def toSpec : COp → Option Spec.Op
  | .put k v => some (.put k v)
  | .del k => some (.del k)
  | .batch ops => some (.batch ops)
  | .tx ops => some (.batch ops)
  | .get k => some (.get k)
  | _ => none

/-- FULL STATEMENT (not a theorem): through flushes, triggered and range compactions, log retirement and restarts every
    get returns the latest write of its key (nothing if that is a delete). -/
def reads_latest_statement : Prop :=
  ∀ (cfg : Kevo.Compaction.Cfg) (mem : Nat) (sizeOf : SST → Nat) (ops : List COp), 0 < mem →
    coutputs sizeOf (cinit cfg mem) ops = Spec.mapOutputs Spec.emptyMap (ops.filterMap toSpec)

/-- corpus/compaction/kf-tombstone.script, case 0 -/
def tombstoneProgram : List COp :=
  [.put a [49], .flush, .crange [0] [255, 255], .crange [0] [255, 255], .tx [(true, a, [])], .flush, .put b [50], .flush,
   .get a, .retire false, .compact, .get a, .reopen, .get a]

theorem tombstone_program_witness :
    coutputs (fun _ => 1) (cinit { maxMemTables := 2 } 1000000) tombstoneProgram = [none, none, some [49]] ∧
    Spec.mapOutputs Spec.emptyMap (tombstoneProgram.filterMap toSpec) = [none, none, none] := by
  decide

/-- corpus/compaction/kf-reflush.script -/
def reflushProgram : List COp :=
  [.put a [49], .put b [49], .put [99] [49], .put a [50], .flush, .reopen, .get a, .flush, .put [102] [57], .get a,
   .retire false, .reopen, .get a]

theorem reflush_recency_witness :
    coutputs (fun _ => 1) (cinit {} 40) reflushProgram = [some [50], some [50], some [49]] ∧
    Spec.mapOutputs Spec.emptyMap (reflushProgram.filterMap toSpec) = [some [50], some [50], some [50]] := by
  decide

/-- corpus/compaction/kf-range.script -/
def rangeProgram : List COp :=
  [.put a [49], .flush, .crange a a, .put a [50], .put z [49], .flush, .put b [53], .flush, .retire false,
   .crange z z, .reopen, .get a]

theorem range_program_witness :
    coutputs (fun _ => 1) (cinit {} 1000000) rangeProgram = [some [49]] ∧
    Spec.mapOutputs Spec.emptyMap (rangeProgram.filterMap toSpec) = [some [50]] := by
  decide

theorem reads_latest_refuted : ¬ reads_latest_statement := by
  intro h
  have h1 := h {} 40 (fun _ => 1) reflushProgram (by decide)
  rw [reflush_recency_witness.1, reflush_recency_witness.2] at h1
  exact absurd h1 (by decide)

/-! ### non-vacuity: the hypotheses of the main theorem hold on a real task (level-0 compaction of two overlapping
      files with an untouched newer level-0 file and an untouched level-2 file), and the views are as expected -/

def t1 : SST := { level := 0, fileNum := 1, ts := 1, entries := [{ key := a, seq := 1, val := some [49] }, { key := b, seq := 2, val := some [49] }] }
def t2 : SST := { level := 0, fileNum := 2, ts := 2, entries := [{ key := a, seq := 3, val := none }, { key := z, seq := 4, val := some [50] }] }
def t3 : SST := { level := 0, fileNum := 3, ts := 3, entries := [{ key := b, seq := 5, val := some [51] }] }
def deep : SST := { level := 2, fileNum := 1, ts := 0, entries := [{ key := z, seq := 0, val := some [48] }] }

example : (selectCompaction { maxMemTables := 2 } (fun _ => 1) [t1, t2, t3, deep]).map (fun t => (t.inputs.map (·.fileNum), t.target))
    = some ([1, 2], 1) := by
  decide

example :
    let task : Task := { inputs := [t1, t2], target := 1 }
    let tr : Tracker := ({} : Tracker).add a 0
    (mergedView (compactFiles { maxMemTables := 2 } tr 0 10 task ++ [t3, deep]) a = none) ∧
    (mergedView (compactFiles { maxMemTables := 2 } tr 0 10 task ++ [t3, deep]) b = some [51]) ∧
    (mergedView (compactFiles { maxMemTables := 2 } tr 0 10 task ++ [t3, deep]) z = some [50]) ∧
    ((compactFiles { maxMemTables := 2 } tr 0 10 task).map kvs = [[(a, none), (b, some [49]), (z, some [50])]]) := by
  decide

def exTask : Task := { inputs := [t1, t2], target := 1 }
def exTracker : Tracker := ({} : Tracker).add a 0

theorem exTask_wf : TaskWF exTask [t3, deep] 10 :=
  ⟨by unfold DistinctTs; decide, by decide, by decide⟩

theorem exTask_recencyOrdered : RecencyOrdered exTask [t3, deep] := by
  intro k u hu _ _
  simp only [List.mem_cons, List.mem_nil_iff, or_false] at hu
  rcases hu with rfl | rfl
  · refine Or.inl ⟨by decide, ?_⟩
    intro i hi _
    simp only [exTask, List.mem_cons, List.mem_nil_iff, or_false] at hi
    rcases hi with rfl | rfl <;> decide
  · refine Or.inr ⟨by decide, ?_⟩
    intro i hi _
    simp only [exTask, List.mem_cons, List.mem_nil_iff, or_false] at hi
    rcases hi with rfl | rfl <;> decide

theorem exTask_tombstoneSafe : TombstoneSafe { maxMemTables := 2 } exTracker 0 exTask [t3, deep] := by
  intro k e hm hkeep
  have hmem := (lookup_key hm).2
  have hmerged : merged exTask = [(a, none), (b, some [49]), (z, some [50])] := by decide
  rw [hmerged] at hmem
  simp only [List.mem_cons, List.mem_nil_iff, or_false] at hmem
  rcases hmem with rfl | rfl | rfl <;> exact absurd hkeep (by decide)

/-- the main theorem applied to this task -/
example : mergedView (compactFiles { maxMemTables := 2 } exTracker 0 10 exTask ++ [t3, deep]) = mergedView ([t1, t2] ++ [t3, deep]) :=
  compact_preserves_merged_view { maxMemTables := 2 } exTracker 0 10 exTask [t3, deep] exTask_wf exTask_recencyOrdered
    exTask_tombstoneSafe

/-! ### the tracker's clock (component `compaction`, op `advance`; hook VerifShift) -/

/-- every recorded delete REFRESHES the record: after `add k now` the marker of `k` is kept exactly until `retention` has
    passed since THAT delete, whatever was recorded for `k` before (a tracker that keeps the first deletion time — seeded
    change C12-9 — drops the marker of a re-deleted key too early) -/
theorem tracker_add_refreshes (t : Tracker) (k : Bytes) (now now' retention : Nat) (hp : t.preserve.contains k = false) :
    (t.add k now).shouldKeep retention now' k = decide (now' - now < retention) := by
  have hk : k ∉ t.preserve := by simpa using hp
  unfold Tracker.add Tracker.shouldKeep
  simp [hk]

theorem find_filter_other (k k' : Bytes) (hne : k' ≠ k) : ∀ (ds : List (Bytes × Nat)),
    (ds.filter (fun d => d.1 != k')).find? (fun d => d.1 == k) = ds.find? (fun d => d.1 == k)
  | [] => rfl
  | d :: ds => by
    have ih := find_filter_other k k' hne ds
    by_cases hd : d.1 = k'
    · have h1 : (d.1 != k') = false := by simp [hd]
      have h2 : (d.1 == k) = false := by rw [hd]; simpa using hne
      simp only [List.filter_cons, h1, List.find?_cons, h2]
      exact ih
    · have h1 : (d.1 != k') = true := by simpa using hd
      simp only [List.filter_cons, h1, if_true, List.find?_cons]
      cases (d.1 == k)
      · exact ih
      · rfl

/-- recording a delete of another key leaves the decision for `k` as it was -/
theorem tracker_add_other (t : Tracker) (k k' : Bytes) (now now' retention : Nat) (hne : k' ≠ k) :
    (t.add k' now).shouldKeep retention now' k = t.shouldKeep retention now' k := by
  unfold Tracker.add Tracker.shouldKeep
  have h1 : (k' == k) = false := by simpa using hne
  simp only [List.find?_cons, h1, find_filter_other k k' hne]

/-- non-vacuity: delete at 0, delete again at 50000, compaction at 90000 (retention 86400): kept (40000 < 86400 since the
    SECOND delete); at 140000: dropped -/
example : (((({} : Tracker).add [1] 0).add [1] 50000).shouldKeep 86400 90000 [1], ((({} : Tracker).add [1] 0).add [1] 50000).shouldKeep 86400 140000 [1])
    = (true, false) := by decide

end Kevo.Props.C12
