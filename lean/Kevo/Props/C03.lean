/-
  C03 — Transactions are all-or-nothing.

  Crash clause (process death): `commit_atomic_crash_proc` — at every kill point the recovered log contains all entries of
  each committed transaction or none (they share one sequence number and `recover_prefix_proc` recovers a sequence-number
  prefix). Buffer semantics: `last_op_wins`. Rolled-back transactions never reach the log; a commit the log
  REJECTS (an entry beyond one log record) leaves the log exactly as it was: `rejected_commit_no_trace` (this was false of
  the code before the D17a repair — the records ahead of the oversized one stayed in the buffer and came back at the next
  restart; found by the `txvis` component's failcommit scenario, which replays it on the implementation). "Keys/values
  captured at call time" is checked by the `engine` and `crash` components (the harness overwrites its buffers after
  every tx.Put). Torn writes inside a batch (power loss
  cutting a batch's records) are NOT excluded by the format — no commit marker: open statement + witness below.
  Visibility to concurrent readers: C04/C06.
-/
import Kevo.Proofs.Crash
import Kevo.Proofs.Wal
import Kevo.Gen.Consts
namespace Kevo.Props.C03
open Kevo Kevo.Wal Kevo.Crash Kevo.Proofs.Crash

/-- all-or-nothing under process death: two entries of the history with the same sequence number (= the same
    transaction) are either both recovered or both absent, at every kill point of every workload. -/
theorem commit_atomic_crash_proc (p : WalParams) (hp : p.WF) (crc : Bytes → Nat) (hcrc : ∀ bs, crc bs < 2 ^ 32)
    (sync mem : Nat) (ops : List WOp) (hops : ∀ o ∈ ops, WOpWF p o) (hseq : ops.length + 1 < p.maxSeq)
    (k : Nat) (ev : Event) (e₁ e₂ : Engine.LogEntry) :
    let c := runWorkload p crc sync mem ops
    eventAt c k = some ev → e₁ ∈ c.eng.wal.flatten → e₂ ∈ c.eng.wal.flatten → e₁.seq = e₂.seq →
    (asRead p e₁ ∈ (replayDir p crc (diskAt c k)).entries ↔ asRead p e₂ ∈ (replayDir p crc (diskAt c k)).entries) :=
  Kevo.Proofs.Crash.commit_atomic_crash_proc p hp crc hcrc sync mem ops hops hseq k ev e₁ e₂

/-- buffer semantics: the committed operations are the LAST operation of every key, in key order. -/
theorem last_op_wins (ops : List (Bool × Bytes × Bytes)) (k : Bytes) :
    (bufferOps ops).find? (fun t => t.2.1 == k) = ops.reverse.find? (fun t => t.2.1 == k) :=
  Kevo.Proofs.Crash.last_op_wins ops k

/-- a commit that the log rejects leaves no trace: the log (every file, the counter) is what it was, so every later
    replay is what it would have been without the transaction. -/
theorem rejected_commit_no_trace (p : WalParams) (crc : Bytes → Nat) (l : Wal.Log) (es : List (Nat × Bytes × Bytes))
    (hne : es ≠ []) (hseq : l.next < p.maxSeq)
    (h : ∃ t ∈ es, payloadSize p { op := t.1, seq := 0, key := t.2.1, val := t.2.2 } > p.maxRecord) :
    (l.batch p crc es).1 = .error .tooLarge ∧ (l.batch p crc es).2 = l ∧
    ((l.batch p crc es).2.replay p crc) = l.replay p crc := by
  have := Kevo.Proofs.Wal.batch_too_large p crc l es hne hseq h
  exact ⟨this.1, this.2, by rw [this.2]⟩

/-- the hypotheses are satisfiable: a two-entry batch whose second entry (40000 value bytes) exceeds the record limit. -/
example (v : Bytes) (hv : v.length = 40000) :
    (({} : Wal.Log).batch Kevo.Gen.walParams (fun _ => 0) [(1, [1], [2]), (1, [3], v)]).2 = {} := by
  have := rejected_commit_no_trace Kevo.Gen.walParams (fun _ => 0) {} [(1, [1], [2]), (1, [3], v)]
    (by simp) (by decide) ⟨(1, [3], v), by simp, by simp [payloadSize, Kevo.Gen.walParams, hv]⟩
  exact this.2.1

/-- full statement for torn writes (a crash may keep ANY byte prefix of the unsynced part of the log): false for this
    log format, which has no batch frame / commit marker. -/
def commit_atomic_torn_statement : Prop :=
  ∀ (p : WalParams) (crc : Bytes → Nat) (seq : Nat) (es : List (Nat × Bytes × Bytes)) (n : Nat),
    p.WF → (∀ bs, crc bs < 2 ^ 32) →
    let bytes := batchBytes p crc seq es
    let got := (replayFile p crc (bytes.take n)).entries
    got = [] ∨ got.length = es.length

/-- witness: a two-entry batch cut after its first record replays exactly one of its two entries. -/
theorem commit_atomic_torn_witness :
    ∃ (n : Nat), (replayFile Kevo.Gen.walParams (fun _ => 0)
      ((batchBytes Kevo.Gen.walParams (fun _ => 0) 5 [(1, [1], [2]), (1, [3], [4])]).take n)).entries.length = 1 :=
  ⟨30, by decide⟩

end Kevo.Props.C03
