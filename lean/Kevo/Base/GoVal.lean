/-
  Kevo.Base.GoVal — the Go values that translated guard chains (Kevo.Gen.Config) range over.
  Hand-written and trusted (it fixes the meaning of the translated operators); core Lean only.

  * `GoStr`   : a Go `string` is a byte sequence (NOT necessarily UTF-8) — `List UInt8`.
  * `Ratio`   : a `float64` as an exact value: NaN, ±Inf, or a finite rational; comparisons follow IEEE-754 / the Go
                spec (every ordered comparison with NaN is false, `!=` is the negation of `==`).
  * `sanitize`: what `encoding/json` does to a string on Marshal→Unmarshal: every byte that does not start a valid
                UTF-8 sequence (Go's `utf8.DecodeRune` returning RuneError, width 1) is replaced by U+FFFD (EF BF BD).
  * `firstTrue`: index of the first condition of a guard chain that fires.
-/
import Kevo.Base.Bytes
namespace Kevo.GoVal

abbrev GoStr := List UInt8

inductive Ratio where
  | nan
  | posInf
  | negInf
  | fin (q : Rat)
  deriving DecidableEq, Repr

namespace Ratio

/-- Go `a <= b` on float64 -/
def le (a b : Ratio) : Bool :=
  match a, b with
  | .nan, _ => false
  | _, .nan => false
  | .negInf, _ => true
  | _, .posInf => true
  | .posInf, _ => false
  | _, .negInf => false
  | .fin x, .fin y => decide (x ≤ y)

/-- Go `a < b` on float64 -/
def lt (a b : Ratio) : Bool :=
  match a, b with
  | .nan, _ => false
  | _, .nan => false
  | .posInf, _ => false
  | _, .negInf => false
  | .negInf, _ => true
  | _, .posInf => true
  | .fin x, .fin y => decide (x < y)

/-- Go `a == b` on float64 (NaN differs from everything, itself included; -0 == +0 is the same rational) -/
def eq (a b : Ratio) : Bool :=
  match a, b with
  | .posInf, .posInf => true
  | .negInf, .negInf => true
  | .fin x, .fin y => decide (x = y)
  | _, _ => false

/-- `math.IsNaN` -/
def isNaN : Ratio → Bool
  | .nan => true
  | _ => false

/-- `math.IsInf(f, sign)`: sign > 0 → +Inf, sign < 0 → -Inf, sign = 0 → either -/
def isInf (r : Ratio) (sign : Int) : Bool :=
  match r with
  | .posInf => decide (sign ≥ 0)
  | .negInf => decide (sign ≤ 0)
  | _ => false

def isFinite : Ratio → Bool
  | .fin _ => true
  | _ => false

end Ratio

/-- a field value (printing / assignment by name in the drivers) -/
inductive FieldVal where
  | int (v : Int)
  | str (s : GoStr)
  | ratio (r : Ratio)

/-- index of the first `true` (the guard that returns), `none` if no guard fires -/
def firstTrue : List Bool → Option Nat
  | [] => none
  | b :: bs => if b then some 0 else (firstTrue bs).map (· + 1)

/-! ### UTF-8 as `encoding/json` sees it -/

def isCont (b : UInt8) : Bool := 0x80 ≤ b && b ≤ 0xBF

/-- width of the valid UTF-8 sequence at the head of `s` (Go `utf8.DecodeRune`: shortest form only, no surrogates,
    at most U+10FFFF); 0 = RuneError. -/
def runeLen : List UInt8 → Nat
  | [] => 0
  | b0 :: rest =>
    if b0 < 0x80 then 1
    else if 0xC2 ≤ b0 && b0 ≤ 0xDF then
      match rest with
      | b1 :: _ => if isCont b1 then 2 else 0
      | _ => 0
    else if 0xE0 ≤ b0 && b0 ≤ 0xEF then
      match rest with
      | b1 :: b2 :: _ =>
        let lo : UInt8 := if b0 = 0xE0 then 0xA0 else 0x80
        let hi : UInt8 := if b0 = 0xED then 0x9F else 0xBF
        if lo ≤ b1 && b1 ≤ hi && isCont b2 then 3 else 0
      | _ => 0
    else if 0xF0 ≤ b0 && b0 ≤ 0xF4 then
      match rest with
      | b1 :: b2 :: b3 :: _ =>
        let lo : UInt8 := if b0 = 0xF0 then 0x90 else 0x80
        let hi : UInt8 := if b0 = 0xF4 then 0x8F else 0xBF
        if lo ≤ b1 && b1 ≤ hi && isCont b2 && isCont b3 then 4 else 0
      | _ => 0
    else 0

def sanitizeAux : Nat → List UInt8 → List UInt8
  | 0, _ => []
  | _, [] => []
  | fuel + 1, b :: rest =>
    let n := runeLen (b :: rest)
    if n = 0 then 0xEF :: 0xBF :: 0xBD :: sanitizeAux fuel rest
    else (b :: rest).take n ++ sanitizeAux fuel ((b :: rest).drop n)

/-- the string that comes back from json.Unmarshal(json.Marshal(s)) -/
def sanitize (s : GoStr) : GoStr := sanitizeAux s.length s

/-- `s` is valid UTF-8 (Go `utf8.Valid`): replacing invalid bytes changes nothing. -/
def ValidUTF8 (s : GoStr) : Prop := sanitize s = s

instance (s : GoStr) : Decidable (ValidUTF8 s) := inferInstanceAs (Decidable (sanitize s = s))

example : ValidUTF8 [0x77, 0x2f, 0xc3, 0xbc, 0xe6, 0xbc, 0xa2, 0xf0, 0x9f, 0x98, 0x80] := by decide   -- "w/ü漢😀"
example : ¬ ValidUTF8 [0x77, 0xff] := by decide
example : ¬ ValidUTF8 [0xed, 0xa0, 0x80] := by decide        -- UTF-16 surrogate
example : ¬ ValidUTF8 [0xc0, 0xaf] := by decide              -- overlong
example : sanitize [0x77, 0xff, 0x78] = [0x77, 0xef, 0xbf, 0xbd, 0x78] := by decide

end Kevo.GoVal
