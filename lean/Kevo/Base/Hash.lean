/-
  Kevo.Base.Hash — executable CRC-32 (IEEE), xxHash64 (seed 0) and FNV-1a 64.
  Used only by the driver to reproduce the implementation's bytes. Theorems quantify over an
  arbitrary function `Bytes → Nat` in their place and never unfold these.
-/
import Kevo.Base.Bytes
namespace Kevo

/-! ### CRC-32 (IEEE 802.3, reflected, poly 0xEDB88320) = Go hash/crc32.ChecksumIEEE -/

def crcTableEntry (i : UInt32) : UInt32 := Id.run do
  let mut c := i
  for _ in [0:8] do
    c := if c &&& 1 == 1 then (c >>> 1) ^^^ 0xEDB88320 else c >>> 1
  return c

def crcTable : Array UInt32 := (Array.range 256).map (fun i => crcTableEntry i.toUInt32)

def crc32 (bs : Bytes) : Nat :=
  let c := bs.foldl (fun (c : UInt32) b =>
    crcTable[((c ^^^ b.toUInt32) &&& 0xFF).toNat]! ^^^ (c >>> 8)) 0xFFFFFFFF
  (c ^^^ 0xFFFFFFFF).toNat

/-! ### FNV-1a 64 = Go hash/fnv.New64a -/

def fnv1a64 (bs : Bytes) : Nat :=
  (bs.foldl (fun (h : UInt64) b => (h ^^^ b.toUInt64) * 1099511628211) 14695981039346656037).toNat

/-! ### xxHash64, seed 0 = github.com/cespare/xxhash/v2 Sum64 -/

namespace XX
def p1 : UInt64 := 11400714785074694791
def p2 : UInt64 := 14029467366897019727
def p3 : UInt64 := 1609587929392839161
def p4 : UInt64 := 9650029242287828579
def p5 : UInt64 := 2870177450012600261

def rotl (x : UInt64) (r : UInt64) : UInt64 := (x <<< r) ||| (x >>> (64 - r))
def round (acc input : UInt64) : UInt64 := rotl (acc + input * p2) 31 * p1
def mergeRound (acc v : UInt64) : UInt64 := (acc ^^^ round 0 v) * p1 + p4

def u64le (a : Array UInt8) (i : Nat) : UInt64 := Id.run do
  let mut r : UInt64 := 0
  for k in [0:8] do
    r := r ||| ((a[i + k]!).toUInt64 <<< (8 * k).toUInt64)
  return r

def u32le (a : Array UInt8) (i : Nat) : UInt64 := Id.run do
  let mut r : UInt64 := 0
  for k in [0:4] do
    r := r ||| ((a[i + k]!).toUInt64 <<< (8 * k).toUInt64)
  return r

def sum64 (bs : Bytes) : Nat := Id.run do
  let a := bs.toArray
  let n := a.size
  let mut i := 0
  let mut h : UInt64 := 0
  if n ≥ 32 then
    let mut v1 : UInt64 := p1 + p2
    let mut v2 : UInt64 := p2
    let mut v3 : UInt64 := 0
    let mut v4 : UInt64 := 0 - p1
    while i + 32 ≤ n do
      v1 := round v1 (u64le a i)
      v2 := round v2 (u64le a (i + 8))
      v3 := round v3 (u64le a (i + 16))
      v4 := round v4 (u64le a (i + 24))
      i := i + 32
    h := rotl v1 1 + rotl v2 7 + rotl v3 12 + rotl v4 18
    h := mergeRound h v1
    h := mergeRound h v2
    h := mergeRound h v3
    h := mergeRound h v4
  else
    h := p5
  h := h + n.toUInt64
  while i + 8 ≤ n do
    let k1 := round 0 (u64le a i)
    h := h ^^^ k1
    h := rotl h 27 * p1 + p4
    i := i + 8
  if i + 4 ≤ n then
    h := h ^^^ (u32le a i * p1)
    h := rotl h 23 * p2 + p3
    i := i + 4
  while i < n do
    h := h ^^^ ((a[i]!).toUInt64 * p5)
    h := rotl h 11 * p1
    i := i + 1
  h := h ^^^ (h >>> 33)
  h := h * p2
  h := h ^^^ (h >>> 29)
  h := h * p3
  h := h ^^^ (h >>> 32)
  return h.toNat
end XX

def xxhash64 (bs : Bytes) : Nat := XX.sum64 bs

end Kevo
