/-
  Kevo.Base.Bytes — byte strings, little-endian integers, lexicographic order (= Go's bytes.Compare).
  Core Lean only (no Mathlib) so that the driver can be linked as an executable.
-/
namespace Kevo

abbrev Bytes := List UInt8

/-- `le w n`: the `w` low-order bytes of `n`, little-endian (Go: binary.LittleEndian.PutUintXX(uintXX(n))). -/
def le : Nat → Nat → Bytes
  | 0, _ => []
  | w+1, n => UInt8.ofNat (n % 256) :: le w (n / 256)

/-- little-endian decode of a byte list (any length). -/
def unle : Bytes → Nat
  | [] => 0
  | b :: bs => b.toNat + 256 * unle bs

@[simp] theorem le_length (w n : Nat) : (le w n).length = w := by
  induction w generalizing n with
  | zero => rfl
  | succ w ih => simp [le, ih]

theorem unle_le (w n : Nat) (h : n < 256 ^ w) : unle (le w n) = n := by
  induction w generalizing n with
  | zero => simp [le, unle]; omega
  | succ w ih =>
    have h2 : n / 256 < 256 ^ w := by
      rw [Nat.pow_succ] at h
      exact Nat.div_lt_of_lt_mul (by omega)
    simp only [le, unle, ih _ h2]
    have : (UInt8.ofNat (n % 256)).toNat = n % 256 := by
      simp [UInt8.toNat_ofNat']
    omega

theorem unle_lt (bs : Bytes) : unle bs < 256 ^ bs.length := by
  induction bs with
  | nil => simp [unle]
  | cons b bs ih =>
    simp only [unle, List.length_cons, Nat.pow_succ]
    have := b.toNat_lt
    omega

/-- what `le w` keeps of `n` (narrowing conversion uintXX(n)). -/
theorem unle_le_mod (w n : Nat) : unle (le w n) = n % 256 ^ w := by
  induction w generalizing n with
  | zero => simp [le, unle, Nat.mod_one]
  | succ w ih =>
    simp only [le, unle, ih]
    have : (UInt8.ofNat (n % 256)).toNat = n % 256 := by
      simp [UInt8.toNat_ofNat']
    rw [this, Nat.pow_succ, Nat.mul_comm (256 ^ w) 256, Nat.mod_mul]

/-- Lexicographic "less than" on byte strings, as Go's `bytes.Compare(a,b) < 0`. -/
def ltB : Bytes → Bytes → Bool
  | [], [] => false
  | [], _ :: _ => true
  | _ :: _, [] => false
  | a :: as, b :: bs => if a.toNat < b.toNat then true else if b.toNat < a.toNat then false else ltB as bs

/-- three-way compare: -1, 0, 1 as Int, as `bytes.Compare`. -/
def cmpB (a b : Bytes) : Int := if ltB a b then -1 else if ltB b a then 1 else 0

def leB (a b : Bytes) : Bool := !ltB b a

theorem ltB_irrefl (a : Bytes) : ltB a a = false := by
  induction a with
  | nil => rfl
  | cons x xs ih => simp [ltB, ih]

theorem ltB_trans {a b c : Bytes} (h1 : ltB a b = true) (h2 : ltB b c = true) : ltB a c = true := by
  induction a generalizing b c with
  | nil =>
    cases b with
    | nil => simp [ltB] at h1
    | cons y ys => cases c with
      | nil => simp [ltB] at h2
      | cons z zs => simp [ltB]
  | cons x xs ih =>
    cases b with
    | nil => simp [ltB] at h1
    | cons y ys =>
      cases c with
      | nil => simp [ltB] at h2
      | cons z zs =>
        simp only [ltB] at h1 h2 ⊢
        by_cases hxy : x.toNat < y.toNat
        · by_cases hyz : y.toNat < z.toNat
          · have : x.toNat < z.toNat := by omega
            simp [this]
          · simp only [hyz, if_false] at h2
            by_cases hzy : z.toNat < y.toNat
            · simp [hzy] at h2
            · have : x.toNat < z.toNat := by omega
              simp [this]
        · simp only [hxy, if_false] at h1
          by_cases hyx : y.toNat < x.toNat
          · simp [hyx] at h1
          · simp only [hyx, if_false] at h1
            by_cases hyz : y.toNat < z.toNat
            · have : x.toNat < z.toNat := by omega
              simp [this]
            · simp only [hyz, if_false] at h2
              by_cases hzy : z.toNat < y.toNat
              · simp [hzy] at h2
              · simp only [hzy, if_false] at h2
                have h3 : ¬ x.toNat < z.toNat := by omega
                have h4 : ¬ z.toNat < x.toNat := by omega
                simp only [h3, h4, if_false]
                exact ih h1 h2

theorem ltB_asymm {a b : Bytes} (h : ltB a b = true) : ltB b a = false := by
  cases hb : ltB b a with
  | false => rfl
  | true => have := ltB_trans h hb; rw [ltB_irrefl] at this; contradiction

theorem ltB_total {a b : Bytes} (h1 : ltB a b = false) (h2 : ltB b a = false) : a = b := by
  induction a generalizing b with
  | nil => cases b with
    | nil => rfl
    | cons y ys => simp [ltB] at h1
  | cons x xs ih => cases b with
    | nil => simp [ltB] at h2
    | cons y ys =>
      simp only [ltB] at h1 h2
      by_cases hxy : x.toNat < y.toNat
      · simp [hxy] at h1
      · by_cases hyx : y.toNat < x.toNat
        · simp [hyx] at h2
        · simp only [hxy, hyx, if_false] at h1 h2
          have : x = y := by
            apply UInt8.toNat_inj.mp; omega
          rw [this, ih h1 h2]

/-- Go's bytes.HasPrefix -/
def hasPrefix (s p : Bytes) : Bool := p.isPrefixOf s
/-- Go's bytes.HasSuffix -/
def hasSuffix (s p : Bytes) : Bool := p.isSuffixOf s

/-! ### hex (driver line protocol): `-` = nil, `=` = empty non-nil, else lowercase hex -/

def hexDigit (n : Nat) : Char := if n < 10 then Char.ofNat (48 + n) else Char.ofNat (87 + n)

def toHex (bs : Bytes) : String :=
  String.ofList (bs.foldr (fun b acc => hexDigit (b.toNat / 16) :: hexDigit (b.toNat % 16) :: acc) [])

def hexVal (c : Char) : Option Nat :=
  if '0' ≤ c ∧ c ≤ '9' then some (c.toNat - 48)
  else if 'a' ≤ c ∧ c ≤ 'f' then some (c.toNat - 87)
  else none

def fromHexChars : List Char → Option Bytes
  | [] => some []
  | [_] => none
  | a :: b :: rest => do
    let x ← hexVal a
    let y ← hexVal b
    let r ← fromHexChars rest
    pure (UInt8.ofNat (x * 16 + y) :: r)

def fromHex (s : String) : Option Bytes := fromHexChars s.toList

end Kevo
