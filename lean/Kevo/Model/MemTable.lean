/-
  Kevo.Model.MemTable — the sequential memtable of pkg/memtable beyond what Kevo.Model.Engine already defines
  (MEntry, entryLt, insertSorted, findIn, MemTable.add/get/visible, Pool.add/get/switch are reused from there):

    * skiplist.go  Iterator  (SeekToFirst / Seek / Next / Valid with the snapshot filter),
    * memtable.go  NewIterator (snapshotSeq = nextSeqNum for a mutable table, 0 = unfiltered; immutable = unfiltered),
    * iterator_adapter.go  IteratorAdapter (Seek/Next return Valid(); SeekToLast = forward scan + re-seek),
    * mempool.go  observers of the pool (GetMemTables order, TotalSize, ImmutableCount, IsFlushNeeded).

  An iterator holds a POINTER to a node of the level-0 list. Here the pointer is the index of that node in the
  current level-0 list; an insertion in front of it moves the index (`Iter.onInsert`), exactly what happens to
  "the node I am standing on" when the writer links a new node before it.
-/
import Kevo.Model.Engine
namespace Kevo.MemTable
open Kevo Kevo.Engine

/-- Iterator.isVisible: `snapshotSeq == 0` = no filtering, else `seqNum <= snapshotSeq`. -/
def visibleAt (snap : Nat) (e : MEntry) : Bool := snap == 0 || decide (e.seq ≤ snap)

/-- MemTable.NewIterator: an immutable table gives an unfiltered iterator, a mutable one captures nextSeqNum. -/
def snapOf (m : MemTable) : Nat := if m.immutable then 0 else m.nextSeq

structure Iter where
  snap : Nat := 0
  atHead : Bool := true        -- `current == list.head` (fresh iterator)
  pos : Option Nat := none     -- index of `current` in the level-0 list; `none` (and not atHead) = nil
  deriving Repr, DecidableEq

/-- the loop `for current != nil && !isVisible(current) { current = current.getNext(0) }` started at the node of
    index `i` (the list given is the suffix from that node on). -/
def skipAux (snap : Nat) : List MEntry → Nat → Option Nat
  | [], _ => none
  | e :: rest, i => if visibleAt snap e then some i else skipAux snap rest (i + 1)

def skipFrom (es : List MEntry) (snap i : Nat) : Option Nat := skipAux snap (es.drop i) i

/-- the entry of the node the iterator stands on -/
def Iter.cur (it : Iter) (es : List MEntry) : Option MEntry :=
  match it.pos with
  | some i => es[i]?
  | none => none

/-- Iterator.Valid -/
def Iter.valid (it : Iter) (es : List MEntry) : Bool :=
  match it.cur es with
  | some e => visibleAt it.snap e
  | none => false

/-- Iterator.SeekToFirst -/
def Iter.first (it : Iter) (es : List MEntry) : Iter :=
  { it with atHead := false, pos := skipFrom es it.snap 0 }

/-- Iterator.Next (on a fresh iterator `current` is the head sentinel, whose successor is the first node). -/
def Iter.next (it : Iter) (es : List MEntry) : Iter :=
  if it.atHead then it.first es
  else match it.pos with
    | none => it
    | some i => { it with pos := skipFrom es it.snap (i + 1) }

/-- the node the search of Seek/Find stops in front of: the first one whose KEY is not below the target
    (`entry.compare(key) < 0` looks at the key only). -/
def seekIdx (es : List MEntry) (t : Bytes) : Nat := (es.takeWhile (fun e => ltB e.key t)).length

/-- Iterator.Seek -/
def Iter.seek (it : Iter) (es : List MEntry) (t : Bytes) : Iter :=
  { it with atHead := false, pos := skipFrom es it.snap (seekIdx es t) }

/-- what the writer's insertion of `e` does to a pointer: the new node is linked at index `insertIdx`. -/
def insertIdx (es : List MEntry) (e : MEntry) : Nat := (es.takeWhile (fun x => entryLt x e)).length

def Iter.onInsert (it : Iter) (p : Nat) : Iter :=
  { it with pos := it.pos.map (fun i => if p ≤ i then i + 1 else i) }

/-! ### IteratorAdapter -/

/-- IteratorAdapter.Next: `if !Valid() return false; iter.Next(); return iter.Valid()` -/
def Iter.anext (it : Iter) (es : List MEntry) : Iter × Bool :=
  if it.valid es then
    let n := it.next es
    (n, n.valid es)
  else (it, false)

/-- IteratorAdapter.Seek -/
def Iter.aseek (it : Iter) (es : List MEntry) (t : Bytes) : Iter × Bool :=
  let n := it.seek es t
  (n, n.valid es)

/-- the scan loop of SeekToLast: `for Valid() { lastKey = Key(); Next() }` -/
def scanLast (es : List MEntry) : Nat → Iter → Option Bytes → Option Bytes
  | 0, _, last => last
  | fuel + 1, it, last =>
    match (if it.valid es then it.cur es else none) with
    | some e => scanLast es fuel (it.next es) (some e.key)
    | none => last

/-- IteratorAdapter.SeekToLast: SeekToFirst; nothing there: stop; else scan to the end remembering the last key and
    `Seek(lastKey)` — which lands on the FIRST visible version of the greatest key. -/
def Iter.last (it : Iter) (es : List MEntry) : Iter :=
  let f := it.first es
  if !f.valid es then f
  else match scanLast es (es.length + 1) f none with
    | some k => f.seek es k
    | none => { f with pos := none }

/-! ### full iteration -/

def collect (es : List MEntry) : Nat → Iter → List MEntry
  | 0, _ => []
  | fuel + 1, it =>
    match (if it.valid es then it.cur es else none) with
    | some e => e :: collect es fuel (it.next es)
    | none => []

/-- `it := m.NewIterator(); for it.SeekToFirst(); it.Valid(); it.Next() { … }` -/
def iterAll (m : MemTable) : List MEntry :=
  collect m.entries (m.entries.length + 1) (({ snap := snapOf m } : Iter).first m.entries)

/-- MemTable.SetImmutable -/
def setImmutable (m : MemTable) : MemTable := { m with immutable := true }

/-- the table after a sequence of Put/Delete calls (a Delete is an entry with `val = none`). -/
def build (ops : List MEntry) : MemTable := ops.foldl MemTable.add {}

/-- the level-0 list after inserting `ops` in order -/
def level0 (ops : List MEntry) : List MEntry := ops.foldl (fun acc e => insertSorted e acc) []

/-! ### pool observers -/

/-- MemTablePool.GetMemTables: the active table, then the immutable ones oldest first. -/
def poolTables (p : Pool) : List MemTable := p.active :: p.immutables

/-- MemTablePool.TotalSize -/
def poolTotalSize (p : Pool) : Nat := (poolTables p).foldl (fun n m => n + m.size) 0

/-- the layers in the order MemTablePool.Get searches them: active, then immutables newest first. -/
def poolLayers (p : Pool) : List MemTable := p.active :: p.immutables.reverse

end Kevo.MemTable
