/-
  Kevo.Model.Crash — process-death model of the write path (C02, C03, C10).

  The engine's logical state (Kevo.Engine.St) is extended with the byte-level state of the log files as seen
  by the operating system: every log file is the stream of bytes handed to its `bufio.Writer`, of which only a
  prefix (`flushed`) has reached the OS; the rest sits in the process's buffer and is lost when the process dies.
  Every operation is unfolded into the sequence of instrumentation sites it passes (the `verifhook.At` sites of
  the implementation, in the order the code reaches them), and after each site the per-file flushed lengths are
  recorded. A crash at site k leaves on disk, for every file, the prefix of its stream of that length; recovery
  is `Wal.replayDir` on those prefixes (Kevo.Model.Wal), rebuilt into the abstract map.
-/
import Kevo.Model.Engine
import Kevo.Model.WalLog
namespace Kevo.Crash
open Kevo Kevo.Engine

/-- byte-level view of one log file -/
structure WFile where
  stream : Bytes := []      -- everything ever handed to the buffered writer, in order
  flushed : Nat := 0        -- how much of it has been written to the OS file
  deriving Repr

/-- an instrumentation site reached, with the flushed length of every existing log file at that moment -/
structure Event where
  site : String
  flushed : List Nat
  walNext : Nat := 1     -- the log's sequence counter at that moment
  ackedSeq : Nat := 0    -- number stamped on the last write acknowledged to the client so far
  deriving Repr

structure CSt where
  eng : St
  files : List WFile := [({} : WFile)]      -- oldest first; the last one is the current log
  buffered : Nat := 0             -- bytes in the current writer's buffer
  cap : Nat := 65536              -- capacity of the current writer's buffer
  batchBytes : Nat := 0           -- wal.batchByteSize (bytes since the last sync)
  sync : Nat := 0                 -- 0 none, 1 batch, 2 immediate
  syncBytes : Nat := 2048
  events : List Event := []       -- newest first
  ackedSeq : Nat := 0             -- lastSeq as of the latest acknowledgement
  deriving Repr

def CSt.at (c : CSt) (site : String) : CSt :=
  let acked := if site == "harness.ack" then c.eng.lastSeq else c.ackedSeq
  { c with ackedSeq := acked,
           events := { site, flushed := c.files.map (·.flushed), walNext := c.eng.walNext, ackedSeq := acked } :: c.events }

def modifyLast (f : WFile → WFile) (fs : List WFile) : List WFile :=
  match fs.reverse with
  | [] => []
  | x :: rest => (f x :: rest).reverse

/-- `bufio.Writer.Write` of `n` bytes (their content `bs` is appended to the stream): while the data does not fit
    the free space, either write it directly (empty buffer) or fill the buffer and flush it. -/
def bufWrite (c : CSt) (bs : Bytes) : CSt :=
  let rec go (fuel n b fl : Nat) : Nat × Nat :=
    match fuel with
    | 0 => (b + n, fl)
    | fuel + 1 =>
      if n > c.cap - b then
        if b = 0 then (0, fl + n)
        else go fuel (n - (c.cap - b)) 0 (fl + c.cap)
      else (b + n, fl)
  let cur := c.files.getLast?.getD ({} : WFile)
  let (b, fl) := go (bs.length + 2) bs.length c.buffered cur.flushed
  { c with files := modifyLast (fun f => { stream := f.stream ++ bs, flushed := fl }) c.files, buffered := b }

/-- `writer.Flush()` on the current log -/
def flushCur (c : CSt) : CSt :=
  { c with files := modifyLast (fun f => { f with flushed := f.stream.length }) c.files, buffered := 0 }

/-- payload sizes of the physical records of one entry (writeRecord / writeFragmentedRecord) -/
def recordPayloads (p : Wal.WalParams) (e : Wal.Entry) : List Bytes :=
  let pl := Wal.payload p e
  if Wal.payloadSize p e ≤ p.maxRecord then [pl]
  else
    let nFirst := 13 + min e.key.length (p.maxRecord - 13)
    let rec chunks (fuel : Nat) (rest : Bytes) : List Bytes :=
      match fuel with
      | 0 => []
      | fuel + 1 => if rest.length > p.maxRecord then rest.take p.maxRecord :: chunks fuel (rest.drop p.maxRecord)
                    else if rest.length > 0 then [rest] else []
    pl.take nFirst :: chunks (pl.length + 1) (pl.drop nFirst)

/-- write one entry: per physical record a 7-byte header write and a payload write -/
def writeEntry (p : Wal.WalParams) (crc : Bytes → Nat) (c : CSt) (e : Wal.Entry) : CSt :=
  let pls := recordPayloads p e
  let tys : List Nat := if pls.length ≤ 1 then [p.tFull] else
    [p.tFirst] ++ List.replicate (pls.length - 2) p.tMiddle ++ [p.tLast]
  let c := (pls.zip tys).foldl (fun c (pl, ty) =>
    let rec_ := Wal.record crc ty pl
    let c := bufWrite c (rec_.take p.headerSize)
    bufWrite c (rec_.drop p.headerSize)) c
  { c with batchBytes := c.batchBytes + (pls.map (fun pl => p.headerSize + pl.length)).foldl (· + ·) 0 }

/-- maybeSync + syncLocked -/
def maybeSync (c : CSt) : CSt :=
  if c.sync = 2 ∨ (c.sync = 1 ∧ c.batchBytes ≥ c.syncBytes) then
    let c := (flushCur c).at "wal.sync.flushed"
    { (c.at "wal.sync.synced") with batchBytes := 0 }
  else c

/-- the two sites of scheduleFlush, when the pool asked for a flush; returns whether a flush was scheduled -/
def schedule (c : CSt) : CSt × Bool :=
  if c.eng.pool.flushPending then
    let (p, old) := c.eng.pool.switch
    let c := { c with eng := { c.eng with pool := p } }.at "pool.switch.immutable"
    let c := { c with eng := { c.eng with mgrImm := c.eng.mgrImm ++ [old] } }.at "mgr.scheduleFlush.switched"
    (c, true)
  else (c, false)

/-- rotateWAL: new empty file, pointer swap, old log flushed and closed -/
def rotateSites (c : CSt) : CSt :=
  let c := c.at "mgr.rotate.setRotating"
  -- NewWAL: the new file exists; the old writer keeps its buffer until Close
  let oldBuffered := c.buffered
  let c := { c with files := c.files ++ [({} : WFile)], eng := Engine.rotate c.eng }
  let c := c.at "mgr.rotate.newWAL"
  let c := c.at "mgr.rotate.swapped"
  -- oldWAL.Close: Flush + Sync + Close of the file before the last
  let n := c.files.length
  let files := c.files.mapIdx (fun i f => if i + 2 = n then { f with flushed := f.stream.length } else f)
  let _ := oldBuffered
  let c := { c with files, buffered := 0, cap := 65536, batchBytes := 0 }
  let c := c.at "wal.close.flushed"
  let c := c.at "wal.close.synced"
  let c := c.at "wal.close.closed"
  c.at "mgr.rotate.closed"

def flushOneSites (c : CSt) (m : MemTable) : CSt :=
  if m.size = 0 then c
  else
    let c := c.at "flush.beforeFinish"
    let c := c.at "sst.finish.written"
    let c := c.at "sst.finish.synced"
    let c := c.at "sst.finish.renamed"
    let c := c.at "flush.sstFinished"
    let c := c.at "flush.beforePublish"
    ({ c with eng := Engine.flushOne c.eng m }).at "flush.published"

/-- Manager.FlushMemTables with its sites -/
def flushSites (c : CSt) : CSt :=
  let c := c.at "mgr.flush.start"
  if c.eng.mgrImm.isEmpty then
    if c.eng.pool.active.size > 0 then flushOneSites (rotateSites c) c.eng.pool.active else c
  else
    let imms := c.eng.mgrImm
    let c := imms.foldl flushOneSites (rotateSites c)
    let c := c.at "mgr.flush.beforeClear"
    { c with eng := { c.eng with mgrImm := [] } }

def toWal (e : LogEntry) : Wal.Entry := { op := e.op, seq := e.seq, key := e.key, val := e.val }

/-- Put / Delete with all sites; the acknowledgement is a site of its own; a scheduled background flush runs after it -/
def writeOne (p : Wal.WalParams) (crc : Bytes → Nat) (c : CSt) (isDel : Bool) (k v : Bytes) : CSt :=
  let tag := if isDel then "mgr.del" else "mgr.put"
  let seq := c.eng.walNext
  let le : LogEntry := { op := if isDel then 2 else 1, seq, key := k, val := if isDel then [] else v }
  let c := c.at "wal.append.pre"
  let c := writeEntry p crc c (toWal le)
  let c := c.at "wal.append.buffered"
  let c := maybeSync c
  let c := c.at "wal.append.done"
  let c := { c with eng := { c.eng with wal := appendLog c.eng.wal [le], walNext := seq + 1 } }.at (tag ++ ".afterLog")
  let c := { c with eng := { c.eng with pool := c.eng.pool.add c.eng.cfg { key := k, seq, val := if isDel then none else some v },
                                        lastSeq := seq } }.at (tag ++ ".afterMem")
  let (c, sched) := schedule c
  let c := c.at "harness.ack"
  if sched then flushSites c else c

/-- transaction.Buffer: last operation per key, applied in key order -/
def insertKey (k : Bytes) : List Bytes → List Bytes
  | [] => [k]
  | x :: xs => if ltB k x then k :: x :: xs else if k == x then x :: xs else x :: insertKey k xs

def bufferOps (ops : List (Bool × Bytes × Bytes)) : List (Bool × Bytes × Bytes) :=
  let keys := ops.foldl (fun acc (_, k, _) => insertKey k acc) []
  keys.filterMap (fun k => ops.reverse.find? (fun (_, k', _) => k' == k))

/-- a read-write transaction: begin, buffered operations, commit = one AppendBatch + memtable inserts -/
def txCommit (p : Wal.WalParams) (crc : Bytes → Nat) (c : CSt) (ops : List (Bool × Bytes × Bytes)) : CSt :=
  let c := c.at "tx.begin.beforeLock"
  let c := c.at "tx.begin.locked"
  let bo := bufferOps ops
  if bo.isEmpty then (c.at "tx.commit.applied").at "harness.ack"
  else
    let c := c.at "tx.commit.beforeApply"
    let seq := c.eng.walNext
    let les := bo.map (fun (d, k, v) => ({ op := if d then 2 else 1, seq, key := k, val := if d then [] else v } : LogEntry))
    let c := c.at "wal.batch.pre"
    -- buffer management of AppendBatch
    let total := (les.map (fun e => p.headerSize + Wal.payloadSize p (toWal e))).foldl (· + ·) 0
    let c := if total > c.cap - c.buffered then
        let c := flushCur c
        if total > c.cap then { c with cap := total + 1024 } else c
      else c
    let c := les.foldl (fun c e => writeEntry p crc (c.at "wal.batch.record") (toWal e)) c
    let c := c.at "wal.batch.buffered"
    let c := maybeSync c
    let c := c.at "wal.batch.done"
    let c := { c with eng := { c.eng with wal := appendLog c.eng.wal les, walNext := seq + 1 } }.at "mgr.batch.afterLog"
    let c := bo.foldl (fun c (d, k, v) =>
      { c with eng := { c.eng with pool := c.eng.pool.add c.eng.cfg { key := k, seq, val := if d then none else some v },
                                   lastSeq := seq } }.at "mgr.batch.entry") c
    let (c, sched) := schedule c
    let c := c.at "tx.commit.applied"
    let c := c.at "harness.ack"
    if sched then flushSites c else c

/-- clean close + reopen inside a workload -/
def reopenSites (c : CSt) : CSt :=
  let c := flushCur c
  let c := c.at "wal.close.flushed"
  let c := c.at "wal.close.synced"
  let c := c.at "wal.close.closed"
  let c := { c with eng := Engine.reopen c.eng, buffered := 0, cap := 65536, batchBytes := 0 }
  c.at "harness.ack"

inductive WOp where
  | put (k v : Bytes)
  | del (k : Bytes)
  | tx (ops : List (Bool × Bytes × Bytes))
  | flush
  | reopen
  deriving Repr

def runOp (p : Wal.WalParams) (crc : Bytes → Nat) (c : CSt) : WOp → CSt
  | .put k v => writeOne p crc c false k v
  | .del k => writeOne p crc c true k []
  | .tx ops => txCommit p crc c ops
  | .flush => (flushSites c).at "harness.ack"
  | .reopen => reopenSites c

def runWorkload (p : Wal.WalParams) (crc : Bytes → Nat) (sync mem : Nat) (ops : List WOp) : CSt :=
  ops.foldl (runOp p crc) { eng := { cfg := { memTableSize := mem } }, sync }

/-! ### Recovery after a crash at event k -/

/-- the bytes each log file holds on disk when the process dies right at the k-th site (1-based) -/
def diskAt (c : CSt) (k : Nat) : List Bytes :=
  match c.events.reverse[k - 1]? with
  | some ev => (c.files.zip ev.flushed).map (fun (f, n) => f.stream.take n)
  | none => c.files.map (fun f => f.stream.take f.flushed)

/-- the abstract map rebuilt from replayed entries (association list, last write wins, deletes remove) -/
def applyEntries (es : List Wal.Entry) : List (Bytes × Bytes) :=
  es.foldl (fun m e =>
    if e.op = 1 then m.filter (fun kv => kv.1 != e.key) ++ [(e.key, e.val)]
    else if e.op = 2 then m.filter (fun kv => kv.1 != e.key)
    else m) []

def recovered (p : Wal.WalParams) (crc : Bytes → Nat) (c : CSt) (k : Nat) : List (Bytes × Bytes) × Nat :=
  let es := (Wal.replayDir p crc (diskAt c k)).entries
  (applyEntries es, Wal.maxSeqOf es)

/-- number of operations acknowledged strictly before the k-th site -/
def ackedBefore (c : CSt) (k : Nat) : Nat :=
  ((c.events.reverse.take (k - 1)).filter (fun e => e.site == "harness.ack")).length

/-! ### Power loss: what is GUARANTEED to be on stable storage

  `fsync` is called at exactly two kinds of sites: `wal.sync.synced` (syncLocked: Flush then Sync of the current log) and
  `wal.close.synced` (Close: Flush, Sync, close — at rotation for the old log, at a clean close for the current one). At
  such a site every byte that has reached the OS is durable: the current log was just synced and every older log was
  synced when it was closed. Between two such sites nothing more becomes durable (a log file created meanwhile is empty
  as far as stable storage is concerned). A power failure leaves of every log file SOME length between its synced and
  its flushed length; the minimal survivor — exactly the synced bytes — is the adversary the harness reconstructs from
  the system-call trace (component `power`). -/

def isSyncSite (s : String) : Bool := s == "wal.sync.synced" || s == "wal.close.synced"

/-- synced length of the log files after the events `evs` (NEWEST FIRST, as stored in `CSt.events`): the flushed lengths
    recorded at the latest sync site. Files created since then are not listed (nothing of them is durable: length 0). -/
def syncedOf : List Event → List Nat
  | [] => []
  | ev :: rest => if isSyncSite ev.site then ev.flushed else syncedOf rest

/-- the events up to and including the k-th (1-based), newest first -/
def eventsUpTo (c : CSt) (k : Nat) : List Event := (c.events.reverse.take k).reverse

/-- synced lengths at the k-th site -/
def syncedAt (c : CSt) (k : Nat) : List Nat := syncedOf (eventsUpTo c k)

/-- what stable storage is guaranteed to hold of each log file when the power fails right at the k-th site (files
    created after the latest sync are empty / absent: `zip` stops at the shorter list, which replays the same) -/
def diskSyncedAt (c : CSt) (k : Nat) : List Bytes :=
  (c.files.zip (syncedAt c k)).map (fun (f, n) => f.stream.take n)

/-- synced lengths at the k-th site, one per log file existing at that site (0 for files created since the last sync) -/
def syncedLens (c : CSt) (k : Nat) : List Nat :=
  let sv := syncedAt c k
  let n := match c.events.reverse[k - 1]? with
    | some ev => ev.flushed.length
    | none => sv.length
  sv ++ List.replicate (n - sv.length) 0

def recoveredPower (p : Wal.WalParams) (crc : Bytes → Nat) (c : CSt) (k : Nat) : List (Bytes × Bytes) × Nat :=
  let es := (Wal.replayDir p crc (diskSyncedAt c k)).entries
  (applyEntries es, Wal.maxSeqOf es)

/-- 1-based positions of the acknowledgement sites -/
def ackPositions (c : CSt) : List Nat :=
  ((c.events.reverse.zip (List.range c.events.length)).filter (fun (e, _) => e.site == "harness.ack")).map (fun (_, i) => i + 1)

end Kevo.Crash
