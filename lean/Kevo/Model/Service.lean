/-
  Kevo.Model.Service — the API surface: pkg/engine.EngineFacade (closed / read-only guards, *Internal methods,
  BeginTransaction downgrade), pkg/transaction (TransactionImpl, Buffer, the manager's RW lock as far as a sequential
  caller can see it, RegistryImpl as handle table), pkg/replication.EngineApplier / Manager.GetNodeInfo and every handler of
  pkg/grpc/service.KevoServiceServer.

  The guard lists, the classification and the delegate of every method are NOT written here: they are rows of the API
  table that kvfacts regenerates from the source on every run (Kevo.Gen.Api). This file gives the rows their meaning:
  `run row arg eng` for a facade row, `handle rows req st` for a service request (guard chain of the row, then the
  delegate), and `embed` — the same request translated to embedded calls — which is the specification of `handle`.
  The store is the logical engine model (Kevo.Engine.St); iterators are the sorted runs they yield (Kevo.Merge).
-/
import Kevo.Model.Engine
import Kevo.Model.Merge
namespace Kevo.Service
open Kevo

abbrev Store := Kevo.Engine.St
abbrev KV := Kevo.Merge.KV

/-! ## The API table: types of the generated rows -/

inductive Kind where
  | clientMutator     -- client-initiated mutation (must be refused on a replica)
  | internalMutator   -- the replication path (*Internal): no read-only test
  | reader
  | admin             -- maintenance / status: never changes the data
  | txBegin
  | txWrite           -- write buffered in a transaction addressed by handle
  | txFinish          -- commit / rollback by handle
  | internalAccess    -- exported bypasses for replication (SetReadOnly, GetWAL, GetTransactionManager, …)
  | unknown           -- the rule set could not classify the method: not accepted by the theorems
  deriving DecidableEq, Repr

inductive Layer where
  | facade | service
  deriving DecidableEq, Repr

/-- a guard found at the top of a method body (before the delegate call), in source order -/
inductive Guard where
  | closed                    -- if e.closed.Load() { return ErrEngineClosed }
  | readOnly                  -- if e.readOnly.Load() { return ErrReadOnlyMode }
  | downgrade                 -- if e.readOnly.Load() { readOnly = true }
  | keySize (max : Nat)       -- len(key) == 0 || len(key) > max
  | valueSize (max : Nat)     -- len(value) > max
  | batchEmpty                -- len(ops) == 0  → success without doing anything
  | batchSize (max : Nat)     -- len(ops) > max
  | handle                    -- txRegistry.Get fails → "transaction not found"
  | txWritable                -- tx.IsReadOnly() → refused
  | noManager                 -- replicationManager == nil → stand-alone defaults
  deriving DecidableEq, Repr

/-- the component call a method delegates to -/
inductive Op where
  | storagePut | storageDelete | storageApplyBatch
  | storageGet | storageIsDeleted | storageIter | storageRangeIter
  | storageFlush
  | txBegin
  | close | setReadOnly | isReadOnly
  | noData              -- compaction, statistics, accessors: the logical data is not touched
  | handler             -- a service handler: meaning given by `handle`
  | other               -- anything the extractor does not know
  deriving DecidableEq, Repr

structure Row where
  layer : Layer
  name : String
  guards : List Guard
  loopGuards : List Guard := []     -- guards inside the per-operation loop (BatchWrite)
  kind : Kind
  op : Op
  calls : List String := []         -- every component call in the body, as text (informational)
  deriving DecidableEq, Repr

def missingRow (layer : Layer) (name : String) : Row :=
  { layer, name, guards := [], kind := .unknown, op := .other }

/-- the facade rows the service and the applier go through, and one row per handler the model knows -/
structure Rows where
  fPut : Row
  fDelete : Row
  fGet : Row
  fApplyBatch : Row
  fBegin : Row
  fPutInternal : Row
  fDeleteInternal : Row
  fApplyBatchInternal : Row
  fIsDeleted : Row
  fIter : Row
  fRangeIter : Row
  fFlush : Row
  fIsReadOnly : Row
  fSetReadOnly : Row
  fClose : Row
  sGet : Row
  sPut : Row
  sDelete : Row
  sBatchWrite : Row
  sScan : Row
  sBegin : Row
  sCommit : Row
  sRollback : Row
  sTxGet : Row
  sTxPut : Row
  sTxDelete : Row
  sTxScan : Row
  sGetStats : Row
  sCompact : Row
  sGetNodeInfo : Row
  deriving Repr

def Rows.service (r : Rows) : List Row :=
  [r.sGet, r.sPut, r.sDelete, r.sBatchWrite, r.sScan, r.sBegin, r.sCommit, r.sRollback, r.sTxGet, r.sTxPut, r.sTxDelete,
   r.sTxScan, r.sGetStats, r.sCompact, r.sGetNodeInfo]

/-! ## Errors, arguments, results -/

inductive Err where
  | closed          -- ErrEngineClosed
  | readOnlyMode    -- engine.ErrReadOnlyMode
  | roTx            -- transaction.ErrReadOnlyTransaction
  | svcRoTx         -- the service's own "cannot write to / delete in read-only transaction"
  | keySize | valueSize | batchSize | badOp | noHandle
  | txClosed        -- ErrTransactionClosed
  | storageClosed   -- storage.ErrStorageClosed (a transaction talks to the storage manager directly)
  | badEntry        -- applier: unsupported WAL entry type
  | recordTooLarge  -- wal.AppendBatch: "record too large" (a batch entry must fit one physical log record)
  deriving DecidableEq, Repr

/-- the three texts a client sees when a write is refused because the node is a replica -/
def Err.isReadOnly : Err → Bool
  | .readOnlyMode | .roTx | .svcRoTx => true
  | _ => false

/-- the rejections that come from the service's own request validation -/
def Err.isValidation : Err → Bool
  | .keySize | .valueSize | .batchSize | .badOp | .noHandle => true
  | _ => false

inductive Arg where
  | none
  | key (k : Bytes)
  | kv (k v : Bytes)
  | batch (ops : List (Bool × Bytes × Bytes))
  | range (lo hi : Option Bytes)
  | flag (b : Bool)
  deriving Repr

inductive Val where
  | unit
  | got (v : Option Bytes)          -- none = ErrKeyNotFound
  | isDel (r : Option Bool)         -- none = ErrKeyNotFound
  | flag (b : Bool)
  | view (l : List KV)              -- the sorted run an iterator yields (deletion markers included)
  | tx (ro : Bool)                  -- a transaction of that (effective) mode
  deriving Repr

/-- the engine as the API sees it -/
structure Eng where
  closed : Bool := false
  readOnly : Bool := false
  store : Store
  rlocks : Nat := 0          -- transaction.Manager.txLock: shared holders
  wlock : Bool := false      --                              exclusive holder
  deriving Repr

/-! ## Views: what iterators yield -/

def srcKV (es : List Kevo.Engine.MEntry) : List KV := es.map (fun e => (e.key, e.val))
def storeSrcs (s : Store) : List (List KV) := (Kevo.Engine.sources s).map srcKV
def fuelOf (srcs : List (List KV)) : Nat := (srcs.map List.length).foldl (· + ·) 0 + 1
def hierOf (srcs : List (List KV)) : Kevo.Merge.Hier := { srcs := srcs.map (fun es => { es := es }) }

/-- Manager.GetIterator: the hierarchical iterator over active table, immutable tables, SSTables -/
def mergedRun (srcs : List (List KV)) : List KV := Kevo.Merge.Hier.collect (fuelOf srcs) (hierOf srcs).first

/-- a BoundedIterator over the hierarchical iterator (nil bound = open) -/
def boundedRun (srcs : List (List KV)) (lo hi : Option Bytes) : List KV :=
  Kevo.Merge.Bounded.collect (fuelOf srcs) (({ h := hierOf srcs, lo := lo, hi := hi } : Kevo.Merge.Bounded).first)

def storeView (s : Store) : List KV := mergedRun (storeSrcs s)
def storeRangeView (s : Store) (lo hi : Option Bytes) : List KV := boundedRun (storeSrcs s) lo hi

/-- Manager.IsDeleted -/
def isDeleted (s : Store) (k : Bytes) : Option Bool :=
  match s.pool.get k with
  | some r => some r.isNone
  | none => (s.ssts.reverse.findSome? (fun t => t.get k)).map (·.isNone)

/-! ## Facade rows: guard chain, then the delegate -/

/-- the first guard of the chain that returns, as a function of the two flags -/
def guardErr : List Guard → Bool → Bool → Option Err
  | [], _, _ => none
  | .closed :: gs, c, r => if c then some .closed else guardErr gs c r
  | .readOnly :: gs, c, r => if r then some .readOnlyMode else guardErr gs c r
  | _ :: gs, c, r => guardErr gs c r

/-- `downgrade`: the read-only engine replaces the caller's flag -/
def effArg (gs : List Guard) (ro : Bool) (a : Arg) : Arg :=
  match a with
  | .flag b => .flag (b || (gs.contains .downgrade && ro))
  | a => a

/-- the unguarded operation -/
def applyOp : Op → Arg → Eng → Val × Eng
  | .storagePut, .kv k v, e => (.unit, { e with store := Kevo.Engine.put e.store k v })
  | .storageDelete, .key k, e => (.unit, { e with store := Kevo.Engine.delete e.store k })
  | .storageApplyBatch, .batch ops, e => (.unit, { e with store := Kevo.Engine.batch e.store ops })
  | .storageGet, .key k, e => (.got (Kevo.Engine.get e.store k), e)
  | .storageIsDeleted, .key k, e => (.isDel (isDeleted e.store k), e)
  | .storageIter, _, e => (.view (storeView e.store), e)
  | .storageRangeIter, .range lo hi, e => (.view (storeRangeView e.store lo hi), e)
  | .storageFlush, _, e => (.unit, { e with store := Kevo.Engine.flushMemTables e.store })
  | .txBegin, .flag ro, e => (.tx ro, if ro then { e with rlocks := e.rlocks + 1 } else { e with wlock := true })
  | .close, _, e => (.unit, { e with closed := true })
  | .setReadOnly, .flag b, e => (.unit, { e with readOnly := b })
  | .isReadOnly, _, e => (.flag e.readOnly, e)
  | _, _, e => (.unit, e)

/-- a sequential caller would wait forever for the transaction lock -/
def wouldBlock (ro : Bool) (e : Eng) : Bool := if ro then e.wlock else e.wlock || e.rlocks > 0

structure Out where
  err : Option Err := none
  blocked : Bool := false
  val : Val := .unit
  eng : Eng
  deriving Repr

/-- a facade method: the guards in source order; a guard that returns leaves everything as it was -/
def run (row : Row) (a : Arg) (e : Eng) : Out :=
  match guardErr row.guards e.closed e.readOnly with
  | some err => { err := some err, eng := e }
  | none =>
    let a := effArg row.guards e.readOnly a
    match row.op, a with
    | .txBegin, .flag ro =>
      if wouldBlock ro e then { blocked := true, eng := e }
      else let (v, e') := applyOp .txBegin (.flag ro) e; { val := v, eng := e' }
    | op, a => let (v, e') := applyOp op a e; { val := v, eng := e' }

/-! ## Transactions (TransactionImpl over transaction.Buffer) -/

structure Tx where
  ro : Bool
  buf : List KV := []        -- last operation per key, in key order; `none` = delete
  active : Bool := true
  deriving Repr

def bufSet : List KV → Bytes → Option Bytes → List KV
  | [], k, v => [(k, v)]
  | (k', v') :: rest, k, v =>
    if ltB k k' then (k, v) :: (k', v') :: rest
    else if k == k' then (k, v) :: rest
    else (k', v') :: bufSet rest k v

def bufGet (buf : List KV) (k : Bytes) : Option (Option Bytes) := (buf.find? (fun e => e.1 == k)).map (·.2)

def Tx.put (t : Tx) (k v : Bytes) : Option Err × Tx :=
  if !t.active then (some .txClosed, t)
  else if t.ro then (some .roTx, t)
  else (none, { t with buf := bufSet t.buf k (some v) })

def Tx.delete (t : Tx) (k : Bytes) : Option Err × Tx :=
  if !t.active then (some .txClosed, t)
  else if t.ro then (some .roTx, t)
  else (none, { t with buf := bufSet t.buf k none })

/-- `.ok none` = ErrKeyNotFound -/
def Tx.get (t : Tx) (e : Eng) (k : Bytes) : Except Err (Option Bytes) :=
  if !t.active then .error .txClosed
  else match bufGet t.buf k with
    | some r => .ok r
    | none => if e.closed then .error .storageClosed else .ok (Kevo.Engine.get e.store k)

/-- buffer over storage: HierarchicalIterator [buffer, storage] -/
def overlay (buf base : List KV) : List KV := mergedRun [buf, base]

/-- Tx.NewIterator -/
def Tx.view (t : Tx) (e : Eng) : List KV :=
  if !t.active then []
  else if e.closed then t.buf
  else if t.buf.isEmpty then storeView e.store
  else overlay t.buf (storeView e.store)

/-- Tx.NewRangeIterator -/
def Tx.rangeView (t : Tx) (e : Eng) (lo hi : Option Bytes) : List KV :=
  let inb := t.buf.filter (fun kv => Kevo.Merge.inRange lo hi kv.1)
  if !t.active then []
  else if e.closed then inb
  else if t.buf.isEmpty then storeRangeView e.store lo hi
  else overlay inb (storeRangeView e.store lo hi)

def unlock (t : Tx) (e : Eng) : Eng :=
  if t.ro then { e with rlocks := e.rlocks - 1 } else { e with wlock := false }

def bufOps (buf : List KV) : List (Bool × Bytes × Bytes) :=
  buf.map (fun kv => match kv.2 with | some x => (false, kv.1, x) | none => (true, kv.1, []))

/-- wal.AppendBatch's first pass (repair 685afc8): every entry of a batch must fit ONE physical log record of
    `maxBatchRecord` bytes (wal.MaxRecordSize): `1 + 8 + 4 + len(key)`, plus `4 + len(value)` unless it is a delete -/
def maxBatchRecord : Nat := 32768
def batchEntryFits (o : Bool × Bytes × Bytes) : Bool :=
  13 + o.2.1.length + (if o.1 then 0 else 4 + o.2.2.length) ≤ maxBatchRecord

/-- Commit: a read-only transaction only releases its lock; a read-write one applies its buffer as ONE batch,
    straight on the storage manager (no facade guard on this path). A batch the log refuses (an entry larger than one
    log record) fails the commit: nothing is applied, the transaction is closed, its lock released. -/
def Tx.commit (t : Tx) (e : Eng) : Option Err × Tx × Eng :=
  if !t.active then (some .txClosed, t, e)
  else
    let t' := { t with active := false }
    if t.ro || t.buf.isEmpty then (none, t', unlock t e)
    else if e.closed then (some .storageClosed, t', unlock t e)
    else if !(bufOps t.buf).all batchEntryFits then (some .recordTooLarge, t', unlock t e)
    else (none, t', unlock t { e with store := Kevo.Engine.batch e.store (bufOps t.buf) })

def Tx.rollback (t : Tx) (e : Eng) : Option Err × Tx × Eng :=
  if !t.active then (some .txClosed, t, e)
  else (none, { t with active := false, buf := [] }, unlock t e)

/-! ## Scans: iterator choice by option combination, filtered iterators, the consumer loop -/

structure ScanOpts where
  pfx : Bytes := []
  sfx : Bytes := []
  start : Bytes := []
  stop : Bytes := []
  limit : Int := 0
  deriving Repr

inductive Branch where
  | prefixSuffix | pfx | sfx | range | full
  deriving DecidableEq, Repr

/-- the if/else-if chain of Scan / TxScan -/
def chooseBranch (o : ScanOpts) : Branch :=
  if o.pfx.length > 0 && o.sfx.length > 0 then .prefixSuffix
  else if o.pfx.length > 0 then .pfx
  else if o.sfx.length > 0 then .sfx
  else if o.start.length > 0 || o.stop.length > 0 then .range
  else .full

/-- protobuf: an empty `bytes` field and an absent one are the same thing on the wire; the handler receives nil -/
def pbBytes (b : Bytes) : Option Bytes := if b.isEmpty then none else some b
/-- … and a nil value in a response reads back as empty -/
def pbValue (v : Option Bytes) : Bytes := v.getD []

/-- an iterator positioned in a sorted run: `rest` = current entry and everything after it -/
structure Cur where
  all : List KV
  rest : List KV := []
  deriving Repr

def Cur.valid (c : Cur) : Bool := !c.rest.isEmpty
def Cur.key (c : Cur) : Bytes := match c.rest with | e :: _ => e.1 | [] => []
def Cur.val (c : Cur) : Option Bytes := match c.rest with | e :: _ => e.2 | [] => none
def Cur.first (c : Cur) : Cur := { c with rest := c.all }
/-- Next(): false (and no move) when not valid; otherwise advance and report validity -/
def Cur.next (c : Cur) : Cur × Bool :=
  match c.rest with
  | [] => (c, false)
  | _ :: r => ({ c with rest := r }, !r.isEmpty)

/-- what a consumer can do with an iterator.Iterator -/
structure IterOps where
  valid : Cur → Bool
  next : Cur → Cur × Bool
  first : Cur → Cur

def baseOps : IterOps := { valid := Cur.valid, next := Cur.next, first := Cur.first }

/-- FilteredIterator.Next: `for fi.iter.Next() { if keyFilter(Key()) { return true } }; return false` -/
def filtNext (inner : IterOps) (p : Bytes → Bool) : Nat → Cur → Cur × Bool
  | 0, c => (c, false)
  | fuel + 1, c =>
    let (c', ok) := inner.next c
    if !ok then (c', false) else if p c'.key then (c', true) else filtNext inner p fuel c'

/-- filtered.FilteredIterator around an iterator -/
def filtOps (inner : IterOps) (p : Bytes → Bool) : IterOps :=
  { valid := fun c => inner.valid c && p c.key,
    next := fun c => filtNext inner p (c.rest.length + 1) c,
    first := fun c =>
      let c := inner.first c
      if inner.valid c && !p c.key then (filtNext inner p (c.rest.length + 1) c).1 else c }

/-- the consumer loop of Scan / TxScan: deletion markers are skipped and do not count towards the limit -/
def consume (ops : IterOps) (limit : Nat) : Nat → Cur → Nat → List (Bytes × Bytes)
  | 0, _, _ => []
  | fuel + 1, c, count =>
    if !ops.valid c then []
    else if limit > 0 && count ≥ limit then []
    else
      let c' := (ops.next c).1
      match c.val with
      | some v => (c.key, v) :: consume ops limit fuel c' (count + 1)
      | none => consume ops limit fuel c' count

def limitOf (o : ScanOpts) : Nat := if o.limit > 0 then o.limit.toNat else 0

/-- Scan as coded: choose the iterator, SeekToFirst, consume. `full` / `range` are the runs the transaction's
    iterators yield. -/
def scanRun (o : ScanOpts) (full : List KV) (range : Option Bytes → Option Bytes → List KV) : List (Bytes × Bytes) :=
  let (ops, all) : IterOps × List KV := match chooseBranch o with
    | .prefixSuffix => (filtOps (filtOps baseOps (fun k => hasPrefix k o.pfx)) (fun k => hasSuffix k o.sfx), full)
    | .pfx => (filtOps baseOps (fun k => hasPrefix k o.pfx), full)
    | .sfx => (filtOps baseOps (fun k => hasSuffix k o.sfx), full)
    | .range => (baseOps, range (pbBytes o.start) (pbBytes o.stop))
    | .full => (baseOps, full)
  consume ops (limitOf o) (all.length + 1) (ops.first { all := all }) 0

/-- the filter each option combination stands for -/
def specPred (o : ScanOpts) : Branch → Bytes → Bool
  | .prefixSuffix => fun k => hasPrefix k o.pfx && hasSuffix k o.sfx
  | .pfx => fun k => hasPrefix k o.pfx
  | .sfx => fun k => hasSuffix k o.sfx
  | .range => fun _ => true      -- the range iterator itself is the restriction to [start, stop)
  | .full => fun _ => true

def live (l : List KV) : List (Bytes × Bytes) := l.filterMap (fun kv => kv.2.map (fun v => (kv.1, v)))
def takeLimit (n : Nat) (l : List α) : List α := if n > 0 then l.take n else l

/-- the SPECIFIED result of a scan -/
def scanSpec (o : ScanOpts) (full : List KV) (range : Option Bytes → Option Bytes → List KV) : List (Bytes × Bytes) :=
  let b := chooseBranch o
  let base := if b = .range then range (pbBytes o.start) (pbBytes o.stop) else full
  takeLimit (limitOf o) (live (base.filter (fun kv => specPred o b kv.1)))

/-! ## Node information -/

structure MgrCfg where
  enabled : Bool := true
  mode : String
  primaryAddr : String := ""
  listenAddr : String := ""
  deriving Repr, DecidableEq

inductive Role where
  | standalone | primary | replica
  deriving DecidableEq, Repr

structure NodeInfo where
  role : Role := .standalone
  primary : String := ""
  readOnly : Bool := false
  replicas : Nat := 0
  lastSeq : Nat := 0
  deriving DecidableEq, Repr

def roleOfMode (m : String) : Role := if m = "primary" then .primary else if m = "replica" then .replica else .standalone

/-- replication.Manager.GetNodeInfo (manager constructed, replication streams not started) composed with the role
    switch of KevoServiceServer.GetNodeInfo -/
def managerInfo (m : MgrCfg) (engRO : Bool) : NodeInfo :=
  { role := roleOfMode m.mode,
    primary := if m.mode = "replica" then m.primaryAddr else if m.mode = "primary" then m.listenAddr else "",
    readOnly := engRO,
    replicas := if m.mode = "replica" then 1 else 0,
    lastSeq := 0 }

/-- GetNodeInfo as a decision function of (manager present?, its configuration, engine.readOnly) -/
def nodeInfo (mgr : Option MgrCfg) (engRO : Bool) : NodeInfo :=
  match mgr with
  | none => {}
  | some m => managerInfo m engRO

/-- what the node IS: the configured role and primary address, the engine's flag -/
def nodeTruth (mgr : Option MgrCfg) (engRO : Bool) : NodeInfo :=
  match mgr with
  | none => { readOnly := engRO }
  | some m => managerInfo m engRO

/-! ## The service -/

inductive BOp where
  | put (k v : Bytes)
  | del (k : Bytes)
  | bad (k : Bytes)        -- an operation type the handler does not know
  deriving Repr

def BOp.key : BOp → Bytes
  | .put k _ => k | .del k => k | .bad k => k

inductive Req where
  | get (k : Bytes)
  | put (k v : Bytes)
  | delete (k : Bytes)
  | batchWrite (ops : List BOp)
  | scan (o : ScanOpts)
  | begin (ro : Bool)
  | commit (id : Nat)                      -- handle "tx-<id>"; anything the registry never issued is 0
  | rollback (id : Nat)
  | txGet (id : Nat) (k : Bytes)
  | txPut (id : Nat) (k v : Bytes)
  | txDelete (id : Nat) (k : Bytes)
  | txScan (id : Nat) (o : ScanOpts)
  | getStats
  | compact (force : Bool)
  | getNodeInfo
  deriving Repr

inductive Resp where
  | ok
  | err (e : Err)
  | found (v : Bytes)
  | notFound
  | pairs (l : List (Bytes × Bytes))
  | txid (id : Nat)
  | stats (keys size : Nat)
  | node (i : NodeInfo)
  | blocked                       -- the call would wait for the transaction lock (never returns in a sequential run)
  deriving Repr

/-- the service words the refusal of a write on a read-only transaction itself; same outcome as the embedded error -/
def Resp.norm : Resp → Resp
  | .err .svcRoTx => .err .roTx
  | r => r

structure Svc where
  eng : Eng
  txs : List (Nat × Tx) := []         -- RegistryImpl.transactions, keyed by the counter value in "tx-<n>"
  nextID : Nat := 0
  mgr : Option MgrCfg := none
  deriving Repr

def Req.key? : Req → Option Bytes
  | .get k | .put k _ | .delete k | .txGet _ k | .txPut _ k _ | .txDelete _ k => some k
  | _ => none
def Req.value? : Req → Option Bytes
  | .put _ v | .txPut _ _ v => some v
  | _ => none
def Req.nops? : Req → Option Nat
  | .batchWrite ops => some ops.length
  | _ => none
def Req.handle? : Req → Option Nat
  | .commit id | .rollback id | .txGet id _ | .txPut id _ _ | .txDelete id _ | .txScan id _ => some id
  | _ => none

def Svc.tx? (st : Svc) (id : Nat) : Option Tx := st.txs.lookup id
def Svc.setTx (st : Svc) (id : Nat) (t : Tx) : Svc :=
  { st with txs := st.txs.map (fun p => if p.1 == id then (id, t) else p) }
/-- RegistryImpl.Remove -/
def Svc.removeTx (st : Svc) (id : Nat) : Svc := { st with txs := st.txs.filter (fun p => p.1 != id) }

def keyBad (max : Nat) (k : Bytes) : Bool := k.length == 0 || k.length > max
def valBad (max : Nat) (v : Bytes) : Bool := v.length > max
def tooMany (max n : Nat) : Bool := n > max

/-- one guard of a handler: `some r` = the handler returns `r` here -/
def svcGuard (g : Guard) (req : Req) (st : Svc) : Option Resp :=
  match g with
  | .keySize max => match req.key? with
    | some k => if keyBad max k then some (.err .keySize) else none
    | none => none
  | .valueSize max => match req.value? with
    | some v => if valBad max v then some (.err .valueSize) else none
    | none => none
  | .batchEmpty => match req.nops? with
    | some n => if n == 0 then some .ok else none
    | none => none
  | .batchSize max => match req.nops? with
    | some n => if tooMany max n then some (.err .batchSize) else none
    | none => none
  | .handle => match req.handle? with
    | some id => match st.tx? id with
      | some _ => none
      | none => some (.err .noHandle)
    | none => none
  | .txWritable => match req.handle? with
    | some id => match st.tx? id with
      | some t => if t.ro then some (.err .svcRoTx) else none
      | none => none
    | none => none
  | .noManager => match st.mgr with
    | none => some (.node {})
    | some _ => none
  | .closed | .readOnly | .downgrade => none

/-- the guard chain of a handler, in source order -/
def svcGuards : List Guard → Req → Svc → Option Resp
  | [], _, _ => none
  | g :: gs, req, st => match svcGuard g req st with
    | some r => some r
    | none => svcGuards gs req st

def respOf : Option Err → Resp
  | none => .ok
  | some e => .err e

/-- the per-operation guards inside the BatchWrite loop -/
def opGuard (g : Guard) (op : BOp) : Option Err :=
  match g, op with
  | .keySize max, op => if keyBad max op.key then some .keySize else none
  | .valueSize max, .put _ v => if valBad max v then some .valueSize else none
  | _, _ => none

def opGuards : List Guard → BOp → Option Err
  | [], _ => none
  | g :: gs, op => match opGuard g op with
    | some e => some e
    | none => opGuards gs op

/-- one iteration of the BatchWrite loop -/
def batchStep (lg : List Guard) (t : Tx) (op : BOp) : Option Err × Tx :=
  match opGuards lg op with
  | some e => (some e, t)
  | none => match op with
    | .put k v => t.put k v
    | .del k => t.delete k
    | .bad _ => (some .badOp, t)

def batchLoop (lg : List Guard) : Tx → List BOp → Option Err × Tx
  | t, [] => (none, t)
  | t, op :: rest => match batchStep lg t op with
    | (some e, t') => (some e, t')
    | (none, t') => batchLoop lg t' rest

def scanOf (t : Tx) (e : Eng) (o : ScanOpts) : List (Bytes × Bytes) := scanRun o (t.view e) (t.rangeView e)

def compactMarker : Bytes :=   -- "__compact_marker__"
  [0x5f, 0x5f, 0x63, 0x6f, 0x6d, 0x70, 0x61, 0x63, 0x74, 0x5f, 0x6d, 0x61, 0x72, 0x6b, 0x65, 0x72, 0x5f, 0x5f]
def compactForce : Bytes := [0x66, 0x6f, 0x72, 0x63, 0x65]   -- "force"

/-- begin a transaction through the facade and run `f` with it; `f` finishes the transaction itself -/
def withTx (R : Rows) (ro : Bool) (st : Svc) (f : Tx → Eng → Resp × Eng) : Resp × Svc :=
  let o := run R.fBegin (.flag ro) st.eng
  if o.blocked then (.blocked, st)
  else match o.err, o.val with
    | some e, _ => (.err e, st)
    | none, .tx ro' => let (r, e') := f { ro := ro' } o.eng; (r, { st with eng := e' })
    | none, _ => (.err .closed, st)

/-- the delegate part of a handler (after its guard chain) -/
def delegate (R : Rows) (req : Req) (st : Svc) : Resp × Svc :=
  match req with
  | .get k =>
    let o := run R.fGet (.key k) st.eng
    match o.err, o.val with
    | none, .got (some v) => (.found v, st)
    | _, _ => (.notFound, st)                     -- every engine error is reported as "not found"
  | .put k v => let o := run R.fPut (.kv k v) st.eng; (respOf o.err, { st with eng := o.eng })
  | .delete k => let o := run R.fDelete (.key k) st.eng; (respOf o.err, { st with eng := o.eng })
  | .batchWrite ops =>
    withTx R false st (fun t e =>
      match batchLoop R.sBatchWrite.loopGuards t ops with
      | (some err, t') => (.err err, (t'.rollback e).2.2)
      | (none, t') => let (ce, _, e') := t'.commit e; (respOf ce, e'))
  | .scan o => withTx R true st (fun t e => (.pairs (scanOf t e o), (t.rollback e).2.2))
  | .begin ro =>
    let o := run R.fBegin (.flag ro) st.eng
    if o.blocked then (.blocked, st)
    else match o.err, o.val with
      | some e, _ => (.err e, st)
      | none, .tx ro' =>
        let id := st.nextID + 1
        (.txid id, { st with eng := o.eng, nextID := st.nextID + 1, txs := (id, { ro := ro' }) :: st.txs })
      | none, _ => (.err .closed, st)
  | .commit id => match st.tx? id with
    | some t => let (ce, _, e') := t.commit st.eng; (respOf ce, ({ st with eng := e' } : Svc).removeTx id)
    | none => (.err .noHandle, st)
  | .rollback id => match st.tx? id with
    | some t => let (ce, _, e') := t.rollback st.eng; (respOf ce, ({ st with eng := e' } : Svc).removeTx id)
    | none => (.err .noHandle, st)
  | .txGet id k => match st.tx? id with
    | some t => match t.get st.eng k with
      | .ok (some v) => (.found v, st)
      | _ => (.notFound, st)                      -- every error is reported as "not found"
    | none => (.err .noHandle, st)
  | .txPut id k v => match st.tx? id with
    | some t => match t.put k v with
      | (some e, _) => (.err e, st)
      | (none, t') => (.ok, st.setTx id t')
    | none => (.err .noHandle, st)
  | .txDelete id k => match st.tx? id with
    | some t => match t.delete k with
      | (some e, _) => (.err e, st)
      | (none, t') => (.ok, st.setTx id t')
    | none => (.err .noHandle, st)
  | .txScan id o => match st.tx? id with
    | some t => (.pairs (scanOf t st.eng o), st)
    | none => (.err .noHandle, st)
  | .getStats =>
    withTx R true st (fun t e =>
      let l := live (t.view e)
      (.stats l.length ((l.map (fun kv => kv.1.length + kv.2.length)).foldl (· + ·) 0), (t.rollback e).2.2))
  | .compact force =>
    withTx R false st (fun t e =>
      if force then
        match t.put compactMarker compactForce with
        | (some err, t') => (.err err, (t'.rollback e).2.2)
        | (none, t') => let (ce, _, e') := t'.commit e; (respOf ce, e')
      else let (ce, _, e') := t.commit e; (respOf ce, e'))
  | .getNodeInfo => (.node (nodeInfo st.mgr st.eng.readOnly), st)

def rowOf (R : Rows) : Req → Row
  | .get _ => R.sGet | .put _ _ => R.sPut | .delete _ => R.sDelete | .batchWrite _ => R.sBatchWrite | .scan _ => R.sScan
  | .begin _ => R.sBegin | .commit _ => R.sCommit | .rollback _ => R.sRollback | .txGet _ _ => R.sTxGet
  | .txPut _ _ _ => R.sTxPut | .txDelete _ _ => R.sTxDelete | .txScan _ _ => R.sTxScan | .getStats => R.sGetStats
  | .compact _ => R.sCompact | .getNodeInfo => R.sGetNodeInfo

/-- a handler = the guard chain of its row, then the delegate -/
def handle (R : Rows) (req : Req) (st : Svc) : Resp × Svc :=
  match svcGuards (rowOf R req).guards req st with
  | some r => (r, st)
  | none => delegate R req st

/-! ## The same requests on the embedded API (the specification of `handle`) -/

structure Limits where
  maxKey : Nat
  maxValue : Nat
  maxBatch : Nat
  deriving Repr, DecidableEq

def keyOk (L : Limits) (k : Bytes) : Bool := !keyBad L.maxKey k
def valOk (L : Limits) (v : Bytes) : Bool := !valBad L.maxValue v
def bopOk (L : Limits) : BOp → Bool
  | .put k v => keyOk L k && valOk L v
  | .del k => keyOk L k
  | .bad _ => false

/-- the documented request limits -/
def withinLimits (L : Limits) : Req → Bool
  | .get k | .delete k | .txGet _ k | .txDelete _ k => keyOk L k
  | .put k v | .txPut _ k v => keyOk L k && valOk L v
  | .batchWrite ops => !tooMany L.maxBatch ops.length && ops.all (bopOk L)
  | _ => true

/-- a batch operation on an embedded transaction -/
def embOp (t : Tx) : BOp → Option Err × Tx
  | .put k v => t.put k v
  | .del k => t.delete k
  | .bad _ => (some .badOp, t)

def embOps : Tx → List BOp → Option Err × Tx
  | t, [] => (none, t)
  | t, op :: rest => match embOp t op with
    | (some e, t') => (some e, t')
    | (none, t') => embOps t' rest

def scanEmb (t : Tx) (e : Eng) (o : ScanOpts) : List (Bytes × Bytes) := scanSpec o (t.view e) (t.rangeView e)

/-- the request translated to calls of the embedded API (facade rows + transaction methods), no service in between.
    `handle` must produce the same response and the same state for every request within the limits. -/
def embed (R : Rows) (req : Req) (st : Svc) : Resp × Svc :=
  match req with
  | .get k =>
    let o := run R.fGet (.key k) st.eng
    match o.err, o.val with
    | some e, _ => (.err e, st)
    | none, .got (some v) => (.found v, st)
    | none, _ => (.notFound, st)
  | .batchWrite [] => (.ok, st)
  | .batchWrite ops =>
    withTx R false st (fun t e =>
      match embOps t ops with
      | (some err, t') => (.err err, (t'.rollback e).2.2)
      | (none, t') => let (ce, _, e') := t'.commit e; (respOf ce, e'))
  | .scan o => withTx R true st (fun t e => (.pairs (scanEmb t e o), (t.rollback e).2.2))
  | .txGet id k => match st.tx? id with
    | some t => match t.get st.eng k with
      | .ok (some v) => (.found v, st)
      | .ok none => (.notFound, st)
      | .error e => (.err e, st)
    | none => (.err .noHandle, st)
  | .txScan id o => match st.tx? id with
    | some t => (.pairs (scanEmb t st.eng o), st)
    | none => (.err .noHandle, st)
  | .compact _ => (if st.eng.closed then .err .closed else .ok, st)     -- embedded maintenance never changes the data
  | .getNodeInfo => (.node (nodeTruth st.mgr st.eng.readOnly), st)
  -- put, delete, begin, commit, rollback, txPut, txDelete, stats: the delegate IS the embedded call
  | req => delegate R req st

/-! ## Any row of the table on a state -/

def toBOp (o : Bool × Bytes × Bytes) : BOp := if o.1 then .del o.2.1 else .put o.2.1 o.2.2

/-- the request of an RPC whose parameters are the given argument (`none`: the argument does not have that shape;
    the RPCs addressed by handle and the scans have their own theorems) -/
def reqOf (name : String) (a : Arg) : Option Req :=
  if name = "Put" then (match a with | .kv k v => some (.put k v) | _ => none)
  else if name = "Delete" then (match a with | .key k => some (.delete k) | _ => none)
  else if name = "Get" then (match a with | .key k => some (.get k) | _ => none)
  else if name = "BatchWrite" then (match a with | .batch ops => some (.batchWrite (ops.map toBOp)) | _ => none)
  else if name = "Compact" then (match a with | .flag f => some (.compact f) | _ => none)
  else if name = "BeginTransaction" then (match a with | .flag ro => some (.begin ro) | _ => none)
  else if name = "GetStats" then some .getStats
  else if name = "GetNodeInfo" then some .getNodeInfo
  else none

structure RowOut where
  err : Option Err        -- the error the caller gets (none: success)
  blocked : Bool          -- the call waits for the transaction lock
  store : Store           -- the data afterwards

def errOfResp : Resp → Option Err
  | .err e => some e
  | _ => none

def isBlocked : Resp → Bool
  | .blocked => true
  | _ => false

/-- `run row s`: a facade row on the engine; a service row through its handler -/
def runRow (R : Rows) (row : Row) (a : Arg) (st : Svc) : Option RowOut :=
  match row.layer with
  | .facade => let o := run row a st.eng; some { err := o.err, blocked := o.blocked, store := o.eng.store }
  | .service => (reqOf row.name a).map (fun req =>
      let r := handle R req st
      { err := errOfResp r.1, blocked := isBlocked r.1, store := r.2.eng.store })

/-- the argument asks for a change of the data (an empty batch or a compaction without the force flag does not) -/
def Arg.mutates : Arg → Bool
  | .batch [] => false
  | .flag false => false
  | _ => true

/-! ## The replication applier (EngineApplier.Apply) -/

/-- entry types: 1 put, 2 delete, 3 merge (applied as a put); on a read-only engine puts and deletes go through the
    *Internal rows, a merge through SetReadOnly(false); Put; SetReadOnly(true). -/
def applyEntry (R : Rows) (ty : Nat) (k v : Bytes) (e : Eng) : Option Err × Eng :=
  let ro := (run R.fIsReadOnly .none e).val
  match ro with
  | .flag true =>
    if ty = 1 then let o := run R.fPutInternal (.kv k v) e; (o.err, o.eng)
    else if ty = 2 then let o := run R.fDeleteInternal (.key k) e; (o.err, o.eng)
    else if ty = 3 then
      let e1 := (run R.fSetReadOnly (.flag false) e).eng
      let o := run R.fPut (.kv k v) e1
      (o.err, (run R.fSetReadOnly (.flag true) o.eng).eng)
    else (some .badEntry, e)
  | _ =>
    if ty = 1 ∨ ty = 3 then let o := run R.fPut (.kv k v) e; (o.err, o.eng)
    else if ty = 2 then let o := run R.fDelete (.key k) e; (o.err, o.eng)
    else (some .badEntry, e)

end Kevo.Service
