/-
  Kevo.Model.WalLog — the log as a sequence of files with a sequence counter: `WAL.Append`,
  `WAL.AppendBatch`, rotation (NewWAL + counter hand-over) and reopening (ReuseWAL + UpdateNextSequence).
  Bytes only; buffering/sync are modelled separately in Model/Crash.
-/
import Kevo.Model.Wal
namespace Kevo.Wal

inductive WErr where
  | invalidOp | overflow | tooLarge
  deriving Repr, DecidableEq, BEq

structure Log where
  files : List Bytes := [[]]     -- oldest first; the last one is the file being appended to
  next : Nat := 1
  deriving Repr

def Log.write (l : Log) (bs : Bytes) : Log :=
  match l.files.reverse with
  | [] => { l with files := [bs] }
  | cur :: older => { l with files := (( cur ++ bs) :: older).reverse }

def validOp (p : WalParams) (op : Nat) : Bool := op == p.opPut || op == p.opDelete || op == p.opMerge

/-- WAL.Append -/
def Log.append (p : WalParams) (crc : Bytes → Nat) (l : Log) (op : Nat) (key val : Bytes) : Except WErr Nat × Log :=
  if !validOp p op then (.error .invalidOp, l)
  else if l.next ≥ p.maxSeq then (.error .overflow, l)
  else
    let e : Entry := { op, seq := l.next, key, val }
    (.ok l.next, { (l.write (encodeEntry p crc e)) with next := l.next + 1 })

/-- the record loop of AppendBatch: FULL records all carrying `seq`. -/
def batchBytes (p : WalParams) (crc : Bytes → Nat) (seq : Nat) : List (Nat × Bytes × Bytes) → Bytes
  | [] => []
  | (op, k, v) :: rest =>
    record crc p.tFull (payload p { op, seq, key := k, val := v }) ++ batchBytes p crc seq rest

/-- the size pass of AppendBatch: every entry must fit one record, checked before anything is buffered. -/
def batchFits (p : WalParams) (seq : Nat) (es : List (Nat × Bytes × Bytes)) : Bool :=
  es.all (fun (op, k, v) => payloadSize p { op, seq, key := k, val := v } ≤ p.maxRecord)

/-- WAL.AppendBatch: a batch with an oversized entry is rejected as a whole and leaves the log untouched. -/
def Log.batch (p : WalParams) (crc : Bytes → Nat) (l : Log) (es : List (Nat × Bytes × Bytes)) : Except WErr Nat × Log :=
  if es.isEmpty then (.ok l.next, l)
  else if l.next ≥ p.maxSeq then (.error .overflow, l)
  else if !batchFits p l.next es then (.error .tooLarge, l)
  else (.ok l.next, { (l.write (batchBytes p crc l.next es)) with next := l.next + 1 })

/-- rotation as performed by the storage manager: a new empty file, counter handed over. -/
def Log.rotate (l : Log) : Log := { l with files := l.files ++ [[]] }

/-- all entries replayed from the directory -/
def Log.replay (p : WalParams) (crc : Bytes → Nat) (l : Log) : DirReplay := replayDir p crc l.files

def maxSeqOf (es : List Entry) : Nat := es.foldl (fun m e => max m e.seq) 0

/-- reopen as the storage manager does: reuse the newest file, continue after the highest replayed number. -/
def Log.reopen (p : WalParams) (crc : Bytes → Nat) (l : Log) : Log :=
  let m := maxSeqOf (l.replay p crc).entries
  { l with next := max 1 (m + 1) }

/-- WAL.GetEntriesFrom: older files first (a file that fails to read is dropped entirely), current file last
    (a read failure there fails the call). -/
def Log.entriesFrom (p : WalParams) (crc : Bytes → Nat) (l : Log) (minSeq : Nat) : Option (List Entry) :=
  if minSeq ≥ l.next then some [] else
  match l.files.reverse with
  | [] => some []
  | cur :: older =>
    let olderEs := older.reverse.foldl (fun acc f =>
      let (es, ok) := entriesFromFile p crc f minSeq
      if ok then acc ++ es else acc) []
    let (ces, ok) := entriesFromFile p crc cur minSeq
    if ok then some (olderEs ++ ces) else none

end Kevo.Wal
