/-
  Kevo.Model.Config — C20: configuration validation and persistence (pkg/config/config.go, engine.NewEngineFacade).

  * `Constraint c k` / `Valid c` : the DOCUMENTED constraints, one per error message of `Config.Validate`, written
    by hand from the messages (not from the conditions). `Kevo.Gen.Config.validate` is the function TRANSLATED from
    the Go source on every run; `validate_iff` (Kevo.Props.C20) connects the two.
  * `Codec` : encoding/json as an abstract parameter (`encode` = json.MarshalIndent, `decode` = json.Unmarshal into a
    zero Config) with the assumed laws `Codec.Laws` — round trip for `Encodable` configurations, and "no proper
    prefix of an encoded configuration decodes". Both are re-tested against the real encoding/json on every run.
  * `save` = Config.SaveManifest, `load` = config.LoadConfigFromManifest (read ∘ decode ∘ validate),
    `openConfig` = the load-or-create decision at the top of engine.NewEngineFacade.
  * `goCodec` : executable stand-in for encoding/json used by the model driver (and as the witness that the laws
    are satisfiable): it replaces invalid UTF-8 like Go does and refuses non-finite floats.
  I/O errors other than "the manifest cannot be read" are not modelled.
-/
import Kevo.Gen.Config
namespace Kevo.Config
open Kevo.GoVal Kevo.Gen.Config

/-! ### documented constraints -/

/-- "Compaction ratio must be greater than 1.0" (NaN is not greater than anything; +Inf is). -/
def GreaterThanOne : Ratio → Prop
  | .fin q => 1 < q
  | .posInf => True
  | _ => False

/-- "Compaction ratio must be a finite number" -/
def Finite : Ratio → Prop
  | .fin _ => True
  | _ => False

/-- one constraint per error message of `Config.Validate`, in the order of the messages -/
def numConstraints : Nat := 17

def Constraint (c : Cfg) : Nat → Prop
  | 0 => 0 < c.Version                       -- invalid version %d
  | 1 => c.WALDir ≠ []                       -- WAL directory not specified
  | 2 => c.SSTDir ≠ []                       -- SSTable directory not specified
  | 3 => 0 < c.MemTableSize                  -- MemTable size must be positive
  | 4 => 0 < c.MaxMemTables                  -- Max MemTables must be positive
  | 5 => 0 < c.SSTableBlockSize              -- SSTable block size must be positive
  | 6 => 0 < c.SSTableIndexSize              -- SSTable index size must be positive
  | 7 => 0 < c.CompactionLevels              -- Compaction levels must be positive
  | 8 => GreaterThanOne c.CompactionRatio    -- Compaction ratio must be greater than 1.0
  | 9 => Finite c.CompactionRatio            -- Compaction ratio must be a finite number
  | 10 => 0 < c.ReadOnlyTxTTL                -- Read-only transaction TTL must be positive
  | 11 => 0 < c.ReadWriteTxTTL               -- Read-write transaction TTL must be positive
  | 12 => 0 < c.IdleTxTimeout                -- Idle transaction timeout must be positive
  | 13 => 0 < c.TxCleanupInterval            -- Transaction cleanup interval must be positive
  | 14 => 1 ≤ c.TxWarningThreshold ∧ c.TxWarningThreshold ≤ 99          -- … warning threshold must be between 1 and 99
  | 15 => c.TxWarningThreshold < c.TxCriticalThreshold ∧ c.TxCriticalThreshold ≤ 99   -- … between warning threshold and 99
  | 16 => ValidUTF8 c.WALDir ∧ ValidUTF8 c.SSTDir   -- directory paths must be valid UTF-8 (repair of KF-C20-utf8)
  | _ => True

/-- a configuration is valid iff it satisfies every documented constraint -/
def Valid (c : Cfg) : Prop := ∀ k, k < numConstraints → Constraint c k

/-! ### the JSON codec (assumed) and the directory -/

/-- encoding/json specialised to `Config`. `Doc` = the bytes of a manifest (abstract). -/
structure Codec (Doc : Type) where
  /-- json.MarshalIndent(c, "", "  "); `none` = it returns an error -/
  encode : Cfg → Option Doc
  /-- json.Unmarshal(data, &Config{}); `none` = it returns an error -/
  decode : Doc → Option Cfg
  /-- number of bytes -/
  size : Doc → Nat
  /-- the first `n` bytes -/
  trunc : Doc → Nat → Doc

/-- what Go's encoding/json represents faithfully: strings that are valid UTF-8 (others are silently rewritten),
    finite floats (others are a marshal error), integers of the field's type. -/
def Encodable (c : Cfg) : Prop :=
  (∀ s ∈ strings c, ValidUTF8 s) ∧ (∀ r ∈ ratios c, Finite r) ∧ representable c

/-- ASSUMPTIONS about encoding/json (trusted; sampled by component `config` on every run). -/
structure Codec.Laws {Doc : Type} (J : Codec Doc) : Prop where
  /-- decode (encode c) = c for encodable configurations -/
  roundtrip : ∀ c, Encodable c → ∃ b, J.encode c = some b ∧ J.decode b = some c
  /-- a proper prefix of an encoded configuration (a JSON object, closed by its last byte) does not decode -/
  prefix_undecodable : ∀ c b, J.encode c = some b → ∀ n, n < J.size b → J.decode (J.trunc b n) = none

inductive FileState (Doc : Type) where
  | absent
  | unreadable            -- exists but os.ReadFile fails with something else than "not exist"
  | data (b : Doc)

/-- the database directory as far as the configuration is concerned -/
structure Dir (Doc : Type) where
  present : Bool := false                    -- the directory exists
  manifest : FileState Doc := .absent        -- <dir>/MANIFEST
  tmp : Option Doc := none                   -- <dir>/MANIFEST.tmp

inductive SaveErr where
  | invalid (k : Nat)     -- Validate failed with message k
  | marshal
  | io
  deriving DecidableEq, Repr

inductive LoadErr where
  | notFound              -- ErrManifestNotFound
  | read                  -- "failed to read manifest"
  | invalidManifest       -- ErrInvalidManifest (does not decode)
  | invalidConfig (k : Nat)
  deriving DecidableEq, Repr

inductive OpenErr where
  | load (e : LoadErr)    -- "failed to load configuration"
  | save (e : SaveErr)    -- "failed to save configuration"
  deriving DecidableEq, Repr

variable {Doc : Type}

/-- the states the directory goes through during `SaveManifest` (call order: Validate < MkdirAll < MarshalIndent <
    WriteFile(tmp) < Rename(tmp, MANIFEST); fact `config.SaveManifest.order`). The last one is the result. -/
def saveTrace (J : Codec Doc) (c : Cfg) (d : Dir Doc) : List (Dir Doc) :=
  match validate c with
  | some _ => [d]
  | none =>
    let d1 := { d with present := true }
    match J.encode c with
    | none => [d, d1]
    | some b =>
      let d2 := { d1 with tmp := some b }
      match d.manifest with
      | .unreadable => [d, d1, d2]
      | _ => [d, d1, d2, { d2 with manifest := .data b, tmp := none }]

/-- `c.SaveManifest(dir)`: (error, directory afterwards) -/
def save (J : Codec Doc) (c : Cfg) (d : Dir Doc) : Option SaveErr × Dir Doc :=
  match validate c with
  | some k => (some (.invalid k), d)
  | none =>
    let d1 := { d with present := true }
    match J.encode c with
    | none => (some .marshal, d1)
    | some b =>
      let d2 := { d1 with tmp := some b }
      match d.manifest with
      | .unreadable => (some .io, d2)          -- rename onto something that is not a regular file fails
      | _ => (none, { d2 with manifest := .data b, tmp := none })

/-- `config.LoadConfigFromManifest(dir)` = read ∘ decode ∘ validate -/
def load (J : Codec Doc) (d : Dir Doc) : Except LoadErr Cfg :=
  match d.manifest with
  | .absent => .error .notFound
  | .unreadable => .error .read
  | .data b =>
    match J.decode b with
    | none => .error .invalidManifest
    | some c =>
      match validate c with
      | some k => .error (.invalidConfig k)
      | none => .ok c

/-- the configuration part of `engine.NewEngineFacade(dir)`: the stored configuration if there is one, the defaults
    (saved at once) ONLY when there is no manifest, an error otherwise. Returns the configuration the engine runs
    with and the directory afterwards. -/
def openConfig (J : Codec Doc) (dflt : Cfg) (d : Dir Doc) : Except OpenErr (Cfg × Dir Doc) :=
  let d0 := { d with present := true }
  match load J d0 with
  | .ok c => .ok (c, d0)
  | .error .notFound =>
    match save J dflt d0 with
    | (none, d') => .ok (dflt, d')
    | (some e, _) => .error (.save e)
  | .error e => .error (.load e)

/-! ### executable stand-in for encoding/json -/

/-- a marshalled configuration and whether all of its bytes are (still) there -/
structure GoDoc where
  cfg : Cfg
  intact : Bool

def allFinite (c : Cfg) : Bool := (ratios c).all Ratio.isFinite

/-- behaves like Go's encoding/json on `Config` as far as C20 can see: NaN/±Inf are a marshal error, invalid UTF-8
    bytes come back as U+FFFD, a truncated document does not decode. -/
def goCodec : Codec GoDoc where
  encode c := if allFinite c then some ⟨mapStrings sanitize c, true⟩ else none
  decode d := if d.intact then some d.cfg else none
  size _ := 1
  trunc d n := if n < 1 then { d with intact := false } else d

end Kevo.Config
