/-
  Kevo.Model.TxLock — the transaction isolation protocol of pkg/transaction (manager.go, transaction.go, buffer.go)
  on top of the generic interleaving semantics (Kevo.Model.Conc).

  What the code does (repaired tree):
    Manager.BeginTransaction(readOnly): txLock.RLock() (read-only) / txLock.Lock() (read-write) BEFORE returning;
    TransactionImpl.Get / NewIterator / NewRangeIterator: the private buffer first, then storage;
    Put / Delete: into the buffer (ErrReadOnlyTransaction for read-only, no effect);
    Commit: CAS(active) ; read-write: ONE storage.ApplyBatch(buffer, one op per key) ; release ; read-only: release;
    Rollback: CAS(active) ; clear buffer ; release ; any call after the first finish: ErrTransactionClosed, no effect.
  One thread id = one transaction (a client running several transactions one after another is several ids; real
  time between them is part of `respectsRealTime`). `begin` is ENABLED iff the lock is compatible: a thread blocked
  in Lock()/RLock() simply has not taken its step yet, so the begin step is the step that ACQUIRED the lock.
  Raw (non-transactional) writes are a separate step kind: they change `db` at any time without looking at the lock.
-/
import Kevo.Model.Conc
import Kevo.Spec.Map
namespace Kevo.TxLock
open Kevo Kevo.Spec Kevo.Conc

inductive Mode | ro | rw
  deriving DecidableEq, Repr

inductive Phase | idle | active | done
  deriving DecidableEq, Repr

/-- private write buffer, newest first; `none` = deletion marker (Buffer.operations: one entry per key). -/
abbrev Buf := List (Bytes × Option Bytes)

/-- what a transaction with buffer `b` sees on top of `db`: buffer first, then storage. -/
def view (db : KVMap) (b : Buf) : KVMap := fun k =>
  match b.lookup k with
  | some v => v
  | none => db k

/-- `lo ≤ k < hi` with open ends (`none`). -/
def inRange (lo hi : Option Bytes) (k : Bytes) : Bool :=
  (match lo with | none => true | some l => !ltB k l) && (match hi with | none => true | some h => ltB k h)

/-- the result of a range scan, extensionally: the live entries inside the range. -/
def restrict (m : KVMap) (lo hi : Option Bytes) : KVMap := fun k => if inRange lo hi k then m k else none

/-- one observed read with its result (ghost history). -/
inductive Read
  | get (k : Bytes) (r : Option Bytes)
  | scan (lo hi : Option Bytes) (r : KVMap)

inductive Action
  | begin (m : Mode)
  | get (k : Bytes)
  | scan (lo hi : Option Bytes)
  | put (k v : Bytes)
  | del (k : Bytes)
  | commit
  | rollback
  | rawPut (k v : Bytes)    -- engine.Put outside any transaction
  | rawDel (k : Bytes)

def Action.isRaw : Action → Bool
  | .rawPut _ _ => true
  | .rawDel _ => true
  | _ => false

def Action.isFinish : Action → Bool
  | .commit => true
  | .rollback => true
  | _ => false

structure Tx where
  mode : Mode := .ro
  buf : Buf := []
  phase : Phase := .idle
  reads : List Read := []     -- ghost: every read with its result, in program order
  closedCalls : Nat := 0      -- ghost: calls answered with ErrTransactionClosed

structure Lock where
  writer : Option Tid := none
  readers : List Tid := []

structure State where
  db : KVMap := emptyMap
  lock : Lock := {}
  tx : Tid → Tx := fun _ => {}
  acq : List Tid := []            -- ghost: lock-acquisition order
  fin : List Tid := []            -- ghost: finish (commit/rollback) order
  clock : Nat := 0                -- ghost: number of steps taken so far
  acqIdx : Tid → Nat := fun _ => 0  -- ghost: index of the step that acquired the lock
  finIdx : Tid → Nat := fun _ => 0  -- ghost: index of the first commit/rollback step

def setFn {β : Type} (f : Tid → β) (t : Tid) (v : β) : Tid → β := fun u => if u = t then v else f u

def tick (s : State) : State := { s with clock := s.clock + 1 }

/-- sync.RWMutex compatibility: readers exclude a writer, a writer excludes everybody. -/
def compatible (l : Lock) : Mode → Bool
  | .ro => l.writer.isNone
  | .rw => l.writer.isNone && l.readers.isEmpty

def acquire (l : Lock) (t : Tid) : Mode → Lock
  | .ro => { l with readers := t :: l.readers }
  | .rw => { l with writer := some t }

def release (l : Lock) (t : Tid) : Mode → Lock
  | .ro => { l with readers := l.readers.erase t }
  | .rw => { l with writer := none }

/-- an operation on a transaction handle: not enabled before begin; after the first finish it returns
    ErrTransactionClosed and changes nothing (only the ghost counter). -/
def txOp (s : State) (t : Tid) (f : Tx → State) : Option State :=
  match (s.tx t).phase with
  | .idle => none
  | .done => some (tick { s with tx := setFn s.tx t { s.tx t with closedCalls := (s.tx t).closedCalls + 1 } })
  | .active => some (tick (f (s.tx t)))

def finish (s : State) (t : Tid) (x : Tx) (db' : KVMap) (buf' : Buf) : State :=
  { s with db := db', lock := release s.lock t x.mode,
           tx := setFn s.tx t { x with phase := .done, buf := buf' },
           fin := s.fin ++ [t], finIdx := setFn s.finIdx t s.clock }

def step (s : State) (t : Tid) : Action → Option State
  | .rawPut k v => some (tick { s with db := s.db.set k (some v) })
  | .rawDel k => some (tick { s with db := s.db.set k none })
  | .begin m =>
    if (s.tx t).phase = .idle ∧ compatible s.lock m = true then
      some (tick { s with lock := acquire s.lock t m,
                          tx := setFn s.tx t { mode := m, buf := [], phase := .active, reads := [], closedCalls := 0 },
                          acq := s.acq ++ [t], acqIdx := setFn s.acqIdx t s.clock })
    else none
  | .get k => txOp s t fun x =>
      { s with tx := setFn s.tx t { x with reads := x.reads ++ [.get k (view s.db x.buf k)] } }
  | .scan lo hi => txOp s t fun x =>
      { s with tx := setFn s.tx t { x with reads := x.reads ++ [.scan lo hi (restrict (view s.db x.buf) lo hi)] } }
  | .put k v => txOp s t fun x =>
      match x.mode with
      | .rw => { s with tx := setFn s.tx t { x with buf := (k, some v) :: x.buf } }
      | .ro => s      -- ErrReadOnlyTransaction
  | .del k => txOp s t fun x =>
      match x.mode with
      | .rw => { s with tx := setFn s.tx t { x with buf := (k, none) :: x.buf } }
      | .ro => s
  | .commit => txOp s t fun x =>
      match x.mode with
      | .rw => finish s t x (view s.db x.buf) x.buf     -- ONE ApplyBatch of the buffer, then unlock
      | .ro => finish s t x s.db x.buf
  | .rollback => txOp s t fun x => finish s t x s.db []

def sys : Sys State Action := { init := {}, step := step }

abbrev Sched := List (Tid × Action)

def noRawWrites (sched : Sched) : Prop := ∀ x ∈ sched, x.2.isRaw = false

/-- the transactions that have ended, in the order in which they ended. -/
def finished (s : State) : List Tid := s.fin

def readsOf (s : State) (t : Tid) : List Read := (s.tx t).reads

/-! ### the sequential specification: whole transactions one after another -/

structure TxRun where
  mode : Mode
  buf : Buf
  reads : List Read
  fin : Bool
  db : KVMap

/-- one call of a transaction program running ALONE on `db`. -/
def txStep (r : TxRun) (a : Action) : TxRun :=
  if r.fin then r else
  match a with
  | .get k => { r with reads := r.reads ++ [.get k (view r.db r.buf k)] }
  | .scan lo hi => { r with reads := r.reads ++ [.scan lo hi (restrict (view r.db r.buf) lo hi)] }
  | .put k v => match r.mode with
    | .rw => { r with buf := (k, some v) :: r.buf }
    | .ro => r
  | .del k => match r.mode with
    | .rw => { r with buf := (k, none) :: r.buf }
    | .ro => r
  | .commit => match r.mode with
    | .rw => { r with fin := true, db := view r.db r.buf }
    | .ro => { r with fin := true }
  | .rollback => { r with fin := true, buf := [] }
  | _ => r

def startRun (m : Mode) (db : KVMap) : TxRun := { mode := m, buf := [], reads := [], fin := false, db := db }

/-- a whole transaction program (`begin m` followed by its calls) on `db`: the database afterwards and the reads. -/
def runTx (db : KVMap) : List Action → KVMap × List Read
  | .begin m :: ops => ((ops.foldl txStep (startRun m db)).db, (ops.foldl txStep (startRun m db)).reads)
  | _ => (db, [])

/-- run the transactions `order` one at a time (programs given by `P`), starting from `db`. -/
def serialFrom (P : Tid → List Action) : KVMap → List Tid → KVMap × List (Tid × List Read)
  | db, [] => (db, [])
  | db, t :: ts =>
    ((serialFrom P (runTx db (P t)).1 ts).1, (t, (runTx db (P t)).2) :: (serialFrom P (runTx db (P t)).1 ts).2)

/-- the serial execution of the transactions of `sched` in the order `order`, from the empty database. -/
def serialRun (sched : Sched) (order : List Tid) : KVMap × List (Tid × List Read) :=
  serialFrom (progOf sched) emptyMap order

/-- no transaction that comes later in `order` ended before an earlier one acquired the lock. -/
def respectsRealTime (order : List Tid) (s : State) : Prop :=
  order.Pairwise (fun a b => ¬ s.finIdx b < s.acqIdx a)

/-- a read evaluated on the database `db0` alone. -/
def Read.evaluatedOn (db0 : KVMap) : Read → Prop
  | .get k r => r = db0 k
  | .scan lo hi r => r = restrict db0 lo hi

/-- the last write of `k` in a list of calls (some (some v) = put, some none = delete). -/
def lastWrite (k : Bytes) : List Action → Option (Option Bytes)
  | [] => none
  | a :: rest =>
    match lastWrite k rest with
    | some w => some w
    | none => match a with
      | .put k' v => if k' = k then some (some v) else none
      | .del k' => if k' = k then some none else none
      | _ => none

end Kevo.TxLock
