/-
  Kevo.Model.Engine — logical model of the storage engine: pkg/memtable (skiplist content, MemTable, MemTablePool),
  pkg/engine/storage.Manager (Put/Delete/Get/ApplyBatch/FlushMemTables/flushMemTable/rotateWAL/loadSSTables/
  recoverFromWAL) and memtable.RecoverFromWAL.

  Layers hold logical contents: a memtable is its level-0 entry list, a log file is its list of entries, an
  SSTable is its sorted entry list. The byte formats of the log and of the tables are the subject of C09 / C11.
  Background flush is modelled as running to completion right after the operation that scheduled it (the
  differential harness waits for that quiescence); concurrency is the subject of C06/C07.
-/
import Kevo.Base.Bytes
namespace Kevo.Engine

/-- one stored version. `val = none` is a deletion marker. -/
structure MEntry where
  key : Bytes
  seq : Nat
  val : Option Bytes
  deriving Repr, DecidableEq, BEq

/-- skiplist order (entry.compareWithEntry): key ascending, then sequence number descending. -/
def entryLt (a b : MEntry) : Bool := ltB a.key b.key || (a.key == b.key && a.seq > b.seq)

/-- SkipList.Insert at level 0: walk while the existing entry is strictly smaller, insert before the rest
    (so an entry equal in key and seq lands BEFORE the older equal ones). -/
def insertSorted (e : MEntry) : List MEntry → List MEntry
  | [] => [e]
  | x :: xs => if entryLt x e then x :: insertSorted e xs else e :: x :: xs

/-- entry.size() -/
def MEntry.size (e : MEntry) : Nat := e.key.length + (e.val.getD []).length + 16

structure MemTable where
  entries : List MEntry := []
  immutable : Bool := false
  size : Nat := 0
  nextSeq : Nat := 0
  deriving Repr

/-- MemTable.Put / Delete (ignored when immutable). -/
def MemTable.add (m : MemTable) (e : MEntry) : MemTable :=
  if m.immutable then m
  else { m with entries := insertSorted e m.entries, size := m.size + e.size,
                nextSeq := if e.seq > m.nextSeq then e.seq + 1 else m.nextSeq }

/-- SkipList.Find: among the entries of the key (contiguous, newest first) the one with the highest sequence
    number; the first such among equals. -/
def findIn (es : List MEntry) (k : Bytes) : Option MEntry :=
  (es.filter (fun e => e.key == k)).foldl (fun best e => match best with
    | none => some e
    | some b => if e.seq > b.seq then some e else some b) none

/-- MemTable.Get: `none` = not present; `some none` = present but deleted; `some (some v)`. -/
def MemTable.get (m : MemTable) (k : Bytes) : Option (Option Bytes) := (findIn m.entries k).map (·.val)

/-- entries visible to a fresh iterator: all for an immutable table; for a mutable one those with
    seq ≤ snapshot where snapshot = nextSeq (0 = unfiltered). -/
def MemTable.visible (m : MemTable) : List MEntry :=
  if m.immutable || m.nextSeq == 0 then m.entries else m.entries.filter (fun e => e.seq ≤ m.nextSeq)

structure Pool where
  active : MemTable := {}
  immutables : List MemTable := []     -- oldest first
  flushPending : Bool := false
  deriving Repr

structure SST where
  level : Nat
  fileNum : Nat
  ts : Nat                 -- creation order (the timestamp component of the name)
  entries : List MEntry    -- strictly ascending keys, one version per key
  deriving Repr

structure LogEntry where
  op : Nat         -- 1 put, 2 delete
  seq : Nat
  key : Bytes
  val : Bytes
  deriving Repr, DecidableEq, BEq

structure Cfg where
  memTableSize : Nat
  /-- `cfg.WALMaxSize` so small that a log file holding anything is "too large to reuse": wal.ReuseWAL returns nil and the
      storage manager starts a new log file at every open (the harness sets WALMaxSize = 1) -/
  freshLog : Bool := false
  deriving Repr

structure St where
  cfg : Cfg
  wal : List (List LogEntry) := [[]]   -- files oldest first, the last is being appended to
  walNext : Nat := 1
  pool : Pool := {}
  mgrImm : List MemTable := []
  ssts : List SST := []                -- m.sstables order: searched from the END
  nextFileNum : Nat := 1
  lastSeq : Nat := 0
  clock : Nat := 1                     -- logical time for file timestamps
  deriving Repr

def appendLog (wal : List (List LogEntry)) (es : List LogEntry) : List (List LogEntry) :=
  match wal.reverse with
  | [] => [es]
  | cur :: older => ((cur ++ es) :: older).reverse

/-- MemTablePool.Put/Delete + checkFlushConditionsLocked (size condition only; the age condition is disabled
    in the harness configuration). -/
def Pool.add (cfg : Cfg) (p : Pool) (e : MEntry) : Pool :=
  let a := p.active.add e
  { p with active := a, flushPending := p.flushPending || decide (a.size ≥ cfg.memTableSize) }

/-- MemTablePool.Get: active first, then immutables newest first. -/
def Pool.get (p : Pool) (k : Bytes) : Option (Option Bytes) :=
  match p.active.get k with
  | some r => some r
  | none => p.immutables.reverse.findSome? (fun m => m.get k)

/-- MemTablePool.SwitchToNewMemTable -/
def Pool.switch (p : Pool) : Pool × MemTable :=
  let old := { p.active with immutable := true }
  ({ active := {}, immutables := p.immutables ++ [old], flushPending := false }, old)

/-- the dedup loop of flushMemTable (`previousKey`): the first (= newest) version of every key. -/
def newestPerKeyAux (prev : Option Bytes) : List MEntry → List MEntry
  | [] => []
  | e :: rest => if prev == some e.key then newestPerKeyAux prev rest else e :: newestPerKeyAux (some e.key) rest

def newestPerKey (es : List MEntry) : List MEntry := newestPerKeyAux none es

/-- flushMemTable: a non-empty memtable becomes a new level-0 table appended to m.sstables. -/
def flushOne (s : St) (m : MemTable) : St :=
  if m.size = 0 then s
  else
    let es := newestPerKey m.visible
    if es.isEmpty then { s with nextFileNum := s.nextFileNum + 1 }
    else { s with ssts := s.ssts ++ [{ level := 0, fileNum := s.nextFileNum, ts := s.clock, entries := es }],
                  nextFileNum := s.nextFileNum + 1, clock := s.clock + 1 }

/-- rotateWAL: new empty log file; the sequence counter is handed over. -/
def rotate (s : St) : St := { s with wal := s.wal ++ [[]] }

/-- Manager.FlushMemTables -/
def flushMemTables (s : St) : St :=
  if s.mgrImm.isEmpty then
    if s.pool.active.size > 0 then flushOne (rotate s) s.pool.active else s
  else
    let s' := s.mgrImm.foldl flushOne (rotate s)
    { s' with mgrImm := [] }

/-- the tail of Put/Delete/ApplyBatch: IsFlushNeeded → scheduleFlush, then the background flush runs. -/
def maybeFlush (s : St) : St :=
  if s.pool.flushPending then
    let (p, old) := s.pool.switch
    flushMemTables { s with pool := p, mgrImm := s.mgrImm ++ [old] }
  else s

/-- Manager.Put (value `none` is stored as the empty value: a put never writes a deletion marker). -/
def put (s : St) (k : Bytes) (v : Bytes) : St :=
  let seq := s.walNext
  let s := { s with wal := appendLog s.wal [{ op := 1, seq, key := k, val := v }], walNext := seq + 1,
                    pool := s.pool.add s.cfg { key := k, seq, val := some v }, lastSeq := seq }
  maybeFlush s

/-- Manager.Delete -/
def delete (s : St) (k : Bytes) : St :=
  let seq := s.walNext
  let s := { s with wal := appendLog s.wal [{ op := 2, seq, key := k, val := [] }], walNext := seq + 1,
                    pool := s.pool.add s.cfg { key := k, seq, val := none }, lastSeq := seq }
  maybeFlush s

/-- Manager.ApplyBatch: one sequence number for the whole batch; nothing happens for an empty batch except the
    flush check. `ops`: (isDelete, key, value). -/
def batch (s : St) (ops : List (Bool × Bytes × Bytes)) : St :=
  if ops.isEmpty then maybeFlush s
  else
    let seq := s.walNext
    let les := ops.map (fun (d, k, v) => ({ op := if d then 2 else 1, seq, key := k, val := if d then [] else v } : LogEntry))
    let pool := ops.foldl (fun p (d, k, v) => p.add s.cfg { key := k, seq, val := if d then none else some v }) s.pool
    maybeFlush { s with wal := appendLog s.wal les, walNext := seq + 1, pool, lastSeq := seq }

/-- lookup in one table: Seek + exact match. -/
def SST.get (t : SST) (k : Bytes) : Option (Option Bytes) := (t.entries.find? (fun e => e.key == k)).map (·.val)

/-- Manager.Get: `none` = ErrKeyNotFound. -/
def get (s : St) (k : Bytes) : Option Bytes :=
  match s.pool.get k with
  | some r => r
  | none => match s.ssts.reverse.findSome? (fun t => t.get k) with
    | some r => r
    | none => none

/-! ### Reopen: loadSSTables + memtable.RecoverFromWAL + recoverFromWAL -/

/-- memtable.RecoverFromWAL: replay every log entry in file order, starting a new table whenever the current one
    has reached the configured size. Returns the tables (oldest first) and the highest sequence number. -/
def recoverTables (cfg : Cfg) (es : List LogEntry) : List MemTable × Nat :=
  let step := fun (acc : List MemTable × MemTable × Nat) (e : LogEntry) =>
    let (done, cur, mx) := acc
    let mx := max mx e.seq
    let (done, cur) := if cur.size ≥ cfg.memTableSize then (done ++ [{ cur with immutable := true }], ({} : MemTable)) else (done, cur)
    let me : MEntry := { key := e.key, seq := e.seq, val := if e.op = 2 then none else some e.val }
    (done, if e.op = 1 || e.op = 2 then cur.add me else cur, mx)
  let (done, cur, mx) := es.foldl step ([], {}, 0)
  (done ++ [cur], mx)

/-- loadSSTables order: deeper levels first, then timestamp, then file number (newest last). -/
def sstOlder (a b : SST) : Bool :=
  if a.level != b.level then a.level > b.level
  else if a.ts != b.ts then a.ts < b.ts
  else a.fileNum ≤ b.fileNum

def insertSST (t : SST) : List SST → List SST
  | [] => [t]
  | x :: xs => if sstOlder x t then x :: insertSST t xs else t :: x :: xs

def sortSSTs (ts : List SST) : List SST := ts.foldl (fun acc t => insertSST t acc) []

/-- close + NewManager on the same directory. -/
def reopen (s : St) : St :=
  let ssts := sortSSTs s.ssts
  let nextFile := ssts.foldl (fun n t => if t.fileNum ≥ n then t.fileNum + 1 else n) 1
  let (tables, mx) := recoverTables s.cfg s.wal.flatten
  -- every recovered table goes through SetActiveMemTable; a non-empty previous active becomes immutable
  let pool := tables.foldl (fun (p : Pool) t =>
    if p.active.size > 0 then { p with active := t, immutables := p.immutables ++ [{ p.active with immutable := true }] }
    else { p with active := t }) ({} : Pool)
  { cfg := s.cfg, wal := s.wal, walNext := if mx > 0 then max 1 (mx + 1) else 1, pool,
    mgrImm := tables.dropLast.map (fun t => { t with immutable := true }),
    ssts, nextFileNum := nextFile, lastSeq := mx, clock := s.clock }

/-- open when the newest log file is too large to reuse: everything as `reopen`, but a new (empty) log file is started
    behind a non-empty newest file; the counter continues after the highest replayed number all the same -/
def reopenFresh (s : St) : St :=
  let r := reopen s
  if (s.wal.getLast?.getD []).isEmpty then r else { r with wal := r.wal ++ [[]] }

/-- close + NewManager as configured -/
def reopenC (s : St) : St := if s.cfg.freshLog then reopenFresh s else reopen s

/-! ### Scan sources (iterator.Factory.createBaseIterator): active, immutables newest first, tables newest first;
      each source yields its entries in order (a memtable: newest version of a key first). -/
def sources (s : St) : List (List MEntry) :=
  [s.pool.active.visible] ++ s.pool.immutables.reverse.map (·.visible) ++ s.ssts.reverse.map (·.entries)

end Kevo.Engine
