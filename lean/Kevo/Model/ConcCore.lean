/-
  Kevo.Model.ConcCore — generic interleaving semantics for lock-based shared-memory programs (C07, used by C06).

  * thread ids are natural numbers (unboundedly many threads may have a non-empty program);
  * every thread runs a straight-line list of events; since the theorems quantify over ALL programs, every
    control-flow path of the real code is some such list;
  * events: `acq m mode` (sync.Mutex.Lock = exclusive, RWMutex.RLock = shared), `rel m mode` (Unlock / RUnlock:
    Go distinguishes the two syntactically), plain read / write of a shared variable, sync/atomic access;
  * a schedule is a list of thread ids; `reach P sched` replays it (a blocked or finished thread cannot be scheduled);
  * sequential consistency is assumed; preemption happens only between events.
-/
namespace Kevo.LConc

abbrev Tid := Nat
abbrev Lock := Nat
abbrev Var := Nat

inductive Mode where
  | sh
  | ex
  deriving DecidableEq, Repr

inductive Ev where
  | acq (m : Lock) (mode : Mode)
  | rel (m : Lock) (mode : Mode)
  | rd (x : Var)
  | wr (x : Var)
  | atomic (x : Var) (store : Bool)
  deriving DecidableEq, Repr

abbrev Prog := Tid → List Ev

structure St where
  pc : Tid → Nat
  held : Lock → List (Tid × Mode)     -- current holders of every lock (a reader may appear twice: re-entrant RLock)

def St.init : St := { pc := fun _ => 0, held := fun _ => [] }

/-- can thread `t` execute `e` now?  Lock: nobody holds it; RLock: no exclusive holder.
    (Go's writer preference — a pending writer blocks new readers — is NOT modelled.) -/
def enabled (s : St) : Ev → Bool
  | .acq m .ex => (s.held m).isEmpty
  | .acq m .sh => (s.held m).all (fun h => h.2 = .sh)
  | _ => true

def apply (s : St) (t : Tid) : Ev → St
  | .acq m mode => { pc := fun u => if u = t then s.pc t + 1 else s.pc u,
                     held := fun l => if l = m then (t, mode) :: s.held m else s.held l }
  | .rel m mode => { pc := fun u => if u = t then s.pc t + 1 else s.pc u,
                     held := fun l => if l = m then (s.held m).erase (t, mode) else s.held l }
  | _ => { s with pc := fun u => if u = t then s.pc t + 1 else s.pc u }

/-- the next event of thread `t` -/
def next (P : Prog) (s : St) (t : Tid) : Option Ev := (P t)[s.pc t]?

def step (P : Prog) (s : St) (t : Tid) : Option St :=
  match next P s t with
  | none => none
  | some e => if enabled s e then some (apply s t e) else none

def reachFrom (P : Prog) (s : St) : List Tid → Option St
  | [] => some s
  | t :: rest => match step P s t with
    | none => none
    | some s' => reachFrom P s' rest

/-- the state reached by a schedule (none: the schedule asks a blocked or finished thread to move). -/
def reach (P : Prog) (sched : List Tid) : Option St := reachFrom P St.init sched

/-! ### syntactic lock sets: what the extractor computes per access site -/

/-- effect of one event on the lock set of the executing thread (acquire pushes, release removes one matching entry). -/
def lockStep (acc : List (Lock × Mode)) : Ev → List (Lock × Mode)
  | .acq m mode => (m, mode) :: acc
  | .rel m mode => acc.erase (m, mode)
  | _ => acc

/-- locks held after executing a straight-line prefix. -/
def locksAfter (es : List Ev) : List (Lock × Mode) := es.foldl lockStep []

/-- the lock set of thread `t` just before its `i`-th event. -/
def heldAt (P : Prog) (t : Tid) (i : Nat) : List (Lock × Mode) := locksAfter ((P t).take i)

/-! ### data races -/

/-- (variable, is a write, is atomic) -/
def Ev.access : Ev → Option (Var × Bool × Bool)
  | .rd x => some (x, false, false)
  | .wr x => some (x, true, false)
  | .atomic x st => some (x, st, true)
  | _ => none

/-- two accesses of `x` conflict: at least one writes and they are not both atomic. -/
def conflict (x : Var) (e1 e2 : Ev) : Prop :=
  ∃ w1 a1 w2 a2, e1.access = some (x, w1, a1) ∧ e2.access = some (x, w2, a2) ∧ (w1 = true ∨ w2 = true) ∧ ¬ (a1 = true ∧ a2 = true)

/-- a data race on `x` in state `s`: two different threads are both about to perform conflicting accesses
    (accesses are always enabled, so both can fire next, in either order). -/
def Race (P : Prog) (s : St) (x : Var) : Prop :=
  ∃ t1 t2 e1 e2, t1 ≠ t2 ∧ next P s t1 = some e1 ∧ next P s t2 = some e2 ∧ conflict x e1 e2

/-- lock `m` protects `x`: every access site of `x` (atomic or not) holds `m`; sites that write hold it exclusively. -/
def Protects (P : Prog) (m : Lock) (x : Var) : Prop :=
  ∀ (t : Tid) (i : Nat) (e : Ev) (w a : Bool), (P t)[i]? = some e → e.access = some (x, w, a) →
    (m, Mode.ex) ∈ heldAt P t i ∨ (w = false ∧ (m, Mode.sh) ∈ heldAt P t i)

def AllAtomic (P : Prog) (x : Var) : Prop :=
  ∀ (t : Tid) (i : Nat) (e : Ev) (w a : Bool), (P t)[i]? = some e → e.access = some (x, w, a) → a = true

/-- the pairwise form: any two conflicting sites of different threads share a lock that one of them holds exclusively. -/
def PairProtected (P : Prog) (x : Var) : Prop :=
  ∀ (t1 : Tid) (i1 : Nat) (e1 : Ev) (t2 : Tid) (i2 : Nat) (e2 : Ev), t1 ≠ t2 → (P t1)[i1]? = some e1 → (P t2)[i2]? = some e2 → conflict x e1 e2 →
    ∃ m mo1 mo2, (m, mo1) ∈ heldAt P t1 i1 ∧ (m, mo2) ∈ heldAt P t2 i2 ∧ (mo1 = Mode.ex ∨ mo2 = Mode.ex)

/-! ### deadlock -/

/-- lock-order edge `a → b`: some thread acquires `b` at a site where it holds `a`. -/
def Edge (P : Prog) (a b : Lock) : Prop :=
  ∃ t i mode mode', (P t)[i]? = some (.acq b mode) ∧ (a, mode') ∈ heldAt P t i

inductive Path (E : Lock → Lock → Prop) : Lock → Lock → Prop where
  | single {a b} : E a b → Path E a b
  | cons {a b c} : E a b → Path E b c → Path E a c

def Acyclic (E : Lock → Lock → Prop) : Prop := ∀ a, ¬ Path E a a

/-- every acquire is paired with a release: a thread that has run to completion holds nothing, and a release
    only releases what is held. -/
def Paired (P : Prog) : Prop :=
  ∀ t, locksAfter (P t) = [] ∧ ∀ i m mode, (P t)[i]? = some (.rel m mode) → (m, mode) ∈ heldAt P t i

/-- thread `t` is blocked on lock `m` -/
def Waits (P : Prog) (s : St) (t : Tid) (m : Lock) : Prop :=
  ∃ mode, next P s t = some (.acq m mode) ∧ enabled s (.acq m mode) = false

def Holds (s : St) (t : Tid) (m : Lock) : Prop := ∃ mode, (t, mode) ∈ s.held m

/-- `(t, m) ⟶ (u, m')`: t waits for m, which is held by u, who in turn waits for m'. -/
inductive WaitChain (P : Prog) (s : St) : Tid × Lock → Tid × Lock → Prop where
  | step {t m u m'} : Waits P s t m → Holds s u m → Waits P s u m' → WaitChain P s (t, m) (u, m')
  | trans {p q r} : WaitChain P s p q → WaitChain P s q r → WaitChain P s p r

/-- a cycle of threads each waiting for a lock held by the next (length 1: a thread waiting for a lock it holds itself). -/
def Deadlock (P : Prog) (s : St) : Prop := ∃ p, WaitChain P s p p

/-- unfinished: the thread still has an event to execute -/
def Unfinished (P : Prog) (s : St) (t : Tid) : Prop := (next P s t).isSome

end Kevo.LConc
