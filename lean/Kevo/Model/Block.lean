/-
  Kevo.Model.Block — model of pkg/sstable/block: Builder.Finish (serialisation with restart points and
  prefix compression), NewReader (checksum + restart array), and the Iterator.

  Parameters: `ri` = block.RestartInterval, `hash : Bytes → Nat` = xxhash.Sum64.
-/
import Kevo.Base.Bytes
namespace Kevo.Block

structure BEntry where
  key : Bytes
  val : Option Bytes     -- none = tombstone (nil value in Go)
  seq : Nat
  deriving Repr, DecidableEq, BEq

def tombMarker : Nat := 0xFFFFFFFF   -- block.TombstoneValueLengthMarker
def footerSize : Nat := 12           -- block.BlockFooterSize

def commonPrefix : Bytes → Bytes → Nat
  | a :: as, b :: bs => if a = b then commonPrefix as bs + 1 else 0
  | _, _ => 0

def encValue : Option Bytes → Bytes
  | none => le 4 tombMarker
  | some v => le 4 v.length ++ v

/-- one serialised entry: full key at a restart point, else `shared | unshared | suffix`. -/
def encEntry (isRestart : Bool) (prev : Bytes) (e : BEntry) : Bytes :=
  (if isRestart then le 2 e.key.length ++ e.key
   else
     let c := commonPrefix prev e.key
     le 2 c ++ le 2 (e.key.length - c) ++ e.key.drop c)
  ++ le 8 e.seq ++ encValue e.val

/-- entries area and restart offsets. `cnt` = entries since the last restart (start with `cnt = ri`). -/
def encEntries (ri : Nat) (cnt : Nat) (prev : Bytes) (off : Nat) : List BEntry → Bytes × List Nat
  | [] => ([], [])
  | e :: es =>
    let isR := decide (cnt ≥ ri)
    let b := encEntry isR prev e
    let cnt' := (if isR then 0 else cnt) + 1
    let (bs, rs) := encEntries ri cnt' e.key (off + b.length) es
    (b ++ bs, if isR then off :: rs else rs)

/-- Builder.Finish for a non-empty, strictly ascending entry list. -/
def encode (ri : Nat) (hash : Bytes → Nat) (es : List BEntry) : Bytes :=
  let (body, rs) := encEntries ri ri [] 0 es
  let pre := body ++ rs.flatMap (le 4) ++ le 4 rs.length
  pre ++ le 8 (hash pre)

/-- Builder.AddWithSequence accepts a key only if it is strictly greater than the previous one. -/
def strictAsc : List BEntry → Bool
  | a :: b :: rest => ltB a.key b.key && strictAsc (b :: rest)
  | _ => true

/-! ### Reader -/

structure Reader where
  data : Bytes
  restarts : List Nat
  dataEnd : Nat
  deriving Repr

def slice (bs : Bytes) (off len : Nat) : Bytes := (bs.drop off).take len

def readRestarts (data : Bytes) (off : Nat) : Nat → List Nat
  | 0 => []
  | n + 1 => unle (slice data off 4) :: readRestarts data (off + 4) n

/-- block.NewReader -/
def openBlock (hash : Bytes → Nat) (data : Bytes) : Option Reader :=
  if data.length < footerSize then none
  else
    let fo := data.length - footerSize
    let n := unle (slice data fo 4)
    let cs := unle (slice data (fo + 4) 8)
    if hash (data.take (data.length - 8)) ≠ cs then none
    else if fo < n * 4 then none
    else some { data, restarts := readRestarts data (fo - n * 4) n, dataEnd := fo - n * 4 }

/-- decode one entry at `pos` (decodeNext / decodeCurrent): returns entry and the position after it. -/
def decodeAt (r : Reader) (pos : Nat) (prev : Option Bytes) : Option (BEntry × Nat) :=
  if pos ≥ r.dataEnd then none
  else
    let data := r.data.drop pos
    let isRestart := r.restarts.contains pos || prev.isNone
    let keyRes : Option (Bytes × Nat) :=
      if isRestart then
        if data.length < 2 then none
        else
          let kl := unle (data.take 2)
          if data.length - 2 < kl then none else some (slice data 2 kl, 2 + kl)
      else
        if data.length < 4 then none
        else
          let sh := unle (data.take 2)
          let un := unle (slice data 2 2)
          let pk := prev.getD []
          if sh > pk.length then none
          else if data.length - 4 < un then none
          else if sh + un > 65536 then none
          else some (pk.take sh ++ slice data 4 un, 4 + un)
    match keyRes with
    | none => none
    | some (key, used) =>
      let data := data.drop used
      let (seq, used2) := if data.length ≥ 12 then (unle (data.take 8), 8) else (0, 0)
      let data := data.drop used2
      if data.length < 4 then none
      else
        let vl := unle (data.take 4)
        if vl = tombMarker then some ({ key, val := none, seq }, pos + used + used2 + 4)
        else if data.length - 4 < vl then none
        else some ({ key, val := some (slice data 4 vl), seq }, pos + used + used2 + 4 + vl)

/-- all entries of a block in storage order (what forward iteration visits). -/
def decodeAllAux (r : Reader) : Nat → Nat → Option Bytes → List BEntry
  | 0, _, _ => []
  | fuel + 1, pos, prev =>
    match decodeAt r pos prev with
    | none => []
    | some (e, pos') => e :: decodeAllAux r fuel pos' (some e.key)

def decodeAll (r : Reader) : List BEntry := decodeAllAux r (r.data.length + 1) 0 none

/-! ### Iterator (post-repair semantics: a position in the entry list) -/

structure Iter where
  es : List BEntry
  pos : Option Nat := none       -- none: currentKey = nil
  init : Bool := false
  deriving Repr

def Iter.cur (it : Iter) : Option BEntry := it.pos.bind (fun i => it.es[i]?)

/-- Valid(): `currentKey != nil` — positioned on an entry (the empty key is a legal key). -/
def Iter.valid (it : Iter) : Bool := it.cur.isSome

def Iter.first (it : Iter) : Iter :=
  { it with pos := if it.es.isEmpty then none else some 0, init := true }

def Iter.last (it : Iter) : Iter :=
  { it with pos := if it.es.isEmpty then none else some (it.es.length - 1), init := true }

def findGE (es : List BEntry) (t : Bytes) : Option Nat := es.findIdx? (fun e => !ltB e.key t)

/-- Seek(target): first entry with key ≥ target; returns whether one exists. -/
def Iter.seek (it : Iter) (t : Bytes) : Iter × Bool :=
  if it.es.isEmpty then (it, false)
  else
    let p := findGE it.es t
    ({ it with pos := p, init := true }, p.isSome)

/-- Next() -/
def Iter.next (it : Iter) : Iter × Bool :=
  if !it.init then let it' := it.first; (it', it'.valid)
  else match it.pos with
    | none => (it, false)
    | some i => if i + 1 < it.es.length then ({ it with pos := some (i + 1) }, true) else ({ it with pos := none }, false)

end Kevo.Block
