/-
  Kevo.Model.ConcStorage — interleaving model of storage.Manager under concurrent clients (C06).

  Shared state: the storage lock `mu` (RWMutex: writers exclusive, Get shared), the store (memtables + tables, as an
  abstract `Store` whose axioms are discharged for the sequential engine model Kevo.Model.Engine in
  Kevo.Proofs.ConcStorageEngine), the WAL objects with their status word (Active / Rotating / Closed) and the
  `Manager.wal` pointer, the rotation state of the flush goroutine. Unboundedly many client threads run arbitrary
  programs of put / get / delete: the schedule chooses, for an idle thread, the next operation (`Act.start`).

  Writer micro-steps (Manager.Put/Delete + RetryOnWALRotating + wal.Append):
      call ; mu.Lock ; [ getWAL ; Append: status check ; buffer record ; maybeSync: Closed check only (sync-immediate) ]
      → ok: memtable insert (+ scheduleFlush)  = LINEARIZATION POINT ; mu.Unlock ; return ok
      → ErrWALRotating: retry (≤ 3 attempts, mu stays held) ; after the 3rd: mu.Unlock ; return error
      → ErrWALClosed: not retried ; mu.Unlock ; return error
  Reader (Manager.Get): call ; mu.RLock ; lookup = LINEARIZATION POINT ; mu.RUnlock ; return value.
  Flush goroutine (FlushMemTables → rotateWAL): SetRotating (a lock-free atomic store: the ONLY step that can fall
  inside an Append) ; NewWAL + UpdateNextSequence(old.GetNextSequence()) + pointer swap (needs old.mu: waits for an
  Append in progress) ; old.Close() (needs old.mu). Table flush / publication / list truncation are `Act.bg n`
  steps of the store; those that touch what readers use (`Store.needsMu`) require `mu` to be free (flushMemTable
  takes mu.Lock around the publication; lock + publish + unlock is one step of the model).

  Ghost state: the trace of call / linearization-point / return events (newest first), `late` = number of appends
  that failed after their record had been buffered; PROVED to stay 0 (`no_late`). History: before f92d9b5 syncLocked
  also refused a Rotating log, `late` could become positive and error-no-effect / once-in-the-log were false (D19).
-/
import Kevo.Spec.Lin
namespace Kevo.ConcStorage
open Kevo Kevo.Spec Kevo.Lin

/-- what the concurrent model needs from the memtable/table layer. -/
structure Store where
  σ : Type
  init : σ
  inv : σ → Prop
  view : σ → KVMap                               -- the result of Manager.Get for every key
  write : σ → Bytes → Option Bytes → σ           -- log append + memtable insert + scheduleFlush (inside mu.Lock)
  bg : Nat → σ → σ                               -- micro-steps of the flush goroutine, indexed by a choice
  needsMu : Nat → Bool                           -- does that micro-step run under mu.Lock?
  inv_init : inv init
  view_init : view init = emptyMap
  inv_write : ∀ s k v, inv s → inv (write s k v)
  view_write : ∀ s k v, inv s → view (write s k v) = (view s).set k v
  inv_bg : ∀ n s, inv s → inv (bg n s)
  view_bg : ∀ n s, inv s → view (bg n s) = view s

inductive WStatus where
  | active
  | rotating
  | closed
  deriving DecidableEq, Repr

structure WalObj where
  status : WStatus := .active
  recs : List Nat := []          -- ids of the operations whose record has been written to this log, in order
  deriving Repr

inductive Phase where
  | called                        -- invoked, lock not yet taken
  | wLocked (a : Nat)             -- holds mu exclusively, attempt `a` (0-based) about to load the WAL pointer
  | wGot (a w : Nat)              -- pointer loaded: about to enter Append (status check)
  | wChecked (a w : Nat)          -- inside Append (holds w.mu), status was Active: about to buffer the record
  | wBuffered (a w : Nat)         -- record buffered: about to run maybeSync → syncLocked (status check again)
  | wAppended                     -- Append returned a sequence number: about to insert into the memtable
  | wFailed (a : Nat)             -- attempt returned ErrWALRotating: sleep, then retry or give up
  | rLocked                       -- holds mu shared: about to look up
  | done (out : COut)             -- effect decided, lock still held
  | retp (out : COut)             -- lock released: about to return
  deriving Repr

structure Run where
  id : Nat
  op : COp
  ph : Phase

inductive FPc where
  | idle
  | setRot (old : Nat)            -- old WAL marked Rotating
  | swapped (old : Nat)           -- pointer swapped, old WAL not yet closed
  deriving Repr

structure Cfg where
  syncImmediate : Bool            -- WALSyncMode = SyncImmediate (or the batch threshold is reached at every append)
  maxRetries : Nat := 3

structure St (S : Store) where
  writer : Option Nat := none
  readers : List Nat := []
  store : S.σ
  wals : List WalObj := [{}]
  cur : Nat := 0
  fpc : FPc := .idle
  th : Nat → Option Run := fun _ => none
  nextId : Nat := 0
  tr : List (TEv COp COut) := []
  late : Nat := 0

inductive Act where
  | start (t : Nat) (op : COp)    -- idle thread t invokes op
  | step (t : Nat)                -- thread t performs its next micro-step
  | rot                           -- the flush goroutine performs its next rotation micro-step
  | bg (n : Nat)                  -- the flush goroutine performs store micro-step n
  deriving Repr

def init (S : Store) : St S := { store := S.init }

def setTh {S : Store} (s : St S) (t : Nat) (r : Option Run) : St S :=
  { s with th := fun u => if u = t then r else s.th u }

def walStatus {S : Store} (s : St S) (w : Nat) : WStatus := (s.wals.getD w {}).status

def setStatus (wals : List WalObj) (w : Nat) (st : WStatus) : List WalObj :=
  wals.set w { wals.getD w {} with status := st }

def addRec (wals : List WalObj) (w : Nat) (i : Nat) : List WalObj :=
  wals.set w { wals.getD w {} with recs := (wals.getD w {}).recs ++ [i] }

/-- is some client inside Append on WAL object `w` (holding w.mu)? -/
def insideAppend (r : Option Run) (w : Nat) : Bool :=
  match r with
  | some { ph := .wChecked _ w', .. } => w' == w
  | some { ph := .wBuffered _ w', .. } => w' == w
  | _ => false

/-- the value written by a write operation -/
def opKV : COp → Option (Bytes × Option Bytes)
  | .put k v => some (k, some v)
  | .del k => some (k, none)
  | .get _ => none

/-- one micro-step of client thread `t` (none: not enabled). -/
def stepThread {S : Store} (cfg : Cfg) (s : St S) (t : Nat) : Option (St S) :=
  match s.th t with
  | none => none
  | some r =>
    let go := fun (ph : Phase) => setTh s t (some { r with ph := ph })
    match r.ph with
    | .called =>
      match r.op with
      | .get _ => if s.writer.isNone then some { go .rLocked with readers := t :: s.readers } else none
      | _ => if s.writer.isNone && s.readers.isEmpty then some { go (.wLocked 0) with writer := some t } else none
    | .wLocked a => some (go (.wGot a s.cur))
    | .wGot a w =>
      match walStatus s w with
      | .active => some (go (.wChecked a w))
      | .rotating => some (go (.wFailed a))
      | .closed => some { go (.done .err) with tr := .lin r.id r.op .err :: s.tr }
    | .wChecked a w =>
      some { go (if cfg.syncImmediate then .wBuffered a w else .wAppended) with wals := addRec s.wals w r.id }
    | .wBuffered _ w =>
      -- maybeSync → syncLocked (repaired, f92d9b5): only a CLOSED log refuses the sync; a log that is being rotated is
      -- still synced (the caller holds w.mu, the file stays open until Close, which needs w.mu)
      match walStatus s w with
      | .closed => some { go (.done .err) with tr := .lin r.id r.op .err :: s.tr, late := s.late + 1 }
      | _ => some (go .wAppended)
    | .wAppended =>
      match opKV r.op with
      | some (k, v) => some { go (.done .ok) with store := S.write s.store k v, tr := .lin r.id r.op .ok :: s.tr }
      | none => none
    | .wFailed a =>
      if a + 1 < cfg.maxRetries then some (go (.wLocked (a + 1)))
      else some { go (.done .err) with tr := .lin r.id r.op .err :: s.tr }
    | .rLocked =>
      match r.op with
      | .get k => some { go (.done (.val (S.view s.store k))) with tr := .lin r.id r.op (.val (S.view s.store k)) :: s.tr }
      | _ => none
    | .done out =>
      match r.op with
      | .get _ => some { go (.retp out) with readers := s.readers.erase t }
      | _ => some { go (.retp out) with writer := none }
    | .retp out => some { setTh s t none with tr := .ret r.id out :: s.tr }

/-- no client holds the mutex of WAL object `w`. The quantifier over all thread ids is kept as a parameter of the
    action: `Act.rot` is enabled only when the (unique) holder of `mu`, if any, is not inside Append on `w` — only the
    holder of `mu` can be inside Append (invariant `appendUnderMu`). -/
def walMuFree {S : Store} (s : St S) (w : Nat) : Bool :=
  match s.writer with
  | none => true
  | some t => !insideAppend (s.th t) w

def stepRot {S : Store} (s : St S) : Option (St S) :=
  match s.fpc with
  | .idle => some { s with wals := setStatus s.wals s.cur .rotating, fpc := .setRot s.cur }
  | .setRot old =>
    if walMuFree s old then some { s with wals := s.wals ++ [{}], cur := s.wals.length, fpc := .swapped old } else none
  | .swapped old =>
    if walMuFree s old then some { s with wals := setStatus s.wals old .closed, fpc := .idle } else none

def stepAct {S : Store} (cfg : Cfg) (s : St S) : Act → Option (St S)
  | .start t op =>
    match s.th t with
    | some _ => none
    | none => some { setTh s t (some { id := s.nextId, op := op, ph := .called }) with
                     nextId := s.nextId + 1, tr := .call s.nextId op :: s.tr }
  | .step t => stepThread cfg s t
  | .rot => stepRot s
  | .bg n =>
    if S.needsMu n && !(s.writer.isNone && s.readers.isEmpty) then none
    else some { s with store := S.bg n s.store }

def reachFrom {S : Store} (cfg : Cfg) (s : St S) : List Act → Option (St S)
  | [] => some s
  | a :: rest => match stepAct cfg s a with
    | none => none
    | some s' => reachFrom cfg s' rest

def reach (S : Store) (cfg : Cfg) (sched : List Act) : Option (St S) := reachFrom cfg (init S) sched

/-- the client-visible history: call and return events in real-time order -/
def hist {S : Store} (s : St S) : List (Ev COp COut) := history s.tr

/-- all records in all log files -/
def allRecs {S : Store} (s : St S) : List Nat := s.wals.flatMap (·.recs)

/-- the simplest store: the abstract map itself, no background work. -/
def mapStore : Store where
  σ := KVMap
  init := emptyMap
  inv := fun _ => True
  view := fun m => m
  write := fun m k v => m.set k v
  bg := fun _ m => m
  needsMu := fun _ => false
  inv_init := trivial
  view_init := rfl
  inv_write := fun _ _ _ _ => trivial
  view_write := fun _ _ _ _ => rfl
  inv_bg := fun _ _ _ => trivial
  view_bg := fun _ _ _ => rfl

end Kevo.ConcStorage
