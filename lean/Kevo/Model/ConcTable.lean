/-
  Kevo.Model.ConcTable — finite lock-set / lock-order tables (the shape generated into Kevo.Gen.Locks by
  extract/extract_locks.go) and the decidable checks on them. The lifting lemmas to the interleaving semantics of
  Kevo.Model.ConcCore are in Kevo.Proofs.ConcTable.
-/
import Kevo.Model.ConcCore
namespace Kevo.LConc

/-- one syntactic access site: which field, write?, via sync/atomic?, the locks certainly held there. -/
structure Site where
  field : Var
  write : Bool
  atomic : Bool
  held : List (Lock × Mode)
  deriving Repr, DecidableEq

/-- soundness assumption on the syntactic analysis: every access a thread performs is an instance of some row of
    the table (same field, same kind) and at that moment the thread's lock set contains the row's locks. -/
def Conforms (tbl : List Site) (P : Prog) : Prop :=
  ∀ (t : Tid) (i : Nat) (e : Ev) (x : Var) (w a : Bool), (P t)[i]? = some e → e.access = some (x, w, a) →
    ∃ r, r ∈ tbl ∧ r.field = x ∧ r.write = w ∧ r.atomic = a ∧ ∀ l, l ∈ r.held → l ∈ heldAt P t i

/-- two sites cannot race: both read, or both atomic, or they share a lock that one of them holds exclusively. -/
def siteCompat (r1 r2 : Site) : Bool :=
  (!r1.write && !r2.write) || (r1.atomic && r2.atomic) ||
  r1.held.any (fun l1 => r2.held.any (fun l2 => l1.1 == l2.1 && (l1.2 == Mode.ex || l2.2 == Mode.ex)))

def rowsOf (tbl : List Site) (x : Var) : List Site := tbl.filter (fun r => r.field == x)

/-- pairwise check of all sites of a field (a site is also checked against itself: two threads at the same site). -/
def fieldOK (tbl : List Site) (x : Var) : Bool :=
  (rowsOf tbl x).all (fun r1 => (rowsOf tbl x).all (fun r2 => siteCompat r1 r2))

/-- classic lock-set discipline: lock `m` is held at every site of `x`, exclusively at the writing ones. -/
def protectsB (tbl : List Site) (m : Lock) (x : Var) : Bool :=
  (rowsOf tbl x).all (fun r => r.held.contains (m, Mode.ex) || (!r.write && r.held.contains (m, Mode.sh)))

def allAtomicB (tbl : List Site) (x : Var) : Bool := (rowsOf tbl x).all (fun r => r.atomic)

def disciplineOK (tbl : List Site) (nLocks : Nat) (x : Var) : Bool :=
  (List.range nLocks).any (fun m => protectsB tbl m x) || allAtomicB tbl x

/-- soundness assumption for the lock-order table: every nested acquisition of the program is a listed edge. -/
def EdgeConforms (edges : List (Lock × Lock)) (P : Prog) : Prop := ∀ a b, Edge P a b → (a, b) ∈ edges

def rankOf (ranks : List Nat) (m : Lock) : Nat := ranks.getD m 0

/-- the generated ranks are a topological numbering of the edges (fails on any cycle, including a self-loop). -/
def ranksOK (edges : List (Lock × Lock)) (ranks : List Nat) : Bool :=
  edges.all (fun e => rankOf ranks e.1 < rankOf ranks e.2)

end Kevo.LConc
