/-
  Kevo.Model.ConcSkipList — the skip list of pkg/memtable/skiplist.go under ONE writer and any number of lock-free
  readers, at the granularity of single atomic pointer operations.

  Abstraction (what is modelled, what is assumed):
    * state = one list of nodes per level (`levels l`; level 0 holds every linked node). "The pointer `n.next[l]`"
      is "the element after n in `levels l`" (`succIn`); the head sentinel is `none`.
    * the writer's `Insert` = `wBegin` (allocate the node, run the search at ALL levels and remember, per level, the
      insertion point `prev[l]`), then one `wLink` per level 0 … h−1. One `wLink` is the pair
      `node.setNext(l, prev[l].getNext(l)); prev[l].setNext(l, node)`: the first store goes to a node that no reader can
      reach at level l yet (still private at that level), the second is ONE atomic store that publishes it — so, to every
      reader, the level list changes atomically from L to "L with the node spliced in". That the two stores come in
      this order, and that the levels are linked bottom-up, is taken from the source as call-order facts
      (extract/extract_memtable.go: `mem18.Insert.*`). Go's sync/atomic operations are assumed sequentially consistent.
    * a reader (`Find`, `Iterator.Seek`, `Iterator.SeekToFirst/Next`) is a sequence of atomic loads `n.getNext(l)`
      (`rStep`), each evaluated against the CURRENT lists. Heights are arbitrary (any h ≥ 1; a reader may start its
      descent at any level — an over-approximation of whatever `maxHeight` it loaded).
    * `rl` = the code re-loads `current.getNext(0)` after the search loop has ended (`true`: as in skiplist.go today;
      `false`: a variant that keeps the pointer it loaded last). Which one the source is, is the fact `mem18.Seek.landing`.
-/
import Kevo.Model.Engine
namespace Kevo.ConcSkipList
open Kevo Kevo.Engine

/-- a linked node: identity (allocation number) + entry -/
structure Node where
  id : Nat
  e : MEntry
  deriving DecidableEq, Repr

/-- the order of a level list: entry order (key ascending, sequence descending); among entries equal in both, the
    LATER insert (greater id) comes first — `Insert` walks only over strictly smaller entries. -/
def nodeLt (a b : Node) : Bool := entryLt a.e b.e || (!entryLt b.e a.e && decide (a.id > b.id))

/-- the atomic load `n.getNext(l)` evaluated against the list `L` of level l (`none` = the head sentinel) -/
def succIn (L : List Node) : Option Node → Option Node
  | none => L.head?
  | some c =>
    match L.dropWhile (fun x => !decide (x = c)) with
    | _ :: y :: _ => some y
    | _ => none

/-- the writer's walk at one level: `for next != nil && next.entry.compareWithEntry(e) < 0` -/
def walkLen (L : List Node) (e : MEntry) : Nat := (L.takeWhile (fun x => entryLt x.e e)).length

/-- splice `n` in behind the first `i` nodes -/
def insertAt (i : Nat) (n : Node) (L : List Node) : List Node := L.take i ++ n :: L.drop i

structure Writer where
  node : Node
  height : Nat
  lvl : Nat            -- the next level to link; levels below are linked
  pos : Nat → Nat      -- result of the search: per level, the number of nodes in front of the insertion point

inductive Op where
  | first                 -- SeekToFirst, then Next, Next, …
  | seek (t : Bytes)      -- Iterator.Seek(t), then Next, Next, …
  | find (k : Bytes)      -- SkipList.Find(k)
  deriving DecidableEq, Repr

inductive Mode where
  | idle
  | search (lvl : Nat)            -- in the loop of level lvl (about to load `current.getNext(lvl)`)
  | reload                        -- the level loop is over; about to load `current.getNext(0)` once more
  | scan                          -- positioned; about to load `current.getNext(0)` (Next)
  | fscan (best : Node)           -- Find: walking over the versions of the key
  | finished (res : Option Node)  -- Find: the result; iteration: the end (nil) was reached
  deriving DecidableEq, Repr

structure Reader where
  op : Op := .first
  mode : Mode := .idle
  cur : Option Node := none     -- `current` (`none` = head)
  trace : List Node := []       -- ghost: every node `current` has been, in order
  out : List Node := []         -- ghost: the entries the iteration has been positioned on (Seek result, then each Next)
  snap : List Node := []        -- ghost: level 0 at the moment the operation started
  deriving Repr

structure St where
  levels : Nat → List Node := fun _ => []
  done : List Node := []               -- ghost: the nodes in the order of their level-0 link
  writer : Option Writer := none
  nextId : Nat := 0
  readers : Nat → Reader := fun _ => {}

inductive Act where
  | wBegin (e : MEntry) (h : Nat)         -- writer: Insert(e) with random height h: allocate + search
  | wLink                                 -- writer: publish the node at the next level
  | rStart (r : Nat) (op : Op) (lvl : Nat) -- reader r starts an operation (descent from level lvl)
  | rStep (r : Nat)                       -- reader r performs its next atomic load

def tgt : Op → Bytes
  | .first => []
  | .seek t => t
  | .find k => k

/-- the candidate / landing node has been loaded -/
def land (r : Reader) : Option Node → Reader
  | none => { r with mode := .finished none }
  | some y =>
    match r.op with
    | .find k =>
      if y.e.key = k then { r with cur := some y, trace := r.trace ++ [y], mode := .fscan y }
      else { r with mode := .finished none }
    | _ => { r with cur := some y, trace := r.trace ++ [y], out := r.out ++ [y], mode := .scan }

/-- the end of the level-0 loop of the search -/
def endSearch (rl : Bool) (r : Reader) (loaded : Option Node) : Reader :=
  if rl then { r with mode := .reload } else land r loaded

/-- one atomic load of a reader and the local computation that follows it -/
def rstep (rl : Bool) (lv : Nat → List Node) (r : Reader) : Reader :=
  match r.mode with
  | .idle => r
  | .finished _ => r
  | .search l =>
    match succIn (lv l) r.cur with
    | some y =>
      if ltB y.e.key (tgt r.op) then { r with cur := some y, trace := r.trace ++ [y] }
      else if l = 0 then endSearch rl r (some y)
      else { r with mode := .search (l - 1) }
    | none =>
      if l = 0 then endSearch rl r none else { r with mode := .search (l - 1) }
  | .reload => land r (succIn (lv 0) r.cur)
  | .scan =>
    match succIn (lv 0) r.cur with
    | some y => { r with cur := some y, trace := r.trace ++ [y], out := r.out ++ [y] }
    | none => { r with mode := .finished none }
  | .fscan best =>
    match succIn (lv 0) r.cur with
    | some y =>
      if y.e.key = tgt r.op then
        { r with cur := some y, trace := r.trace ++ [y], mode := .fscan (if y.e.seq > best.e.seq then y else best) }
      else { r with mode := .finished (some best) }
    | none => { r with mode := .finished (some best) }

def startReader (op : Op) (lvl : Nat) (level0 : List Node) : Reader :=
  { op := op, mode := (match op with | .first => .scan | _ => .search lvl), cur := none, trace := [], out := [],
    snap := level0 }

def step (rl : Bool) (s : St) : Act → St
  | .wBegin e h =>
    match s.writer with
    | some _ => s
    | none =>
      if h = 0 then s
      else { s with writer := some { node := { id := s.nextId, e := e }, height := h, lvl := 0,
                                      pos := fun l => walkLen (s.levels l) e },
                    nextId := s.nextId + 1 }
  | .wLink =>
    match s.writer with
    | none => s
    | some w =>
      { s with levels := fun l => if l = w.lvl then insertAt (w.pos l) w.node (s.levels l) else s.levels l,
               done := if w.lvl = 0 then s.done ++ [w.node] else s.done,
               writer := if w.lvl + 1 < w.height then some { w with lvl := w.lvl + 1 } else none }
  | .rStart r op lvl =>
    { s with readers := fun i => if i = r then startReader op lvl (s.levels 0) else s.readers i }
  | .rStep r =>
    { s with readers := fun i => if i = r then rstep rl s.levels (s.readers r) else s.readers i }

def run (rl : Bool) (s : St) (acts : List Act) : St := acts.foldl (step rl) s

def init : St := {}

end Kevo.ConcSkipList
