/-
  Message-level model of pkg/replication (C14) and of the synchronous observer call on the primary's write path (C15).

  What is modelled is what the pinned tree DOES (facts pinned in extract/expect/repl.json, table and constants
  regenerated into Kevo.Gen.Repl on every run):

  * primary.go — the primary holds ONE log object (`stable` = it is still the engine's current one; a flush on the
    primary rotates the engine's log and closes the object the primary holds: D30). A session is created with
    `StartSequence = requested sequence`, `LastAckSequence = requested − 1` (0 stays 0; fix 236f30e, before it
    `LastAckSequence = requested`: D35b); on connect the primary sends `select start limit`
    (sendInitialEntries, uncompressed); every poll period it sends `select (lastAck+1) limit` iff
    `observedNext-1 > lastAck` (sendUpdatedEntries, uncompressed); every append is pushed to the session unless the
    first entry's sequence is `<= StartSequence`; pushed batches are flagged compressed although nothing compresses
    them (D31); the entries of a transaction are pushed with the sequence field the caller left at 0 (never `> start`).
  * replica.go/state.go — the handlers request transitions through the generated table `Gen.Repl.allowed`; a refused
    transition is an error and the loop then forces ERROR (SetError has no table check). After a batch was handled in
    STREAMING the handler requests `Gen.Repl.afterStreamingApply` (= STREAMING on the pinned tree: not in the table,
    D35). In WAITING the handler first requests APPLYING (not in the table either). ERROR waits for the back-off,
    closes the connection (messages in flight are lost) and returns to CONNECTING; the next stream request starts at
    the applier's expected sequence.
  * batch.go — the applier abstraction: a batch is applied iff its first entry carries the expected sequence and the
    entries are consecutive; on a gap INSIDE the batch the entries before the gap have already reached the engine but
    the cursor does not move (D29); a gap makes the replica send a NACK (the primary re-sends from the expected
    sequence) — it is not an error by itself.
  * network — one FIFO per session with arbitrary delay (a message is consumed only by a `recv` step); `swallow` models a
    message eaten by an abandoned Recv goroutine, `drop` a lost connection.
-/
import Kevo.Gen.ReplState
namespace Kevo.Repl
open Kevo.Gen.Repl

/-! ## log entries, views, the primary's selection -/

structure Entry where
  seq : Nat
  key : Nat
  val : Option Nat          -- none = delete
deriving DecidableEq, Repr

abbrev View := List (Nat × Nat)

def vput (k v : Nat) : View → View
  | [] => [(k, v)]
  | (k', v') :: t => if k < k' then (k, v) :: (k', v') :: t else if k = k' then (k, v) :: t else (k', v') :: vput k v t

def vdel (k : Nat) : View → View
  | [] => []
  | (k', v') :: t => if k = k' then t else (k', v') :: vdel k t

def applyEntry (v : View) (e : Entry) : View :=
  match e.val with
  | some x => vput e.key x v
  | none => vdel e.key v

/-- the visible state after applying a list of entries in order -/
def viewOf (l : List Entry) : View := l.foldl applyEntry []

/-- keys and values are abstract numbers `len * 65536 + id`: the high part is the byte length that the response byte cap
    counts (every number below 65536 is a zero-length item, so small examples never meet the cap) -/
def blen (x : Nat) : Nat := x / 65536

/-- `len(entry.Key) + len(entry.Value)` -/
def Entry.size (e : Entry) : Nat := blen e.key + (match e.val with | some v => blen v | none => 0)

/-- the response byte cap of `getWALEntriesFromSequence`: the loop adds the size of entry `i` to a running total and cuts
    the list at the first `i > 0` whose total exceeds the cap — the first entry is always kept. Returns the number of
    entries kept (same function as Kevo.Applier.capCount, on abstract entries). -/
def capCount (cap : Nat) : Nat → Nat → List Entry → Nat
  | i, _, [] => i
  | i, total, e :: es =>
    let total := total + e.size
    if 0 < i ∧ cap < total then i else capCount cap (i + 1) total es

/-- wal.GetEntriesFrom (all entries with sequence >= c, log order) cut to the poll limit, then to the response byte cap
    (`pollBytes`, regenerated from the source) -/
def selectFrom (L : List Entry) (c n : Nat) : List Entry :=
  let s := (L.filter (fun e => decide (c ≤ e.seq))).take n
  s.take (capCount pollBytes 0 0 s)

/-- the log carries the numbers s, s+1, … : no two entries share a sequence number -/
def seqFrom : Nat → List Entry → Prop
  | _, [] => True
  | s, e :: t => e.seq = s ∧ seqFrom (s + 1) t

def NoSharedSeq (L : List Entry) : Prop := seqFrom 1 L

/-! ## the applier (WALBatchApplier.ApplyEntries) -/

inductive Outcome | empty | gapStart | gapIn | ok
deriving DecidableEq, Repr

structure Applier where
  exp : Nat        -- expectedNextSeq
  view : View      -- what the engine applier has been handed so far, as a key/value view
deriving DecidableEq, Repr

/-- the loop of ApplyEntries after the first entry: apply while consecutive; (view, last applied, gap?) -/
def applyRun (view : View) (prev : Nat) : List Entry → View × Nat × Bool
  | [] => (view, prev, false)
  | e :: t => if e.seq = prev + 1 then applyRun (applyEntry view e) e.seq t else (view, prev, true)

def applyBatch (a : Applier) : List Entry → Applier × Outcome
  | [] => (a, .empty)
  | e :: t =>
    if e.seq ≠ a.exp then (a, .gapStart)
    else
      match applyRun (applyEntry a.view e) e.seq t with
      | (v, _, true) => ({ a with view := v }, .gapIn)       -- entries before the gap reached the engine; cursor unchanged
      | (v, last, false) => ({ exp := last + 1, view := v }, .ok)

/-! ## messages, world, actions -/

inductive Msg
  | batch (es : List Entry) (compressed : Bool)
  | fail                                              -- the stream ended with an error
deriving DecidableEq, Repr

structure World where
  limit : Nat              -- entries per message (Gen.Repl.pollLimit)
  log : List Entry         -- the primary's log directory
  next : Nat               -- the engine's next sequence number
  stable : Bool            -- the primary still holds the engine's current log object
  obsNext : Nat            -- next sequence of the object the primary holds (frozen once ¬stable)
  sessOpen : Bool          -- the primary has a session for the replica
  startSeq : Nat
  lastAck : Nat
  chan : List Msg          -- FIFO primary → replica of the current connection
  st : Nat                 -- replica state (Gen.Repl.st…)
  ap : Applier
deriving DecidableEq, Repr

def init (limit : Nat) : World :=
  { limit := limit, log := [], next := 1, stable := true, obsNext := 1, sessOpen := false, startSeq := 0, lastAck := 0,
    chan := [], st := stConnecting, ap := { exp := 1, view := [] } }

inductive Act
  | put (k v : Nat) | del (k : Nat) | tx (ops : List (Nat × Option Nat)) | flush   -- client operations on the primary
  | poll                  -- primary: ticker of StreamWAL
  | connect               -- replica: CONNECTING handler + stream request; primary: session + initial send
  | recv                  -- replica: the handler of the current state takes the next message
  | timeout               -- replica: receive timeout STREAMING → WAITING, periodic WAITING → STREAMING
  | backoff               -- replica: ERROR handler after the back-off
  | ack                   -- replica: ACKNOWLEDGING handler
  | swallow               -- environment: a message is consumed by an abandoned Recv goroutine
  | drop                  -- environment: the connection is lost
  | restart               -- operator: the replica process restarts (Manager.startReplica: lastApplied := 0; the engine keeps its data)
deriving DecidableEq, Repr

/-- what operators and clients do (as opposed to the protocol's own steps and the network): client operations on the
    primary and replica restarts. A quiescent phase has none of them. -/
def Act.external : Act → Bool
  | .put .. | .del .. | .tx .. | .flush | .restart => true
  | _ => false

/-- the histories the partial theorem covers: everything except a transaction with two or more operations (its entries
    share one sequence number) and a replica restart (the replay from 1 runs over a non-empty engine) -/
def Act.covered : Act → Bool
  | .tx ops => decide (ops.length < 2)
  | .restart => false
  | _ => true

/-- StateTracker.SetState followed by the loop's SetError on refusal -/
def setState (s to : Nat) : Nat := if (s, to) ∈ allowed then to else stError

def send (w : World) (m : Msg) : World := if w.sessOpen then { w with chan := w.chan ++ [m] } else w

/-- append entries that all carry the engine's next sequence number; `pushSeq` is the sequence field of the first
    pushed entry (the entry's own number for Append, 0 for AppendBatch: the caller leaves it unset) -/
def append (w : World) (es : List Entry) (pushSeq : Nat) : World :=
  let w1 := { w with log := w.log ++ es, next := w.next + 1 }
  if w.stable then
    let w2 := { w1 with obsNext := w1.next }
    if w2.startSeq < pushSeq then send w2 (.batch es pushFlaggedCompressed) else w2
  else w1   -- the object the primary observes is closed: no notification, its counter is frozen

/-- Primary.getWALEntriesFromSequence on the observed object: none = error (object closed) -/
def fetch (w : World) (c : Nat) : Option (List Entry) :=
  if w.obsNext - 1 = 0 ∨ w.obsNext - 1 < c then some []
  else if w.stable then some (selectFrom w.log c w.limit) else none

/-- NACK (handleSequenceGap): the primary re-sends from the replica's expected sequence (resendEntries) -/
def nack (w : World) : World :=
  match fetch w w.ap.exp with
  | some (e :: t) => send w (.batch (e :: t) false)
  | _ => w

/-- processEntries*: hand an uncompressed batch to the applier; a gap is answered by a NACK and is not an error -/
def applyMsg (w : World) (es : List Entry) : World × Outcome :=
  let r := applyBatch w.ap es
  let w1 := { w with ap := r.1 }
  (if r.2 = .gapStart ∨ r.2 = .gapIn then nack w1 else w1, r.2)

/-- handleStreamingState on a received message -/
def handleStreaming (w : World) : Msg → World
  | .fail => { w with st := stError }
  | .batch [] _ => { w with st := setState w.st stWaitingForData }
  | .batch (_ :: _) true => { w with st := stError }        -- decompression of a payload that was never compressed (D31)
  | .batch (e :: t) false =>
    let w1 := (applyMsg w (e :: t)).1
    { w1 with st := setState w1.st afterStreamingApply }    -- refused by the table on the pinned tree (D35)

/-- handleWaitingForDataState on a received message -/
def handleWaiting (w : World) : Msg → World
  | .fail => w
  | .batch [] _ => w
  | .batch (e :: t) c =>
    let s1 := setState w.st stApplyingEntries
    if s1 = stError then { w with st := stError }
    else if c then { w with st := stError }
    else
      let r := applyMsg w (e :: t)
      if r.2 = .gapStart ∨ r.2 = .gapIn then { r.1 with st := setState s1 stStreamingEntries }
      else { r.1 with st := setState (setState (setState s1 stFsyncPending) stAcknowledging) stStreamingEntries }

def step (w : World) : Act → World
  | .put k v => append w [{ seq := w.next, key := k, val := some v }] w.next
  | .del k => append w [{ seq := w.next, key := k, val := none }] w.next
  | .tx ops => if ops = [] then w else append w (ops.map fun o => { seq := w.next, key := o.1, val := o.2 }) 0
  | .flush => { w with stable := false }
  | .poll =>
    if w.sessOpen ∧ w.lastAck < w.obsNext - 1 then
      match fetch w (w.lastAck + 1) with
      | some (e :: t) => send w (.batch (e :: t) false)
      | _ => w                                      -- nothing to send / "Failed to send updated entries": logged, the stream stays
    else w
  | .connect =>
    if w.st = stConnecting then
      let s := w.ap.exp
      -- the replica asks for the first sequence it wants; the primary takes the one before as acknowledged (0 stays 0)
      let w1 := { w with sessOpen := true, startSeq := s, lastAck := s - 1, chan := [], st := setState w.st afterConnect }
      if 0 < s then
        match fetch w1 s with
        | some [] => w1
        | some es => { w1 with chan := [.batch es false] }
        | none => { w1 with sessOpen := false, chan := [.fail] }    -- StreamWAL returns the error
      else w1
    else w
  | .recv =>
    match w.chan with
    | [] => w
    | m :: rest =>
      if w.st = stStreamingEntries then handleStreaming { w with chan := rest } m
      else if w.st = stWaitingForData then handleWaiting { w with chan := rest } m
      else w                                                          -- nobody is receiving
  | .timeout =>
    if w.st = stStreamingEntries then { w with st := setState w.st stWaitingForData }
    else if w.st = stWaitingForData then { w with st := setState w.st stStreamingEntries }
    else w
  | .backoff =>
    if w.st = stError then { w with sessOpen := false, chan := [], st := setState w.st afterBackoff } else w
  | .ack =>
    if w.st = stAcknowledging then
      { w with lastAck := max w.lastAck (w.ap.exp - 1), st := setState w.st stStreamingEntries }
    else w
  | .swallow => { w with chan := w.chan.drop 1 }
  | .drop => if w.sessOpen then { w with sessOpen := false, chan := [.fail] } else w
  | .restart => { w with sessOpen := false, chan := [], st := stConnecting, ap := { w.ap with exp := 1 } }

def run (w : World) (acts : List Act) : World := acts.foldl step w

/-- one reconnect cycle as the pinned tree performs it after every handled batch -/
def cycle (w : World) : World := run w [.backoff, .connect, .recv]

def converged (w : World) : Prop := w.ap.view = viewOf w.log
instance (w : World) : Decidable (converged w) := by unfold converged; infer_instance

/-- the replica has applied the whole log -/
def caughtUp (w : World) : Prop := w.ap.exp = w.log.length + 1
instance (w : World) : Decidable (caughtUp w) := by unfold caughtUp; infer_instance

/-! ## C15: the writer's micro-steps with the synchronous observer call, sessions with flow control, heartbeat -/

namespace Fault

structure Sess where
  connected : Bool      -- Connected && Active: listed by GetReplicaInfo
  broken : Bool         -- the transport is gone: the next Send returns an error
  inflight : Nat        -- messages accepted by Stream.Send and not yet taken by the replica (flow-control window)
  lastAct : Nat         -- LastActivity (ms)
  lastAck : Nat
deriving DecidableEq, Repr

/-- program counter of a client write (Put / Delete / Commit): storage Manager.mu.Lock; wal.mu.Lock; write record;
    notify observers = for each session: session.mu.Lock; Stream.Send; then maybeSync, unlock -/
inductive PC | idle | locked | appended | notify (i : Nat) | done
deriving DecidableEq, Repr

structure Cfg where
  window : Nat          -- messages Stream.Send accepts before it blocks (gRPC flow control)
  interval : Nat        -- heartbeat interval (ms)
  timeout : Nat         -- heartbeat timeout (ms)
  sendEmpty : Bool
deriving DecidableEq, Repr

structure St where
  now : Nat
  sess : List Sess
  pc : PC
  completed : Nat       -- client writes that returned
  failedOps : Nat       -- client writes that returned an error
deriving DecidableEq, Repr

def defaultCfg (window : Nat) : Cfg :=
  { window := window, interval := hbIntervalMs, timeout := hbTimeoutMs, sendEmpty := hbSendEmpty }

/-- Stream.Send under session.mu as called from sendToReplica: none = blocked (window full, connection alive) -/
def sendTo (c : Cfg) (now : Nat) (x : Sess) : Option Sess :=
  if !x.connected then some x
  else if x.broken then some { x with connected := false }            -- error logged, Connected=false, NOT returned to the writer
  else if x.inflight < c.window then some { x with inflight := x.inflight + 1, lastAct := now }
  else none

/-- next micro-step of the writer; none = not enabled -/
def wstep (c : Cfg) (s : St) : Option St :=
  match s.pc with
  | .idle => some { s with pc := .locked }
  | .locked => some { s with pc := .appended }
  | .appended => some { s with pc := .notify 0 }
  | .notify i =>
    match s.sess[i]? with
    | none => some { s with pc := .done }
    | some x =>
      match sendTo c s.now x with
      | some x' => some { s with sess := s.sess.set i x', pc := .notify (i + 1) }
      | none => none
  | .done => some { s with pc := .idle, completed := s.completed + 1 }

/-- a read (Get) needs storage Manager.mu.RLock: available only while no writer is inside its critical section -/
def getEnabled (s : St) : Bool := s.pc = .idle

inductive Env
  | drain (i : Nat)          -- the replica takes one message from its stream
  | brk (i : Nat)            -- the connection of session i is dropped abruptly
  | ack (i n : Nat)          -- Acknowledge RPC
  | tick (d : Nat)           -- time passes
deriving DecidableEq, Repr

def modifyAt (l : List Sess) (i : Nat) (f : Sess → Sess) : List Sess :=
  match l[i]? with
  | some x => l.set i (f x)
  | none => l

def env (s : St) : Env → St
  | .drain i => { s with sess := modifyAt s.sess i fun x => { x with inflight := x.inflight - 1 } }
  | .brk i => { s with sess := modifyAt s.sess i fun x => { x with broken := true } }
  | .ack i n => { s with sess := modifyAt s.sess i fun x => { x with lastAck := max x.lastAck n, lastAct := s.now } }
  | .tick d => { s with now := s.now + d }

inductive Ev | w | e (x : Env)
deriving DecidableEq, Repr

/-- run a schedule; none = the schedule asks the writer to move while it is blocked -/
def exec (c : Cfg) : St → List Ev → Option St
  | s, [] => some s
  | s, .w :: r => match wstep c s with
    | some s' => exec c s' r
    | none => none
  | s, .e x :: r => exec c (env s x) r

def writerCount : List Ev → Nat
  | [] => 0
  | .w :: r => writerCount r + 1
  | .e _ :: r => writerCount r

/-- micro-steps a write still needs -/
def remaining (s : St) : Nat :=
  match s.pc with
  | .idle => s.sess.length + 5
  | .locked => s.sess.length + 4
  | .appended => s.sess.length + 3
  | .notify i => (s.sess.length - i) + 2
  | .done => 1

/-- every connected session either has room in its window or a broken connection (its Send returns at once) -/
def SendOK (c : Cfg) (s : St) : Prop := ∀ x ∈ s.sess, x.connected = true → x.broken = true ∨ x.inflight < c.window

/-- heartbeatManager.checkSessions for one session: none = the check itself is stuck inside Stream.Send -/
def checkOne (c : Cfg) (now : Nat) (x : Sess) : Option Sess :=
  if !x.connected then some x
  else if c.timeout < now - x.lastAct then some { x with connected := false }
  else if c.sendEmpty ∧ c.interval < now - x.lastAct then
    if x.broken then some { x with connected := false }
    else if x.inflight < c.window then some { x with inflight := x.inflight + 1, lastAct := now }
    else none
  else some x

def checkAll (c : Cfg) (now : Nat) : List Sess → Option (List Sess)
  | [] => some []
  | x :: t => match checkOne c now x, checkAll c now t with
    | some x', some t' => some (x' :: t')
    | _, _ => none

/-- GetReplicaInfo: the sessions with Connected -/
def topology (l : List Sess) : List Sess := l.filter (·.connected)

end Fault
/-! ## C15: lock order on the primary (repaired tree, fix 91e362a; facts repl.*.lockOrder, repl.wal.*, repl.broadcast.*)

  Ranks: storage Manager.mu = 0, wal.mu = 1, Primary.mu = 2, session.mu = 3. `lockPaths` lists, per code path, every
  maximal NESTED acquisition sequence (locks released before the next one is taken start a new sequence). No cycle is
  possible when every sequence is strictly increasing. `statusPath` is the one path that is not (Manager.Status →
  getPrimaryStatus reads the WAL counter under Primary.mu.RLock; no caller outside tests: reported, not a C15 scenario).

  The small transition system below is the write path against the poll path: `old := true` is the order BEFORE the fix
  (poll: session.mu, then wal.mu while still holding it — HISTORICAL, kept only to show what the repair removed),
  `old := false` the repaired order (cursor read under session.mu, released; WAL read under wal.mu alone, released; send
  under session.mu alone). -/
namespace Locks

def lockPaths : List (String × List Nat) :=
  [("Put/Delete/Commit: Manager.mu, wal.mu (Append), Primary.mu.RLock (broadcast), session.mu (sendToReplica)", [0, 1, 2, 3]),
   ("Get: Manager.mu.RLock", [0]),
   ("StreamWAL ticker: wal.GetNextSequence", [1]),
   ("sendUpdatedEntries: cursor under session.mu", [3]),
   ("sendUpdatedEntries / sendInitialEntries / resendEntries: getWALEntriesFromSequence (wal.mu only)", [1]),
   ("sendUpdatedEntries / sendInitialEntries / resendEntries: Stream.Send under session.mu", [3]),
   ("Acknowledge: updateSessionAck Primary.mu.Lock, session.mu", [2, 3]),
   ("register / unregister / getSession / GetReplicaInfo: Primary.mu", [2]),
   ("checkSessions: snapshot under Primary.mu.RLock", [2]),
   ("checkSessions: heartbeat under session.mu", [3]),
   ("engine.GetWAL: Manager.mu.RLock", [0])]

def statusPath : String × List Nat := ("Manager.Status: Primary.mu.RLock, wal.GetNextSequence", [2, 1])

def increasing : List Nat → Bool
  | a :: b :: t => decide (a < b) && increasing (b :: t)
  | _ => true

inductive WPC | idle | hasWal | hasBoth | done
deriving DecidableEq, Repr
/-- poll goroutine. old order: idle → sess (session.mu) → sessWal (both) → done.
    repaired: idle → cursor (session.mu) → gap1 → fetch (wal.mu) → gap2 → send (session.mu) → done -/
inductive PPC | idle | sess | sessWal | cursor | gap1 | fetch | gap2 | send | done
deriving DecidableEq, Repr

structure LS where
  w : WPC
  p : PPC
deriving DecidableEq, Repr

def pollHoldsWal : PPC → Bool
  | .sessWal | .fetch => true | _ => false
def pollHoldsSess : PPC → Bool
  | .sess | .sessWal | .cursor | .send => true | _ => false
def writerHoldsWal : WPC → Bool
  | .hasWal | .hasBoth => true | _ => false
def writerHoldsSess : WPC → Bool
  | .hasBoth => true | _ => false

def wStep (s : LS) : Option LS :=
  match s.w with
  | .idle => if pollHoldsWal s.p then none else some { s with w := .hasWal }
  | .hasWal => if pollHoldsSess s.p then none else some { s with w := .hasBoth }
  | .hasBoth => some { s with w := .done }
  | .done => none

def pStep (old : Bool) (s : LS) : Option LS :=
  match s.p with
  | .idle => if writerHoldsSess s.w then none else some { s with p := if old then .sess else .cursor }
  | .sess => if writerHoldsWal s.w then none else some { s with p := .sessWal }
  | .sessWal => some { s with p := .done }
  | .cursor => some { s with p := .gap1 }
  | .gap1 => if writerHoldsWal s.w then none else some { s with p := .fetch }
  | .fetch => some { s with p := .gap2 }
  | .gap2 => if writerHoldsSess s.w then none else some { s with p := .send }
  | .send => some { s with p := .done }
  | .done => none

def finished (s : LS) : Bool := s.w = .done ∧ s.p = .done
def stuck (old : Bool) (s : LS) : Bool := !finished s && (wStep s).isNone && (pStep old s).isNone

def pollStates (old : Bool) : List PPC :=
  if old then [.idle, .sess, .sessWal, .done] else [.idle, .cursor, .gap1, .fetch, .gap2, .send, .done]

def allStates (old : Bool) : List LS :=
  [WPC.idle, .hasWal, .hasBoth, .done].flatMap fun w => (pollStates old).map fun p => { w := w, p := p }

/-- mutual exclusion of the two mutexes -/
def consistent (s : LS) : Bool :=
  !(writerHoldsWal s.w && pollHoldsWal s.p) && !(writerHoldsSess s.w && pollHoldsSess s.p)

end Locks

end Kevo.Repl
