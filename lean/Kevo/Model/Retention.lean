/-
  Kevo.Model.Retention — `WAL.ManageRetention` (pkg/wal/retention.go): which closed log files are deleted.

  The current file is never a candidate. For every other file the code collects its creation time and the smallest
  and greatest sequence number it holds (`getSequenceBounds`; a file without a readable entry gets the conservative
  bounds (0, MaxUint64) and can therefore never be deleted by the sequence rule), sorts the candidates oldest first and
  applies three rules, each of which can only ADD files to the set to delete:
    * count    (`MaxFileCount > 0`): keep the newest `MaxFileCount - 1` candidates (the current file counts as one);
    * age      (`MaxAge > 0`): delete every candidate older than `MaxAge`;
    * sequence (`MinSequenceKeep > 0`): delete every candidate whose GREATEST number is `< MinSequenceKeep`.
  `Primary.maybeManageWALRetention` calls it with `MaxAge` = 24 h and `MinSequenceKeep` = the smallest acknowledged
  number of the connected replicas (and no count rule).

  Ages are abstract numbers (larger = older); the differential harness sets the files' modification times accordingly.
-/
import Kevo.Model.WalLog
namespace Kevo.Retention
open Kevo Kevo.Wal

structure Cfg where
  maxFileCount : Nat := 0     -- 0 = rule off
  maxAge : Nat := 0           -- 0 = rule off
  minSeqKeep : Nat := 0       -- 0 = rule off
  deriving Repr, DecidableEq

/-- what the code knows about one candidate -/
structure Info where
  age : Nat
  bounds : Option (Nat × Nat)   -- (min, max) sequence number; `none` = no readable entry (conservative bounds)
  deriving Repr, DecidableEq

/-- `getSequenceBounds` on the sequence numbers read from a file -/
def boundsOf : List Nat → Option (Nat × Nat)
  | [] => none
  | s :: rest => some (rest.foldl min s, rest.foldl max s)

/-- position of every candidate in the oldest-first order (`sort.Slice` by creation time): the number of candidates
    that are strictly older, ties broken by position (the harness never produces ties) -/
def rank (infos : List Info) (i : Nat) (x : Info) : Nat :=
  ((infos.zipIdx).filter (fun (y, j) => y.age > x.age || (y.age == x.age && j < i))).length

/-- the count rule: with `n` candidates, delete those among the `n - (MaxFileCount - 1)` oldest -/
def countRule (cfg : Cfg) (infos : List Info) (i : Nat) (x : Info) : Bool :=
  if cfg.maxFileCount = 0 then false
  else
    let keep := cfg.maxFileCount - 1
    if keep = 0 then true
    else if infos.length > keep then decide (rank infos i x < infos.length - keep) else false

def ageRule (cfg : Cfg) (x : Info) : Bool := cfg.maxAge > 0 && x.age > cfg.maxAge

def seqRule (cfg : Cfg) (x : Info) : Bool :=
  cfg.minSeqKeep > 0 && (match x.bounds with
    | some (_, hi) => hi < cfg.minSeqKeep
    | none => false)

/-- is candidate `i` deleted? -/
def deleted (cfg : Cfg) (infos : List Info) (i : Nat) (x : Info) : Bool :=
  countRule cfg infos i x || ageRule cfg x || seqRule cfg x

/-- what the code collects about candidate `i` (file `f`) -/
def infoOf (ages : List Nat) (f : List Nat) (i : Nat) : Info := { age := ages.getD i 0, bounds := boundsOf f }

def infosOf (closed : List (List Nat)) (ages : List Nat) : List Info :=
  closed.zipIdx.map (fun (f, i) => infoOf ages f i)

/-- the decision for every candidate, in candidate order -/
def decisions (cfg : Cfg) (closed : List (List Nat)) (ages : List Nat) : List Bool :=
  closed.zipIdx.map (fun (f, i) => deleted cfg (infosOf closed ages) i (infoOf ages f i))

/-- the candidates that survive -/
def keptOf (cfg : Cfg) (closed : List (List Nat)) (ages : List Nat) : List (List Nat) :=
  closed.zipIdx.filterMap (fun (f, i) =>
    if deleted cfg (infosOf closed ages) i (infoOf ages f i) then none else some f)

/-! ### on logical files (lists of sequence numbers; the last file is the current one) -/

/-- `ManageRetention` on a directory given by the sequence numbers of each file (oldest first, current last) and the
    ages of the closed files: the files that remain -/
def retainL (cfg : Cfg) (files : List (List Nat)) (ages : List Nat) : List (List Nat) :=
  if files.length ≤ 1 then files                    -- only the current file: nothing to do
  else keptOf cfg files.dropLast ages ++ [files.getLast?.getD []]

/-! ### on the byte-level log of Model/WalLog -/

/-- the sequence numbers the reader delivers from a file -/
def seqsOf (p : WalParams) (crc : Bytes → Nat) (f : Bytes) : List Nat := (replayFile p crc f).entries.map (·.seq)

/-- the real call: candidates = every file but the last; bounds from the entries the reader delivers; returns the log
    without the deleted files and the number of files deleted -/
def retain (p : WalParams) (crc : Bytes → Nat) (l : Log) (cfg : Cfg) (ages : List Nat) : Log × Nat :=
  if l.files.length ≤ 1 then (l, 0)
  else
    let closed := l.files.dropLast
    let dec := decisions cfg (closed.map (seqsOf p crc)) ages
    let kept := (closed.zip dec).filterMap (fun (f, d) => if d then none else some f)
    ({ l with files := kept ++ [l.files.getLast?.getD []] }, (dec.filter id).length)

end Kevo.Retention
