/-
  Kevo.Model.Table — model of pkg/sstable: Writer (block cutting, bloom section, index block, footer),
  OpenReader (footer decode, validateHeaderStructure, index block, bloom filters), Iterator and Reader.Get.
-/
import Kevo.Model.Block
namespace Kevo.Table
open Kevo Kevo.Block

structure Params where
  ri : Nat            -- block.RestartInterval
  blockCut : Nat      -- sstable.IndexKeyInterval (a block is flushed when its estimate reaches this)
  footerSize : Nat    -- footer.FooterSize
  magic : Nat         -- footer.FooterMagic
  version : Nat       -- footer.CurrentVersion
  bloomBits : Nat     -- bits of a filter for (0.01, 1000) – measured from the implementation
  bloomK : Nat        -- hash functions
  bloomN : Nat        -- expected entries per block (1000)
  deriving Repr, DecidableEq

/-! ### Writer -/

/-- Builder's running size estimate after adding `n` entries with total payload `sz`:
    currentSize + 4 * (#restart points recorded by Add) + footer. -/
def estimate (p : Params) (sz n : Nat) : Nat :=
  if n = 0 then 0 else sz + 4 * ((n + p.ri - 1) / p.ri) + Block.footerSize

def entrySize (e : BEntry) : Nat := e.key.length + (e.val.getD []).length + 16

/-- cut the entry stream into blocks exactly as `Writer.AddWithSequence` does: after each add, flush when the
    estimate has reached `blockCut`. -/
def cutBlocks (p : Params) : List BEntry → List BEntry → Nat → List (List BEntry)
  | [], cur, _ => if cur.isEmpty then [] else [cur.reverse]
  | e :: es, cur, sz =>
    let cur' := e :: cur
    let sz' := sz + entrySize e
    if estimate p sz' cur'.length ≥ p.blockCut then cur'.reverse :: cutBlocks p es [] 0
    else cutBlocks p es cur' sz'

/-- bit positions of a key in a filter: fnv1a64(key ++ le64 i) % bits, i < k. -/
def bloomPositions (p : Params) (fnv : Bytes → Nat) (key : Bytes) : List Nat :=
  (List.range p.bloomK).map (fun i => fnv (key ++ le 8 i) % p.bloomBits)

def setBit (bits : Array UInt8) (pos : Nat) : Array UInt8 :=
  bits.modify (pos / 8) (fun b => b ||| (1 <<< (UInt8.ofNat (pos % 8))))

def testBit (bits : Bytes) (pos : Nat) : Bool :=
  ((bits.getD (pos / 8) 0) &&& (1 <<< (UInt8.ofNat (pos % 8)))) != 0

/-- serialised filter: size(8) k(8) expectedN(8) insertions(8) bits -/
def bloomBytes (p : Params) (fnv : Bytes → Nat) (keys : List Bytes) : Bytes :=
  let bits := keys.foldl (fun a k => (bloomPositions p fnv k).foldl setBit a)
    (Array.replicate ((p.bloomBits + 7) / 8) (0 : UInt8))
  le 8 p.bloomBits ++ le 8 p.bloomK ++ le 8 p.bloomN ++ le 8 keys.length ++ bits.toList

structure Layout where
  blocks : List (Nat × Nat × List BEntry)   -- offset, size, entries
  deriving Repr

def layBlocks (p : Params) (hash : Bytes → Nat) : List (List BEntry) → Nat → List (Nat × Bytes × List BEntry)
  | [], _ => []
  | b :: bs, off =>
    let data := Block.encode p.ri hash b
    (off, data, b) :: layBlocks p hash bs (off + data.length)

def footerBytes (p : Params) (hash : Bytes → Nat) (ts indexOff indexSize numEntries bloomOff bloomSize : Nat) : Bytes :=
  let pre := le 8 p.magic ++ le 4 p.version ++ le 8 ts ++ le 8 indexOff ++ le 4 indexSize ++ le 4 numEntries ++
    le 4 0 ++ le 4 0 ++ le 8 bloomOff ++ le 4 bloomSize ++ le 4 0
  pre ++ le 8 (hash pre)

/-- Writer.Finish: data blocks, bloom section (one filter per block keyed by the block's offset), index block,
    footer. `bloom = false` models WriterOptions.EnableBloomFilter = false. -/
def encode (p : Params) (hash fnv : Bytes → Nat) (ts : Nat) (bloom : Bool) (es : List BEntry) : Bytes :=
  let blocks := layBlocks p hash (cutBlocks p es [] 0) 0
  let dataBytes := blocks.flatMap (fun b => b.2.1)
  let bloomSec : Bytes := if bloom then
      blocks.flatMap (fun (off, _, ents) =>
        let f := bloomBytes p fnv (ents.map (·.key))
        le 8 off ++ le 4 f.length ++ f)
    else []
  let indexEntries : List BEntry := blocks.map (fun (off, data, ents) =>
    { key := (ents.headD { key := [], val := none, seq := 0 }).key, val := some (le 8 off ++ le 4 data.length), seq := 0 })
  let indexData := Block.encode p.ri hash indexEntries
  let bloomOff := if bloomSec.isEmpty then 0 else dataBytes.length
  let indexOff := dataBytes.length + bloomSec.length
  dataBytes ++ bloomSec ++ indexData ++
    footerBytes p hash ts indexOff indexData.length es.length bloomOff bloomSec.length

/-! ### Reader -/

structure Footer where
  magic : Nat
  version : Nat
  ts : Nat
  indexOff : Nat
  indexSize : Nat
  numEntries : Nat
  bloomOff : Nat
  bloomSize : Nat
  deriving Repr

/-- footer.Decode (both the version ≥ 2 and the legacy layout) -/
def decodeFooter (p : Params) (hash : Bytes → Nat) (d : Bytes) : Option Footer :=
  if d.length < p.footerSize then none
  else
    let magic := unle (slice d 0 8)
    let version := unle (slice d 8 4)
    let f : Footer := { magic, version, ts := unle (slice d 12 8), indexOff := unle (slice d 20 8),
                        indexSize := unle (slice d 28 4), numEntries := unle (slice d 32 4),
                        bloomOff := if version ≥ 2 then unle (slice d 44 8) else 0,
                        bloomSize := if version ≥ 2 then unle (slice d 52 4) else 0 }
    let cs := if version ≥ 2 then unle (slice d 60 8) else unle (slice d 44 8)
    if magic ≠ p.magic then none
    else if (if version ≥ 2 then hash (d.take 60) else hash (d.take 44)) ≠ cs then none
    else some f

/-- validateHeaderStructure -/
def validHeader (p : Params) (f : Footer) (fileSize : Nat) : Bool :=
  let footerStart := fileSize - p.footerSize
  !(f.indexOff ≥ fileSize) && !(f.indexSize = 0) && !(f.indexOff + f.indexSize > fileSize) &&
  !(f.indexOff + f.indexSize > footerStart) &&
  (if f.bloomOff > 0 then
     !(f.bloomOff ≥ fileSize) && !(f.bloomSize = 0) && !(f.bloomOff + f.bloomSize > fileSize) &&
     !(f.bloomOff + f.bloomSize > footerStart)
   else true) &&
  !(f.numEntries = 0)

structure Filter where
  blockOff : Nat
  bits : Nat
  k : Nat
  data : Bytes
  deriving Repr

structure Reader where
  file : Bytes
  footer : Footer
  index : List BEntry        -- decoded index block
  filters : List Filter
  hasBloom : Bool
  deriving Repr

/-- the bloom-section loop of OpenReader; `none` = open fails (validateBloomFilterSize). -/
def loadFilters (sec : Bytes) : Nat → Nat → Option (List Filter)
  | 0, _ => some []
  | fuel + 1, pos =>
    if pos ≥ sec.length then some []
    else if pos + 12 > sec.length then some []
    else
      let off := unle (slice sec pos 8)
      let fs := unle (slice sec (pos + 8) 4)
      let pos := pos + 12
      if fs = 0 ∨ fs > sec.length ∨ pos + fs > sec.length ∨ fs > 64 * 1024 * 1024 then none
      else
        let fd := slice sec pos fs
        -- LoadBloomFilter: 32-byte header, then exactly ceil(size/8) bytes of bits; a filter whose header does not
        -- describe its data (or has no bits / no hash functions / more hash functions than bits) is skipped
        let flt : Filter := { blockOff := off, bits := unle (slice fd 0 8), k := unle (slice fd 8 8), data := fd.drop 32 }
        let ok := decide (fd.length ≥ 32 ∧ flt.bits ≠ 0 ∧ flt.k ≠ 0 ∧ flt.k ≤ flt.bits ∧
                          fd.length - 32 = flt.bits / 8 + (flt.bits % 8 + 7) / 8)
        match loadFilters sec fuel (pos + fs) with
        | none => none
        | some rest => some (if ok then flt :: rest else rest)

/-- sstable.OpenReader -/
def openTable (p : Params) (hash : Bytes → Nat) (file : Bytes) : Option Reader :=
  if file.length < p.footerSize then none
  else match decodeFooter p hash (file.drop (file.length - p.footerSize)) with
    | none => none
    | some f =>
      if !validHeader p f file.length then none
      else match Block.openBlock hash (slice file f.indexOff f.indexSize) with
        | none => none
        | some ir =>
          let hasBloom := f.bloomOff > 0 ∧ f.bloomSize > 0
          if hasBloom then
            let sec := slice file f.bloomOff f.bloomSize
            match loadFilters sec (sec.length + 1) 0 with
            | none => none
            | some fl => some { file, footer := f, index := Block.decodeAll ir, filters := fl, hasBloom := true }
          else some { file, footer := f, index := Block.decodeAll ir, filters := [], hasBloom := false }

/-- (offset, size) of an index entry (ParseBlockLocator) -/
def locator (e : BEntry) : Option (Nat × Nat) :=
  match e.val with
  | some v => if v.length < 12 then none else some (unle (v.take 8), unle (slice v 8 4))
  | none => none

/-- fetch and decode one data block (FetchBlock + iteration) -/
def blockEntries (hash : Bytes → Nat) (r : Reader) (off size : Nat) : Option (List BEntry) :=
  let d := slice r.file off size
  if d.length ≠ size then none
  else (Block.openBlock hash d).map Block.decodeAll

/-- all entries of the table in file order; none if some block fails to load -/
def allEntries (hash : Bytes → Nat) (r : Reader) : Option (List BEntry) :=
  r.index.foldl (fun acc ie => match acc, locator ie with
    | some es, some (off, sz) => (blockEntries hash r off sz).map (es ++ ·)
    | _, _ => none) (some [])

/-! ### Iterator (post-repair semantics over the flattened entry list) -/

structure TIter where
  es : List BEntry
  pos : Option Nat := none
  init : Bool := false
  deriving Repr

def TIter.cur (it : TIter) : Option BEntry := if it.init then it.pos.bind (fun i => it.es[i]?) else none
def TIter.valid (it : TIter) : Bool := it.cur.isSome
def TIter.first (it : TIter) : TIter := { it with pos := if it.es.isEmpty then none else some 0, init := true }
def TIter.last (it : TIter) : TIter := { it with pos := if it.es.isEmpty then none else some (it.es.length - 1), init := true }
def TIter.seek (it : TIter) (t : Bytes) : TIter × Bool :=
  let p := Block.findGE it.es t
  ({ it with pos := p, init := true }, p.isSome)
def TIter.next (it : TIter) : TIter × Bool :=
  if !it.init then let it' := it.first; (it', it'.valid)
  else match it.pos with
    | none => (it, false)
    | some i => if i + 1 < it.es.length then ({ it with pos := some (i + 1) }, true) else ({ it with pos := none }, false)

/-! ### Reader.Get -/

inductive GetRes where
  | found (v : Option Bytes)   -- value (none = the nil value of a tombstone)
  | notFound
  | error
  deriving Repr, DecidableEq

def filterContains (fnv : Bytes → Nat) (f : Filter) (key : Bytes) : Bool :=
  (List.range f.k).all (fun i => testBit f.data (fnv (key ++ le 8 i) % f.bits))

/-- index position of the candidate block: last entry with first key ≤ key, else 0 (seekIndexToBlockForKey) -/
def candidateIdx (index : List BEntry) (key : Bytes) : Nat :=
  let n := (index.takeWhile (fun e => !ltB key e.key)).length
  if n = 0 then 0 else n - 1

def getAux (hash fnv : Bytes → Nat) (r : Reader) (key : Bytes) : List BEntry → GetRes
  | [] => .notFound
  | ie :: rest =>
    match locator ie with
    | none => getAux hash fnv r key rest
    | some (off, sz) =>
      let skip := r.hasBloom && !(match r.filters.find? (fun f => f.blockOff = off) with
        | some f => filterContains fnv f key
        | none => false)
      if skip then getAux hash fnv r key rest
      else match blockEntries hash r off sz with
        | none => .error
        | some es => match es.find? (fun e => e.key = key) with
          | some e => .found e.val
          | none => getAux hash fnv r key rest

def get (hash fnv : Bytes → Nat) (r : Reader) (key : Bytes) : GetRes :=
  getAux hash fnv r key (r.index.drop (candidateIdx r.index key))

/-! ### Reader.Get through the block cache (`BlockCache`, keyed by block offset) -/

/-- offset ↦ decoded block -/
abbrev Cache := List (Nat × List BEntry)

/-- `BlockCache.Get` -/
def Cache.get (c : Cache) (off : Nat) : Option (List BEntry) := (c.find? (fun x => x.1 = off)).map (·.2)

/-- `BlockCache.Put`: when the cache holds `cap` blocks or more, one entry is dropped first — Go deletes whichever key its
    map iteration yields first, i.e. an arbitrary one: `victim` is that choice; then the block is stored under its offset
    (replacing an entry with the same offset). -/
def Cache.put (cap : Nat) (victim : Cache → Nat) (c : Cache) (off : Nat) (es : List BEntry) : Cache :=
  let c1 := if c.length ≥ cap then c.eraseIdx (victim c) else c
  (off, es) :: c1.filter (fun x => x.1 ≠ off)

/-- the block loop of `Reader.Get` with the cache: a cached block is used as it is, a fetched block is stored -/
def getAuxC (hash fnv : Bytes → Nat) (cap : Nat) (victim : Cache → Nat) (r : Reader) (key : Bytes) :
    List BEntry → Cache → GetRes × Cache
  | [], c => (.notFound, c)
  | ie :: rest, c =>
    match locator ie with
    | none => getAuxC hash fnv cap victim r key rest c
    | some (off, sz) =>
      let skip := r.hasBloom && !(match r.filters.find? (fun f => f.blockOff = off) with
        | some f => filterContains fnv f key
        | none => false)
      if skip then getAuxC hash fnv cap victim r key rest c
      else match c.get off with
        | some es => (match es.find? (fun e => e.key = key) with
          | some e => (.found e.val, c)
          | none => getAuxC hash fnv cap victim r key rest c)
        | none => match blockEntries hash r off sz with
          | none => (.error, c)
          | some es =>
            let c' := c.put cap victim off es
            match es.find? (fun e => e.key = key) with
            | some e => (.found e.val, c')
            | none => getAuxC hash fnv cap victim r key rest c'

def getC (hash fnv : Bytes → Nat) (cap : Nat) (victim : Cache → Nat) (r : Reader) (key : Bytes) (c : Cache) : GetRes × Cache :=
  getAuxC hash fnv cap victim r key (r.index.drop (candidateIdx r.index key)) c

/-- a history of lookups on one open reader, the cache carried from one to the next -/
def getsC (hash fnv : Bytes → Nat) (cap : Nat) (victim : Cache → Nat) (r : Reader) : List Bytes → Cache → List GetRes × Cache
  | [], c => ([], c)
  | k :: ks, c =>
    let (res, c1) := getC hash fnv cap victim r k c
    let (rs, c2) := getsC hash fnv cap victim r ks c1
    (res :: rs, c2)

end Kevo.Table
