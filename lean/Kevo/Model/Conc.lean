/-
  Kevo.Model.Conc — a small generic interleaving semantics.
  A system is a state type, an action type and a partial step function indexed by an (unbounded) thread id.
  A schedule is a list of (thread, action); a schedule is executable iff every step is enabled (`some`).
  Blocking is "the step is not enabled yet": a thread waiting for a lock simply does not appear in the schedule
  until the lock is free (Go's writer preference / FIFO hand-off only REMOVES schedules from this set).
-/
namespace Kevo.Conc

abbrev Tid := Nat

structure Sys (σ α : Type) where
  init : σ
  step : σ → Tid → α → Option σ

variable {σ α : Type}

/-- run a schedule from a state; `none` iff some step is not enabled. -/
def run (S : Sys σ α) : σ → List (Tid × α) → Option σ
  | s, [] => some s
  | s, (t, a) :: rest => (S.step s t a).bind (fun s' => run S s' rest)

/-- the state reached by a schedule from the initial state. -/
def reach (S : Sys σ α) (sched : List (Tid × α)) : Option σ := run S S.init sched

theorem run_append (S : Sys σ α) (s : σ) (l1 l2 : List (Tid × α)) :
    run S s (l1 ++ l2) = (run S s l1).bind (fun s' => run S s' l2) := by
  induction l1 generalizing s with
  | nil => simp [run]
  | cons x l1 ih =>
    obtain ⟨t, a⟩ := x
    simp only [List.cons_append, run]
    cases h : S.step s t a with
    | none => simp
    | some s' => simp [ih]

theorem reach_snoc (S : Sys σ α) (sched : List (Tid × α)) (t : Tid) (a : α) :
    reach S (sched ++ [(t, a)]) = (reach S sched).bind (fun s => S.step s t a) := by
  unfold reach
  rw [run_append]
  cases run S S.init sched with
  | none => rfl
    | some s => simp [run]

theorem list_snoc_induction {β : Type} (P : List β → Prop) (h0 : P [])
    (hs : ∀ l x, P l → P (l ++ [x])) : ∀ l, P l := by
  have : ∀ l : List β, P l.reverse := by
    intro l
    induction l with
    | nil => exact h0
    | cons x l ih => rw [List.reverse_cons]; exact hs _ _ ih
  intro l
  have h := this l.reverse
  rwa [List.reverse_reverse] at h

/-- induction principle over executable schedules (the last step is peeled off). -/
theorem reach_induction (S : Sys σ α) (P : List (Tid × α) → σ → Prop)
    (h0 : P [] S.init)
    (hstep : ∀ sched s t a s', reach S sched = some s → P sched s → S.step s t a = some s' → P (sched ++ [(t, a)]) s') :
    ∀ sched s, reach S sched = some s → P sched s := by
  intro sched
  induction sched using list_snoc_induction with
  | h0 => intro s h; simp [reach, run] at h; subst h; exact h0
  | hs sched x ih =>
    obtain ⟨t, a⟩ := x
    intro s' h
    rw [reach_snoc] at h
    cases hr : reach S sched with
    | none => simp [hr] at h
    | some s =>
      simp [hr] at h
      exact hstep sched s t a s' hr (ih s hr) h

/-- state invariants. -/
theorem reach_invariant (S : Sys σ α) (I : σ → Prop) (h0 : I S.init)
    (hstep : ∀ s t a s', I s → S.step s t a = some s' → I s') :
    ∀ sched s, reach S sched = some s → I s :=
  reach_induction S (fun _ s => I s) h0 (fun _ s t a s' _ hi hs => hstep s t a s' hi hs)

/-- the actions of one thread, in order. -/
def progOf (sched : List (Tid × α)) (t : Tid) : List α := (sched.filter (fun x => x.1 == t)).map (·.2)

theorem progOf_snoc (sched : List (Tid × α)) (t u : Tid) (a : α) :
    progOf (sched ++ [(t, a)]) u = if u = t then progOf sched u ++ [a] else progOf sched u := by
  unfold progOf
  by_cases h : u = t
  · subst h; simp [List.filter_append]
  · have : (t == u) = false := by simp; exact fun e => h e.symm
    simp [List.filter_append, this, h]

end Kevo.Conc
