/-
  Kevo.Model.Compaction — logical model of pkg/compaction (BaseCompactionStrategy.LoadSSTables,
  TieredCompactionStrategy.SelectCompaction / CompactRange, DefaultCompactionExecutor.CompactFiles,
  BasicTombstoneFilter / TombstoneTracker, DefaultFileTracker, DefaultCompactionCoordinator.runCompactionCycle),
  of the way engine.EngineFacade wires it (TrackTombstone on Delete / ApplyBatch, not on transaction commits; the
  running storage manager keeps its own table list and learns about compaction results only at the next open),
  and of log retirement.

  Tables are logical: `Kevo.Engine.SST` = level, file number, creation time stamp, sorted entry list. The byte
  format is the subject of C11; the merged stream of the HierarchicalIterator is the subject of C05 and is modelled
  here by its functional meaning (`mergeSources`).
-/
import Kevo.Model.Engine
namespace Kevo.Compaction
open Kevo Kevo.Engine

/-! ### configuration -/

structure Cfg where
  maxMemTables : Nat := 4            -- cfg.MaxMemTables: level-0 trigger AND number of level-0 files taken
  ratioNum : Nat := 10               -- cfg.CompactionRatio = ratioNum / ratioDen
  ratioDen : Nat := 1
  sstMaxEntries : Nat := 67108864    -- cfg.SSTableMaxSize, compared by CompactFiles with the number of ENTRIES
  maxLevelWithTombstones : Nat := 1  -- used only when the executor has no tombstone manager
  retention : Nat := 86400           -- TombstoneTracker retention (24 h), in clock ticks
  trackerPresent : Bool := true      -- NewCompactionCoordinator always installs a tracker
  /-- REPAIR SWITCH (off = behaviour of the pinned tree): CompactRange extends its selection to every file that
      overlaps the key hull of the files selected so far, until nothing is added. -/
  rangeClosure : Bool := false
  deriving Repr

/-! ### key ranges -/

def firstKey (t : SST) : Bytes := (t.entries.head?.map (·.key)).getD []
def lastKey (t : SST) : Bytes := (t.entries.getLast?.map (·.key)).getD []

/-- SSTableInfo.Overlaps on (first, last) pairs: a side without keys never overlaps. -/
def overlaps (f1 l1 f2 l2 : Bytes) : Bool :=
  if f1.isEmpty || l1.isEmpty || f2.isEmpty || l2.isEmpty then false
  else !(ltB l1 f2 || ltB l2 f1)

def overlapsRange (t : SST) (lo hi : Bytes) : Bool := overlaps (firstKey t) (lastKey t) lo hi

/-! ### generic stable insertion sort (sort.SliceStable; sort.Slice on the short slices that occur) -/

def insertBy (le : SST → SST → Bool) (t : SST) : List SST → List SST
  | [] => [t]
  | x :: xs => if le x t then x :: insertBy le t xs else t :: x :: xs

def sortBy (le : SST → SST → Bool) (ts : List SST) : List SST := ts.foldl (fun acc t => insertBy le t acc) []

/-- ReadDir order followed by the per-level sort of LoadSSTables: file number, then time stamp. -/
def bySeq (a b : SST) : Bool := if a.fileNum != b.fileNum then a.fileNum < b.fileNum else a.ts ≤ b.ts

/-- the sort inside CompactFiles: newest time stamp first, then higher file number first. -/
def newerFirst (a b : SST) : Bool := if a.ts != b.ts then a.ts > b.ts else a.fileNum ≥ b.fileNum

/-- BaseCompactionStrategy.levels[l] -/
def levelFiles (dir : List SST) (l : Nat) : List SST := sortBy bySeq (dir.filter (·.level == l))

def maxLevel (dir : List SST) : Nat := dir.foldl (fun m t => max m t.level) 0

/-! ### tombstone tracker and filter -/

structure Tracker where
  deletions : List (Bytes × Nat) := []    -- AddTombstone: key ↦ time of the latest tracked delete
  preserve : List Bytes := []             -- ForcePreserveTombstone
  deriving Repr

def Tracker.add (t : Tracker) (k : Bytes) (now : Nat) : Tracker :=
  { t with deletions := (k, now) :: t.deletions.filter (fun d => d.1 != k) }

/-- TombstoneTracker.ShouldKeepTombstone -/
def Tracker.shouldKeep (t : Tracker) (retention now : Nat) (k : Bytes) : Bool :=
  if t.preserve.contains k then true
  else match t.deletions.find? (fun d => d.1 == k) with
    | none => false
    | some d => decide (now - d.2 < retention)

/-- BasicTombstoneFilter.ShouldKeep(key, value) -/
def filterShouldKeep (level maxTomb : Nat) (tr : Option Tracker) (retention now : Nat) (k : Bytes) (v : Option Bytes) : Bool :=
  if v.isSome then true
  else match tr with
    | some t => t.shouldKeep retention now k
    | none => decide (level ≤ maxTomb)

/-- the keep/drop decision of CompactFiles for one merged entry -/
def keepEntry (cfg : Cfg) (tr : Tracker) (now target : Nat) (k : Bytes) (v : Option Bytes) : Bool :=
  if cfg.trackerPresent && v.isNone then filterShouldKeep target cfg.maxLevelWithTombstones (some tr) cfg.retention now k none
  else v.isSome || decide (target ≤ cfg.maxLevelWithTombstones)

/-! ### merged stream -/

abbrev KV := Bytes × Option Bytes

/-- insert into a list with strictly ascending keys, replacing an equal key -/
def insertKV (e : KV) : List KV → List KV
  | [] => [e]
  | x :: xs => if ltB e.1 x.1 then e :: x :: xs else if e.1 == x.1 then e :: xs else x :: insertKV e xs

/-- lay a newer source over an accumulated older view (the first entry of a key inside the source wins) -/
def overlay (src : List KV) (acc : List KV) : List KV := src.foldr insertKV acc

/-- what the HierarchicalIterator over `srcs` (earlier = newer) yields, after the `lastKey` duplicate skip of
    CompactFiles: every key once, ascending, with the entry of the first source that holds it. -/
def mergeSources (srcs : List (List KV)) : List KV := srcs.foldr overlay []

def lookup (es : List KV) (k : Bytes) : Option KV := es.find? (fun e => e.1 == k)

def kvs (t : SST) : List KV := t.entries.map (fun e => (e.key, e.val))

/-! ### CompactFiles -/

structure Task where
  inputs : List SST      -- InputFiles, all levels (every file carries its level)
  target : Nat
  deriving Repr

/-- iterator order: levels 0 .. target, inside a level newest first -/
def sourceOrder (task : Task) : List SST :=
  (List.range (task.target + 1)).flatMap (fun l => sortBy newerFirst (task.inputs.filter (·.level == l)))

/-- output cutting as coded: after every entry written, a new file is started once the current one holds
    `n` entries (`cur` = entries of the current file, newest first). Accurate for n ≥ 1. -/
def cut (n : Nat) : List KV → List KV → List (List KV)
  | [], cur => if cur.isEmpty then [] else [cur.reverse]
  | e :: es, cur =>
    let cur' := e :: cur
    if cur'.length ≥ n then cur'.reverse :: cut n es [] else cut n es cur'

def chunks (n : Nat) (es : List KV) : List (List KV) := cut n es []

/-- entries surviving the merge and the keep/drop decision, in key order -/
def keptEntries (cfg : Cfg) (tr : Tracker) (now : Nat) (task : Task) : List KV :=
  (mergeSources ((sourceOrder task).map kvs)).filter (fun e => keepEntry cfg tr now task.target e.1 e.2)

def mkOutput (target clock : Nat) (i : Nat) (es : List KV) : SST :=
  { level := target, fileNum := i + 1, ts := clock + i, entries := es.map (fun e => { key := e.1, seq := 0, val := e.2 }) }

def mkOutputs (target clock : Nat) (i : Nat) : List (List KV) → List SST
  | [] => []
  | c :: cs => mkOutput target clock i c :: mkOutputs target clock (i + 1) cs

/-- CompactFiles: output files of at most `sstMaxEntries` entries, written with sequence number 0 at the target
    level, numbered from 1, with fresh time stamps; nothing is written when no entry survives. -/
def compactFiles (cfg : Cfg) (tr : Tracker) (now clock : Nat) (task : Task) : List SST :=
  mkOutputs task.target clock 0 (chunks cfg.sstMaxEntries (keptEntries cfg tr now task))

/-! ### SelectCompaction -/

def hullLo (fs : List SST) : Bytes :=
  fs.foldl (fun m f => if m.isEmpty || ltB (firstKey f) m then firstKey f else m) []
def hullHi (fs : List SST) : Bytes :=
  fs.foldl (fun m f => if m.isEmpty || ltB m (lastKey f) then lastKey f else m) []

def selectL0 (cfg : Cfg) (dir : List SST) : Option Task :=
  let l0 := levelFiles dir 0
  if l0.length < 2 then none
  else
    let sel := l0.take cfg.maxMemTables
    let lo := hullLo sel
    let hi := hullHi sel
    some { inputs := sel ++ (levelFiles dir 1).filter (fun f => overlapsRange f lo hi), target := 1 }

def levelSize (sizeOf : SST → Nat) (dir : List SST) (l : Nat) : Nat :=
  ((levelFiles dir l).map sizeOf).foldl (· + ·) 0

/-- the loop over levels 0 .. maxLevel-1 of SelectCompaction -/
def selectBySize (cfg : Cfg) (sizeOf : SST → Nat) (dir : List SST) : Nat → Nat → Option Task
  | 0, _ => none
  | fuel + 1, level =>
    if level ≥ maxLevel dir then none
    else
      let this := levelSize sizeOf dir level
      let next := levelSize sizeOf dir (level + 1)
      if this = 0 then selectBySize cfg sizeOf dir fuel (level + 1)
      else match levelFiles dir level with
        | [] => selectBySize cfg sizeOf dir fuel (level + 1)
        | f :: _ =>
          if next = 0 then some { inputs := [f], target := level + 1 }
          else if this * cfg.ratioDen ≥ cfg.ratioNum * next then
            some { inputs := f :: (levelFiles dir (level + 1)).filter (fun g => overlaps (firstKey f) (lastKey f) (firstKey g) (lastKey g)),
                   target := level + 1 }
          else selectBySize cfg sizeOf dir fuel (level + 1)

def selectCompaction (cfg : Cfg) (sizeOf : SST → Nat) (dir : List SST) : Option Task :=
  if (levelFiles dir 0).length ≥ cfg.maxMemTables then selectL0 cfg dir
  else selectBySize cfg sizeOf dir (maxLevel dir + 1) 0

/-! ### CompactRange -/

def sameFile (a b : SST) : Bool := a.level == b.level && a.fileNum == b.fileNum && a.ts == b.ts

def isInput (inputs : List SST) (t : SST) : Bool := inputs.any (sameFile t)

def removeFiles (dir inputs : List SST) : List SST := dir.filter (fun t => !isInput inputs t)

def allLevelFiles (dir : List SST) : List SST := (List.range (maxLevel dir + 1)).flatMap (levelFiles dir)

/-- repaired selection: close the selection under "overlaps the hull of what is selected" -/
def closeRange (dir : List SST) : Nat → List SST → List SST
  | 0, sel => sel
  | fuel + 1, sel =>
    let lo := hullLo sel
    let hi := hullHi sel
    let sel' := (allLevelFiles dir).filter (fun f => isInput sel f || overlapsRange f lo hi)
    if sel'.length = sel.length then sel else closeRange dir fuel sel'

def selectRange (cfg : Cfg) (dir : List SST) (lo hi : Bytes) : Option Task :=
  let sel := (allLevelFiles dir).filter (fun f => overlapsRange f lo hi)
  if sel.isEmpty then none
  else some { inputs := if cfg.rangeClosure then closeRange dir (dir.length + 1) sel else sel, target := maxLevel dir + 1 }

/-! ### file tracker -/

structure FileTracker where
  pending : List SST := []
  obsolete : List SST := []
  deriving Repr

def FileTracker.markPending (f : FileTracker) (ts : List SST) : FileTracker := { f with pending := f.pending ++ ts }
def FileTracker.unmarkPending (f : FileTracker) (ts : List SST) : FileTracker := { f with pending := removeFiles f.pending ts }
def FileTracker.markObsolete (f : FileTracker) (ts : List SST) : FileTracker := { f with obsolete := f.obsolete ++ ts }
/-- CleanupObsoleteFiles: delete every obsolete file that is not pending. Returns the files deleted. -/
def FileTracker.cleanup (f : FileTracker) : FileTracker × List SST :=
  let del := f.obsolete.filter (fun t => !isInput f.pending t)
  ({ f with obsolete := f.obsolete.filter (fun t => isInput f.pending t) }, del)

/-! ### one compaction cycle as a sequence of directory states -/

inductive Ev where
  | outputFinished | outputsDone | inputsMarked | inputDeleted
  deriving Repr, DecidableEq

/-- runCompactionCycle: the directory after every externally visible step (hook sites of pkg/compaction), the
    event of that step, and the final tracker. Outputs appear one by one; inputs disappear afterwards. -/
def cycleSteps (dir : List SST) (ft : FileTracker) (task : Task) (outputs : List SST) :
    List (Ev × List SST) × FileTracker :=
  let ft1 := (ft.markPending task.inputs).unmarkPending task.inputs
  let outSteps := (List.range outputs.length).map (fun i => (Ev.outputFinished, dir ++ outputs.take (i + 1)))
  let full := dir ++ outputs
  let ft2 := ft1.markObsolete task.inputs
  let (ft3, del) := ft2.cleanup
  let delSteps := (List.range del.length).map (fun i => (Ev.inputDeleted, removeFiles full (del.take (i + 1))))
  (outSteps ++ [(Ev.outputsDone, full), (Ev.inputsMarked, full)] ++ delSteps, ft3)

/-! ### newest-wins view of a directory -/

def has (t : SST) (k : Bytes) : Bool := (t.get k).isSome

/-- the entry that a reader of the directory finds for `k`: tables in load order (`sortSSTs`: deeper level first,
    then time stamp), searched from the newest. `some none` = a deletion marker. -/
def viewEntry (dir : List SST) (k : Bytes) : Option (Option Bytes) :=
  (sortSSTs dir).reverse.findSome? (fun t => t.get k)

/-- merged newest-wins view; deletion markers count as absent -/
def mergedView (dir : List SST) (k : Bytes) : Option Bytes := (viewEntry dir k).join

/-- the same view as a sorted list of live pairs (what a full scan of the reopened directory returns) -/
def viewList (dir : List SST) : List (Bytes × Bytes) :=
  (mergeSources ((sortSSTs dir).reverse.map kvs)).filterMap (fun e => e.2.map (fun v => (e.1, v)))

/-! ### log retirement -/

/-- an entry (k, seq) is covered if some table holds k with a sequence number ≥ seq -/
def covered (dir : List SST) (e : LogEntry) : Bool :=
  dir.any (fun t => t.entries.any (fun x => x.key == e.key && x.seq ≥ e.seq))

def lastNonEmptyIdx (files : List (List LogEntry)) : Option Nat :=
  (List.range files.length).foldl (fun best i => if (files.getD i []).isEmpty then best else some i) none

/-- log retirement: delete the longest run of oldest log files such that each of them is not the current file and
    all of its entries are covered; unless `all`, the newest non-empty file is kept so that the sequence numbering
    continues after a restart. Returns the remaining files. (Oldest-first, like every retention policy of
    wal.ManageRetention: a newer file is never deleted while an older one stays.) -/
def retire (dir : List SST) (all : Bool) (files : List (List LogEntry)) : List (List LogEntry) :=
  let keepIdx := lastNonEmptyIdx files
  let n := files.length
  let r := ((List.range n).takeWhile (fun i =>
    decide (i + 1 < n) && (files.getD i []).all (covered dir) && (all || keepIdx != some i))).length
  files.drop r

/-! ### the engine with its compaction manager (engine.EngineFacade) -/

structure CSt where
  cfg : Cfg := {}
  eng : Engine.St
  dir : List SST := []          -- the SSTable directory on disk (the storage manager's own list is eng.ssts)
  tracker : Tracker := {}
  ft : FileTracker := {}
  now : Nat := 0                -- wall clock of the tombstone tracker
  deriving Repr

/-- tables written by a flush appear both in the manager's list and on disk -/
def CSt.sync (c : CSt) (eng' : Engine.St) : CSt :=
  { c with eng := eng', dir := c.dir ++ eng'.ssts.drop c.eng.ssts.length }

def cput (c : CSt) (k v : Bytes) : CSt := c.sync (put c.eng k v)

/-- EngineFacade.Delete: storage delete, then TrackTombstone -/
def cdel (c : CSt) (k : Bytes) : CSt := { c.sync (delete c.eng k) with tracker := c.tracker.add k c.now }

/-- EngineFacade.ApplyBatch: storage batch, then TrackTombstone for every delete of the batch -/
def cbatch (c : CSt) (ops : List (Bool × Bytes × Bytes)) : CSt :=
  { c.sync (batch c.eng ops) with
    tracker := ops.foldl (fun t (d, k, _) => if d then t.add k c.now else t) c.tracker }

def insertKeyB (k : Bytes) : List Bytes → List Bytes
  | [] => [k]
  | x :: xs => if ltB k x then k :: x :: xs else if k == x then x :: xs else x :: insertKeyB k xs

/-- transaction.Buffer: last operation per key, in key order -/
def txOps (ops : List (Bool × Bytes × Bytes)) : List (Bool × Bytes × Bytes) :=
  let keys := ops.foldl (fun acc (_, k, _) => insertKeyB k acc) []
  keys.filterMap (fun k => ops.reverse.find? (fun (_, k', _) => k' == k))

/-- a committed transaction goes to the storage manager directly: its deletes are NOT tracked -/
def ctx (c : CSt) (ops : List (Bool × Bytes × Bytes)) : CSt :=
  let bo := txOps ops
  if bo.isEmpty then c else c.sync (batch c.eng bo)

def cflush (c : CSt) : CSt := c.sync (flushMemTables c.eng)

/-- Close + NewEngineFacade: the storage manager loads the directory; tracker and file tracker start empty -/
def creopen (c : CSt) : CSt :=
  { c with eng := reopen { c.eng with ssts := c.dir }, tracker := {}, ft := {} }

structure CycleResult where
  st : CSt
  task : Option Task := none
  outputs : List SST := []
  steps : List (Ev × List SST) := []

/-- TriggerCompaction = runCompactionCycle -/
def ccompact (sizeOf : SST → Nat) (c : CSt) : CycleResult :=
  match selectCompaction c.cfg sizeOf c.dir with
  | none => { st := c }
  | some task =>
    let outs := compactFiles c.cfg c.tracker c.now c.eng.clock task
    let (steps, ft) := cycleSteps c.dir c.ft task outs
    let dir' := match steps.getLast? with | some (_, d) => d | none => c.dir
    { st := { c with dir := dir', ft, eng := { c.eng with clock := c.eng.clock + outs.length + 1 } },
      task := some task, outputs := outs, steps }

/-- CompactRange: outputs written, then the inputs deleted directly (DeleteCompactedFiles) -/
def crange (c : CSt) (lo hi : Bytes) : CycleResult :=
  match selectRange c.cfg c.dir lo hi with
  | none => { st := c }
  | some task =>
    let outs := compactFiles c.cfg c.tracker c.now c.eng.clock task
    let dir' := removeFiles (c.dir ++ outs) task.inputs
    { st := { c with dir := dir', eng := { c.eng with clock := c.eng.clock + outs.length + 1 } },
      task := some task, outputs := outs,
      steps := (List.range outs.length).map (fun i => (Ev.outputFinished, c.dir ++ outs.take (i + 1))) }

def cretire (c : CSt) (all : Bool) : CSt := { c with eng := { c.eng with wal := retire c.dir all c.eng.wal } }

/-! ### programs (for statements about whole workloads) -/

inductive COp where
  | put (k v : Bytes)
  | del (k : Bytes)                               -- EngineFacade.Delete
  | batch (ops : List (Bool × Bytes × Bytes))     -- EngineFacade.ApplyBatch
  | tx (ops : List (Bool × Bytes × Bytes))        -- committed transaction
  | get (k : Bytes)
  | flush
  | reopen
  | compact                                       -- TriggerCompaction
  | crange (lo hi : Bytes)                        -- CompactRange
  | retire (all : Bool)
  deriving Repr

def cstep (sizeOf : SST → Nat) (c : CSt) : COp → CSt × Option (Option Bytes)
  | .put k v => (cput c k v, none)
  | .del k => (cdel c k, none)
  | .batch ops => (cbatch c ops, none)
  | .tx ops => (ctx c ops, none)
  | .get k => (c, some (get c.eng k))
  | .flush => (cflush c, none)
  | .reopen => (creopen c, none)
  | .compact => ((ccompact sizeOf c).st, none)
  | .crange lo hi => ((crange c lo hi).st, none)
  | .retire all => (cretire c all, none)

/-- the results of all gets of a program, in order -/
def coutputs (sizeOf : SST → Nat) : CSt → List COp → List (Option Bytes)
  | _, [] => []
  | c, o :: rest =>
    let (c', out) := cstep sizeOf c o
    match out with
    | some r => r :: coutputs sizeOf c' rest
    | none => coutputs sizeOf c' rest

def crun (sizeOf : SST → Nat) (c : CSt) (ops : List COp) : CSt := ops.foldl (fun c o => (cstep sizeOf c o).1) c

def cinit (cfg : Cfg) (memTableSize : Nat) : CSt := { cfg := cfg, eng := { cfg := { memTableSize := memTableSize } } }

end Kevo.Compaction
