/-
  Kevo.Model.Merge — cursor-level model of pkg/common/iterator/composite.HierarchicalIterator over abstract
  sorted sources, of bounded.BoundedIterator, and the functional specification of a merged scan.
  A source is a list of (key, value-or-tombstone) with non-decreasing keys (a memtable source may hold several
  versions of a key, newest first); earlier sources are newer.
-/
import Kevo.Base.Bytes
namespace Kevo.Merge

abbrev KV := Bytes × Option Bytes

structure Src where
  es : List KV
  pos : Option Nat := none
  deriving Repr

def Src.cur (s : Src) : Option KV := s.pos.bind (fun i => s.es[i]?)
def Src.valid (s : Src) : Bool := s.cur.isSome
def Src.first (s : Src) : Src := { s with pos := if s.es.isEmpty then none else some 0 }
def Src.seek (s : Src) (t : Bytes) : Src := { s with pos := s.es.findIdx? (fun e => !ltB e.1 t) }
def Src.next (s : Src) : Src :=
  match s.pos with
  | some i => { s with pos := if i + 1 < s.es.length then some (i + 1) else none }
  | none => s
/-- SeekToLast of the adapters: the first (newest) version of the greatest key. -/
def Src.last (s : Src) : Src :=
  match s.es.getLast? with
  | some l => s.seek l.1
  | none => { s with pos := none }

/-- advance while valid and key ≤ prev (the inner loop of findNextUniqueKey). -/
def Src.skipTo (s : Src) (prev : Bytes) : Nat → Src
  | 0 => s
  | fuel + 1 => match s.cur with
    | some e => if !ltB prev e.1 then (s.next).skipTo prev fuel else s
    | none => s

structure Hier where
  srcs : List Src
  key : Bytes := []
  val : Option Bytes := none
  valid : Bool := false
  deriving Repr

/-- smallest current key over the sources; the first source wins ties (strict comparison). -/
def pickMin (srcs : List Src) : Option KV :=
  srcs.foldl (fun best s => match s.cur, best with
    | some e, none => some e
    | some e, some b => if ltB e.1 b.1 then some e else some b
    | none, b => b) none

def Hier.settle (h : Hier) : Hier :=
  match pickMin h.srcs with
  | some e => { h with key := e.1, val := e.2, valid := true }
  | none => { h with valid := false }

/-- findNextUniqueKey(prevKey) -/
def Hier.findNext (h : Hier) (prev : Option Bytes) : Hier :=
  let srcs := match prev with
    | some p => h.srcs.map (fun s => s.skipTo p (s.es.length + 1))
    | none => h.srcs
  ({ h with srcs }).settle

def Hier.first (h : Hier) : Hier := ({ h with srcs := h.srcs.map Src.first }).findNext none
def Hier.seek (h : Hier) (t : Bytes) : Hier := ({ h with srcs := h.srcs.map (fun s => Src.seek s t) }).settle
def Hier.next (h : Hier) : Hier := if h.valid then h.findNext (some h.key) else h

/-- SeekToLast: greatest key over the sources, first source wins ties. -/
def Hier.last (h : Hier) : Hier :=
  let srcs := h.srcs.map Src.last
  let best := srcs.foldl (fun best s => match s.cur, best with
    | some e, none => some e
    | some e, some b => if ltB b.1 e.1 then some e else some b
    | none, b => b) none
  match best with
  | some e => { h with srcs, key := e.1, val := e.2, valid := true }
  | none => { h with srcs, valid := false }

def Hier.collect : Nat → Hier → List KV
  | 0, _ => []
  | fuel + 1, h => if h.valid then (h.key, h.val) :: Hier.collect fuel h.next else []

/-! ### functional specification -/

def insertKey (k : Bytes) : List Bytes → List Bytes
  | [] => [k]
  | x :: xs => if ltB k x then k :: x :: xs else if k == x then x :: xs else x :: insertKey k xs

def allKeys (srcs : List (List KV)) : List Bytes := srcs.flatten.foldl (fun acc e => insertKey e.1 acc) []

/-- newest-wins merged view: every key once, ascending, with the value of the first entry of that key in the
    first source that contains it. -/
def mergeSpec (srcs : List (List KV)) : List KV :=
  (allKeys srcs).filterMap (fun k => (srcs.findSome? (fun s => s.find? (fun e => e.1 == k))))

def inRange (lo hi : Option Bytes) (k : Bytes) : Bool :=
  (match lo with | some l => !ltB k l | none => true) && (match hi with | some h => ltB k h | none => true)

/-- a scan as a client performs it: merged view restricted to [lo, hi), deletion markers skipped. -/
def scanSpec (srcs : List (List KV)) (lo hi : Option Bytes) : List (Bytes × Bytes) :=
  (mergeSpec srcs).filterMap (fun (k, v) => if inRange lo hi k then v.map (fun x => (k, x)) else none)

/-! ### BoundedIterator over a Hier -/

structure Bounded where
  h : Hier
  lo : Option Bytes
  hi : Option Bytes
  deriving Repr

def Bounded.check (b : Bounded) : Bool := b.h.valid && inRange b.lo b.hi b.h.key
def Bounded.valid (b : Bounded) : Bool := b.check
def Bounded.first (b : Bounded) : Bounded :=
  { b with h := match b.lo with | some l => b.h.seek l | none => b.h.first }
def Bounded.next (b : Bounded) : Bounded := if b.check then { b with h := b.h.next } else b
def Bounded.seek (b : Bounded) (t : Bytes) : Bounded × Bool :=
  let t := match b.lo with | some l => if ltB t l then l else t | none => t
  match b.hi with
  | some hi => if !ltB t hi then (b, false) else let b' := { b with h := b.h.seek t }; (b', b'.h.valid && b'.check)
  | none => let b' := { b with h := b.h.seek t }; (b', b'.h.valid && b'.check)

def Bounded.collect : Nat → Bounded → List KV
  | 0, _ => []
  | fuel + 1, b => if b.valid then (b.h.key, b.h.val) :: Bounded.collect fuel b.next else []

end Kevo.Merge
