/-
  Kevo.Model.Merge — cursor-level model of the scan path (C05).

  An iterator of pkg/common/iterator is modelled as a state `σ` plus a table of operations `Ops σ`
  (SeekToFirst / SeekToLast / Seek / Next / Valid / Key / Value / IsTombstone, with the boolean results of
  Seek and Next). The wrappers of the code base are functions on such tables:

    srcOps       leaf cursors: memtable.IteratorAdapter, sstable.IteratorAdapter, transaction.BufferIterator
    hierOps      composite.HierarchicalIterator            (findNextUniqueKey / Seek / SeekToLast / Next)
    boundedOps   bounded.BoundedIterator                   (checkBounds; SeekToLast as repaired in 8151b8c)
    filteredOps  filtered.FilteredIterator                 (prefix / suffix; nesting = composing twice)
    sumOps       a list of children of two different shapes (transaction buffer + storage iterator)
    consume      the consumer loop of the gRPC service (Scan / TxScan): tombstones skipped, limit counts live entries
    serviceScan  the iterator the service builds for each option combination + the consumer loop

  Loops of the Go code take a fuel argument (`fuel` > number of entries below the iterator is always enough:
  Kevo.Proofs.Merge). A source is a list of (key, value-or-deletion-marker); a memtable source may hold several
  versions of a key, newest first; earlier sources are newer.

  The second half is the functional specification (`mergeSpec`, `scanSpec`).
-/
import Kevo.Base.Bytes
namespace Kevo.Merge

abbrev KV := Bytes × Option Bytes

/-- the operations of `iterator.Iterator` on a cursor state σ. `key`/`val` are what Key()/Value() return
    (`none` = nil). -/
structure Ops (σ : Type) where
  first : σ → σ
  last : σ → σ
  seek : σ → Bytes → σ × Bool
  next : σ → σ × Bool
  valid : σ → Bool
  key : σ → Option Bytes
  val : σ → Option Bytes
  tomb : σ → Bool

/-- the key as the comparisons see it (bytes.Compare treats nil as empty) -/
def Ops.k {σ : Type} (O : Ops σ) (c : σ) : Bytes := (O.key c).getD []

/-! ### leaf cursors -/

/-- `mem`: memtable / sstable adapter (SeekToLast = first version of the greatest key);
    `slice`: positional cursor over an arbitrary list (test double for adversarial sources);
    `buf`: transaction.BufferIterator (Next on an unpositioned iterator restarts at the first key). -/
inductive SrcKind where
  | mem | slice | buf
  deriving Repr, DecidableEq

structure Src where
  es : List KV
  pos : Option Nat := none
  kind : SrcKind := .mem
  deriving Repr

def Src.cur (s : Src) : Option KV := s.pos.bind (fun i => s.es[i]?)
def Src.valid (s : Src) : Bool := s.cur.isSome
def Src.first (s : Src) : Src := { s with pos := if s.es.isEmpty then none else some 0 }
def Src.seek (s : Src) (t : Bytes) : Src := { s with pos := s.es.findIdx? (fun e => !ltB e.1 t) }
def Src.next (s : Src) : Src :=
  match s.pos with
  | some i => { s with pos := if i + 1 < s.es.length then some (i + 1) else none }
  | none => if s.kind == .buf then s.first else s
/-- SeekToLast of the memtable adapter: forward scan to the last key, then Seek(lastKey) = the first (newest)
    version of the greatest key. The other kinds go to the last position. -/
def Src.last (s : Src) : Src :=
  match s.kind with
  | .mem => match s.es.getLast? with
    | some l => s.seek l.1
    | none => { s with pos := none }
  | _ => { s with pos := if s.es.isEmpty then none else some (s.es.length - 1) }

def srcOps : Ops Src where
  first := Src.first
  last := Src.last
  seek := fun s t => let s' := s.seek t; (s', s'.valid)
  next := fun s => let s' := s.next; (s', s'.valid)
  valid := Src.valid
  key := fun s => s.cur.map (·.1)
  val := fun s => s.cur.bind (·.2)
  tomb := fun s => match s.cur with
    | some e => e.2.isNone
    | none => false

/-- children of two different shapes in one list -/
def sumOps {α β : Type} (A : Ops α) (B : Ops β) : Ops (α ⊕ β) where
  first := fun c => match c with
    | .inl a => .inl (A.first a)
    | .inr b => .inr (B.first b)
  last := fun c => match c with
    | .inl a => .inl (A.last a)
    | .inr b => .inr (B.last b)
  seek := fun c t => match c with
    | .inl a => let r := A.seek a t; (.inl r.1, r.2)
    | .inr b => let r := B.seek b t; (.inr r.1, r.2)
  next := fun c => match c with
    | .inl a => let r := A.next a; (.inl r.1, r.2)
    | .inr b => let r := B.next b; (.inr r.1, r.2)
  valid := fun c => match c with
    | .inl a => A.valid a
    | .inr b => B.valid b
  key := fun c => match c with
    | .inl a => A.key a
    | .inr b => B.key b
  val := fun c => match c with
    | .inl a => A.val a
    | .inr b => B.val b
  tomb := fun c => match c with
    | .inl a => A.tomb a
    | .inr b => B.tomb b

/-! ### composite.HierarchicalIterator -/

structure HierG (σ : Type) where
  srcs : List σ
  key : Bytes := []
  val : Option Bytes := none
  valid : Bool := false

/-- the first candidate with the smallest key (the loops replace the best candidate only on a strictly smaller
    key, so the earliest = newest source wins ties; the "check newer iterators for the same key" pass that follows
    in the code can therefore never find one). -/
def pickMin : List KV → Option KV
  | [] => none
  | e :: rest => match pickMin rest with
    | none => some e
    | some b => if ltB b.1 e.1 then some b else some e

/-- the first candidate with the greatest key (SeekToLast) -/
def pickMax : List KV → Option KV
  | [] => none
  | e :: rest => match pickMax rest with
    | none => some e
    | some b => if ltB e.1 b.1 then some b else some e

/-- (Key(), Value()) of the children that are Valid() and pass `ok` -/
def cands {σ : Type} (O : Ops σ) (ok : σ → Bool) (cs : List σ) : List KV :=
  cs.filterMap (fun c => if O.valid c && ok c then some (O.k c, O.val c) else none)

def HierG.settle {σ : Type} (O : Ops σ) (ok : σ → Bool) (h : HierG σ) : HierG σ :=
  match pickMin (cands O ok h.srcs) with
  | some e => { h with key := e.1, val := e.2, valid := true }
  | none => { h with valid := false }

/-- the inner loop of findNextUniqueKey: `for iter.Valid() && Compare(iter.Key(), prev) <= 0 { if !iter.Next() { break } }` -/
def skipLoop {σ : Type} (O : Ops σ) (prev : Bytes) : Nat → σ → σ
  | 0, c => c
  | fuel + 1, c =>
    if O.valid c && !ltB prev (O.k c) then
      let r := O.next c
      if r.2 then skipLoop O prev fuel r.1 else r.1
    else c

/-- findNextUniqueKey(prevKey) -/
def HierG.findNext {σ : Type} (O : Ops σ) (fuel : Nat) (h : HierG σ) (prev : Option Bytes) : HierG σ :=
  let srcs := match prev with
    | some p => h.srcs.map (skipLoop O p fuel)
    | none => h.srcs
  HierG.settle O (fun _ => true) { h with srcs }

def hierOps {σ : Type} (O : Ops σ) (fuel : Nat) : Ops (HierG σ) where
  first := fun h => HierG.findNext O fuel { h with srcs := h.srcs.map O.first } none
  last := fun h =>
    let srcs := h.srcs.map O.last
    match pickMax (cands O (fun _ => true) srcs) with
    | some e => { h with srcs, key := e.1, val := e.2, valid := true }
    | none => { h with srcs, valid := false }
  seek := fun h t =>
    -- every child seeks; children left on a key < target (a bounded child whose Seek refused to move) are skipped
    let h' := HierG.settle O (fun c => !ltB (O.k c) t) { h with srcs := h.srcs.map (fun c => (O.seek c t).1) }
    (h', h'.valid)
  next := fun h =>
    if h.valid then
      let h' := HierG.findNext O fuel h (some h.key)
      (h', h'.valid)
    else (h, false)
  valid := fun h => h.valid
  key := fun h => if h.valid then some h.key else none
  val := fun h => if h.valid then h.val else none
  tomb := fun h => h.valid && h.val.isNone

/-! ### bounded.BoundedIterator (stateless apart from the wrapped iterator) -/

def inRange (lo hi : Option Bytes) (k : Bytes) : Bool :=
  (match lo with
    | some l => !ltB k l
    | none => true) &&
  (match hi with
    | some h => ltB k h
    | none => true)

/-- checkBounds -/
def bcheck {σ : Type} (O : Ops σ) (lo hi : Option Bytes) (c : σ) : Bool := O.valid c && inRange lo hi (O.k c)

/-- the scan of SeekToLast: `for Valid() && Compare(Key(), end) < 0 { lastKey = append(lastKey[:0], Key()...); Next() }`
    (appending an empty key to a nil `lastKey` leaves it nil) -/
def walkBelow {σ : Type} (O : Ops σ) (hi : Bytes) : Nat → σ → Option Bytes → σ × Option Bytes
  | 0, c, lk => (c, lk)
  | fuel + 1, c, lk =>
    if O.valid c && ltB (O.k c) hi then
      walkBelow O hi fuel (O.next c).1 (if (O.k c).isEmpty && lk.isNone then none else some (O.k c))
    else (c, lk)

def boundedOps {σ : Type} (O : Ops σ) (lo hi : Option Bytes) (fuel : Nat) : Ops σ where
  first := fun c => match lo with
    | some l => (O.seek c l).1
    | none => O.first c
  last := fun c => match hi with
    | some e =>
      -- walk forward from the start of the range, remember the last key below the end bound, seek back to it;
      -- with no such key the iterator stays where the walk ended (exhausted or on a key ≥ end)
      let c0 := match lo with
        | some l => (O.seek c l).1
        | none => O.first c
      let r := walkBelow O e fuel c0 none
      match r.2 with
      | some lk => (O.seek r.1 lk).1
      | none => r.1
    | none => O.last c
  seek := fun c t =>
    let t := match lo with
      | some l => if ltB t l then l else t
      | none => t
    let refuse := match hi with
      | some e => !ltB t e
      | none => false
    if refuse then (c, false)
    else
      let r := O.seek c t
      if r.2 then (r.1, bcheck O lo hi r.1) else (r.1, false)
  next := fun c =>
    if !bcheck O lo hi c then (c, false)
    else
      let r := O.next c
      if !r.2 then (r.1, false) else (r.1, bcheck O lo hi r.1)
  valid := fun c => O.valid c && bcheck O lo hi c
  key := fun c => if O.valid c && bcheck O lo hi c then O.key c else none
  val := fun c => if O.valid c && bcheck O lo hi c then O.val c else none
  tomb := fun c => if O.valid c && bcheck O lo hi c then O.tomb c else false

/-! ### filtered.FilteredIterator -/

/-- Next: `for fi.iter.Next() { if fi.keyFilter(fi.iter.Key()) { return true } }; return false` -/
def filtNext {σ : Type} (O : Ops σ) (f : Bytes → Bool) : Nat → σ → σ × Bool
  | 0, c => (c, false)
  | fuel + 1, c =>
    let r := O.next c
    if !r.2 then (r.1, false)
    else if f (O.k r.1) then (r.1, true)
    else filtNext O f fuel r.1

/-- the scan of SeekToLast: `for Valid() { if filter(Key()) { lastValidKey = Key() }; Next() }` -/
def walkAll {σ : Type} (O : Ops σ) (f : Bytes → Bool) : Nat → σ → Option Bytes → σ × Option Bytes
  | 0, c, lk => (c, lk)
  | fuel + 1, c, lk =>
    if O.valid c then walkAll O f fuel (O.next c).1 (if f (O.k c) then some (O.k c) else lk) else (c, lk)

def filteredOps {σ : Type} (O : Ops σ) (f : Bytes → Bool) (fuel : Nat) : Ops σ where
  first := fun c =>
    let c1 := O.first c
    if O.valid c1 && !f (O.k c1) then (filtNext O f fuel c1).1 else c1
  last := fun c =>
    let c1 := O.last c
    if O.valid c1 && !f (O.k c1) then
      let r := walkAll O f fuel (O.first c1) none
      match r.2 with
      | some lk => (O.seek r.1 lk).1
      | none => O.first r.1
    else c1
  seek := fun c t =>
    let r := O.seek c t
    if !r.2 then (r.1, false)
    else if !f (O.k r.1) then filtNext O f fuel r.1
    else (r.1, true)
  next := fun c => filtNext O f fuel c
  valid := fun c => O.valid c && f (O.k c)
  key := O.key
  val := O.val
  tomb := O.tomb

def prefixOps {σ : Type} (O : Ops σ) (p : Bytes) (fuel : Nat) : Ops σ := filteredOps O (fun k => hasPrefix k p) fuel
def suffixOps {σ : Type} (O : Ops σ) (s : Bytes) (fuel : Nat) : Ops σ := filteredOps O (fun k => hasSuffix k s) fuel

/-! ### consumers -/

/-- `for it.SeekToFirst(); it.Valid(); it.Next()` collecting (Key, Value), deletion markers included;
    the caller positions the cursor. -/
def collect {σ : Type} (O : Ops σ) : Nat → σ → List KV
  | 0, _ => []
  | fuel + 1, c => if O.valid c then (O.k c, O.val c) :: collect O fuel (O.next c).1 else []

/-- the consumer loop of KevoServiceServer.Scan / TxScan after SeekToFirst: limit 0 = unlimited; deletion
    markers are skipped and do not count. Emits (Key(), Value()). -/
def consume {σ : Type} (O : Ops σ) (limit : Nat) : Nat → Nat → σ → List KV
  | 0, _, _ => []
  | fuel + 1, count, c =>
    if O.valid c then
      if limit > 0 && count ≥ limit then []
      else if !O.tomb c then (O.k c, O.val c) :: consume O limit fuel (count + 1) (O.next c).1
      else consume O limit fuel count (O.next c).1
    else []

/-! ### the iterators of the storage engine, of a transaction and of the service -/

abbrev Hier := HierG Src

def mkHier (srcs : List (List KV)) : Hier := { srcs := srcs.map (fun es => { es := es }) }

def totalLen (srcs : List (List KV)) : Nat := (srcs.map List.length).sum

/-- iterator.Factory.CreateIterator over the given sources (newest first) -/
def storageOps (fuel : Nat) : Ops Hier := hierOps srcOps fuel

/-- the children of the transaction's merged iterator: the buffer iterator and the storage iterator -/
abbrev TxChild := Src ⊕ Hier
abbrev TxIter := HierG TxChild

def bufSrc (buf : List KV) : Src := { es := buf, kind := .buf }

/-- TransactionImpl.NewIterator with a non-empty buffer: Hierarchical[buffer, storage] -/
def txOps (fuel : Nat) : Ops TxIter := hierOps (sumOps srcOps (storageOps fuel)) fuel
/-- TransactionImpl.NewRangeIterator with a non-empty buffer: Hierarchical[Bounded(buffer), Bounded(storage)] -/
def txRangeOps (lo hi : Option Bytes) (fuel : Nat) : Ops TxIter :=
  hierOps (sumOps (boundedOps srcOps lo hi fuel) (boundedOps (storageOps fuel) lo hi fuel)) fuel

def mkTx (buf : List KV) (srcs : List (List KV)) : TxIter := { srcs := [.inl (bufSrc buf), .inr (mkHier srcs)] }

/-- request options of Scan / TxScan (empty = not given) -/
structure ScanOpts where
  pre : Bytes := []
  suf : Bytes := []
  start : Bytes := []
  stop : Bytes := []
  limit : Nat := 0
  deriving Repr

def optB (b : Bytes) : Option Bytes := if b.isEmpty then none else some b

/-- which wrappers the service puts around `tx.NewIterator()` / when it asks for `tx.NewRangeIterator` instead:
    prefix+suffix → Suffix(Prefix(base)); prefix; suffix; start/end → range iterator; else the base iterator.
    (With a prefix or suffix the start/end options are not looked at.) -/
def serviceWrap {σ : Type} (o : ScanOpts) (base : Ops σ) (range : Ops σ) (fuel : Nat) : Ops σ :=
  if !o.pre.isEmpty && !o.suf.isEmpty then suffixOps (prefixOps base o.pre fuel) o.suf fuel
  else if !o.pre.isEmpty then prefixOps base o.pre fuel
  else if !o.suf.isEmpty then suffixOps base o.suf fuel
  else if !o.start.isEmpty || !o.stop.isEmpty then range
  else base

def runScan {σ : Type} (O : Ops σ) (limit fuel : Nat) (c : σ) : List KV := consume O limit fuel 0 (O.first c)

/-- KevoServiceServer.Scan (read-only transaction: empty buffer, the storage iterator is used directly) -/
def serviceScan (o : ScanOpts) (srcs : List (List KV)) : List KV :=
  let fuel := totalLen srcs + 2
  runScan (serviceWrap o (storageOps fuel) (boundedOps (storageOps fuel) (optB o.start) (optB o.stop) fuel) fuel)
    o.limit fuel (mkHier srcs)

/-- KevoServiceServer.TxScan inside a transaction whose buffer iterates as `buf` (sorted by key, one operation per
    key, `none` = buffered delete). An empty buffer makes the transaction hand out the storage iterator itself. -/
def serviceTxScan (o : ScanOpts) (buf : List KV) (srcs : List (List KV)) : List KV :=
  if buf.isEmpty then serviceScan o srcs
  else
    let fuel := totalLen srcs + buf.length + 2
    runScan (serviceWrap o (txOps fuel) (txRangeOps (optB o.start) (optB o.stop) fuel) fuel) o.limit fuel (mkTx buf srcs)

/-! ### names used by the engine driver (scan lo hi of the engine model) -/

def Hier.fuel (h : Hier) : Nat := (h.srcs.map (fun s => s.es.length)).sum + 2
def Hier.first (h : Hier) : Hier := (storageOps h.fuel).first h
def Hier.last (h : Hier) : Hier := (storageOps h.fuel).last h
def Hier.seek (h : Hier) (t : Bytes) : Hier := ((storageOps h.fuel).seek h t).1
def Hier.next (h : Hier) : Hier := ((storageOps h.fuel).next h).1
def Hier.collect (n : Nat) (h : Hier) : List KV := Kevo.Merge.collect (storageOps h.fuel) n h

structure Bounded where
  h : Hier
  lo : Option Bytes
  hi : Option Bytes

def Bounded.ops (b : Bounded) : Ops Hier := boundedOps (storageOps b.h.fuel) b.lo b.hi b.h.fuel
def Bounded.valid (b : Bounded) : Bool := b.ops.valid b.h
def Bounded.first (b : Bounded) : Bounded := { b with h := b.ops.first b.h }
def Bounded.last (b : Bounded) : Bounded := { b with h := b.ops.last b.h }
def Bounded.next (b : Bounded) : Bounded := { b with h := (b.ops.next b.h).1 }
def Bounded.seek (b : Bounded) (t : Bytes) : Bounded × Bool := let r := b.ops.seek b.h t; ({ b with h := r.1 }, r.2)
def Bounded.collect (n : Nat) (b : Bounded) : List KV := Kevo.Merge.collect b.ops n b.h

/-! ### functional specification -/

def insertKey (k : Bytes) : List Bytes → List Bytes
  | [] => [k]
  | x :: xs => if ltB k x then k :: x :: xs else if k == x then x :: xs else x :: insertKey k xs

def allKeys (srcs : List (List KV)) : List Bytes := srcs.flatten.foldl (fun acc e => insertKey e.1 acc) []

/-- the newest entry of key `k`: the first entry of that key in the first source that contains it -/
def newest (srcs : List (List KV)) (k : Bytes) : Option KV := srcs.findSome? (fun s => s.find? (fun e => e.1 == k))

/-- newest-wins merged view: every key once, ascending, with the value of the first entry of that key in the
    first source that contains it. -/
def mergeSpec (srcs : List (List KV)) : List KV := (allKeys srcs).filterMap (newest srcs)

/-- deletion markers dropped -/
def live (l : List KV) : List KV := l.filter (fun e => e.2.isSome)

/-- a scan as a client performs it: merged view restricted to [lo, hi), deletion markers skipped. -/
def scanSpec (srcs : List (List KV)) (lo hi : Option Bytes) : List (Bytes × Bytes) :=
  (mergeSpec srcs).filterMap (fun (k, v) => if inRange lo hi k then v.map (fun x => (k, x)) else none)

/-- one buffered operation (isDelete, key, value) as an entry: a buffered delete is a deletion marker -/
def opKV (o : Bool × Bytes × Bytes) : KV := (o.2.1, if o.1 then none else some o.2.2)

/-- transaction.Buffer seen through Buffer.NewIterator: one entry per key — the LAST operation on it — in key order -/
def bufferKV (ops : List (Bool × Bytes × Bytes)) : List KV := mergeSpec [(ops.map opKV).reverse]

/-- what a service scan must return for its option combination: the live merged entries that pass the filters
    (or lie in the range), cut at the limit. -/
def serviceSpec (o : ScanOpts) (srcs : List (List KV)) : List KV :=
  let sel : Bytes → Bool :=
    if !o.pre.isEmpty || !o.suf.isEmpty then fun k => hasPrefix k o.pre && hasSuffix k o.suf
    else inRange (optB o.start) (optB o.stop)
  let l := live ((mergeSpec srcs).filter (fun e => sel e.1))
  if o.limit > 0 then l.take o.limit else l

end Kevo.Merge
