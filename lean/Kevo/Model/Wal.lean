/-
  Kevo.Model.Wal — model of pkg/wal: the record/entry codec written by `WAL.Append`, `AppendBatch`
  (wal.go: writeRecord, writeRawRecord, writeFragmentedRecord) and the reader (reader.go: readRecord,
  ReadEntry, parseEntryData, ReplayWALFile, ReplayWALDir, getEntriesFromFile).

  Everything is parameterised by `WalParams` (constants extracted from the Go source into Gen/Consts.lean)
  and by the checksum function `crc : Bytes → Nat` (hash/crc32.ChecksumIEEE in the implementation).
-/
import Kevo.Base.Bytes
namespace Kevo.Wal

structure WalParams where
  headerSize : Nat      -- wal.HeaderSize
  maxRecord : Nat       -- wal.MaxRecordSize
  tFull : Nat
  tFirst : Nat
  tMiddle : Nat
  tLast : Nat
  opPut : Nat
  opDelete : Nat
  opMerge : Nat
  maxSeq : Nat          -- wal.MaxSequenceNumber
  skip : Nat            -- bytes skipped by recoverFromCorruption
  deriving Repr, DecidableEq

/-- the shape of the constants the proofs rely on. -/
def WalParams.WF (p : WalParams) : Prop :=
  p.headerSize = 7 ∧ 13 < p.maxRecord ∧ p.maxRecord < 65536 ∧
  p.tFull = 1 ∧ p.tFirst = 2 ∧ p.tMiddle = 3 ∧ p.tLast = 4 ∧
  p.opPut = 1 ∧ p.opDelete = 2 ∧ p.opMerge = 3 ∧ p.maxSeq < 2 ^ 64

instance (p : WalParams) : Decidable p.WF := by unfold WalParams.WF; infer_instance

structure Entry where
  op : Nat
  seq : Nat
  key : Bytes
  val : Bytes      -- ignored (not stored) when op = opDelete
  deriving Repr, DecidableEq, BEq

/-- Entry payload: `op(1) | seq(8) | klen(4) | key | [vlen(4) | val]` (wal.go writeRecord). -/
def payload (p : WalParams) (e : Entry) : Bytes :=
  [UInt8.ofNat e.op] ++ le 8 e.seq ++ le 4 e.key.length ++ e.key ++
    (if e.op = p.opDelete then [] else le 4 e.val.length ++ e.val)

def payloadSize (p : WalParams) (e : Entry) : Nat :=
  13 + e.key.length + (if e.op = p.opDelete then 0 else 4 + e.val.length)

/-- Physical record: `crc32(data)(4) | len(2) | type(1) | data` (writeRawRecord). -/
def record (crc : Bytes → Nat) (ty : Nat) (data : Bytes) : Bytes :=
  le 4 (crc data) ++ le 2 data.length ++ [UInt8.ofNat ty] ++ data

/-- MIDDLE* LAST? chunks of the remaining payload (the loop of writeFragmentedRecord). -/
def tailFragments (p : WalParams) (crc : Bytes → Nat) (fuel : Nat) (rest : Bytes) : Bytes :=
  match fuel with
  | 0 => []
  | fuel + 1 =>
    if rest.length > p.maxRecord then
      record crc p.tMiddle (rest.take p.maxRecord) ++ tailFragments p crc fuel (rest.drop p.maxRecord)
    else if rest.length > 0 then record crc p.tLast rest
    else []

/-- `Append`'s encoding of one entry: a FULL record when the payload fits, otherwise FIRST (13 header bytes
    and as much of the key as fits) followed by MIDDLE* and LAST. -/
def encodeEntry (p : WalParams) (crc : Bytes → Nat) (e : Entry) : Bytes :=
  let pl := payload p e
  if payloadSize p e ≤ p.maxRecord then record crc p.tFull pl
  else
    let nFirst := 13 + min e.key.length (p.maxRecord - 13)
    record crc p.tFirst (pl.take nFirst) ++ tailFragments p crc (pl.length + 1) (pl.drop nFirst)

/-! ### Reader -/

inductive RErr where
  | eof               -- io.EOF
  | unexpectedEof     -- io.ErrUnexpectedEOF
  | eofInFragments    -- "unexpected EOF with N fragments"
  | invalidType       -- ErrInvalidRecordType ("invalid record type")
  | corrupt           -- ErrCorruptRecord ("corrupt record ...")
  | invalidOp         -- ErrInvalidOpType ("invalid operation type")
  | panic             -- Go would panic (index out of range on an empty FIRST payload)
  deriving Repr, DecidableEq, BEq

/-- `strings.Contains(err, "corrupt") || strings.Contains(err, "invalid")` -/
def RErr.isCorruption : RErr → Bool
  | .invalidType | .corrupt | .invalidOp => true
  | _ => false

/-- readRecord: on success (type, data, rest). On error also returns the unread rest of the stream. -/
def readRecord (p : WalParams) (crc : Bytes → Nat) (bs : Bytes) : Except (RErr × Bytes) (Nat × Bytes × Bytes) :=
  if bs.length = 0 then .error (.eof, [])
  else if bs.length < p.headerSize then .error (.unexpectedEof, [])
  else
    let hdr := bs.take p.headerSize
    let rest := bs.drop p.headerSize
    let c := unle (hdr.take 4)
    let len := unle ((hdr.drop 4).take 2)
    let ty := (hdr.getD 6 0).toNat
    if ty < p.tFull ∨ ty > p.tLast then .error (.invalidType, rest)
    else if len > 0 ∧ rest.length = 0 then .error (.eof, [])
    else if rest.length < len then .error (.unexpectedEof, [])
    else
      let data := rest.take len
      let rest' := rest.drop len
      if crc data ≠ c then .error (.corrupt, rest')
      else .ok (ty, data, rest')

/-- parseEntryData (trailing bytes are ignored, as in the code). -/
def parseEntry (p : WalParams) (data : Bytes) : Except RErr Entry :=
  if data.length < 13 then .error .corrupt
  else
    let op := (data.getD 0 0).toNat
    if op ≠ p.opPut ∧ op ≠ p.opDelete ∧ op ≠ p.opMerge then .error .invalidOp
    else
      let seq := unle ((data.drop 1).take 8)
      let klen := unle ((data.drop 9).take 4)
      if 13 + klen > data.length then .error .corrupt
      else
        let key := (data.drop 13).take klen
        if op = p.opDelete then .ok { op, seq, key, val := [] }
        else
          let off := 13 + klen
          if off + 4 > data.length then .error .corrupt
          else
            let vlen := unle ((data.drop off).take 4)
            if off + 4 + vlen > data.length then .error .corrupt
            else .ok { op, seq, key, val := (data.drop (off + 4)).take vlen }

/-- reader state: the fragment list `r.fragments` (concatenated lazily; only emptiness and content matter). -/
structure RState where
  frags : List Bytes := []
  deriving Repr

/-- ReadEntry: loops over records until an entry is complete. Returns the entry (or error), the new
    reader state and the unread bytes. Fuel = number of records that may be consumed. -/
def readEntry (p : WalParams) (crc : Bytes → Nat) (fuel : Nat) (st : RState) (bs : Bytes) :
    (Except RErr Entry) × RState × Bytes :=
  match fuel with
  | 0 => (.error .eof, st, bs)
  | fuel + 1 =>
    match readRecord p crc bs with
    | .error (.eof, rest) =>
      if st.frags.length > 0 then (.error .eofInFragments, st, rest) else (.error .eof, st, rest)
    | .error (e, rest) => (.error e, st, rest)
    | .ok (ty, data, rest) =>
      if ty = p.tFull then (parseEntry p data, st, rest)
      else if ty = p.tFirst then
        if data.length = 0 then (.error .panic, st, rest)
        else readEntry p crc fuel { frags := st.frags ++ [data] } rest
      else if ty = p.tMiddle then
        if st.frags.length = 0 then (.error .corrupt, st, rest)
        else readEntry p crc fuel { frags := st.frags ++ [data] } rest
      else -- tLast (type range was validated by readRecord)
        if st.frags.length = 0 then (.error .corrupt, st, rest)
        else (parseEntry p (st.frags ++ [data]).flatten, { frags := [] }, rest)

/-- outcome of replaying one file -/
inductive FileOutcome where
  | ok                 -- reached end of file (or a truncated final record, which ends the file)
  | tooManyCorrupt     -- "too many corrupted entries at start of file" (classified corrupt)
  | fatal (e : RErr)   -- "error reading entry" – neither EOF nor corruption
  | handlerErr         -- the handler returned an error
  | panic
  deriving Repr, DecidableEq, BEq

structure Replay where
  entries : List Entry := []
  processed : Nat := 0
  skipped : Nat := 0
  outcome : FileOutcome := .ok
  deriving Repr

/-- ReplayWALFile with the corruption policy of the code: count, give up after >5 skips with nothing
    processed, otherwise blindly skip `p.skip` bytes and continue. A truncated final record ends the file.
    `handler` may reject an entry (used by memtable recovery); for plain replay it always accepts. -/
def replayFileAux (p : WalParams) (crc : Bytes → Nat) (fuel : Nat) (st : RState) (bs : Bytes) (acc : Replay) : Replay :=
  match fuel with
  | 0 => acc
  | fuel + 1 =>
    match readEntry p crc (bs.length + 1) st bs with
    | (.ok e, st', rest) =>
      replayFileAux p crc fuel st' rest { acc with entries := acc.entries ++ [e], processed := acc.processed + 1 }
    | (.error .eof, _, _) => acc
    | (.error .unexpectedEof, _, _) => acc
    | (.error .eofInFragments, _, _) => acc
    | (.error .panic, _, _) => { acc with outcome := .panic }
    | (.error _, st', rest) =>
      let acc := { acc with skipped := acc.skipped + 1 }
      if acc.skipped > 5 ∧ acc.processed = 0 then { acc with outcome := .tooManyCorrupt }
      else if rest.length < p.skip then acc    -- EOF during the blind skip: stop, success
      else replayFileAux p crc fuel st' (rest.drop p.skip) acc

def replayFile (p : WalParams) (crc : Bytes → Nat) (bs : Bytes) : Replay :=
  replayFileAux p crc (bs.length + 1) {} bs {}

/-- ReplayWALDir over the files in name order. Returns all delivered entries and whether the call errs.
    A file ending `tooManyCorrupt` is skipped (its delivered entries stay); success iff at least one file
    replayed without error or there were no errors at all. -/
structure DirReplay where
  entries : List Entry := []
  okFiles : Nat := 0
  hadErr : Bool := false
  fatal : Bool := false
  panic : Bool := false
  deriving Repr

def replayDir (p : WalParams) (crc : Bytes → Nat) (files : List Bytes) : DirReplay :=
  files.foldl (fun (d : DirReplay) f =>
    if d.fatal ∨ d.panic then d else
    let r := replayFile p crc f
    let d := { d with entries := d.entries ++ r.entries }
    match r.outcome with
    | .ok => { d with okFiles := d.okFiles + 1 }
    | .tooManyCorrupt => { d with hadErr := true }
    | .panic => { d with panic := true }
    | _ => { d with hadErr := true, fatal := true }) {}

def DirReplay.isErr (d : DirReplay) : Bool := d.fatal || d.panic || (d.okFiles == 0 && d.hadErr)

/-- getEntriesFromFile: every readable entry with seq ≥ minSeq; corrupt/invalid errors are skipped without
    resynchronisation (the reader simply continues at its current offset); other errors end the file. -/
def entriesFromFileAux (p : WalParams) (crc : Bytes → Nat) (fuel : Nat) (st : RState) (bs : Bytes) (minSeq : Nat)
    (acc : List Entry) : List Entry × Bool :=
  match fuel with
  | 0 => (acc, true)
  | fuel + 1 =>
    match readEntry p crc (bs.length + 1) st bs with
    | (.ok e, st', rest) =>
      entriesFromFileAux p crc fuel st' rest minSeq (if e.seq ≥ minSeq then acc ++ [e] else acc)
    | (.error .eof, _, _) => (acc, true)
    | (.error e, st', rest) =>
      if e.isCorruption then entriesFromFileAux p crc fuel st' rest minSeq acc else (acc, false)

def entriesFromFile (p : WalParams) (crc : Bytes → Nat) (bs : Bytes) (minSeq : Nat) : List Entry × Bool :=
  entriesFromFileAux p crc (bs.length + 1) {} bs minSeq []

end Kevo.Wal
