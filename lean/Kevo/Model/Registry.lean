/-
  Kevo.Model.Registry — transaction handles, the registry and the transaction RPC handlers (C17).

  What the code does (repaired tree):
    TransactionImpl: flags active / hasReadLock / hasWriteLock; Commit and Rollback start with CAS(active: true→false)
      (loser: ErrTransactionClosed, nothing else happens); the winner releases through releaseReadLock/releaseWriteLock,
      each guarded by CAS on its flag; every method holds tx.mu for its whole body, so calls on ONE transaction are
      atomic with respect to each other (fact tx.*.mutex).
    sync.RWMutex: RUnlock/Unlock of a lock that is not held is a fatal error — outcome `panic` (here even stricter:
      releasing a lock the transaction itself does not hold is `panic`).
    RegistryImpl.Begin: a worker goroutine calls engine.BeginTransaction (blocks in Lock/RLock), then
      `select { case resultCh <- tx: ; case <-timeoutCtx.Done(): tx.Rollback() }`; the caller
      `select { case r := <-resultCh: register under r.mu ; case <-timeoutCtx.Done(): return error }`.
      resultCh is UNBUFFERED (capacity `chanCap = 0`, extracted): a send succeeds only as a rendezvous with the caller.
      With capacity 1 (the code before the repair) the send always succeeds and the transaction can be parked in
      the channel after the caller has left (`buffered_channel_orphan_witness`).
    Get / Remove / CleanupStaleTransactions (tx age > its ttl, or idle > registry idle limit: Rollback, then delete) /
      CleanupConnection / GracefulShutdown (Rollback every transaction, clear the tables).
    service handlers: TxGet/TxPut/TxDelete/TxScan = registry.Get ; validate ; one transaction call (an invalid key
      is rejected WITHOUT touching the handle); Commit/RollbackTransaction = registry.Get ; tx.Commit/Rollback ;
      deferred registry.Remove; BatchWrite/Scan/GetStats/Compact begin a transaction themselves and always finish it.
  Threads (Conc.Tid) are RPC calls / goroutines; any number, any interleaving; time is an explicit clock advanced by
  `advance`; a context deadline may fire at any moment (`ctxFire`).
-/
import Kevo.Model.Conc
import Kevo.Model.TxLock
namespace Kevo.Registry
open Kevo.Conc
open Kevo.TxLock (Mode)

structure Cfg where
  roTTL : Nat          -- Manager.readOnlyTxTTL
  rwTTL : Nat          -- Manager.readWriteTxTTL
  idle : Nat           -- RegistryImpl.idleTxTTL
  chanCap : Nat        -- capacity of resultCh in RegistryImpl.Begin

structure TxS where
  mode : Mode
  active : Bool
  hasR : Bool
  hasW : Bool
  created : Nat
  lastActive : Nat
  ttl : Nat
  unlocks : Nat := 0     -- ghost: how many times this transaction released the database lock
  closedCalls : Nat := 0 -- ghost: calls answered ErrTransactionClosed

/-- the reader-writer lock with (ghost) owners. -/
structure RW where
  writer : Option Nat := none
  readers : List Nat := []

def RW.compatible (l : RW) : Mode → Bool
  | .ro => l.writer.isNone
  | .rw => l.writer.isNone && l.readers.isEmpty

def RW.acquire (l : RW) (x : Nat) : Mode → RW
  | .ro => { l with readers := x :: l.readers }
  | .rw => { l with writer := some x }

/-- RUnlock by x; `none` = fatal error "RUnlock of unlocked RWMutex". -/
def RW.runlock (l : RW) (x : Nat) : Option RW :=
  if x ∈ l.readers then some { l with readers := l.readers.erase x } else none

/-- Unlock by x; `none` = fatal error "Unlock of unlocked RWMutex". -/
def RW.unlock (l : RW) (x : Nat) : Option RW :=
  if l.writer = some x then some { l with writer := none } else none

def RW.heldBy (l : RW) (x : Nat) : Prop := l.writer = some x ∨ x ∈ l.readers

def RW.free (l : RW) : Prop := l.writer = none ∧ l.readers = []

structure Entry where
  handle : Nat
  tx : Nat
  conn : Nat

inductive Worker
  | blocked            -- inside engine.BeginTransaction, waiting for the lock
  | holding (x : Nat)  -- has the transaction, at the select
  | parked (x : Nat)   -- sent the transaction into the channel BUFFER and exited (only possible when chanCap > 0)
  | gone

inductive Caller
  | waiting
  | got (x : Nat)      -- received the transaction, about to register it
  | left               -- returned (handle or error)

inductive Th
  | idle
  | begin (conn : Nat) (mode : Mode) (ctxDone : Bool) (c : Caller) (w : Worker)
  | op (x : Nat)                 -- TxGet/TxPut/TxDelete/TxScan after registry.Get
  | finishing (h x : Nat)        -- Commit/RollbackTransaction after registry.Get
  | removing (h x : Nat)         -- ... after tx.Commit/Rollback returned: deferred registry.Remove
  | direct (x : Nat)             -- BatchWrite/Scan/GetStats/Compact: own transaction, always finished by the handler

structure State where
  now : Nat := 0
  lock : RW := {}
  txs : Nat → Option TxS := fun _ => none
  nextTx : Nat := 0
  reg : List Entry := []
  nextId : Nat := 0
  th : Tid → Th := fun _ => .idle
  panicked : Bool := false

def setFn {β : Type} (f : Nat → β) (t : Nat) (v : β) : Nat → β := fun u => if u = t then v else f u

def ttlOf (cfg : Cfg) : Mode → Nat
  | .ro => cfg.roTTL
  | .rw => cfg.rwTTL

/-- Manager.BeginTransaction after the lock was granted: a fresh transaction x holding the lock. -/
def alloc (cfg : Cfg) (s : State) (m : Mode) : State :=
  { s with lock := s.lock.acquire s.nextTx m,
           txs := setFn s.txs s.nextTx (some { mode := m, active := true, hasR := (m == .ro), hasW := (m == .rw),
                                               created := s.now, lastActive := s.now, ttl := ttlOf cfg m }),
           nextTx := s.nextTx + 1 }

/-- Commit or Rollback of transaction x (identical as far as the lock is concerned). -/
def finishTx (s : State) (x : Nat) : State :=
  match s.txs x with
  | none => s
  | some tx =>
    if tx.active then                         -- CAS(active) won
      match tx.mode with
      | .ro =>
        if tx.hasR then                       -- releaseReadLock: CAS(hasReadLock)
          match s.lock.runlock x with
          | some l => { s with lock := l, txs := setFn s.txs x (some { tx with active := false, hasR := false, unlocks := tx.unlocks + 1 }) }
          | none => { s with panicked := true }
        else { s with txs := setFn s.txs x (some { tx with active := false }) }
      | .rw =>
        if tx.hasW then                       -- releaseWriteLock: CAS(hasWriteLock)
          match s.lock.unlock x with
          | some l => { s with lock := l, txs := setFn s.txs x (some { tx with active := false, hasW := false, unlocks := tx.unlocks + 1 }) }
          | none => { s with panicked := true }
        else { s with txs := setFn s.txs x (some { tx with active := false }) }
    else                                      -- ErrTransactionClosed: no effect
      { s with txs := setFn s.txs x (some { tx with closedCalls := tx.closedCalls + 1 }) }

/-- Get/Put/Delete/NewIterator on x: refreshes lastActiveTime when active, else ErrTransactionClosed. -/
def touchTx (s : State) (x : Nat) : State :=
  match s.txs x with
  | none => s
  | some tx =>
    if tx.active then { s with txs := setFn s.txs x (some { tx with lastActive := s.now }) }
    else { s with txs := setFn s.txs x (some { tx with closedCalls := tx.closedCalls + 1 }) }

def finishAll (s : State) (xs : List Nat) : State := xs.foldl finishTx s

/-- CleanupStaleTransactions' test for one registered transaction at time `now`. -/
def stale (cfg : Cfg) (s : State) (e : Entry) : Bool :=
  match s.txs e.tx with
  | none => false
  | some tx => decide (s.now - tx.created > tx.ttl) || decide (s.now - tx.lastActive > cfg.idle)

def lookup (reg : List Entry) (h : Nat) : Option Entry := reg.find? (fun e => e.handle == h)

inductive Action
  | advance (d : Nat)                       -- time passes
  -- RegistryImpl.Begin
  | callBegin (conn : Nat) (m : Mode)
  | ctxFire                                 -- timeoutCtx.Done() becomes ready (timeout or cancellation)
  | workerAcquire                           -- the worker's BeginTransaction returns (lock granted)
  | handoff                                 -- unbuffered send/receive rendezvous
  | workerPark                              -- send into the channel buffer (needs chanCap > 0)
  | recvParked                              -- caller receives from the buffer
  | workerTimeout                           -- worker's Done arm: roll the late transaction back
  | callerTimeout                           -- caller's Done arm: return the error
  | register                                -- caller stores the transaction under a fresh handle
  -- service handlers on a handle
  | hGetOp (h : Nat)                        -- TxGet/TxPut/TxDelete/TxScan: registry.Get
  | hOp (valid : Bool)                      -- validation + the transaction call (invalid request: error, handle untouched)
  | hGetFinish (h : Nat)                    -- Commit/RollbackTransaction: registry.Get
  | hFinish                                 -- tx.Commit() / tx.Rollback()
  | hRemove                                 -- deferred registry.Remove
  -- handlers with their own transaction
  | dBegin (m : Mode)
  | dOp
  | dFinish
  -- registry maintenance
  | cleanupStale
  | cleanupConn (c : Nat)
  | shutdown

def setTh (s : State) (t : Tid) (v : Th) : State := { s with th := setFn s.th t v }

def step (cfg : Cfg) (s : State) (t : Tid) : Action → Option State
  | .advance d => some { s with now := s.now + d }
  | .callBegin c m =>
    match s.th t with
    | .idle => some (setTh s t (.begin c m false .waiting .blocked))
    | _ => none
  | .ctxFire =>
    match s.th t with
    | .begin c m _ ca w => some (setTh s t (.begin c m true ca w))
    | _ => none
  | .workerAcquire =>
    match s.th t with
    | .begin c m d ca .blocked =>
      if s.lock.compatible m then some (setTh (alloc cfg s m) t (.begin c m d ca (.holding s.nextTx))) else none
    | _ => none
  | .handoff =>
    match s.th t with
    | .begin c m d .waiting (.holding x) => some (setTh s t (.begin c m d (.got x) .gone))
    | _ => none
  | .workerPark =>
    match s.th t with
    | .begin c m d ca (.holding x) => if cfg.chanCap > 0 then some (setTh s t (.begin c m d ca (.parked x))) else none
    | _ => none
  | .recvParked =>
    match s.th t with
    | .begin c m d .waiting (.parked x) => some (setTh s t (.begin c m d (.got x) .gone))
    | _ => none
  | .workerTimeout =>
    match s.th t with
    | .begin c m true ca (.holding x) => some (setTh (finishTx s x) t (.begin c m true ca .gone))
    | _ => none
  | .callerTimeout =>
    match s.th t with
    | .begin c m true .waiting w => some (setTh s t (.begin c m true .left w))
    | _ => none
  | .register =>
    match s.th t with
    | .begin c m d (.got x) w =>
      some (setTh { s with reg := { handle := s.nextId + 1, tx := x, conn := c } :: s.reg, nextId := s.nextId + 1 } t
              (.begin c m d .left w))
    | _ => none
  | .hGetOp h =>
    match s.th t with
    | .idle => match lookup s.reg h with
      | some e => some (setTh s t (.op e.tx))
      | none => some s                      -- "transaction not found"
    | _ => none
  | .hOp valid =>
    match s.th t with
    | .op x => some (setTh (if valid then touchTx s x else s) t .idle)
    | _ => none
  | .hGetFinish h =>
    match s.th t with
    | .idle => match lookup s.reg h with
      | some e => some (setTh s t (.finishing h e.tx))
      | none => some s
    | _ => none
  | .hFinish =>
    match s.th t with
    | .finishing h x => some (setTh (finishTx s x) t (.removing h x))
    | _ => none
  | .hRemove =>
    match s.th t with
    | .removing h _ => some (setTh { s with reg := s.reg.filter (fun e => e.handle != h) } t .idle)
    | _ => none
  | .dBegin m =>
    match s.th t with
    | .idle => if s.lock.compatible m then some (setTh (alloc cfg s m) t (.direct s.nextTx)) else none
    | _ => none
  | .dOp =>
    match s.th t with
    | .direct x => some (touchTx s x)
    | _ => none
  | .dFinish =>
    match s.th t with
    | .direct x => some (setTh (finishTx s x) t .idle)
    | _ => none
  | .cleanupStale =>
    let dead := s.reg.filter (stale cfg s)
    let s1 := finishAll s (dead.map (·.tx))
    some { s1 with reg := s.reg.filter (fun e => !stale cfg s e) }
  | .cleanupConn c =>
    let dead := s.reg.filter (fun e => e.conn == c)
    let s1 := finishAll s (dead.map (·.tx))
    some { s1 with reg := s.reg.filter (fun e => e.conn != c) }
  | .shutdown =>
    let s1 := finishAll s (s.reg.map (·.tx))
    some { s1 with reg := [] }

def sys (cfg : Cfg) : Sys State Action := { init := {}, step := step cfg }

abbrev Sched := List (Tid × Action)

/-- thread state `th` is responsible for transaction x: it will hand it over, register it, roll it back or finish it. -/
def Th.owns : Th → Nat → Prop
  | .begin _ _ _ c w, x => c = .got x ∨ w = .holding x
  | .direct y, x => y = x
  | _, _ => False

/-- every transaction id a thread state refers to. -/
def Th.mentions : Th → Nat → Prop
  | .begin _ _ _ c w, x => c = .got x ∨ w = .holding x ∨ w = .parked x
  | .op y, x => y = x
  | .finishing _ y, x => y = x
  | .removing _ y, x => y = x
  | .direct y, x => y = x
  | .idle, _ => False

def registered (s : State) (x : Nat) : Prop := ∃ e ∈ s.reg, e.tx = x

/-- no RPC call and no Begin worker is in flight. -/
def quiescent (s : State) : Prop := ∀ t x, ¬ (s.th t).owns x

end Kevo.Registry
