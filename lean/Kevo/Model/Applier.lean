/-
  Kevo.Model.Applier — model of the replica-side application of the primary's log (property C13):

  * the wire encoding of one log entry: `SerializeWALEntry` / `DeserializeWALEntry` / `WALEntryToProto`
    (pkg/replication/common.go);
  * `WALBatchApplier` (pkg/replication/batch.go): `NewWALBatchApplier`, `ApplyEntries`, `AcknowledgeUpTo`, `Reset`;
  * what `Replica` (pkg/replication/replica.go) does with a received stream message
    (`handleStreamingState` → `processEntriesWithoutStateTransitions`, `handleSequenceGap`,
    `handleAcknowledgingState`) as far as C13 is concerned;
  * the primary's choice of entries to (re)send: `Primary.getWALEntriesFromSequence`
    (`wal.GetEntriesFrom` + the `maxEntriesToReturn` cut; pkg/replication/primary.go).

  The model does what the code DOES. In particular `applyLoop` hands entries to the callback *while* it is
  still checking the numbering of the batch, and every early return leaves the counters untouched.
  Sequence numbers are `uint64` in the code: `succ64` is `+ 1` with wrap-around.
-/
import Kevo.Model.Wal
namespace Kevo.Applier
open Kevo

abbrev Entry := Kevo.Wal.Entry

/-- constants of the code (regenerated into `Kevo.Gen.applierParams` from the source on every run). -/
structure Params where
  opPut : Nat        -- wal.OpTypePut
  opDelete : Nat     -- wal.OpTypeDelete
  opMerge : Nat      -- wal.OpTypeMerge
  maxKey : Nat       -- sanity limit on the key length in DeserializeWALEntry (1 MiB)
  maxVal : Nat       -- sanity limit on the value length in DeserializeWALEntry (10 MiB)
  pollLimit : Nat    -- maxEntriesToReturn in Primary.getWALEntriesFromSequence (100)
  pollBytes : Nat    -- maxBytesToReturn in Primary.getWALEntriesFromSequence (8 MiB of key+value bytes per response)
  deriving Repr, DecidableEq

/-- the shape of the constants the proofs rely on. -/
def Params.WF (P : Params) : Prop :=
  P.opPut = 1 ∧ P.opDelete = 2 ∧ P.opMerge = 3 ∧ P.maxKey < 2 ^ 32 ∧ P.maxVal < 2 ^ 32 ∧ 0 < P.pollLimit

instance (P : Params) : Decidable P.WF := by unfold Params.WF; infer_instance

/-- `x + 1` on uint64 -/
def succ64 (n : Nat) : Nat := (n + 1) % 2 ^ 64

/-! ### wire encoding of one entry -/

/-- `SerializeWALEntry`: `type(1) | seq(8, LE) | keylen(4, LE) | key | [vallen(4, LE) | value]`, the value part
    absent for deletes. (Byte-identical to the payload of a WAL record, `Kevo.Wal.payload`.) -/
def serialize (P : Params) (e : Entry) : Bytes :=
  [UInt8.ofNat e.op] ++ le 8 e.seq ++ le 4 e.key.length ++ e.key ++
    (if e.op = P.opDelete then [] else le 4 e.val.length ++ e.val)

inductive DErr where
  | small      -- "payload too small"
  | op         -- "invalid operation type"
  | keyLarge   -- "key length too large"
  | keyLen     -- "invalid key length"
  | valLen4    -- "payload too small for value length"
  | valLarge   -- "value length too large"
  | valLen     -- "invalid value length"
  deriving Repr, DecidableEq

/-- `DeserializeWALEntry`, check by check. Trailing bytes are ignored. -/
def deserialize (P : Params) (b : Bytes) : Except DErr Entry :=
  if b.length < 13 then .error .small
  else
    let op := (b.getD 0 0).toNat
    if op ≠ P.opPut ∧ op ≠ P.opDelete ∧ op ≠ P.opMerge then .error .op
    else
      let seq := unle ((b.drop 1).take 8)
      let klen := unle ((b.drop 9).take 4)
      if klen > P.maxKey then .error .keyLarge
      else if 13 + klen > b.length then .error .keyLen
      else
        let key := (b.drop 13).take klen
        if op = P.opDelete then .ok { op, seq, key, val := [] }
        else
          let off := 13 + klen
          if off + 4 > b.length then .error .valLen4
          else
            let vlen := unle ((b.drop off).take 4)
            if vlen > P.maxVal then .error .valLarge
            else if off + 4 + vlen > b.length then .error .valLen
            else .ok { op, seq, key, val := (b.drop (off + 4)).take vlen }

/-- `replication_proto.WALEntry`: the sequence number travels twice, in the envelope and inside the payload. -/
structure WireEntry where
  seq : Nat
  payload : Bytes
  deriving Repr, DecidableEq

/-- `WALEntryToProto` -/
def toWire (P : Params) (e : Entry) : WireEntry := { seq := e.seq, payload := serialize P e }

/-- `WALStreamResponse` -/
structure WireMsg where
  entries : List WireEntry
  compressed : Bool := false
  deriving Repr

/-! ### WALBatchApplier -/

structure Applier where
  maxApplied : Nat
  lastAck : Nat
  expectedNext : Nat
  deriving Repr, DecidableEq

/-- `NewWALBatchApplier(startSeq)` -/
def Applier.new (startSeq : Nat) : Applier :=
  { maxApplied := startSeq, lastAck := startSeq,
    expectedNext := if startSeq > 0 then succ64 startSeq else 1 }

/-- `Reset(seq)` -/
def Applier.reset (_a : Applier) (seq : Nat) : Applier :=
  { maxApplied := seq, lastAck := seq, expectedNext := if seq = 0 then 1 else succ64 seq }

/-- `AcknowledgeUpTo(seq)` -/
def Applier.acknowledgeUpTo (a : Applier) (seq : Nat) : Applier :=
  if seq > a.lastAck then { a with lastAck := seq } else a

/-- how `ApplyEntries` returned: `(hasGap, err)` -/
inductive Outcome where
  | ok          -- (false, nil)
  | gapFirst    -- (true,  "sequence gap detected")       first number ≠ expectedNextSeq
  | gapIn       -- (true,  "sequence gap within batch")   entries[i] ≠ entries[i-1] + 1
  | deserErr    -- (false, "failed to deserialize entry")
  | applyErr    -- (false, "failed to apply entry")
  deriving Repr, DecidableEq

def Outcome.hasGap : Outcome → Bool
  | .gapFirst | .gapIn => true
  | _ => false

/-- The `for i, protoEntry := range entries` loop of `ApplyEntries`. `prev` is `entries[i-1].SequenceNumber`
    (`none` for `i = 0`), which is also the value of the local `lastAppliedSeq` (0 for `i = 0`).
    The callback `cb` is the `applyFn`: it threads a state `κ` (the replica's engine) and reports success
    (`true` = returned nil) or failure. Returns the outcome, the callback state, `lastAppliedSeq`, and (ghost)
    the entries for which the callback returned nil — they HAVE been applied even when the loop then returns
    early. -/
def applyLoop {κ : Type} (P : Params) (cb : κ → Entry → κ × Bool) :
    Option Nat → List WireEntry → κ → Outcome × κ × Nat × List Entry
  | prev, [], k => (.ok, k, prev.getD 0, [])
  | prev, w :: ws, k =>
    if (match prev with
        | some p => w.seq != succ64 p
        | none => false) then (.gapIn, k, prev.getD 0, [])
    else
      match deserialize P w.payload with
      | .error _ => (.deserErr, k, prev.getD 0, [])
      | .ok e =>
        match cb k e with
        | (k', false) => (.applyErr, k', prev.getD 0, [])
        | (k', true) =>
          let r := applyLoop P cb (some w.seq) ws k'
          (r.1, r.2.1, r.2.2.1, e :: r.2.2.2)

/-- result of one `ApplyEntries` call -/
structure ApplyResult (κ : Type) where
  ret : Nat              -- first return value (always `maxAppliedSeq` as it is at return time)
  outcome : Outcome
  app : Applier
  sink : κ
  done : List Entry      -- ghost: entries handed successfully to the callback during this call

/-- `WALBatchApplier.ApplyEntries(entries, applyFn)` -/
def applyEntries {κ : Type} (P : Params) (cb : κ → Entry → κ × Bool) (a : Applier) (k : κ) (es : List WireEntry) :
    ApplyResult κ :=
  match es with
  | [] => { ret := a.maxApplied, outcome := .ok, app := a, sink := k, done := [] }
  | w :: _ =>
    if w.seq ≠ a.expectedNext then { ret := a.maxApplied, outcome := .gapFirst, app := a, sink := k, done := [] }
    else
      let r := applyLoop P cb none es k
      match r.1 with
      | .ok =>
        { ret := r.2.2.1, outcome := .ok,
          app := { a with maxApplied := r.2.2.1, expectedNext := succ64 r.2.2.1 }, sink := r.2.1, done := r.2.2.2 }
      | o => { ret := a.maxApplied, outcome := o, app := a, sink := r.2.1, done := r.2.2.2 }

/-! ### the replica around the applier -/

/-- the part of `Replica` that matters here, plus ghost fields recording what happened. -/
structure Replica (κ : Type) where
  app : Applier
  sink : κ
  lastApplied : Nat                -- Replica.lastAppliedSeq (GetLastAppliedSequence)
  applied : List Entry := []       -- ghost: every entry for which the apply callback returned nil, in call order
  committed : List Entry := []     -- ghost: the entries of the batches that ApplyEntries completed
  nacks : List Nat := []           -- ghost: MissingFromSequence of every Nack sent
  acks : List Nat := []            -- ghost: AcknowledgedUpTo of every Ack sent
  streams : List Nat := []         -- ghost: StartSequence of every stream request after the first
  failures : Nat := 0              -- ghost: how often a processing error sent the state machine to ERROR

/-- `NewReplica(lastAppliedSeq, applier, config)` -/
def Replica.new {κ : Type} (start : Nat) (k : κ) : Replica κ :=
  { app := Applier.new start, sink := k, lastApplied := start }

/-- what the replica did with a message -/
inductive Decision where
  | empty                 -- no entries: nothing is processed
  | applied (upTo : Nat)  -- batch applied; lastAppliedSeq := upTo
  | nack (from_ : Nat) (inBatch : Bool)  -- gap: Nack{MissingFromSequence: expectedNext}
  | errDecompress
  | errDeser
  | errApply
  deriving Repr, DecidableEq

/-- decompression of the payloads of a message flagged `Compressed` (`dec` = CompressionManager.Decompress for
    the message's codec; empty payloads are left alone). `none` = some payload failed. -/
def decompressAll (dec : Bytes → Option Bytes) : List WireEntry → Option (List WireEntry)
  | [] => some []
  | w :: ws =>
    if w.payload.length > 0 then
      match dec w.payload with
      | none => none
      | some d => (decompressAll dec ws).map (fun r => { w with payload := d } :: r)
    else (decompressAll dec ws).map (fun r => w :: r)

/-- a received `WALStreamResponse`: `handleStreamingState` (an empty batch is not processed) followed by
    `processEntriesWithoutStateTransitions` (decompress, ApplyEntries, gap → Nack from expectedNext,
    other error → ERROR state, success → lastAppliedSeq := returned sequence). -/
def Replica.receive {κ : Type} (P : Params) (cb : κ → Entry → κ × Bool) (dec : Bytes → Option Bytes)
    (r : Replica κ) (m : WireMsg) : Replica κ × Decision :=
  if m.entries.isEmpty then (r, .empty)
  else
    match (if m.compressed then decompressAll dec m.entries else some m.entries) with
    | none => ({ r with failures := r.failures + 1 }, .errDecompress)
    | some es =>
      let res := applyEntries P cb r.app r.sink es
      let r' := { r with app := res.app, sink := res.sink, applied := r.applied ++ res.done }
      match res.outcome with
      | .ok => ({ r' with lastApplied := res.ret, committed := r.committed ++ res.done }, .applied res.ret)
      | .gapFirst => ({ r' with nacks := r.nacks ++ [res.app.expectedNext] }, .nack res.app.expectedNext false)
      | .gapIn => ({ r' with nacks := r.nacks ++ [res.app.expectedNext] }, .nack res.app.expectedNext true)
      | .deserErr => ({ r' with failures := r.failures + 1 }, .errDeser)
      | .applyErr => ({ r' with failures := r.failures + 1 }, .errApply)

/-- `handleAcknowledgingState`: acknowledge `GetMaxApplied()`, record it as lastAppliedSeq, `AcknowledgeUpTo`. -/
def Replica.ack {κ : Type} (r : Replica κ) : Replica κ :=
  { r with lastApplied := r.app.maxApplied, app := r.app.acknowledgeUpTo r.app.maxApplied,
           acks := r.acks ++ [r.app.maxApplied] }

/-- a new stream after a disconnection: the request starts at `GetExpectedNext()`; the applier is kept
    (`Reset` is never called by the replica). -/
def Replica.reconnect {κ : Type} (r : Replica κ) : Replica κ :=
  { r with streams := r.streams ++ [r.app.expectedNext] }

/-! ### the primary's selection -/

/-- the response byte cap of `getWALEntriesFromSequence` (repair 7e3a1f2): the loop adds `len(key) + len(value)` of
    entry `i` to a running total and cuts the list at the first `i > 0` whose total exceeds the cap — the first entry is
    always kept. Returns the number of entries kept (`i` = entries already accepted, `total` = their bytes). -/
def capCount (cap : Nat) : Nat → Nat → List Entry → Nat
  | i, _, [] => i
  | i, total, e :: es =>
    let total := total + e.key.length + e.val.length
    if 0 < i ∧ cap < total then i else capCount cap (i + 1) total es

/-- `Primary.getWALEntriesFromSequence(from)`: the entries of the log numbered `from` or later
    (`wal.GetEntriesFrom`), cut after the first `limit`, then cut to the response byte cap. -/
def select (L : List Entry) (from_ limit cap : Nat) : List Entry :=
  let s := (L.filter (fun e => e.seq ≥ from_)).take limit
  s.take (capCount cap 0 0 s)

/-! ### delivery schedules -/

/-- one thing that can happen to a replica. A `deliver` carries an arbitrary list of log entries (the
    theorems restrict it to genuine entries of the primary's log, or to runs of it). -/
inductive Event where
  | deliver (m : List Entry)   -- a stream message built from these entries by `WALEntryToProto`
  | poll                       -- the sender's rule: `select L expectedNext limit` (initial send of a new stream,
                               --   retransmission after a Nack, polling sender with an up-to-date cursor)
  | pollAck                    -- the polling sender with the last acknowledged number as cursor: `select L (lastAck+1)`
  | ack
  | reconnect
  deriving Repr

def Replica.step {κ : Type} (P : Params) (cb : κ → Entry → κ × Bool) (L : List Entry) (r : Replica κ) : Event → Replica κ
  | .deliver m => (r.receive P cb some { entries := m.map (toWire P) }).1
  | .poll => (r.receive P cb some { entries := (select L r.app.expectedNext P.pollLimit P.pollBytes).map (toWire P) }).1
  | .pollAck => (r.receive P cb some { entries := (select L (succ64 r.app.lastAck) P.pollLimit P.pollBytes).map (toWire P) }).1
  | .ack => r.ack
  | .reconnect => r.reconnect

/-- run a delivery schedule -/
def Replica.run {κ : Type} (P : Params) (cb : κ → Entry → κ × Bool) (L : List Entry) (r : Replica κ)
    (s : List Event) : Replica κ :=
  s.foldl (Replica.step P cb L) r

/-- the replica's data as a function of the applied entries (EngineApplier: put and merge store the value,
    delete removes the key). Association list, newest binding first. -/
def applyToMap (P : Params) (m : List (Bytes × Bytes)) (e : Entry) : List (Bytes × Bytes) :=
  if e.op = P.opDelete then m.filter (fun kv => kv.1 != e.key)
  else (e.key, e.val) :: m.filter (fun kv => kv.1 != e.key)

end Kevo.Applier
