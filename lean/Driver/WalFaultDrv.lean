/- Driver.WalFaultDrv — `kvmodel walfault`: replay / engine recovery on damaged log files. -/
import Driver.Common
import Driver.WalDrv
import Driver.CrashDrv
import Kevo.Model.Crash
namespace Driver.WalFaultDrv
open Kevo Kevo.Wal Driver

def P := Kevo.Gen.walParams

structure D where
  log : Log := {}
  files : List Bytes := []

def entriesDigest (es : List Entry) : String :=
  let txt := String.intercalate " " (es.map WalDrv.showEntry)
  s!"{es.length}:{crc32 txt.toUTF8.toList}"

def dirOf (d : D) (newest : Bytes) : List Bytes := d.files.dropLast ++ [newest]

def replayDamaged (d : D) (newest : Bytes) : String :=
  let r := replayDir P crc32 (dirOf d newest)
  let st := if r.panic then "panic" else if r.isErr then "err" else "ok"
  let intact := (replayDir P crc32 d.files).entries
  let fab := (r.entries.filter (fun e => !intact.contains e)).length
  s!"{st}:{entriesDigest r.entries}:{fab}"

/-- engine open on a damaged directory: a fatal replay error makes recovery move the log files aside (empty state) -/
def engineOn (d : D) (newest : Bytes) : String :=
  let r := replayDir P crc32 (dirOf d newest)
  if r.panic then "panic"
  else if r.isErr then "0/0/0+backup:ok"
  else
    let m := Kevo.Crash.applyEntries r.entries
    s!"{CrashDrv.digest m (maxSeqOf r.entries)}:ok"

def rangeStep (n stride : Nat) : List Nat := (List.range (n / stride + 1)).map (· * stride) |>.filter (· ≤ n)

def step (d : D) (ws : List String) : D × String :=
  if d.files.isEmpty && (ws.headD "" == "truncall" || ws.headD "" == "flipall" || ws.headD "" == "engtrunc" || ws.headD "" == "engcutrec" || ws.headD "" == "engflip") then
    (d, "noseal")
  else
  -- `… full`: the same cut with a newest log file that recovery does not reuse (wal_max_size reached): same expected state
  let ws := if ws.getLast? == some "full" && (ws.headD "" == "engtrunc" || ws.headD "" == "engcutrec") then ws.dropLast else ws
  match ws with
  | ["seal"] =>
    let fs := d.log.files
    ({ d with files := fs }, s!"ok {fs.length} {(fs.getLast?.getD []).length}")
  | ["truncall", st] =>
    let stride := max 1 (st.toNat?.getD 1)
    let b := d.files.getLast?.getD []
    let parts := (rangeStep b.length stride).map (fun off => s!"{off}:{replayDamaged d (b.take off)}")
    (d, String.intercalate " " ("truncall" :: toString parts.length :: parts))
  | ["flipall", x, st] =>
    let stride := max 1 (st.toNat?.getD 1)
    let xv := x.toNat?.getD 1
    let b := d.files.getLast?.getD []
    let poss := (rangeStep b.length stride).filter (· < b.length)
    let parts := poss.map (fun pos =>
      let c := b.set pos (UInt8.ofNat ((b.getD pos 0).toNat ^^^ xv))
      s!"{pos}:{replayDamaged d c}")
    (d, String.intercalate " " ("flipall" :: toString parts.length :: parts))
  | ["engtrunc", o] =>
    let b := d.files.getLast?.getD []
    let off := (o.toNat?.getD 0) % (b.length + 1)
    (d, s!"eng {off} {engineOn d (b.take off)}")
  | ["engcutrec", o] =>
    let b := d.files.getLast?.getD []
    -- ends of complete physical records; prefer those that end a FIRST/MIDDLE record (inside a fragmented entry)
    let rec walk (fuel off : Nat) (acc : List (Nat × Nat)) : List (Nat × Nat) :=
      match fuel with
      | 0 => acc
      | fuel + 1 =>
        if off + 7 ≤ b.length then
          let l := (b.getD (off + 4) 0).toNat + 256 * (b.getD (off + 5) 0).toNat
          if off + 7 + l > b.length then acc
          else walk fuel (off + 7 + l) (acc ++ [(off + 7 + l, (b.getD (off + 6) 0).toNat)])
        else acc
    let recs := walk (b.length + 1) 0 []
    let inner := recs.filter (fun r => r.2 == 2 || r.2 == 3)
    let ends := (if inner.isEmpty then recs else inner).map (·.1)
    let off := if ends.isEmpty then 0 else ends.getD ((o.toNat?.getD 0) % ends.length) 0
    (d, s!"eng {off} {engineOn d (b.take off)}")
  | ["engflip", o, x] =>
    let b := d.files.getLast?.getD []
    if b.isEmpty then (d, s!"eng {o.toNat?.getD 0} {engineOn d b}")
    else
      let pos := (o.toNat?.getD 0) % b.length
      let c := b.set pos (UInt8.ofNat ((b.getD pos 0).toNat ^^^ (x.toNat?.getD 1)))
      (d, s!"eng {pos} {engineOn d c}")
  | _ =>
    let (l, o) := WalDrv.step d.log ws
    ({ d with log := l }, o)

def component : Component := { σ := D, init := {}, step := step }

end Driver.WalFaultDrv
