/- Driver.IterDrv — `kvmodel iter`: the cursor-level model of the scan path (Kevo.Model.Merge) on a script.

   new                              fresh state (first line of every case)
   src <kind> <n> {<k> <v|->}…      declare a source (newest first); kind = mem | sst | slice
   tx <n> {p|d <k> <v>}…            buffered operations of a transaction, in program order
   build hier|factory|txiter        build the iterator over the declared sources
   build range|txrange <lo> <hi>
   bound <lo> <hi> | prefix <p> | suffix <s>     wrap the current iterator
   first | last | next | seek <t> | cur          → <ret> <valid> <key> <val> <tomb>
   collect                                       → collect <n> k:v…   (SeekToFirst, then Valid/Next)
   scan pre=<p> suf=<s> start=<a> end=<b> limit=<n>  → scan <n> k:v…  (service Scan, or TxScan when a tx line was given)
-/
import Driver.Common
import Kevo.Model.Merge
namespace Driver.IterDrv
open Kevo Kevo.Merge Driver

inductive W where
  | bnd (lo hi : Option Bytes)
  | pre (p : Bytes)
  | suf (s : Bytes)

abbrev U := Hier ⊕ TxIter

structure D where
  srcs : List (List KV × SrcKind) := []
  hasTx : Bool := false
  txOps : List (Bool × Bytes × Bytes) := []
  top : Option U := none
  range : Option (Option Bytes × Option Bytes) := none   -- bounds inside the transaction's merged iterator
  wraps : List W := []                                   -- innermost first

def parseKVs : List String → Option (List KV)
  | [] => some []
  | k :: v :: rest => do
    let kk ← parseBytes k
    let vv ← parseVal v
    let r ← parseKVs rest
    pure ((kk, vv) :: r)
  | _ => none

def parseTx : List String → Option (List (Bool × Bytes × Bytes))
  | [] => some []
  | d :: k :: v :: rest => do
    let kk ← parseBytes k
    let vv ← parseBytes v
    let r ← parseTx rest
    pure ((d == "d", kk, vv) :: r)
  | _ => none

def optBound (s : String) : Option (Option Bytes) := if s == "-" then some none else (parseBytes s).map some

def fuelOf (d : D) : Nat := (d.srcs.map (fun s => s.1.length)).sum + d.txOps.length + 2

def mkSrcs (d : D) : Hier := { srcs := d.srcs.map (fun (es, kind) => { es := es, kind := if kind == .slice then .slice else .mem }) }

def wrap {σ : Type} (fuel : Nat) (O : Ops σ) : W → Ops σ
  | .bnd lo hi => boundedOps O lo hi fuel
  | .pre p => prefixOps O p fuel
  | .suf s => suffixOps O s fuel

def opsOf (d : D) : Ops U :=
  let fuel := fuelOf d
  let base : Ops U := sumOps (storageOps fuel) (match d.range with
    | some (lo, hi) => txRangeOps lo hi fuel
    | none => Kevo.Merge.txOps fuel)
  d.wraps.foldl (wrap fuel) base

def showB (b : Bool) : String := if b then "t" else "f"

def showCur (O : Ops U) (ret : String) (c : U) : String :=
  s!"{ret} {showB (O.valid c)} {showVal (O.key c)} {showVal (O.val c)} {showB (O.tomb c)}"

def showKVs (tag : String) (l : List KV) : String :=
  String.intercalate " " (tag :: toString l.length :: l.map (fun (k, v) => s!"{showBytes k}:{showVal v}"))

def kv (s : String) : String := ((s.splitOn "=").drop 1 |> String.intercalate "=")

def optField (s : String) : Option Bytes :=
  let v := kv s
  if v == "-" then some [] else parseBytes v

def step (d : D) (ws : List String) : D × String :=
  match ws with
  | ["new"] => ({}, "ok")
  | "src" :: kind :: _n :: rest =>
    match parseKVs rest with
    | some es =>
      let k : SrcKind := if kind == "slice" then .slice else .mem
      ({ d with srcs := d.srcs ++ [(es, k)] }, "ok")
    | none => (d, "bad-op")
  | "tx" :: _n :: rest =>
    match parseTx rest with
    | some ops => ({ d with hasTx := true, txOps := ops }, "ok")
    | none => (d, "bad-op")
  | "txmore" :: _n :: rest =>     -- further writes in the SAME transaction (after scans have been taken from it)
    match parseTx rest with
    | some ops => ({ d with hasTx := true, txOps := d.txOps ++ ops }, "ok")
    | none => (d, "bad-op")
  | ["build", what] =>
    if what == "hier" || what == "factory" then ({ d with top := some (.inl (mkSrcs d)), range := none, wraps := [] }, "ok")
    else if what == "txiter" then
      let buf := bufferKV d.txOps
      if buf.isEmpty then ({ d with top := some (.inl (mkSrcs d)), range := none, wraps := [] }, "ok")
      else ({ d with top := some (.inr { srcs := [.inl (bufSrc buf), .inr (mkSrcs d)] }), range := none, wraps := [] }, "ok")
    else (d, "bad-op")
  | ["build", what, lo, hi] =>
    match optBound lo, optBound hi with
    | some l, some h =>
      if what == "range" then ({ d with top := some (.inl (mkSrcs d)), range := none, wraps := [.bnd l h] }, "ok")
      else if what == "txrange" then
        let buf := bufferKV d.txOps
        if buf.isEmpty then ({ d with top := some (.inl (mkSrcs d)), range := none, wraps := [.bnd l h] }, "ok")
        else ({ d with top := some (.inr { srcs := [.inl (bufSrc buf), .inr (mkSrcs d)] }), range := some (l, h), wraps := [] }, "ok")
      else (d, "bad-op")
    | _, _ => (d, "bad-op")
  | ["bound", lo, hi] =>
    match optBound lo, optBound hi with
    | some l, some h => ({ d with wraps := d.wraps ++ [.bnd l h] }, "ok")
    | _, _ => (d, "bad-op")
  | ["prefix", p] => match parseBytes p with
    | some pp => ({ d with wraps := d.wraps ++ [.pre pp] }, "ok")
    | none => (d, "bad-op")
  | ["suffix", p] => match parseBytes p with
    | some pp => ({ d with wraps := d.wraps ++ [.suf pp] }, "ok")
    | none => (d, "bad-op")
  | ["first"] => match d.top with
    | some c => let O := opsOf d; let c' := O.first c; ({ d with top := some c' }, showCur O "-" c')
    | none => (d, "bad-op")
  | ["last"] => match d.top with
    | some c => let O := opsOf d; let c' := O.last c; ({ d with top := some c' }, showCur O "-" c')
    | none => (d, "bad-op")
  | ["next"] => match d.top with
    | some c => let O := opsOf d; let r := O.next c; ({ d with top := some r.1 }, showCur O (showB r.2) r.1)
    | none => (d, "bad-op")
  | ["seek", t] => match d.top, parseBytes t with
    | some c, some tt => let O := opsOf d; let r := O.seek c tt; ({ d with top := some r.1 }, showCur O (showB r.2) r.1)
    | _, _ => (d, "bad-op")
  | ["cur"] => match d.top with
    | some c => (d, showCur (opsOf d) "-" c)
    | none => (d, "bad-op")
  | ["collect"] => match d.top with
    | some c =>
      let O := opsOf d
      let c' := O.first c
      (d, showKVs "collect" (collect O (fuelOf d) c'))
    | none => (d, "bad-op")
  | ["scan", p, s, a, b, l] =>
    match optField p, optField s, optField a, optField b, (kv l).toNat? with
    | some pp, some ss, some aa, some bb, some n =>
      let o : ScanOpts := { pre := pp, suf := ss, start := aa, stop := bb, limit := n }
      let srcs := d.srcs.map (·.1)
      -- slices only differ from adapters in SeekToLast, which a scan never calls
      let out := if d.hasTx then serviceTxScan o (bufferKV d.txOps) srcs else serviceScan o srcs
      (d, showKVs "scan" out)
    | _, _, _, _, _ => (d, "bad-op")
  | _ => (d, "bad-op")

/-- `# case` starts a fresh state -/
def stepC (d : D) (ws : List String) : D × String := step d ws

def component : Component := { σ := D, init := {}, step := stepC }

end Driver.IterDrv
