/- Driver.ConfigDrv — `kvmodel config`: runs Kevo.Model.Config (with the translated Kevo.Gen.Config.validate and the
   stand-in codec `goCodec`) on a script. Strings are database-relative byte strings (`=` = empty); a float64 is
   given by its IEEE-754 bits (`f:<16 hex digits>`) and printed as an exact fraction. -/
import Driver.Common
import Kevo.Model.Config
namespace Driver.ConfigDrv
open Kevo Kevo.GoVal Kevo.Gen.Config Kevo.Config Driver

structure St where
  cfg : Cfg := zero
  dir : Dir GoDoc := {}
  wals : List Bytes := []        -- sub-directories in which an engine has created log files (sorted, distinct)

/-- float64 bits → exact value -/
def ofBits (b : Nat) : Ratio :=
  let neg := b / 2 ^ 63 % 2 = 1
  let e := b / 2 ^ 52 % 2048
  let m := b % 2 ^ 52
  if e = 2047 then
    if m ≠ 0 then .nan else if neg then .negInf else .posInf
  else
    let (num, den) : Nat × Nat :=
      if e = 0 then (m, 2 ^ 1074)
      else if e ≥ 1075 then ((2 ^ 52 + m) * 2 ^ (e - 1075), 1)
      else (2 ^ 52 + m, 2 ^ (1075 - e))
    .fin (mkRat (if neg then -(num : Int) else (num : Int)) den)

def hexNat (s : String) : Option Nat :=
  s.toList.foldlM (fun acc c => (hexVal c).map (fun v => acc * 16 + v)) 0

def showRatio : Ratio → String
  | .nan => "nan"
  | .posInf => "+inf"
  | .negInf => "-inf"
  | .fin q => s!"{q.num}/{q.den}"

def showField : String × FieldVal → String
  | (n, .int v) => s!"{n}={v}"
  | (n, .str s) => s!"{n}={showBytes s}"
  | (n, .ratio r) => s!"{n}={showRatio r}"

def showCfg (c : Cfg) : String := String.intercalate " " ((fields c).map showField)

def parseVal (tok : String) : Option FieldVal :=
  if tok.startsWith "i:" then (tok.drop 2).toString.toInt?.map .int
  else if tok.startsWith "s:" then (parseBytes (tok.drop 2).toString).map .str
  else if tok.startsWith "f:" then
    let h := (tok.drop 2).toString
    if h.length = 16 then (hexNat h).map (fun n => .ratio (ofBits n)) else none
  else none

/-- class of an error message: the text after "%w: " up to the first digit or format verb, spaces → `_` -/
def msgClass (fmt : String) : String :=
  let cs := fmt.toList
  let cs := if cs.take 4 = "%w: ".toList then cs.drop 4 else cs
  let cs := cs.takeWhile (fun c => !(c.isDigit || c == '%'))
  let cs := (cs.reverse.dropWhile (fun c => c == ' ' || c == '-')).reverse
  String.ofList (cs.map (fun c => if c == ' ' then '_' else c))

def guardClass (k : Nat) : String := "invalid:" ++ msgClass (guardTexts.getD k "?")

def showLoadErr : LoadErr → String
  | .notFound => "notfound"
  | .read => "read"
  | .invalidManifest => "invalidmanifest"
  | .invalidConfig k => guardClass k

def showSaveErr : SaveErr → String
  | .invalid k => guardClass k
  | .marshal => "marshal"
  | .io => "io"

def listing (d : Dir GoDoc) : String :=
  if !d.present then "absent"
  else
    let a := match d.manifest with | .absent => [] | _ => ["MANIFEST"]
    let b := match d.tmp with | none => [] | some _ => ["MANIFEST.tmp"]
    if a ++ b = [] then "none" else String.intercalate "," (a ++ b)

def insertSorted (x : Bytes) : List Bytes → List Bytes
  | [] => [x]
  | y :: ys => if x = y then y :: ys else if ltB x y then x :: y :: ys else y :: insertSorted x ys

def showWals (ws : List Bytes) : String :=
  if ws.isEmpty then "-" else String.intercalate "," (ws.map showBytes)

def sub (name : String) : GoStr := name.toUTF8.toList

def J := goCodec

def step (s : St) (ws : List String) : St × String :=
  match ws with
  | ["new"] => ({}, "ok")
  | ["zero"] => ({ s with cfg := zero }, "ok")
  | ["defaults"] => ({ s with cfg := defaults sub }, "ok")
  | ["set", name, tok] =>
    match parseVal tok with
    | some v => match setField s.cfg name v with
      | some c => ({ s with cfg := c }, "ok")
      | none => (s, "bad-op")
    | none => (s, "bad-op")
  | ["show"] => (s, "cfg " ++ showCfg s.cfg)
  | ["validate"] =>
    match validate s.cfg with
    | none => (s, "ok")
    | some k => (s, "err " ++ guardClass k)
  | ["save"] =>
    let tr := saveTrace J s.cfg s.dir
    let (r, d') := save J s.cfg s.dir
    -- the state in which MANIFEST.tmp has been written and not yet renamed (hook site manifest.tmpWritten)
    let mid := match tr with
      | _ :: _ :: d2 :: _ =>
        let same := match d2.manifest, s.dir.manifest with
          | .absent, .absent => true
          | .unreadable, .unreadable => true
          | .data a, .data b => a.intact == b.intact && decide (a.cfg = b.cfg)
          | _, _ => false
        s!"mid={if same then "old" else "changed"} tmp={if d2.tmp.isSome then "yes" else "no"}"
      | _ => "mid=- tmp=-"
    let res := match r with | none => "ok" | some e => "err " ++ showSaveErr e
    ({ s with dir := d' }, s!"{res} dir={listing d'} {mid}")
  | ["load"] =>
    match load J s.dir with
    | .ok c => (s, "ok " ++ showCfg c)
    | .error e => (s, "err " ++ showLoadErr e)
  | ["trunc", _, _] =>
    match s.dir.manifest with
    | .data b => ({ s with dir := { s.dir with manifest := .data (J.trunc b 0) } }, "ok")
    | _ => (s, "err nomanifest")
  | ["truncall"] =>
    match s.dir.manifest with
    | .data _ => (s, "truncall ok")
    | _ => (s, "truncall nomanifest")
  | ["garbage", _] =>
    ({ s with dir := { s.dir with present := true, manifest := .data ⟨zero, false⟩ } }, "ok")
  | ["plant"] =>
    match J.encode s.cfg with
    | some b => ({ s with dir := { s.dir with present := true, manifest := .data b } }, "ok")
    | none => (s, "err marshal")
  | ["unreadable"] => ({ s with dir := { s.dir with present := true, manifest := .unreadable } }, "ok")
  | ["saverace", _n] => (s, "saverace ok")   -- a save validates and writes ONE state: whatever it stored loads and validates
  | ["rmmanifest"] => ({ s with dir := { s.dir with manifest := .absent } }, "ok")
  | ["openengine"] =>
    match openConfig J (defaults sub) s.dir with
    | .ok (c, d') =>
      let wals := insertSorted c.WALDir s.wals
      ({ s with dir := d', wals := wals }, s!"ok {showCfg c} wals={showWals wals}")
    | .error (.load e) => ({ s with dir := { s.dir with present := true } }, "err load " ++ showLoadErr e)
    | .error (.save e) => ({ s with dir := { s.dir with present := true } }, "err save " ++ showSaveErr e)
  | _ => (s, "bad-op")

def component : Component := { σ := St, init := {}, step := step }

end Driver.ConfigDrv
