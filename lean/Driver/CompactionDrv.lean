/- Driver.CompactionDrv — `kvmodel compaction`: the engine with its compaction manager, log retirement and table dumps
   (protocol: harness/comp_compaction.go). -/
import Driver.Common
import Kevo.Model.Compaction
import Kevo.Model.Merge
import Kevo.Model.Table
import Kevo.Gen.Consts
namespace Driver.CompactionDrv
open Kevo Kevo.Engine Kevo.Compaction Driver

structure D where
  c : CSt := { eng := { cfg := { memTableSize := 1 <<< 20 } } }

/-- size of the table file as the SSTable writer lays it out (the length does not depend on the hash values) -/
def fileSize (t : SST) : Nat :=
  (Kevo.Table.encode Kevo.Gen.tableParams (fun _ => 0) (fun _ => 0) 0 true
    (t.entries.map (fun e => ({ key := e.key, val := e.val, seq := e.seq } : Kevo.Block.BEntry)))).length

def param (ws : List String) (name : String) (dflt : Nat) : Nat :=
  match ws.find? (fun w => w.startsWith (name ++ "=")) with
  | some w => (((w.splitOn "=").getD 1 "").toNat?).getD dflt
  | none => dflt

def parseOps : List String → Option (List (Bool × Bytes × Bytes))
  | [] => some []
  | d :: k :: v :: rest => do
    let kk ← parseBytes k
    let vv ← parseBytes v
    let r ← parseOps rest
    pure ((d == "d", kk, vv) :: r)
  | _ => none

def showW (s : St) : String := s!"ok {s.lastSeq} {s.walNext}"

def optB (s : String) : Option (Option Bytes) := if s == "-" then some none else (parseBytes s).map some

def srcKV (es : List MEntry) : List Kevo.Merge.KV := es.map (fun e => (e.key, e.val))

def textCrc (s : String) : Nat := crc32 s.toUTF8.toList

def listTxt (dir : List SST) : String :=
  "[" ++ String.intercalate "," ((sortSSTs dir).map (fun t => s!"{t.level}/{t.fileNum}/{t.entries.length}")) ++ "]"

def viewCrc (dir : List SST) : String :=
  toString (textCrc (String.intercalate ";" ((viewList dir).map (fun (k, v) => s!"{showBytes k}:{showBytes v}"))))

def evChar : Ev → String
  | .outputFinished => "F" | .outputsDone => "D" | .inputsMarked => "M" | .inputDeleted => "X"

def traceTxt (steps : List (Ev × List SST)) : String :=
  if steps.isEmpty then "-" else String.join (steps.map (fun s => evChar s.1))

def sstdump (dir : List SST) : String :=
  let ts := sortSSTs dir
  String.intercalate " " (["sst", toString ts.length] ++ ts.map (fun t =>
    s!"{t.level}/{t.fileNum}/[" ++ String.intercalate "," (t.entries.map (fun e => s!"{showBytes e.key}:{showVal e.val}:{e.seq}")) ++ "]"))

def step (d : D) (ws : List String) : D × String :=
  let c := d.c
  match ws with
  | "open" :: rest =>
    let cfg : Kevo.Compaction.Cfg :=
      { maxMemTables := param rest "max" 4
        ratioNum := param rest "ratio" 10
        sstMaxEntries := param rest "cut" 1000000
        maxLevelWithTombstones := param rest "tomb" 1
        rangeClosure := param rest "closure" 0 == 1 }
    ({ c := { cfg := cfg, eng := { cfg := { memTableSize := param rest "mem" 64 } } } }, "ok")
  | ["put", k, v] => match parseBytes k, parseBytes v with
    | some kk, some vv => let c := cput c kk vv; ({ c }, showW c.eng)
    | _, _ => (d, "bad-op")
  | ["del", k] => match parseBytes k with
    | some kk => let c := cdel c kk; ({ c }, showW c.eng)
    | none => (d, "bad-op")
  | "batch" :: _n :: rest => match parseOps rest with
    | some ops => let c := cbatch c ops; ({ c }, showW c.eng)
    | none => (d, "bad-op")
  | "tx" :: _n :: rest => match parseOps rest with
    | some ops => let c := ctx c ops; ({ c }, showW c.eng)
    | none => (d, "bad-op")
  | ["get", k] => match parseBytes k with
    | some kk => (d, match get c.eng kk with | some v => s!"found {showBytes v}" | none => "nf")
    | none => (d, "bad-op")
  | ["flush"] => ({ c := cflush c }, "ok")
  | ["reopen"] => let c := creopen c; ({ c }, showW c.eng)
  | ["scan", lo, hi] => match optB lo, optB hi with
    | some l, some h =>
      let srcs := (sources c.eng).map srcKV
      let hier : Kevo.Merge.Hier := { srcs := srcs.map (fun es => { es := es }) }
      let n := (srcs.map List.length).foldl (· + ·) 0 + 1
      let kvs := if l.isNone && h.isNone then Kevo.Merge.Hier.collect n hier.first
                 else Kevo.Merge.Bounded.collect n (({ h := hier, lo := l, hi := h } : Kevo.Merge.Bounded).first)
      let live := kvs.filterMap (fun (k, v) => v.map (fun x => s!"{showBytes k}:{showBytes x}"))
      (d, String.intercalate " " ("scan" :: toString live.length :: live))
    | _, _ => (d, "bad-op")
  | ["compact"] =>
    let r := ccompact fileSize c
    let mid := match r.steps.find? (fun s => s.1 == Ev.inputsMarked) with | some (_, dd) => viewCrc dd | none => "-"
    ({ c := r.st }, s!"ok trace={traceTxt r.steps} view={viewCrc c.dir}/{mid}/{viewCrc r.st.dir} ssts={listTxt r.st.dir}")
  | ["crange", lo, hi] => match parseBytes lo, parseBytes hi with
    | some l, some h =>
      let r := crange c l h
      ({ c := r.st }, s!"ok trace={traceTxt r.steps} view={viewCrc c.dir}/{viewCrc r.st.dir} ssts={listTxt r.st.dir}")
    | _, _ => (d, "bad-op")
  | "retire" :: rest =>
    let c' := cretire c (rest == ["all"])
    let before := c.eng.wal.length
    let after := c'.eng.wal.length
    ({ c := c' }, s!"ok deleted={before - after} files={after} entries={c'.eng.wal.flatten.length}")
  | ["advance", n] => match n.toNat? with
    | some k => ({ c := { c with now := c.now + k } }, "ok")
    | none => (d, "bad-op")
  | ["sstdump"] => (d, sstdump c.dir)
  | _ => (d, "bad-op")

def component : Component := { σ := D, init := {}, step := step }

end Driver.CompactionDrv
