/- Driver.WalDrv — `kvmodel wal`: runs Model/Wal + Model/WalLog on a script. -/
import Driver.Common
import Kevo.Model.WalLog
import Kevo.Model.Retention
import Kevo.Gen.Consts
namespace Driver.WalDrv
open Kevo Kevo.Wal Driver

def P := Kevo.Gen.walParams

def showEntry (e : Entry) : String :=
  s!"{e.op}:{e.seq}:{showBytes e.key}:{showBytes e.val}"

def showEntries (es : List Entry) : String :=
  String.intercalate " " (toString es.length :: es.map showEntry)

def showWErr : WErr → String
  | .invalidOp => "invalidop" | .overflow => "overflow" | .tooLarge => "toolarge"

def showRes : Except WErr Nat → String
  | .ok n => s!"ok {n}"
  | .error e => s!"err {showWErr e}"

def parseTriples : List String → Option (List (Nat × Bytes × Bytes))
  | [] => some []
  | op :: k :: v :: rest => do
    let o ← op.toNat?
    let kk ← parseBytes k
    let vv ← parseBytes v
    let r ← parseTriples rest
    pure ((o, kk, vv) :: r)
  | _ => none

def showDir (d : DirReplay) : String :=
  let st := if d.panic then "panic" else if d.isErr then "err" else "ok"
  s!"{st} {showEntries d.entries}"

def step (l : Log) (ws : List String) : Log × String :=
  match ws with
  | ["new"] => ({}, "ok")
  | ["setnext", n] => match n.toNat? with
    | some k => ({ l with next := max l.next k }, "ok")
    | none => (l, "bad-op")
  | ["append", op, k, v] =>
    match op.toNat?, parseBytes k, parseBytes v with
    | some o, some kk, some vv =>
      let (r, l') := l.append P crc32 o kk vv
      (l', showRes r)
    | _, _, _ => (l, "bad-op")
  | "batch" :: _n :: rest =>
    match parseTriples rest with
    | some es => let (r, l') := l.batch P crc32 es; (l', showRes r)
    | none => (l, "bad-op")
  | ["rotate"] => (l.rotate, "ok")
  | ["reopen"] => let l' := l.reopen P crc32; (l', s!"ok {l'.next}")
  | ["files"] => (l, String.intercalate " " (("files " ++ toString l.files.length) :: l.files.map showBytes))
  | ["sums"] => (l, String.intercalate " " (("sums " ++ toString l.files.length) :: l.files.map (fun f => s!"{f.length}:{crc32 f}")))
  | ["replay"] => (l, "replay " ++ showDir (l.replay P crc32))
  | ["from", n] => match n.toNat? with
    | some k => match l.entriesFrom P crc32 k with
      | some es => (l, "from ok " ++ showEntries es)
      | none => (l, "from err")
    | none => (l, "bad-op")
  | ["retain", c, a, m, ages] =>
    let num := fun (t : String) => (((t.splitOn "=").getD 1 "").toNat?).getD 0
    let ageList := (((ages.splitOn "=").getD 1 "").splitOn ",").map (fun t => t.toNat?.getD 0)
    let (l', n) := Kevo.Retention.retain P crc32 l { maxFileCount := num c, maxAge := num a, minSeqKeep := num m } ageList
    (l', s!"retained {n}")
  | "replaybytes" :: files =>
    match files.mapM parseBytes with
    | some fs => (l, "replay " ++ showDir (replayDir P crc32 fs))
    | none => (l, "bad-op")
  | _ => (l, "bad-op")

def component : Component := { σ := Log, init := {}, step := step }

end Driver.WalDrv
