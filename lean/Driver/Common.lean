/- Driver.Common — line-protocol helpers shared by all component drivers. -/
import Kevo.Base.Bytes
import Kevo.Base.Hash
namespace Driver
open Kevo

/-- value token: `-` = nil, `=` = empty non-nil, else hex -/
def parseVal (s : String) : Option (Option Bytes) :=
  if s == "-" then some none
  else if s == "=" then some (some [])
  else (fromHex s).map some

def showVal : Option Bytes → String
  | none => "-"
  | some [] => "="
  | some b => toHex b

/-- run-length token `*<n>:<hh>`: n copies of one byte -/
def parseRun (s : String) : Option Bytes :=
  match (s.drop 1).toString.splitOn ":" with
  | [n, h] => do
    let k ← n.toNat?
    let b ← fromHex h
    match b with
    | [c] => some (List.replicate k c)
    | _ => none
  | _ => none

/-- key/bytes token: `=` = empty, `*n:hh` = run, else hex -/
def parseBytes (s : String) : Option Bytes :=
  if s == "=" || s == "-" then some [] else if s.startsWith "*" then parseRun s else fromHex s

def showBytes (b : Bytes) : String := if b.isEmpty then "=" else toHex b

def words (line : String) : List String :=
  (line.splitOn " ").filter (· ≠ "")

structure Component where
  σ : Type
  init : σ
  step : σ → List String → σ × String

partial def loop (c : Component) (h : IO.FS.Stream) (out : IO.FS.Stream) (s : c.σ) : IO Unit := do
  let line ← h.getLine
  if line.isEmpty then
    out.flush
    return ()
  let ws := words (line.trimAscii.toString)
  match ws with
  | [] => loop c h out s
  | w :: _ =>
    if w.startsWith "#" then
      out.putStrLn (line.trimAscii.toString)
      loop c h out s
    else
    let (s', o) := c.step s ws
    out.putStrLn o
    loop c h out s'


end Driver
