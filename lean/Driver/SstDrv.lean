/- Driver.SstDrv — `kvmodel sst`: block and table codec / iterator / point lookup. -/
import Driver.Common
import Kevo.Model.Table
import Kevo.Gen.Consts
namespace Driver.SstDrv
open Kevo Kevo.Block Kevo.Table Driver

def P : Params := Kevo.Gen.tableParams

structure St where
  blk : Option Block.Iter := none
  file : Bytes := []
  orig : Bytes := []     -- the unaltered table as written
  rd : Option Table.Reader := none
  tit : Option Table.TIter := none
  tstatus : String := "ok"

def parseEntries : List String → Option (List BEntry)
  | [] => some []
  | k :: v :: s :: rest => do
    let kk ← parseBytes k
    let vv ← parseVal v
    let ss ← s.toNat?
    let r ← parseEntries rest
    pure ({ key := kk, val := vv, seq := ss } :: r)
  | _ => none

def showB (b : Bool) : String := if b then "1" else "0"

def showPos (ret : String) (valid : Bool) (cur : Option BEntry) : String :=
  match cur with
  | some e =>
    let seq := if valid then e.seq else 0
    s!"{ret} {showB valid} {showBytes e.key} {showVal e.val} {seq} {showB (valid && e.val.isNone)}"
  | none => s!"{ret} 0 - - 0 0"

def showBIter (ret : String) (it : Block.Iter) : String := showPos ret it.valid it.cur
def showTIter (ret : String) (it : Table.TIter) : String :=
  -- sstable.Iterator.Key()/Value() return nil unless Valid()
  if it.valid then showPos ret true it.cur else s!"{ret} 0 - - 0 0"

def canonical (file : Bytes) : Bytes :=
  -- zero the footer timestamp and checksum (the timestamp is time.Now() in the implementation)
  let n := file.length
  if n < 68 then file else
  file.take (n - 56) ++ List.replicate 8 0 ++ (file.drop (n - 48)).take 40 ++ List.replicate 8 0

def showEntry (e : BEntry) : String := s!"{showBytes e.key}:{showVal e.val}:{e.seq}"

/-- forward iteration block by block; stops (status err) at the first block that does not load -/
def iterateAll (r : Table.Reader) : String × List BEntry :=
  r.index.foldl (fun (acc : String × List BEntry) ie =>
    if acc.1 != "ok" then acc else
    match Table.locator ie with
    | none => ("err", acc.2)
    | some (off, sz) => match Table.blockEntries xxhash64 r off sz with
      | some es => ("ok", acc.2 ++ es)
      | none => ("err", acc.2)) ("ok", [])

def openSt (s : St) (file : Bytes) : St × String :=
  match Table.openTable P xxhash64 file with
  | none => ({ s with file, rd := none, tit := none }, "err")
  | some r =>
    let (st, es) := iterateAll r
    ({ s with file, rd := some r, tit := some { es := es }, tstatus := st }, "ok")

def step (s : St) (ws : List String) : St × String :=
  match ws with
  | ["bloomparams"] => (s, s!"{P.bloomBits} {P.bloomK}")
  | "bbuild" :: _n :: rest =>
    match parseEntries rest with
    | none => (s, "bad-op")
    | some es =>
      if es.isEmpty then ({ s with blk := none }, "err")
      else if !Block.strictAsc es then ({ s with blk := none }, "err")
      else
        let bs := Block.encode P.ri xxhash64 es
        match Block.openBlock xxhash64 bs with
        | none => ({ s with blk := none }, "err-open")
        | some r => ({ s with blk := some { es := Block.decodeAll r } }, s!"ok {bs.length} {crc32 bs}")
  | ["bfirst"] => match s.blk with
    | some it => let it := it.first; ({ s with blk := some it }, showBIter "-" it)
    | none => (s, "closed")
  | ["blast"] => match s.blk with
    | some it => let it := it.last; ({ s with blk := some it }, showBIter "-" it)
    | none => (s, "closed")
  | ["bnext"] => match s.blk with
    | some it => let (it, r) := it.next; ({ s with blk := some it }, showBIter (showB r) it)
    | none => (s, "closed")
  | ["bseek", t] => match s.blk, parseBytes t with
    | some it, some tt => let (it, r) := it.seek tt; ({ s with blk := some it }, showBIter (showB r) it)
    | none, _ => (s, "closed")
    | _, none => (s, "bad-op")
  | "tbuild" :: bloom :: _n :: rest =>
    match parseEntries rest with
    | none => (s, "bad-op")
    | some es =>
      if es.isEmpty || !Block.strictAsc es then ({ s with rd := none, tit := none, file := [], orig := [] }, "err")
      else
        let file := Table.encode P xxhash64 fnv1a64 0 (bloom == "bloom=1") es
        let (s', o) := openSt s file
        ({ s' with orig := file }, s!"{o} {file.length} {crc32 (canonical file)}")
  | ["talter", off, x] => match off.toNat?, x.toNat? with
    | some o, some xv =>
      if s.orig.isEmpty then (s, "closed") else
      let o := o % s.orig.length
      let file := s.orig.set o (UInt8.ofNat ((s.orig.getD o 0).toNat ^^^ xv))
      openSt s file
    | _, _ => (s, "bad-op")
  | ["tnew"] => match s.tit with
    | some it => ({ s with tit := some { es := it.es } }, "ok")
    | none => (s, "closed")
  | ["tfirst"] => match s.tit with
    | some it => let it := it.first; ({ s with tit := some it }, showTIter "-" it)
    | none => (s, "closed")
  | ["tlast"] => match s.tit with
    | some it => let it := it.last; ({ s with tit := some it }, showTIter "-" it)
    | none => (s, "closed")
  | ["tnext"] => match s.tit with
    | some it => let (it, r) := it.next; ({ s with tit := some it }, showTIter (showB r) it)
    | none => (s, "closed")
  | ["tseek", t] => match s.tit, parseBytes t with
    | some it, some tt => let (it, r) := it.seek tt; ({ s with tit := some it }, showTIter (showB r) it)
    | none, _ => (s, "closed")
    | _, none => (s, "bad-op")
  | ["tall"] => match s.tit with
    | some it => (s, String.intercalate " " (s.tstatus :: toString it.es.length :: it.es.map showEntry))
    | none => (s, "closed")
  | ["tget", k] => match s.rd, parseBytes k with
    | some r, some kk => match Table.get xxhash64 fnv1a64 r kk with
      | .found v => (s, s!"found {showVal v}")
      | .notFound => (s, "nf")
      | .error => (s, "err")
    | none, _ => (s, "closed")
    | _, none => (s, "bad-op")
  | _ => (s, "bad-op")

def component : Component := { σ := St, init := {}, step := step }

end Driver.SstDrv
