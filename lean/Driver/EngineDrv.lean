/- Driver.EngineDrv — `kvmodel engine`: the logical storage engine model on a script. -/
import Driver.Common
import Kevo.Model.Engine
import Kevo.Model.Merge
namespace Driver.EngineDrv
open Kevo Kevo.Engine Driver

structure D where
  s : St := { cfg := { memTableSize := 1 <<< 20 } }

def parseOps : List String → Option (List (Bool × Bytes × Bytes))
  | [] => some []
  | d :: k :: v :: rest => do
    let kk ← parseBytes k
    let vv ← parseBytes v
    let r ← parseOps rest
    pure ((d == "d", kk, vv) :: r)
  | _ => none

/-- transaction.Buffer: last operation per key, applied in key order -/
def bufferOps (ops : List (Bool × Bytes × Bytes)) : List (Bool × Bytes × Bytes) :=
  let keys := ops.foldl (fun acc (_, k, _) => Kevo.Merge.insertKey k acc) []
  keys.filterMap (fun k => ops.reverse.find? (fun (_, k', _) => k' == k))

def showW (s : St) : String := s!"ok {s.lastSeq} {s.walNext}"

def optB (s : String) : Option (Option Bytes) := if s == "-" then some none else (parseBytes s).map some

def srcKV (es : List MEntry) : List Kevo.Merge.KV := es.map (fun e => (e.key, e.val))

def textCrc (s : String) : Nat := crc32 s.toUTF8.toList

def dump (s : St) : String :=
  let walTxt := String.intercalate ";" (s.wal.flatten.map (fun e => s!"{e.op}:{e.seq}:{showBytes e.key}:{showBytes e.val}"))
  let ssts := sortSSTs s.ssts
  let sstTxt := String.intercalate "," (ssts.map (fun t => s!"{t.level}/{t.fileNum}/{t.entries.length}"))
  let sstEnt := String.intercalate ";" (ssts.map (fun t => String.intercalate "," (t.entries.map (fun e => s!"{showBytes e.key}:{showVal e.val}:{e.seq}"))))
  s!"dump imm={s.mgrImm.length} walfiles={s.wal.length} walentries={s.wal.flatten.length} walcrc={textCrc walTxt} ssts=[{sstTxt}] sstcrc={textCrc sstEnt}"

def step (d : D) (ws : List String) : D × String :=
  match ws with
  | ["open", m] => match ((m.splitOn "=").getD 1 "").toNat? with
    | some n => ({ s := { cfg := { memTableSize := n } } }, "ok")
    | none => (d, "bad-op")
  | ["open", m, "walmax=1"] => match ((m.splitOn "=").getD 1 "").toNat? with
    | some n => ({ s := { cfg := { memTableSize := n, freshLog := true } } }, "ok")
    | none => (d, "bad-op")
  | ["put", k, v] => match parseBytes k, parseBytes v with
    | some kk, some vv => let s := put d.s kk vv; ({ s }, showW s)
    | _, _ => (d, "bad-op")
  | ["del", k] => match parseBytes k with
    | some kk => let s := delete d.s kk; ({ s }, showW s)
    | none => (d, "bad-op")
  | "batch" :: _n :: rest => match parseOps rest with
    | some ops => let s := batch d.s ops; ({ s }, showW s)
    | none => (d, "bad-op")
  | "tx" :: _n :: rest => match parseOps rest with
    | some ops =>
      let bo := bufferOps ops
      let s := if bo.isEmpty then d.s else batch d.s bo
      ({ s }, showW s)
    | none => (d, "bad-op")
  | ["get", k] => match parseBytes k with
    | some kk => (d, match get d.s kk with | some v => s!"found {showBytes v}" | none => "nf")
    | none => (d, "bad-op")
  | ["flush"] => let s := flushMemTables d.s; ({ s }, "ok")
  | ["reopen"] => let s := reopenC d.s; ({ s }, showW s)
  | ["scan", lo, hi] => match optB lo, optB hi with
    | some l, some h =>
      let srcs := (sources d.s).map srcKV
      let hier : Kevo.Merge.Hier := { srcs := srcs.map (fun es => { es := es }) }
      let n := (srcs.map List.length).foldl (· + ·) 0 + 1
      let kvs := if l.isNone && h.isNone then Kevo.Merge.Hier.collect n hier.first
                 else Kevo.Merge.Bounded.collect n (({ h := hier, lo := l, hi := h } : Kevo.Merge.Bounded).first)
      let live := kvs.filterMap (fun (k, v) => v.map (fun x => s!"{showBytes k}:{showBytes x}"))
      (d, String.intercalate " " ("scan" :: toString live.length :: live))
    | _, _ => (d, "bad-op")
  | ["dump"] => (d, dump d.s)
  | _ => (d, "bad-op")

def component : Component := { σ := D, init := {}, step := step }

end Driver.EngineDrv
