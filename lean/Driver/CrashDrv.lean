/- Driver.CrashDrv — `kvmodel crash`: predicted site plan and recovered state for a kill at every site. -/
import Driver.Common
import Kevo.Model.Crash
import Kevo.Gen.Consts
namespace Driver.CrashDrv
open Kevo Kevo.Crash Driver

def P := Kevo.Gen.walParams

structure D where
  sync : Nat := 0
  mem : Nat := 1 <<< 20
  ops : List WOp := []      -- newest first
  run : Option CSt := none

def parseOps : List String → Option (List (Bool × Bytes × Bytes))
  | [] => some []
  | d :: k :: v :: rest => do
    let kk ← parseBytes k
    let vv ← parseBytes v
    let r ← parseOps rest
    pure ((d == "d", kk, vv) :: r)
  | _ => none

def kvNat (s : String) : Nat := (((s.splitOn "=").getD 1 "").toNat?).getD 0

def insertKV (x : Bytes × Bytes) : List (Bytes × Bytes) → List (Bytes × Bytes)
  | [] => [x]
  | y :: ys => if ltB x.1 y.1 then x :: y :: ys else y :: insertKV x ys

def digest (m : List (Bytes × Bytes)) (seq : Nat) : String :=
  let sorted := m.foldl (fun acc x => insertKV x acc) []
  let txt := String.intercalate ";" (sorted.map (fun (k, v) => s!"{showBytes k}:{showBytes v}"))
  s!"{sorted.length}/{crc32 txt.toUTF8.toList}/{seq}"

def step (d : D) (ws : List String) : D × String :=
  match ws with
  | ["cfg", s, m] => ({ sync := kvNat s, mem := kvNat m }, "ok")
  | ["w", "put", k, v] => match parseBytes k, parseBytes v with
    | some kk, some vv => ({ d with ops := .put kk vv :: d.ops }, "ok")
    | _, _ => (d, "bad-op")
  | ["w", "del", k] => match parseBytes k with
    | some kk => ({ d with ops := .del kk :: d.ops }, "ok")
    | none => (d, "bad-op")
  | "w" :: "tx" :: _n :: rest => match parseOps rest with
    | some ops => ({ d with ops := .tx ops :: d.ops }, "ok")
    | none => (d, "bad-op")
  | ["w", "flush"] => ({ d with ops := .flush :: d.ops }, "ok")
  | ["w", "reopen"] => ({ d with ops := .reopen :: d.ops }, "ok")
  | ["plan"] =>
    let c := runWorkload P crc32 d.sync d.mem d.ops.reverse
    let sites := c.events.reverse.map (·.site)
    ({ d with run := some c }, String.intercalate " " ("plan" :: toString sites.length :: sites))
  | "crashall" :: rest =>
    match d.run with
    | none => (d, "bad-op")
    | some c =>
      let stride := max 1 ((rest.headD "1").toNat?.getD 1)
      let n := c.events.length
      let ks := (List.range n).filterMap (fun i => if i % stride = 0 then some (i + 1) else none)
      let sites := c.events.reverse.map (·.site)
      let parts := ks.map (fun k =>
        let (m, seq) := recovered P crc32 c k
        s!"{k}:{sites.getD (k - 1) "?"}:{ackedBefore c k}:{digest m seq}:ok")
      (d, String.intercalate " " ("crash" :: toString ks.length :: parts))
  | ["power"] =>
    -- component `power`: for every acknowledgement the synced length of every log file and the state recovered from
    -- exactly the synced bytes (the implementation side reconstructs both from the system-call trace)
    let c := runWorkload P crc32 d.sync d.mem d.ops.reverse
    let parts := (ackPositions c).zipIdx.map (fun (k, a) =>
      let (m, seq) := recoveredPower P crc32 c k
      let lens := String.intercalate "," ((syncedLens c k).map toString)
      s!"{a + 1}:{lens}:{digest m seq}")
    (d, String.intercalate " " ("power" :: toString parts.length :: "-" :: parts))
  | _ => (d, "bad-op")

def component : Component := { σ := D, init := {}, step := step }
def powerComponent : Component := component

end Driver.CrashDrv
