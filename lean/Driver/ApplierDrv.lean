/- Driver.ApplierDrv — `kvmodel applier`: runs Model/Applier on a script (see harness/comp_applier.go for the ops). -/
import Driver.Common
import Kevo.Model.Applier
import Kevo.Gen.Applier
namespace Driver.ApplierDrv
open Kevo Kevo.Applier Driver

def P := Kevo.Gen.applierParams

/-- state of the apply callback of the harness: pending injected failures (indices into the log) -/
structure Sink where
  failAt : List Nat := []

structure St where
  active : Bool := false
  L : Array Entry := #[]
  eng : Bool := false
  r : Replica Sink := Replica.new 0 {}

/-- the harness' `sameEntry` -/
def same (a b : Entry) : Bool :=
  a.seq == b.seq && a.op == b.op && a.key == b.key && (a.op == P.opDelete || a.val == b.val)

/-- the harness' callback: fails once for an entry that equals a pending `failapply` entry -/
def cb (L : Array Entry) (k : Sink) (e : Entry) : Sink × Bool :=
  match k.failAt.find? (fun i => match L[i]? with | some x => same x e | none => false) with
  | some i => ({ failAt := k.failAt.erase i }, false)
  | none => (k, true)

def counters (r : Replica Sink) : String :=
  s!"{r.app.expectedNext} {r.app.maxApplied} {r.app.lastAck} {r.lastApplied} {r.applied.length}"

def showDecision : Decision → String
  | .empty => "empty"
  | .applied n => s!"ok {n}"
  | .nack f false => s!"gap {f}"
  | .nack f true => s!"gapin {f}"
  | .errDecompress => "err decompress"
  | .errDeser => "err deser"
  | .errApply => "err apply"

def showEntry (e : Entry) : String := s!"{e.seq}:{e.op}:{showBytes e.key}:{showBytes e.val}"

def showDErr : DErr → String
  | .small => "small" | .op => "op" | .keyLarge => "keylarge" | .keyLen => "keylen"
  | .valLen4 => "vallen4" | .valLarge => "vallarge" | .valLen => "vallen"

def parseLog : Nat → List String → Option (List Entry)
  | 0, _ => some []
  | n + 1, s :: o :: k :: v :: rest => do
    let seq ← s.toNat?
    let op ← o.toNat?
    let key ← parseBytes k
    let val ← parseBytes v
    let r ← parseLog n rest
    pure ({ op := op % 256, seq, key, val } :: r)
  | _, _ => none

def parseRaw : List String → Option (List WireEntry)
  | [] => some []
  | s :: p :: rest => do
    let seq ← s.toNat?
    let payload ← parseBytes p
    let r ← parseRaw rest
    pure ({ seq, payload } :: r)
  | _ => none

/-- message entries for a list of index tokens (`none` = bad index) -/
def pick (L : Array Entry) (ws : List String) : Option (List Entry) :=
  ws.mapM (fun w => do let i ← w.toNat?; L[i]?)

def selectIdx (L : Array Entry) (from_ limit cap : Nat) : List Nat :=
  let sel := (((List.range L.size).zip L.toList).filter (fun p => p.2.seq ≥ from_)).take limit
  (sel.take (capCount cap 0 0 (sel.map (·.2)))).map (·.1)

def showIdx (idx : List Nat) : String := String.intercalate " " (toString idx.length :: idx.map toString)

def stateOf (applied : List Entry) : String :=
  let m := applied.foldl (applyToMap P) []
  let sorted := (m.toArray.qsort (fun a b => ltB a.1 b.1)).toList
  (String.intercalate " " (s!"state {applied.length} {sorted.length}" :: sorted.map (fun kv => s!"{showBytes kv.1}:{showBytes kv.2}")))

def receive (s : St) (m : WireMsg) (dec : Bytes → Option Bytes := some) : St × String :=
  let (r', d) := s.r.receive P (cb s.L) dec m
  ({ s with r := r' }, showDecision d)

def step (s : St) (ws : List String) : St × String :=
  match ws with
  | "log" :: start :: sink :: n :: rest =>
    match start.toNat?, n.toNat? with
    | some st, some k =>
      match parseLog k rest with
      | some L =>
        let s' : St := { active := true, L := L.toArray, eng := sink == "eng", r := Replica.new st {} }
        (s', "ok " ++ counters s'.r)
      | none => (s, "bad-op")
    | _, _ => (s, "bad-op")
  | ["ser", seq, op, k, v] =>
    match seq.toNat?, op.toNat?, parseBytes k, parseBytes v with
    | some sq, some o, some kk, some vv => (s, "ser " ++ showBytes (serialize P { op := o % 256, seq := sq, key := kk, val := vv }))
    | _, _, _, _ => (s, "bad-op")
  | ["deser", p] =>
    match parseBytes p with
    | some b => match deserialize P b with
      | .ok e => (s, "ok " ++ showEntry e)
      | .error e => (s, "err " ++ showDErr e)
    | none => (s, "bad-op")
  | _ =>
  if !s.active then (s, "bad-op") else
  match ws with
  | "deliver" :: _n :: idx | "deliverz" :: _ :: _n :: idx =>
    match pick s.L idx with
    | some es =>
      let (s', d) := receive s { entries := es.map (toWire P) }
      (s', s!"{d} ; {counters s'.r}")
    | none => (s, "bad-index")
  | "deliverbad" :: _n :: idx =>
    -- flagged compressed (zstd) but not compressed: the real decoder rejects every serialised entry
    match pick s.L idx with
    | some es =>
      let (s', d) := receive s { entries := es.map (toWire P), compressed := true } (fun _ => none)
      (s', s!"{d} ; {counters s'.r}")
    | none => (s, "bad-index")
  | "apply" :: _n :: idx =>
    match pick s.L idx with
    | some es =>
      let res := applyEntries P (cb s.L) s.r.app s.r.sink (es.map (toWire P))
      let r' := { s.r with app := res.app, sink := res.sink, applied := s.r.applied ++ res.done,
                           committed := if res.outcome = .ok then s.r.committed ++ res.done else s.r.committed }
      let cls := match res.outcome with
        | .ok => "nil" | .gapFirst => "gap" | .gapIn => "gapin" | .deserErr => "err-deser" | .applyErr => "err-apply"
      ({ s with r := r' }, s!"ret {res.ret} {res.outcome.hasGap} {cls} ; {counters r'}")
    | none => (s, "bad-index")
  | "raw" :: _n :: rest =>
    match parseRaw rest with
    | some es =>
      let (s', d) := receive s { entries := es }
      (s', s!"{d} ; {counters s'.r}")
    | none => (s, "bad-op")
  | ["select", f] =>
    match f.toNat? with
    | some from_ => (s, s!"sel {from_} {showIdx (selectIdx s.L from_ P.pollLimit P.pollBytes)}")
    | none => (s, "bad-op")
  | ["poll", rule] =>
    let from_ := if rule == "ack" then succ64 s.r.app.lastAck else s.r.app.expectedNext
    let idx := selectIdx s.L from_ P.pollLimit P.pollBytes
    let (s', d) := receive s { entries := (select s.L.toList from_ P.pollLimit P.pollBytes).map (toWire P) }
    (s', s!"poll {from_} {showIdx idx} | {d} ; {counters s'.r}")
  | ["ack"] =>
    let r' := s.r.ack
    ({ s with r := r' }, s!"ack {s.r.app.maxApplied} ; {counters r'}")
  | ["reconnect"] =>
    let r' := s.r.reconnect
    ({ s with r := r' }, s!"stream {s.r.app.expectedNext} ; {counters r'}")
  | ["reset", n] =>
    match n.toNat? with
    | some k =>
      let r' := { s.r with app := s.r.app.reset k }
      ({ s with r := r' }, "ok " ++ counters r')
    | none => (s, "bad-op")
  | ["failapply", i] =>
    match i.toNat? with
    | some k => ({ s with r := { s.r with sink := { failAt := s.r.sink.failAt ++ [k] } } }, "ok")
    | none => (s, "bad-op")
  | ["counters"] => (s, "c " ++ counters s.r)
  | ["applied"] =>
    (s, String.intercalate " " ("applied" :: toString s.r.applied.length :: s.r.applied.map showEntry))
  | ["state"] => (s, if s.eng then stateOf s.r.applied else "state -")
  | _ => (s, "bad-op")

def component : Component := { σ := St, init := {}, step := step }

end Driver.ApplierDrv
