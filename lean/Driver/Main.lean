/- kvmodel <component> : reads a script on stdin, writes one output line per input line. -/
import Driver.Common
import Driver.WalDrv
import Driver.SstDrv
import Driver.EngineDrv
import Driver.CrashDrv
import Driver.WalFaultDrv
import Driver.ConfigDrv
import Driver.MemDrv
import Driver.ApplierDrv
import Driver.CompactionDrv
import Driver.ServiceDrv
import Driver.IterDrv
open Driver

def components : List (String × Component) :=
  [("wal", WalDrv.component), ("walret", WalDrv.component), ("sst", SstDrv.component), ("engine", EngineDrv.component), ("crash", CrashDrv.component), ("power", CrashDrv.powerComponent), ("walfault", WalFaultDrv.component), ("config", ConfigDrv.component), ("mem", MemDrv.component), ("memconc", MemDrv.concComponent), ("applier", ApplierDrv.component), ("compaction", CompactionDrv.component),
   ("service", ServiceDrv.component), ("replica", ServiceDrv.component), ("iter", IterDrv.component)]

def main (args : List String) : IO UInt32 := do
  match args with
  | [name] =>
    match components.lookup name with
    | some c =>
      let i ← IO.getStdin
      let o ← IO.getStdout
      loop c i o c.init
      return 0
    | none => IO.eprintln s!"unknown component {name}"; return 2
  | _ => IO.eprintln "usage: kvmodel <component>"; return 2
