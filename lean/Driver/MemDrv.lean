/- Driver.MemDrv — `kvmodel mem`: the sequential memtable / iterator / adapter / pool model on a script (C18). -/
import Driver.Common
import Kevo.Model.MemTable
namespace Driver.MemDrv
open Kevo Kevo.Engine Kevo.MemTable Driver

/-- which table "the table" T is: a stand-alone one, the pool's active one, or the pool's i-th immutable one -/
inductive Sel where
  | alone
  | active
  | imm (i : Nat)

structure D where
  alone : MemTable := {}
  pool : Pool := {}
  cfg : Cfg := { memTableSize := 1 <<< 20 }
  sel : Sel := .alone
  it : Option Iter := none

def getT (d : D) : MemTable :=
  match d.sel with
  | .alone => d.alone
  | .active => d.pool.active
  | .imm i => (d.pool.immutables[i]?).getD {}

def setT (d : D) (m : MemTable) : D :=
  match d.sel with
  | .alone => { d with alone := m }
  | .active => { d with pool := { d.pool with active := m } }
  | .imm i => { d with pool := { d.pool with immutables := d.pool.immutables.set i m } }

def showB (b : Bool) : String := if b then "1" else "0"

def showPos (ret : String) (it : Iter) (es : List MEntry) : String :=
  match (if it.valid es then it.cur es else none) with
  | some e => s!"{ret} 1 {showBytes e.key} {showVal e.val} {e.seq} {showB e.val.isNone}"
  | none => s!"{ret} 0 - - 0 0"

def showGet : Option (Option Bytes) → String
  | none => "nf"
  | some none => "deleted"
  | some (some v) => s!"found {showBytes v}"

def showEntry (e : MEntry) : String := s!"{showBytes e.key}:{showVal e.val}:{e.seq}"

def poolInfo (p : Pool) : String :=
  s!"ok {showB p.flushPending} {p.immutables.length} {poolTotalSize p} {p.active.nextSeq}"

/-- a write to T: the iterator (which belongs to T) keeps standing on its node -/
def writeT (d : D) (e : MEntry) : D × String :=
  let t := getT d
  let t' := t.add e
  let it := if t.immutable then d.it else d.it.map (·.onInsert (insertIdx t.entries e))
  ({ setT d t' with it := it }, s!"ok {t'.size} {t'.nextSeq}")

def isActive : Sel → Bool
  | .active => true
  | _ => false

def writePool (d : D) (e : MEntry) : D × String :=
  let a := d.pool.active
  let p := d.pool.add d.cfg e
  let it := if isActive d.sel && !a.immutable then d.it.map (·.onInsert (insertIdx a.entries e)) else d.it
  ({ d with pool := p, it := it }, poolInfo p)

def withIt (d : D) (f : Iter → List MEntry → D × String) : D × String :=
  match d.it with
  | some it => f it (getT d).entries
  | none => (d, "noiter")

def step (d : D) (ws : List String) : D × String :=
  match ws with
  | ["new"] => ({ d with alone := {}, sel := .alone, it := none }, "ok")
  | ["put", k, v, s] => match parseBytes k, parseBytes v, s.toNat? with
    | some kk, some vv, some ss => writeT d { key := kk, seq := ss, val := some vv }
    | _, _, _ => (d, "bad-op")
  | ["del", k, s] => match parseBytes k, s.toNat? with
    | some kk, some ss => writeT d { key := kk, seq := ss, val := none }
    | _, _ => (d, "bad-op")
  | ["get", k] => match parseBytes k with
    | some kk => (d, showGet ((getT d).get kk))
    | none => (d, "bad-op")
  | ["has", k] => match parseBytes k with
    | some kk => (d, showB (findIn (getT d).entries kk).isSome)
    | none => (d, "bad-op")
  | ["immut"] => (setT d (setImmutable (getT d)), "ok")
  | ["size"] => let t := getT d; (d, s!"ok {t.size} {t.nextSeq} {showB t.immutable}")
  | ["it"] => ({ d with it := some { snap := snapOf (getT d) } }, "ok")
  | ["iter"] =>
    let t := getT d
    let es := iterAll t
    ({ d with it := some { snap := snapOf t, atHead := false, pos := none } },
      String.intercalate " " ("ok" :: toString es.length :: es.map showEntry))
  | ["first"] => withIt d fun it es => let n := it.first es; ({ d with it := some n }, showPos "-" n es)
  | ["next"] => withIt d fun it es => let n := it.next es; ({ d with it := some n }, showPos "-" n es)
  | ["anext"] => withIt d fun it es => let (n, r) := it.anext es; ({ d with it := some n }, showPos (showB r) n es)
  | ["seek", t] => match parseBytes t with
    | some tt => withIt d fun it es => let (n, r) := it.aseek es tt; ({ d with it := some n }, showPos (showB r) n es)
    | none => (d, "bad-op")
  | ["last"] => withIt d fun it es => let n := it.last es; ({ d with it := some n }, showPos "-" n es)
  | ["cur"] => withIt d fun it es => (d, showPos "-" it es)
  | ["pool", n] => match n.toNat? with
    | some m => ({ d with alone := getT d, sel := .alone, pool := {}, cfg := { memTableSize := m } }, "ok")
    | none => (d, "bad-op")
  | ["poolput", k, v, s] => match parseBytes k, parseBytes v, s.toNat? with
    | some kk, some vv, some ss => writePool d { key := kk, seq := ss, val := some vv }
    | _, _, _ => (d, "bad-op")
  | ["pooldel", k, s] => match parseBytes k, s.toNat? with
    | some kk, some ss => writePool d { key := kk, seq := ss, val := none }
    | _, _ => (d, "bad-op")
  | ["poolget", k] => match parseBytes k with
    | some kk => (d, showGet (d.pool.get kk))
    | none => (d, "bad-op")
  | ["switch"] =>
    let (p, old) := d.pool.switch
    let sel := if isActive d.sel then Sel.imm d.pool.immutables.length else d.sel
    ({ d with pool := p, sel := sel }, s!"ok {old.size} {old.nextSeq} {showB old.immutable} {p.immutables.length}")
  | ["pooltables"] =>
    let ts := poolTables d.pool
    (d, String.intercalate " " ("ok" :: toString ts.length :: ts.map (fun t => s!"{t.size}:{showB t.immutable}:{t.nextSeq}")))
  | ["pooltab", i] => match i.toNat? with
    | some 0 => ({ d with sel := .active, it := none }, "ok")
    | some (j + 1) => if j < d.pool.immutables.length then ({ d with sel := .imm j, it := none }, "ok") else (d, "none")
    | none => (d, "none")
  | _ => (d, "bad-op")

def component : Component := { σ := D, init := {}, step := step }

/-- `kvmodel memconc`: the concurrent scenarios are implementation-only (checked in-process by the harness); the model
    side has nothing to say about a scenario line. -/
def concComponent : Component := { σ := Unit, init := (), step := fun s _ => (s, "-") }

end Driver.MemDrv
