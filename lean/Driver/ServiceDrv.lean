/- Driver.ServiceDrv — `kvmodel service`: the API model (Kevo.Model.Service) with the GENERATED API table (Kevo.Gen.Api)
   on a script; one line per line: `svc=<handle …> emb=<embed … on the twin state>`. -/
import Driver.Common
import Kevo.Model.Service
import Kevo.Gen.Api
namespace Driver.ServiceDrv
open Kevo Kevo.Service Driver

def R : Rows := Kevo.Gen.rows

structure D where
  st : Svc := { eng := { store := { cfg := { memTableSize := 1 <<< 20 } } } }      -- behind the service
  tw : Svc := { eng := { store := { cfg := { memTableSize := 1 <<< 20 } } } }      -- the embedded twin
  embA : List (String × Tx) := []
  embB : List (String × Tx) := []
  embNext : Nat := 0
  isOpen : Bool := false

/-- byte token: hex, `=` empty, `-` nil, `*<n>:<hexbyte>[+<hex>]` -/
def parseTok (s : String) : Option Bytes :=
  if s.startsWith "*" then
    let rest := (s.drop 1).toString
    let (body, suffix) := match rest.splitOn "+" with
      | [b, x] => (b, x)
      | _ => (rest, "")
    match body.splitOn ":" with
    | [n, b] => do
      let k ← n.toNat?
      let bb ← fromHex b
      let sx ← if suffix == "" then some [] else fromHex suffix
      pure ((List.replicate k bb).flatten ++ sx)
    | _ => none
  else parseBytes s

def ob (b : Bytes) : String :=
  if b.isEmpty then "=" else if b.length > 40 then s!"#{b.length}.{crc32 b}" else toHex b

def txName (n : Nat) : String := "tx-" ++ toString n
/-- a handle token: the counter value if it is exactly what the registry prints, else 0 (never issued) -/
def parseHandle (s : String) : Nat :=
  match ((s.drop 3).toString).toNat? with
  | some n => if txName n == s then n else 0
  | none => 0

def errTok : Err → String
  | .closed => "closed" | .readOnlyMode => "readonly" | .roTx => "rotx" | .svcRoTx => "rotx-svc" | .keySize => "keysize"
  | .valueSize => "valuesize" | .batchSize => "batchsize" | .badOp => "badop" | .noHandle => "nohandle" | .txClosed => "txclosed"
  | .storageClosed => "storageclosed" | .badEntry => "badentry" | .recordTooLarge => "recordtoolarge"

def showPairs (l : List (Bytes × Bytes)) : String :=
  if l.isEmpty then "scan:0"
  else s!"scan:{l.length}:" ++ String.intercalate "," (l.map (fun kv => showBytes kv.1 ++ ":" ++ ob kv.2))

def showRole : Role → String
  | .standalone => "standalone" | .primary => "primary" | .replica => "replica"

def showResp : Resp → String
  | .ok => "ok"
  | .err e => "err:" ++ errTok e
  | .found v => "found:" ++ ob v
  | .notFound => "nf"
  | .pairs l => showPairs l
  | .txid id => "tx:" ++ txName id
  | .stats k s => s!"stats:{k}:{s}"
  | .node i => s!"node:{showRole i.role}:{if i.primary == "" then "-" else i.primary}:ro{if i.readOnly then 1 else 0}:replicas{i.replicas}:seq{i.lastSeq}"
  | .blocked => "blocked"

def showErr (e : Option Err) : String := showResp (respOf e)

def digest (e : Eng) : String :=
  if e.closed then "closed"
  else
    let l := live (storeView e.store)
    let txt := String.intercalate ";" (l.map (fun kv => showBytes kv.1 ++ ":" ++ ob kv.2))
    s!"{l.length}.{crc32 txt.toUTF8.toList}.{e.store.lastSeq}"

def parseScan : List String → Option ScanOpts
  | [p, s, a, b, l] => do
    let pp ← parseTok p
    let ss ← parseTok s
    let aa ← parseTok a
    let bb ← parseTok b
    let ll ← l.toInt?
    pure { pfx := pp, sfx := ss, start := aa, stop := bb, limit := ll }
  | _ => none

def parseBOps : List String → Option (List BOp)
  | [] => some []
  | t :: k :: v :: rest => do
    let kk ← parseTok k
    let vv ← parseTok v
    let r ← parseBOps rest
    pure ((if t == "p" then BOp.put kk vv else if t == "d" then BOp.del kk else BOp.bad kk) :: r)
  | _ => none

def parseWalOps : List String → Option (List (Bool × Bytes × Bytes))
  | [] => some []
  | t :: k :: v :: rest => do
    let kk ← parseTok k
    let vv ← parseTok v
    let r ← parseWalOps rest
    pure ((t == "d", kk, if t == "d" then [] else vv) :: r)
  | _ => none

def parseReq : List String → Option Req
  | ["Get", k] => (parseTok k).map .get
  | ["Put", k, v] => do pure (.put (← parseTok k) (← parseTok v))
  | ["Delete", k] => (parseTok k).map .delete
  | "BatchWrite" :: _n :: rest => (parseBOps rest).map .batchWrite
  | "Scan" :: f => (parseScan f).map .scan
  | ["BeginTransaction", m] => some (.begin (m == "ro"))
  | ["CommitTransaction", id] => some (.commit (parseHandle id))
  | ["RollbackTransaction", id] => some (.rollback (parseHandle id))
  | ["TxGet", id, k] => (parseTok k).map (.txGet (parseHandle id))
  | ["TxPut", id, k, v] => do pure (.txPut (parseHandle id) (← parseTok k) (← parseTok v))
  | ["TxDelete", id, k] => (parseTok k).map (.txDelete (parseHandle id))
  | "TxScan" :: id :: f => (parseScan f).map (.txScan (parseHandle id))
  | ["GetStats"] => some .getStats
  | ["Compact", f] => some (.compact (f == "1"))
  | ["GetNodeInfo"] => some .getNodeInfo
  | _ => none

def line (s e : String) (pre : Eng) (post : Eng) : String :=
  let o := s!"svc={s} emb={e}"
  if s.startsWith "err:" || e.startsWith "err:" then o ++ s!" st={digest pre}/{digest post}" else o

def isValidationReject : Resp → Bool
  | .err e => e.isValidation
  | _ => false

/-- what the harness does on the twin for this request -/
def twinCall (req : Req) (tw : Svc) : Resp × Svc :=
  match req with
  | .compact _ => (respOf (run Kevo.Gen.f_GetCompactionStats .none tw.eng).err, tw)
  | .begin _ =>
    let (r, tw') := embed R req tw
    match r with
    | .err _ => (r, tw)
    | _ => (r, tw')
  | _ => embed R req tw

def rpc (d : D) (req : Req) : D × String :=
  let pre := d.st.eng
  let (r, st') := handle R req d.st
  match r with
  | .blocked => (d, "blocked")
  | _ =>
    if isValidationReject r then ({ d with st := st' }, line (showResp r) "-" pre st'.eng)
    else
      let (e, tw') := twinCall req d.tw
      ({ d with st := st', tw := tw' }, line (showResp r) (showResp e) pre st'.eng)

/-- the SPECIFIED scan over the engine's own iterators (facade rows GetIterator / GetRangeIterator) -/
def embScan (e : Eng) (o : ScanOpts) : String :=
  match (run R.fIter .none e).err with
  | some err => "err:" ++ errTok err
  | none => showPairs (scanSpec o (storeView e.store) (storeRangeView e.store))

def txScanSpec (t : Tx) (e : Eng) (o : ScanOpts) : String := showPairs (scanSpec o (t.view e) (t.rangeView e))

/-- a facade method called directly on one engine -/
def embOn (e : Eng) (txs : List (String × Tx)) (ws : List String) (newID : String) : String × Eng × List (String × Tx) :=
  let fin (o : Out) : String × Eng × List (String × Tx) := (showErr o.err, o.eng, txs)
  match ws with
  | ["Put", k, v] => match parseTok k, parseTok v with
    | some kk, some vv => fin (run R.fPut (.kv kk vv) e)
    | _, _ => ("bad-op", e, txs)
  | ["PutInternal", k, v] => match parseTok k, parseTok v with
    | some kk, some vv => fin (run R.fPutInternal (.kv kk vv) e)
    | _, _ => ("bad-op", e, txs)
  | ["Delete", k] => match parseTok k with
    | some kk => fin (run R.fDelete (.key kk) e)
    | none => ("bad-op", e, txs)
  | ["DeleteInternal", k] => match parseTok k with
    | some kk => fin (run R.fDeleteInternal (.key kk) e)
    | none => ("bad-op", e, txs)
  | "ApplyBatch" :: _n :: rest => match parseWalOps rest with
    | some ops => fin (run R.fApplyBatch (.batch ops) e)
    | none => ("bad-op", e, txs)
  | "ApplyBatchInternal" :: _n :: rest => match parseWalOps rest with
    | some ops => fin (run R.fApplyBatchInternal (.batch ops) e)
    | none => ("bad-op", e, txs)
  | ["Get", k] => match parseTok k with
    | some kk =>
      let o := run R.fGet (.key kk) e
      (match o.err, o.val with
        | some err, _ => "err:" ++ errTok err
        | none, .got (some v) => "found:" ++ ob v
        | none, _ => "nf", e, txs)
    | none => ("bad-op", e, txs)
  | ["IsDeleted", k] => match parseTok k with
    | some kk =>
      let o := run R.fIsDeleted (.key kk) e
      (match o.err, o.val with
        | some err, _ => "err:" ++ errTok err
        | none, .isDel (some b) => s!"deleted:{if b then 1 else 0}"
        | none, _ => "nf", e, txs)
    | none => ("bad-op", e, txs)
  | ["IsReadOnly"] => (match (run R.fIsReadOnly .none e).val with | .flag true => "ro1" | _ => "ro0", e, txs)
  | ["FlushImMemTables"] => fin (run R.fFlush .none e)
  | "Scan" :: f => match parseScan f with
    | some o => (embScan e o, e, txs)
    | none => ("bad-op", e, txs)
  | ["BeginTransaction", m] =>
    let o := run R.fBegin (.flag (m == "ro")) e
    (match o.err, o.val with
      | some err, _ => ("err:" ++ errTok err, e, txs)
      | none, .tx ro => ("tx:" ++ newID, o.eng, (newID, { ro := ro }) :: txs)
      | none, _ => ("bad-op", e, txs))
  | name :: id :: f =>
    match txs.lookup id with
    | none => if name ∈ ["TxPut", "TxDelete", "TxGet", "TxCommit", "TxRollback", "TxScan", "TxIsReadOnly"] then ("err:nohandle", e, txs) else ("bad-op", e, txs)
    | some t =>
      let set (t' : Tx) := txs.map (fun p => if p.1 == id then (id, t') else p)
      match name, f with
      | "TxPut", [k, v] => match parseTok k, parseTok v with
        | some kk, some vv => let (er, t') := t.put kk vv; (showErr er, e, set t')
        | _, _ => ("bad-op", e, txs)
      | "TxDelete", [k] => match parseTok k with
        | some kk => let (er, t') := t.delete kk; (showErr er, e, set t')
        | none => ("bad-op", e, txs)
      | "TxGet", [k] => match parseTok k with
        | some kk => (match t.get e kk with
          | .ok (some v) => "found:" ++ ob v
          | .ok none => "nf"
          | .error err => "err:" ++ errTok err, e, txs)
        | none => ("bad-op", e, txs)
      | "TxIsReadOnly", [] => (if t.ro then "ro1" else "ro0", e, txs)
      | "TxScan", f => match parseScan f with
        | some o => (txScanSpec t e o, e, txs)
        | none => ("bad-op", e, txs)
      | "TxCommit", [] => let (er, t', e') := t.commit e; (showErr er, e', set t')
      | "TxRollback", [] => let (er, t', e') := t.rollback e; (showErr er, e', set t')
      | _, _ => ("bad-op", e, txs)
  | _ => ("bad-op", e, txs)

def mkMgr (mode : String) : Option MgrCfg :=
  if mode == "none" then none
  else if mode == "disabled" then some { enabled := false, mode := "standalone", primaryAddr := "localhost:50052", listenAddr := ":50052" }
  else some { mode := mode, primaryAddr := "primary.example:50052", listenAddr := ":50053" }

def kvOf (ws : List String) (key : String) (dflt : String) : String :=
  match ws.find? (fun w => w.startsWith (key ++ "=")) with
  | some w => (w.drop (key.length + 1)).toString
  | none => dflt

def step (d : D) (ws : List String) : D × String :=
  match ws with
  | "open" :: opts =>
    let mem := (kvOf opts "mem" "1048576").toNat?.getD 1048576
    let ro := kvOf opts "ro" "0" == "1"
    let mk : Svc := { eng := { store := { cfg := { memTableSize := mem } }, readOnly := ro }, mgr := mkMgr (kvOf opts "mode" "none") }
    ({ st := mk, tw := mk, isOpen := true }, "ok")
  | _ =>
  if !d.isOpen then (d, "not-open") else
  match ws with
  | "rpc" :: f => match parseReq f with
    | some req => rpc d req
    | none => (d, "svc=bad-op emb=-")
  | "emb" :: f =>
    let pre := d.st.eng
    let isBegin := f.head? == some "BeginTransaction"
    let blocked := isBegin && (match (run R.fBegin (.flag (f.getD 1 "" == "ro")) d.st.eng).blocked with | b => b)
    if blocked then (d, "blocked")
    else
      let embNext := if isBegin then d.embNext + 1 else d.embNext
      let newID := s!"e-{embNext}"
      let (ra, ea, ta) := embOn d.st.eng d.embA f newID
      let (rb, eb, tb) := embOn d.tw.eng d.embB f newID
      ({ d with st := { d.st with eng := ea }, tw := { d.tw with eng := eb }, embA := ta, embB := tb, embNext }, line ra rb pre ea)
  | ["apply", ty, k, v] => match ty.toNat?, parseTok k, parseTok v with
    | some t, some kk, some vv =>
      let pre := d.st.eng
      let (ra, ea) := applyEntry R t kk vv d.st.eng
      let (rb, eb) := applyEntry R t kk vv d.tw.eng
      ({ d with st := { d.st with eng := ea }, tw := { d.tw with eng := eb } }, line (showErr ra) (showErr rb) pre ea)
    | _, _, _ => (d, "bad-op")
  | ["readonly", m] =>
    let f (e : Eng) := (run R.fSetReadOnly (.flag (m == "on")) e).eng
    ({ d with st := { d.st with eng := f d.st.eng }, tw := { d.tw with eng := f d.tw.eng } }, "ok")
  | "scanrace" :: _pfx :: ops =>
    -- a streaming scan that is open while a batch arrives: the scan runs inside a read-only transaction, the batch waits for
    -- it; the scan shows the state before the batch, then the batch is applied (service and twin)
    match parseBOps ops with
    | some bops =>
      let (d', out) := rpc d (.batchWrite bops)
      if out.startsWith "svc=ok" then (d', "scanrace atomic-old") else (d', "scanrace err:batch")
    | none => (d, "bad-op")
  | ["scancancel", _pfx] => (d, "scancancel ok")   -- a scan whose client goes away changes nothing and holds nothing
  | ["dump"] => (d, s!"dump svc={digest d.st.eng} emb={digest d.tw.eng}")
  | ["probe"] => (d, "probe facade=0 rpc=0")
  | ["close"] =>
    let f (e : Eng) := (run R.fClose .none e).eng
    ({ d with st := { d.st with eng := f d.st.eng }, tw := { d.tw with eng := f d.tw.eng } }, "svc=ok emb=ok")
  | _ => (d, "bad-op")

def component : Component := { σ := D, init := {}, step := step }

end Driver.ServiceDrv
