#!/bin/sh
# Build the framework from files on disk only (offline): extractor, Lean library + model driver, harness.
set -e
cd "$(dirname "$0")"
export GOFLAGS=-mod=mod GOPROXY=off
unset GOTOOLCHAIN GOSUMDB || true
mkdir -p build out evidence
(cd extract && go build -o ../build/kvfacts .)
./build/kvfacts -repo /repo -gen lean/Kevo/Gen -json build/facts.json || true
(cd lean && lake build Kevo kvmodel 2>&1 | grep -v '^trace' | tail -5)
cp /repo/go.sum harness/go.sum
(cd harness && go build -tags verif -o ../build/kvharness .)
echo setup-ok
