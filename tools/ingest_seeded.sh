#!/bin/bash
# tools/ingest_seeded.sh <PROP> <out-dir> <worktree> [props to check…]: copy <out-dir>/<k>/ to seeded/<PROP>-<n>/ (next free n),
# confirm each (tools/confirm_seeded.sh), then run the checks against it (tools/test_mutation.sh). Prints one block per change.
cd "$(dirname "$0")/.."
P=$1; OUT=$2; WT=$3; shift 3
CHECKS=${@:-$P}
for k in $(ls $OUT | sort); do
  [ -f $OUT/$k/patch.diff ] || continue
  n=1; while [ -d seeded/$P-$n ]; do n=$((n+1)); done
  id=$P-$n
  mkdir -p seeded/$id; cp $OUT/$k/* seeded/$id/
  echo "=== $id (from $OUT/$k)"
  tools/confirm_seeded.sh $id $WT
  tools/test_mutation.sh $WT seeded/$id/patch.diff $CHECKS
done
