#!/bin/bash
# tools/ingest_seeded.sh <PROP> <out-dir> <worktree> [props to check…]: copy <out-dir>/<k>/ to seeded/<PROP>-<n>/ (next free n),
# confirm each (tools/confirm_seeded.sh), then run the checks against it (tools/test_mutation.sh). Prints one block per change.
cd "$(dirname "$0")/.."
P=$1; OUT=$2; WT=$3; shift 3
CHECKS=${@:-$P}
for k in $(ls $OUT | sort); do
  [ -f $OUT/$k/patch.diff ] || continue
  id=$(grep -l "\"from\": \"$OUT/$k\"" seeded/$P-*/meta.json 2>/dev/null | head -1 | xargs -r dirname | xargs -r basename)
  if [ -z "$id" ]; then
    n=1; while [ -d seeded/$P-$n ]; do n=$((n+1)); done
    id=$P-$n
    mkdir -p seeded/$id; cp $OUT/$k/* seeded/$id/
    python3 -c "
import json
p='seeded/$id/meta.json'; m=json.load(open(p)); m['from']='$OUT/$k'; json.dump(m,open(p,'w'),indent=1)"
  fi
  echo "=== $id (from $OUT/$k)"
  tools/confirm_seeded.sh $id $WT
  tools/test_mutation.sh $WT $(pwd)/seeded/$id/patch.diff $CHECKS
done
