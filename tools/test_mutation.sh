#!/bin/bash
# tools/test_mutation.sh <worktree> <patch.diff> <prop> [<prop>…] : apply the patch in the worktree, run the checks there, undo.
cd "$(dirname "$0")/.."
WT=$1; PATCH=$2; shift 2
git -C $WT checkout -q -- . && git -C $WT clean -fdq
# the worktree follows /repo's HEAD (hook commits made after the worktree was created are needed to build the harness)
git -C $WT checkout -q --detach $(git -C ${VERIF_BASE_REPO:-/repo} rev-parse HEAD) 2>/dev/null
if ! git -C $WT apply $PATCH; then echo "PATCH-DOES-NOT-APPLY $PATCH"; exit 2; fi
for p in "$@"; do
  out=$(VERIF_REPO=$WT timeout 1200 ./check $p --tier ${TIER:-quick} 2>&1)
  rc=$?
  v=$(echo "$out" | grep -m1 '^VIOLATION' | cut -c1-200)
  echo "$PATCH -> $p rc=$rc ${v:-NOT-DETECTED}"
  if [ -n "$v" ]; then rp=$(echo "$v" | sed -n 's/.*replay=\([^ ]*\).*/\1/p'); python3 -c "
import json
r=json.load(open('$rp'))
print('     ', (r.get('problems') or [b[1] for b in r.get('broken',[])] or ['?'])[0][:260])
print('      script lines:', len(r.get('script') or []))
"; fi
done
git -C $WT checkout -q -- . && git -C $WT clean -fdq
