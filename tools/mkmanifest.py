#!/usr/bin/env python3
"""Regenerate MANIFEST.json from lib/props.py (claimed checks) and tools/manifest_meta.json (texts)."""
import json, os, sys
V = os.path.dirname(os.path.dirname(os.path.abspath(__file__)))
sys.path.insert(0, os.path.join(V, 'lib'))
import props
meta = json.load(open(os.path.join(V, 'tools', 'manifest_meta.json')))
import glob
meta['props'] = {os.path.basename(f)[:-5]: json.load(open(f)) for f in glob.glob(os.path.join(V, 'tools', 'meta', '*.json'))}
all_ids = [json.loads(l)['id'] for l in open(os.path.join(V, 'properties.jsonl'))]
checks, na = [], []
for pid in all_ids:
    m = meta['props'].get(pid, {})
    if pid in props.PROPS and m.get('claimed', True):
        checks.append(dict(
            property_id=pid,
            quick_cmd='./check %s --tier quick' % pid,
            thorough_cmd='./check %s --tier thorough' % pid,
            evidence_file='/verif/evidence/%s.json' % pid,
            replay_cmd_template='./check %s --replay {path}' % pid,
            engine='lean-proof+differential',
            level_claimed=dict(category='proof', text=m.get('text', ''), design_ref=m.get('design_ref', 'DESIGN.md section 6 ' + pid)),
            level_note=m.get('note', ''),
            technique=m.get('technique', 'Lean 4 theorems about an executable model; model tied to the source by a regenerating extractor and a differential correspondence check')))
    else:
        na.append(dict(property_id=pid, reason=m.get('na_reason', 'not yet claimed: model/theorems for this property are not built yet in this round (planned, see DESIGN.md section 10)')))
man = dict(
    version=1,
    setup_cmd='./setup.sh',
    hooks=meta['hooks'],
    engines=[dict(name='lean-proof+differential', path='/verif/check', serves_properties=[c['property_id'] for c in checks],
                  kind_free_text='Lean 4 proofs over a hand-written executable model (lean/Kevo), kvfacts source extractor (extract/), Go differential harness (harness/), Python orchestrator (check, lib/)')],
    checks=checks,
    notes=meta.get('notes', ''),
    not_applicable=na)
json.dump(man, open(os.path.join(V, 'MANIFEST.json'), 'w'), indent=1)
print('claimed:', [c['property_id'] for c in checks], 'not claimed:', [n['property_id'] for n in na])
