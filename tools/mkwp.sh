#!/bin/sh
# make a scratch copy of /verif (with build caches) for a builder agent: tools/mkwp.sh <name>
set -e
d=/tmp/wp$1/verif
rm -rf /tmp/wp$1
mkdir -p /tmp/wp$1
rsync -a --exclude /out/ --exclude /build/work/ --exclude '/build/alt-*' --exclude /.git/ /verif/ $d/
echo $d
