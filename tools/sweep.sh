#!/bin/sh
# tools/sweep.sh <seeds…>: run every quick check with each seed on the unchanged tree; print one line per (check, seed).
# Intended for `vp run -- tools/sweep.sh 11 12 13` (snapshot: runs ./setup.sh first when build/ is missing).
cd "$(dirname "$0")/.."
[ -x build/kvharness ] || ./setup.sh > sweep-setup.log 2>&1
for seed in "$@"; do
  for id in C01 C02 C03 C04 C05 C06 C07 C08 C09 C10 C11 C12 C13 C14 C15 C16 C17 C18 C19 C20; do
    s=$(date +%s)
    VERIF_SEED=$seed ./check $id --tier ${TIER:-quick} > sweep-$id-$seed.log 2>&1
    rc=$?
    echo "seed=$seed $id rc=$rc $(( $(date +%s) - s ))s $(grep -m1 '^VIOLATION' sweep-$id-$seed.log | cut -c1-160)"
  done
done
echo sweep-done
