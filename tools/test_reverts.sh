#!/bin/bash
# For each "<commit> <props...>" line: worktree of /repo HEAD with that commit reverted; run the checks; expect VIOLATION.
# usage: tools/test_reverts.sh <<< "a4b3b45 C01 C08"
cd "$(dirname "$0")/.."
WT=/tmp/revwt
git -C /repo worktree remove --force $WT 2>/dev/null
git -C /repo worktree add -q $WT HEAD --detach
while read commit props; do
  [ -z "$commit" ] && continue
  git -C $WT checkout -q -- . && git -C $WT clean -fdq
  if ! git -C $WT revert -n -X theirs $commit >/dev/null 2>&1; then echo "REVERT-CONFLICT $commit"; git -C $WT revert --abort 2>/dev/null; git -C $WT reset -q --hard HEAD; continue; fi
  for p in $props; do
    out=$(VERIF_REPO=$WT timeout 900 ./check $p --tier quick 2>&1)
    rc=$?
    v=$(echo "$out" | grep -m1 '^VIOLATION' | cut -c1-160)
    echo "revert $commit ($(git -C /repo log --format=%s -1 $commit | cut -c1-60)) -> $p rc=$rc $v"
    if [ -n "$v" ]; then rp=$(echo "$v" | sed -n 's/.*replay=\([^ ]*\).*/\1/p'); python3 -c "
import json,sys
r=json.load(open('$rp'))
print('     ', (r.get('problems') or [b[1] for b in r.get('broken',[])] or ['?'])[0][:220])
"; fi
  done
  git -C $WT reset -q --hard HEAD
done
git -C /repo worktree remove --force $WT
