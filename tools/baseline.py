#!/usr/bin/env python3
"""Run the repository's pinned test suite (guard OFF) in a directory and compare with BASELINE.json's stable_pass.
usage: baseline.py [repo_dir] [--pkgs ./pkg/a/... ./pkg/b/...]"""
import json, subprocess, sys, os
repo = sys.argv[1] if len(sys.argv) > 1 and not sys.argv[1].startswith('-') else '/repo'
pkgs = sys.argv[sys.argv.index('--pkgs') + 1:] if '--pkgs' in sys.argv else ['./...']
base = set(json.load(open('/root/.vp/BASELINE.json'))['stable_pass'])
env = dict(os.environ, GOFLAGS='-mod=mod', GOPROXY='off')
env.pop('GOTOOLCHAIN', None); env.pop('GOSUMDB', None)
p = subprocess.Popen(['go', 'test', '-mod=mod', '-json', '-vet=off', '-count=1', '-timeout', '25m'] + pkgs, cwd=repo, env=env,
                     stdout=subprocess.PIPE, stderr=subprocess.DEVNULL, text=True)
passed, failed = set(), set()
for line in p.stdout:
    try:
        ev = json.loads(line)
    except ValueError:
        continue
    if ev.get('Test') and ev.get('Action') in ('pass', 'fail'):
        (passed if ev['Action'] == 'pass' else failed).add(ev['Package'] + '::' + ev['Test'])
p.wait()
if pkgs != ['./...']:
    pref = tuple('github.com/KevoDB/kevo/' + x.strip('./').rstrip('.').rstrip('/') for x in pkgs)
    base = set(b for b in base if b.split('::')[0].startswith(pref))
missing = sorted(base - passed)
print('baseline tests: %d, passed now: %d, baseline tests not passing now: %d, failed: %d' % (len(base), len(passed & base), len(missing), len(failed)))
for m in missing[:40]:
    print('  MISSING', m)
for f in sorted(failed)[:40]:
    print('  FAILED ', f)
sys.exit(0 if not missing else 1)
