#!/bin/bash
# tools/confirm_seeded.sh <seeded-id> <worktree>: verify a seeded change: builds, touched packages' tests pass,
# demo fails with the change and passes without. Appends the outcome to seeded/<id>/meta.json ("confirmed": {...}).
cd "$(dirname "$0")/.."
ID=$1; WT=$2; D=$(pwd)/seeded/$ID
export GOFLAGS=-mod=mod GOPROXY=off
git -C $WT checkout -q -- . && git -C $WT clean -fdq
git -C $WT apply $D/patch.diff || { echo "$ID: patch does not apply"; exit 2; }
pkgs=$(grep '^+++ b/' $D/patch.diff | sed 's#+++ b/##; s#/[^/]*$##' | sort -u | sed 's#^#./#' | grep -v replication | tr '\n' ' ')
build=$(cd $WT && go build ./... 2>&1 | tail -3)
tests=""
[ -n "$pkgs" ] && tests=$(cd $WT && go test -vet=off -count=1 $pkgs 2>&1 | grep -v "no test files" | tr '\n' ';')
# pkg/replication: the package's full run ends in the suite's 25-minute timeout (as in the pinned baseline), so run the
# tests the baseline counts (stable_pass), by name
if grep -q '^+++ b/pkg/replication/' $D/patch.diff; then
  names=$(python3 -c "
import json,ast
d=json.load(open('/root/.vp/BASELINE.json')); sp=d['stable_pass']; sp=ast.literal_eval(sp) if isinstance(sp,str) else sp
print('|'.join(sorted({s.split('::')[1].split('/')[0] for s in sp if s.startswith('github.com/KevoDB/kevo/pkg/replication::')})))")
  tests="$tests$(cd $WT && timeout 900 go test -vet=off -count=1 -timeout 800s -run "^($names)\$" ./pkg/replication/ 2>&1 | tail -2 | tr '\n' ';')"
fi
demo=$(ls $D | grep -E 'zz_demo.*_test.go' | head -1)
dpkg=$(python3 -c "
import json,re
m=json.load(open('$D/meta.json'))
s=m.get('demo','')
if isinstance(s,dict): s=' '.join(str(v) for v in s.values())
r=re.search(r'(\./(?:pkg|cmd)/[A-Za-z0-9_/]+)', s)
print(r.group(1).rstrip('/') if r else '')")
RACE=$(python3 -c "
import json
m=json.load(open('$D/meta.json'))
s=m.get('demo','')
if isinstance(s,dict): s=' '.join(str(v) for v in s.values())
print('-race' if ' -race' in s else '')")
[ -z "$dpkg" ] && dpkg=$(echo $pkgs | cut -d' ' -f1)
cp $D/$demo $WT/$dpkg/
with=$(cd $WT && go test $RACE -vet=off -count=1 -run 'Demo' $dpkg 2>&1 | tail -1)
git -C $WT checkout -q -- . 
without=$(cd $WT && go test $RACE -vet=off -count=1 -run 'Demo' $dpkg 2>&1 | tail -1)
git -C $WT clean -fdq
python3 - "$D/meta.json" "$build" "$tests" "$with" "$without" <<'PY'
import json,sys
p,build,tests,w,wo=sys.argv[1:6]
m=json.load(open(p))
ok = (build.strip()=='' ) and ('FAIL' not in tests) and ('FAIL' in w or 'panic' in w) and w!=wo and wo.startswith('ok')
m['confirmed']=dict(builds=build.strip()=='' , package_tests=tests[:300], demo_with_change=w[:160], demo_without_change=wo[:160], ok=ok)
json.dump(m,open(p,'w'),indent=1)
print(p, 'CONFIRMED' if ok else 'NOT-CONFIRMED', '|', w[:80], '|', wo[:80])
PY
