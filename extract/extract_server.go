package main

// the message-size options of the real server (cmd/kevo/server.go) cited by C19: the harness gives its in-process server the same
// options (it reads them from the same source file), the documented value limit must fit them.
func init() {
	extractors = append(extractors, func(repo string) {
		p := P(repo, "cmd/kevo")
		F.Facts["server.grpc.msgsize.recv"] = p.callArgText("Server.Start", "grpc.MaxRecvMsgSize")
		F.Facts["server.grpc.msgsize.send"] = p.callArgText("Server.Start", "grpc.MaxSendMsgSize")
		p.recordConst("maxMessageSize")
	})
}
