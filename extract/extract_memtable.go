package main

// C18 (pkg/memtable): facts `mem18.*` + lean/Kevo/Gen/MemTable.lean.
//
//   * entry.compareWithEntry and Iterator.isVisible are TRANSLATED (guard chains of if/return over comparisons) into Lean
//     definitions; Kevo.Proofs.MemTableGen proves that they are the model's `entryLt` / `visibleAt`.
//   * the loop conditions of Insert / Find / Seek, the publication order inside Insert's link loop, where Seek/Find take
//     the node they land on, the immutable guard and the nextSeqNum rule of Put/Delete, the snapshot of NewIterator, the
//     pool's lookup loop and flush rule, the adapter's SeekToLast are pinned as text (extract/expect/memtable_c18.json).

import (
	"fmt"
	"go/ast"
	"go/printer"
	"go/token"
	"path/filepath"
	"strings"
)

func mem18PrintNode(sb *strings.Builder, n ast.Node) {
	printer.Fprint(sb, token.NewFileSet(), n)
}

func init() {
	extractors = append(extractors, extractMem18)
	generators = append(generators, genMem18)
}

// ---- a tiny translator for guard-chain functions -------------------------------------------------------------

type gcTr struct {
	fn    string
	names map[string]string // Go selector / identifier text -> Lean term
	bound map[string]bool   // let-bound locals
	err   string
}

func (t *gcTr) bad(format string, a ...any) string {
	if t.err == "" {
		t.err = fmt.Sprintf(format, a...)
	}
	return "0"
}

func (t *gcTr) expr(e ast.Expr) string {
	switch x := e.(type) {
	case *ast.ParenExpr:
		return "(" + t.expr(x.X) + ")"
	case *ast.BasicLit:
		if x.Kind == token.INT {
			return x.Value
		}
	case *ast.Ident:
		if x.Name == "true" || x.Name == "false" {
			return x.Name
		}
		if t.bound[x.Name] {
			return x.Name
		}
		if v, ok := t.names[x.Name]; ok {
			return v
		}
	case *ast.SelectorExpr:
		if v, ok := t.names[exprString(x)]; ok {
			return v
		}
	case *ast.UnaryExpr:
		if x.Op == token.SUB {
			return "(-" + t.expr(x.X) + ")"
		}
		if x.Op == token.NOT {
			return "(!" + t.expr(x.X) + ")"
		}
	case *ast.CallExpr:
		if exprString(x.Fun) == "bytes.Compare" && len(x.Args) == 2 {
			return "(cmpB " + t.expr(x.Args[0]) + " " + t.expr(x.Args[1]) + ")"
		}
	case *ast.BinaryExpr:
		a, b := t.expr(x.X), t.expr(x.Y)
		switch x.Op {
		case token.EQL:
			return "(" + a + " == " + b + ")"
		case token.NEQ:
			return "(" + a + " != " + b + ")"
		case token.LSS:
			return "(decide (" + a + " < " + b + "))"
		case token.LEQ:
			return "(decide (" + a + " ≤ " + b + "))"
		case token.GTR:
			return "(decide (" + a + " > " + b + "))"
		case token.GEQ:
			return "(decide (" + a + " ≥ " + b + "))"
		case token.LAND:
			return "(" + a + " && " + b + ")"
		case token.LOR:
			return "(" + a + " || " + b + ")"
		}
	}
	return t.bad("%s: unsupported expression %s", t.fn, exprString(e))
}

// stmts: T(return e; …) = E(e); T(x := e; rest) = let x := E(e); T(rest);
// T(if c A else B; rest) = if C(c) then T(A; rest) else T(B; rest). Comments do not reach the AST statements.
func (t *gcTr) stmts(ss []ast.Stmt) string {
	if len(ss) == 0 {
		return t.bad("%s: control reaches the end without return", t.fn)
	}
	switch s := ss[0].(type) {
	case *ast.ReturnStmt:
		if len(s.Results) != 1 {
			return t.bad("%s: return with %d results", t.fn, len(s.Results))
		}
		return t.expr(s.Results[0])
	case *ast.AssignStmt:
		if s.Tok == token.DEFINE && len(s.Lhs) == 1 && len(s.Rhs) == 1 {
			if id, ok := s.Lhs[0].(*ast.Ident); ok {
				rhs := t.expr(s.Rhs[0])
				t.bound[id.Name] = true
				return "let " + id.Name + " := " + rhs + "; " + t.stmts(ss[1:])
			}
		}
	case *ast.BlockStmt:
		return t.stmts(append(append([]ast.Stmt{}, s.List...), ss[1:]...))
	case *ast.IfStmt:
		if s.Init == nil {
			thenS := append(append([]ast.Stmt{}, s.Body.List...), ss[1:]...)
			var elseS []ast.Stmt
			if s.Else != nil {
				elseS = append(elseS, s.Else)
			}
			elseS = append(elseS, ss[1:]...)
			c := t.expr(s.Cond)
			a := t.stmts(thenS)
			b := t.stmts(elseS)
			return "(if " + c + " then " + a + " else " + b + ")"
		}
	}
	return t.bad("%s: unsupported statement %T", t.fn, ss[0])
}

func translateGuardChain(p *pkg, fn string, names map[string]string) string {
	fd := p.findFunc(fn)
	if fd == nil {
		fail("mem18: function memtable.%s not found", fn)
		return "0"
	}
	t := &gcTr{fn: fn, names: names, bound: map[string]bool{}}
	out := t.stmts(fd.Body.List)
	if t.err != "" {
		fail("mem18 translator: memtable %s", t.err)
	}
	return out
}

// ---- text facts ------------------------------------------------------------------------------------------------

func mem18OneLine(s string) string { return strings.Join(strings.Fields(s), " ") }

func mem18Stmt(p *pkg, s ast.Stmt) string {
	var sb strings.Builder
	mem18PrintNode(&sb, s)
	return mem18OneLine(sb.String())
}

// mem18ForLoops: every for statement of fn in source order (nested included)
func mem18ForLoops(fd *ast.FuncDecl) []*ast.ForStmt {
	var out []*ast.ForStmt
	ast.Inspect(fd.Body, func(n ast.Node) bool {
		if f, ok := n.(*ast.ForStmt); ok {
			out = append(out, f)
		}
		return true
	})
	return out
}

func mem18ForHeader(f *ast.ForStmt) string {
	parts := []string{"", "", ""}
	if f.Init != nil {
		parts[0] = mem18Stmt(nil, f.Init)
	}
	if f.Cond != nil {
		parts[1] = exprString(f.Cond)
	}
	if f.Post != nil {
		parts[2] = mem18Stmt(nil, f.Post)
	}
	if parts[0] == "" && parts[2] == "" {
		return parts[1]
	}
	return strings.Join(parts, "; ")
}

// m18LoopConds: the headers of all for loops of fn joined by " | "
func (p *pkg) m18LoopConds(fn string) string {
	fd := p.findFunc(fn)
	if fd == nil {
		fail("mem18: function memtable.%s not found", fn)
		return "?"
	}
	var hs []string
	for _, f := range mem18ForLoops(fd) {
		hs = append(hs, mem18ForHeader(f))
	}
	return strings.Join(hs, " | ")
}

// m18BodyOfLoop: the statements (hook calls dropped) of the for loop of fn whose header is `header`
func (p *pkg) m18BodyOfLoop(fn, header string) string {
	fd := p.findFunc(fn)
	if fd == nil {
		fail("mem18: function memtable.%s not found", fn)
		return "?"
	}
	for _, f := range mem18ForLoops(fd) {
		if mem18ForHeader(f) != header {
			continue
		}
		var ss []string
		for _, s := range f.Body.List {
			txt := mem18Stmt(p, s)
			if strings.HasPrefix(txt, "verifhook.At(") {
				continue
			}
			ss = append(ss, txt)
		}
		return strings.Join(ss, "; ")
	}
	fail("mem18: memtable.%s has no loop `%s`", fn, header)
	return "?"
}

// m18IfTexts: the if statements of fn (source order), as "cond { body }" on one line
func (p *pkg) m18IfTexts(fn string) []string {
	fd := p.findFunc(fn)
	if fd == nil {
		fail("mem18: function memtable.%s not found", fn)
		return nil
	}
	var out []string
	ast.Inspect(fd.Body, func(n ast.Node) bool {
		if is, ok := n.(*ast.IfStmt); ok {
			var ss []string
			for _, s := range is.Body.List {
				ss = append(ss, mem18Stmt(p, s))
			}
			out = append(out, exprString(is.Cond)+" { "+strings.Join(ss, "; ")+" }")
		}
		return true
	})
	return out
}

// m18FirstAssign: the right-hand side of the FIRST assignment (= or :=) whose left-hand side prints as lhs
func (p *pkg) m18FirstAssign(fn, lhs string) string {
	fd := p.findFunc(fn)
	if fd == nil {
		fail("mem18: function memtable.%s not found", fn)
		return "?"
	}
	res := "?"
	ast.Inspect(fd.Body, func(n ast.Node) bool {
		as, ok := n.(*ast.AssignStmt)
		if !ok || res != "?" {
			return true
		}
		for i, l := range as.Lhs {
			if exprString(l) == lhs && i < len(as.Rhs) && res == "?" {
				res = exprString(as.Rhs[i])
			}
		}
		return true
	})
	if res == "?" {
		fail("mem18: memtable.%s: no assignment to %s", fn, lhs)
	}
	return res
}

var mem18Compare, mem18Visible string

func extractMem18(repo string) {
	mt := P(repo, "pkg/memtable")
	f := func(k, v string) { F.Facts["mem18."+k] = v }

	// translated functions
	mem18Compare = translateGuardChain(mt, "entry.compareWithEntry", map[string]string{
		"e.key": "e.key", "other.key": "other.key", "e.seqNum": "e.seq", "other.seqNum": "other.seq"})
	mem18Visible = translateGuardChain(mt, "Iterator.isVisible", map[string]string{
		"it.snapshotSeq": "snap", "n.entry.seqNum": "seq"})
	f("compareWithEntry", mem18Compare)
	f("isVisible", mem18Visible)
	f("compare", strings.Join(mt.m18IfTexts("entry.compare"), " ; ")+"|"+func() string {
		fd := mt.findFunc("entry.compare")
		if fd == nil || len(fd.Body.List) != 1 {
			return "?"
		}
		return mem18Stmt(mt, fd.Body.List[0])
	}())

	// Insert: walk condition; the link loop goes up from level 0; inside it the node's own pointer is stored first
	f("Insert.loops", mt.m18LoopConds("SkipList.Insert"))
	f("Insert.link.body", mt.m18BodyOfLoop("SkipList.Insert", "level := 0; level < height; level++"))
	f("Insert.search.body", mt.m18BodyOfLoop("SkipList.Insert", "level := currHeight - 1; level >= 0; level--"))
	f("setNext", func() string {
		fd := mt.findFunc("node.setNext")
		if fd == nil || len(fd.Body.List) != 1 {
			return "?"
		}
		return mem18Stmt(mt, fd.Body.List[0])
	}())
	f("getNext", func() string {
		fd := mt.findFunc("node.getNext")
		if fd == nil || len(fd.Body.List) != 1 {
			return "?"
		}
		return mem18Stmt(mt, fd.Body.List[0])
	}())

	// Find / Seek / Next / SeekToFirst
	f("Find.loops", mt.m18LoopConds("SkipList.Find"))
	f("Find.ifs", strings.Join(mt.m18IfTexts("SkipList.Find"), " ; "))
	f("Find.candidate", mt.m18FirstAssign("SkipList.Find", "candidate"))
	f("Seek.loops", mt.m18LoopConds("Iterator.Seek"))
	f("Seek.landing", mt.m18FirstAssign("Iterator.Seek", "it.current"))
	f("Next.loops", mt.m18LoopConds("Iterator.Next"))
	f("Next.step", mt.m18FirstAssign("Iterator.Next", "it.current"))
	f("SeekToFirst.step", mt.m18FirstAssign("Iterator.SeekToFirst", "it.current"))
	f("Valid", func() string {
		fd := mt.findFunc("Iterator.Valid")
		if fd == nil || len(fd.Body.List) != 1 {
			return "?"
		}
		return mem18Stmt(mt, fd.Body.List[0])
	}())

	// MemTable: immutable guard before the insertion, nextSeqNum rule, iterator snapshot
	for _, fn := range []string{"Put", "Delete"} {
		f(fn+".order", mt.callOrder("MemTable."+fn, "mu.Lock", "IsImmutable", "newEntry", "skipList.Insert", "nextSeqNum.Load", "nextSeqNum.Store"))
		f(fn+".ifs", strings.Join(mt.m18IfTexts("MemTable."+fn), " ; "))
	}
	f("NewIterator.ifs", strings.Join(mt.m18IfTexts("MemTable.NewIterator"), " ; "))
	f("NewIterator.snapshot", mt.m18FirstAssign("MemTable.NewIterator", "snapshotSeq"))
	f("SetImmutable", func() string {
		fd := mt.findFunc("MemTable.SetImmutable")
		if fd == nil || len(fd.Body.List) != 1 {
			return "?"
		}
		return mem18Stmt(mt, fd.Body.List[0])
	}())

	// pool: lookup order, flush rule, switch
	f("Pool.Get.loops", mt.m18LoopConds("MemTablePool.Get"))
	f("Pool.Get.ifs", strings.Join(mt.m18IfTexts("MemTablePool.Get"), " ; "))
	f("Pool.flush.ifs", strings.Join(mt.m18IfTexts("MemTablePool.checkFlushConditionsLocked"), " ; "))
	f("Pool.Put.order", mt.callOrder("MemTablePool.Put", "mu.RLock", "active.Put", "checkFlushConditionsLocked"))
	f("Pool.Delete.order", mt.callOrder("MemTablePool.Delete", "mu.RLock", "active.Delete", "checkFlushConditionsLocked"))
	f("Pool.GetMemTables.order", mt.callOrder("MemTablePool.GetMemTables", "mu.RLock", "append"))

	// adapter
	f("SeekToLast.order", mt.callOrder("IteratorAdapter.SeekToLast", "iter.SeekToFirst", "iter.Valid", "iter.Key", "iter.Next", "iter.Seek"))
	f("Adapter.Next.ifs", strings.Join(mt.m18IfTexts("IteratorAdapter.Next"), " ; "))
}

func genMem18(dir string) {
	var sb strings.Builder
	sb.WriteString("-- GENERATED by kvfacts (extract/extract_memtable.go) from /repo's working tree on every run. Do not edit.\n")
	sb.WriteString("import Kevo.Model.Engine\nnamespace Kevo.Gen.MemTable\nopen Kevo Kevo.Engine\n\n")
	sb.WriteString("/-- pkg/memtable/skiplist.go: entry.compareWithEntry, translated statement by statement -/\n")
	fmt.Fprintf(&sb, "def compareWithEntry (e other : MEntry) : Int :=\n  %s\n\n", mem18Compare)
	sb.WriteString("/-- pkg/memtable/skiplist.go: Iterator.isVisible (snap = it.snapshotSeq, seq = n.entry.seqNum) -/\n")
	fmt.Fprintf(&sb, "def isVisible (snap seq : Nat) : Bool :=\n  %s\n\n", mem18Visible)
	landing := F.Facts["mem18.Seek.landing"]
	cand := F.Facts["mem18.Find.candidate"]
	rl := "true"
	switch {
	case landing == "current.getNext(0)" && cand == "current.getNext(0)":
		rl = "true"
	case landing == "next" && cand == "next":
		rl = "false"
	default:
		fail("mem18 translator: memtable Seek lands on `%s`, Find's candidate is `%s`: neither the re-loading nor the pointer-keeping variant", landing, cand)
	}
	sb.WriteString("/-- does Seek/Find load `current.getNext(0)` AGAIN after the search loop has ended (the variant `rl` of Kevo.Model.ConcSkipList) -/\n")
	fmt.Fprintf(&sb, "def seekReloads : Bool := %s\n", rl)
	fmt.Fprintf(&sb, "def maxHeight : Nat := %s\n", genConst("memtable.MaxHeight"))
	sb.WriteString("\nend Kevo.Gen.MemTable\n")
	writeIfChanged(filepath.Join(dir, "MemTable.lean"), sb.String())
}
