package main

// API table (C16, C19): one row per method of interfaces.Engine, per exported method of EngineFacade and per RPC of the
// KevoService descriptor, regenerated from the source on every run into lean/Kevo/Gen/Api.lean.
//
// For each method: the guards found at the top of its body in source order (everything before the first statement that
// calls a component), every component call of the body, the delegate operation and a classification computed by the
// explicit rule sets `classifyFacade` / `classifyService` below. A method the rules cannot place is `unknown`, which the
// theorems of Props/C16 and Props/C19 do not accept.

import (
	"fmt"
	"go/ast"
	"go/token"
	"path/filepath"
	"sort"
	"strings"
)

func init() {
	extractors = append(extractors, extractAPI)
	generators = append(generators, genAPI)
}

type apiRow struct {
	Layer      string
	Name       string
	Guards     []string // Lean terms
	LoopGuards []string
	Extra      []string // conditions before the delegate that are not guards of the model (nil checks, …)
	Calls      []string
	Kind       string
	Op         string
	Missing    bool
}

var apiFacade, apiService []*apiRow
var apiIface, apiDesc, apiServerIface []string

func apiRecvName(fd *ast.FuncDecl) (typ, ident string) {
	if fd.Recv == nil || len(fd.Recv.List) == 0 {
		return "", ""
	}
	t := fd.Recv.List[0].Type
	if st, ok := t.(*ast.StarExpr); ok {
		t = st.X
	}
	if id, ok := t.(*ast.Ident); ok {
		typ = id.Name
	}
	if len(fd.Recv.List[0].Names) > 0 {
		ident = fd.Recv.List[0].Names[0].Name
	}
	return
}

func (p *pkg) methodsOf(recv string) []*ast.FuncDecl {
	var out []*ast.FuncDecl
	for _, fn := range sortedKeys(p.files) {
		for _, d := range p.files[fn].Decls {
			if fd, ok := d.(*ast.FuncDecl); ok && fd.Body != nil {
				if t, _ := apiRecvName(fd); t == recv && ast.IsExported(fd.Name.Name) {
					out = append(out, fd)
				}
			}
		}
	}
	sort.Slice(out, func(i, j int) bool { return out[i].Name.Name < out[j].Name.Name })
	return out
}

func (p *pkg) interfaceMethods(name string) []string {
	var out []string
	for _, fn := range sortedKeys(p.files) {
		ast.Inspect(p.files[fn], func(n ast.Node) bool {
			ts, ok := n.(*ast.TypeSpec)
			if !ok || ts.Name.Name != name {
				return true
			}
			it, ok := ts.Type.(*ast.InterfaceType)
			if !ok {
				return true
			}
			for _, m := range it.Methods.List {
				for _, id := range m.Names {
					if ast.IsExported(id.Name) {
						out = append(out, id.Name)
					}
				}
				if len(m.Names) == 0 { // embedded interface: record it so that the list changes
					out = append(out, "embedded:"+exprString(m.Type))
				}
			}
			return false
		})
	}
	return out
}

// descriptorNames: MethodName / StreamName literals of `var <name> = grpc.ServiceDesc{…}`
func (p *pkg) descriptorNames(name string) []string {
	var out []string
	for _, fn := range sortedKeys(p.files) {
		ast.Inspect(p.files[fn], func(n ast.Node) bool {
			vs, ok := n.(*ast.ValueSpec)
			if !ok || len(vs.Names) != 1 || vs.Names[0].Name != name {
				return true
			}
			ast.Inspect(vs, func(m ast.Node) bool {
				kv, ok := m.(*ast.KeyValueExpr)
				if !ok {
					return true
				}
				if id, ok := kv.Key.(*ast.Ident); ok && (id.Name == "MethodName" || id.Name == "StreamName") {
					if bl, ok := kv.Value.(*ast.BasicLit); ok {
						out = append(out, strings.Trim(bl.Value, `"`))
					}
				}
				return true
			})
			return false
		})
	}
	return out
}

// ---- calls ----

// componentCall maps a call expression to the component call text the rule sets speak about ("" = not one)
func componentCall(ce *ast.CallExpr, recv string, layer string) string {
	s := exprString(ce.Fun)
	if layer == "facade" {
		pre := recv + "."
		if !strings.HasPrefix(s, pre) {
			if strings.HasPrefix(s, "provider.") { // the type-asserted storage in GetWAL
				return s
			}
			return ""
		}
		s = s[len(pre):]
		if strings.HasPrefix(s, "stats.Track") {
			return ""
		}
		if !strings.Contains(s, ".") {
			return "self." + s // a call of another facade method
		}
		return s
	}
	// service
	switch {
	case strings.HasPrefix(s, recv+".engine.("):
		return ""
	case strings.HasPrefix(s, recv+".engine."):
		name := "engine." + s[len(recv)+8:]
		if name == "engine.BeginTransaction" && len(ce.Args) == 1 {
			name += "(" + exprString(ce.Args[0]) + ")"
		}
		return name
	case strings.HasPrefix(s, recv+".txRegistry.") && !strings.HasPrefix(s, recv+".txRegistry.("):
		return "txRegistry." + s[len(recv)+12:]
	case strings.HasPrefix(s, recv+".replicationManager."):
		return "replicationManager." + s[len(recv)+20:]
	case strings.HasPrefix(s, "tx."), strings.HasPrefix(s, "iter."), strings.HasPrefix(s, "stream."), strings.HasPrefix(s, "filtered."),
		strings.HasPrefix(s, "cleaner."), strings.HasPrefix(s, "registry."), strings.HasPrefix(s, "storageManager."),
		strings.HasPrefix(s, "statsProvider."), strings.HasPrefix(s, "collector."), strings.HasPrefix(s, "baseIter."), strings.HasPrefix(s, "prefixIter."):
		return s
	case strings.HasPrefix(s, recv+".") && !strings.Contains(s[len(recv)+1:], "."):
		return "self." + s[len(recv)+1:]
	}
	return ""
}

func callsIn(n ast.Node, recv, layer string) []string {
	var out []string
	if n == nil {
		return nil
	}
	ast.Inspect(n, func(m ast.Node) bool {
		if ce, ok := m.(*ast.CallExpr); ok {
			if c := componentCall(ce, recv, layer); c != "" {
				out = append(out, c)
			}
		}
		return true
	})
	return out
}

func hasReturn(b *ast.BlockStmt) bool {
	for _, s := range b.List {
		if _, ok := s.(*ast.ReturnStmt); ok {
			return true
		}
	}
	return false
}

func uniq(xs []string) []string {
	seen := map[string]bool{}
	var out []string
	for _, x := range xs {
		if !seen[x] {
			seen[x] = true
			out = append(out, x)
		}
	}
	return out
}

// ---- size-limit conditions of the service ----

// sizeGuard recognises `len(X.Key) == 0 || len(X.Key) > s.F`, `len(X.Value) > s.F`, `len(req.Operations) == 0`,
// `len(req.Operations) > s.F`. Returns the Lean guard term.
func sizeGuard(cond ast.Expr, recv string, limits map[string]string) string {
	c := exprString(cond)
	lim := func(field string) string {
		v, ok := limits[field]
		if !ok {
			fail("api: service limit field %s not initialised by a constant", field)
			return "0"
		}
		return v
	}
	for _, x := range []string{"req", "op"} {
		if c == fmt.Sprintf("len(%s.Key) == 0 || len(%s.Key) > %s.maxKeySize", x, x, recv) {
			return "(.keySize " + lim("maxKeySize") + ")"
		}
		if c == fmt.Sprintf("len(%s.Value) > %s.maxValueSize", x, recv) {
			return "(.valueSize " + lim("maxValueSize") + ")"
		}
	}
	if c == "len(req.Operations) == 0" {
		return ".batchEmpty"
	}
	if c == fmt.Sprintf("len(req.Operations) > %s.maxBatchSize", recv) {
		return "(.batchSize " + lim("maxBatchSize") + ")"
	}
	return ""
}

// ---- rows ----

func isFlagLoad(c string) bool { return c == "closed.Load" || c == "readOnly.Load" }

func facadeRow(fd *ast.FuncDecl) *apiRow {
	_, recv := apiRecvName(fd)
	r := &apiRow{Layer: "facade", Name: fd.Name.Name}
	inGuards := true
	for _, st := range fd.Body.List {
		if inGuards {
			if is, ok := st.(*ast.IfStmt); ok && is.Init == nil && is.Else == nil {
				cond := exprString(is.Cond)
				switch {
				case cond == recv+".closed.Load()" && hasReturn(is.Body):
					r.Guards = append(r.Guards, ".closed")
					continue
				case cond == recv+".readOnly.Load()" && hasReturn(is.Body):
					r.Guards = append(r.Guards, ".readOnly")
					continue
				case cond == recv+".readOnly.Load()" && len(is.Body.List) == 1 && exprString2(is.Body.List[0]) == "readOnly = true":
					r.Guards = append(r.Guards, ".downgrade")
					continue
				}
				cs := callsIn(is, recv, "facade")
				real := false
				for _, c := range cs {
					if !isFlagLoad(c) {
						real = true
					}
				}
				if !real {
					r.Extra = append(r.Extra, cond)
					continue
				}
			}
			cs := callsIn(st, recv, "facade")
			if len(cs) > 0 {
				inGuards = false
			}
		}
		r.Calls = append(r.Calls, callsIn(st, recv, "facade")...)
		// `return e.<field>`: hands a component out
		if rs, ok := st.(*ast.ReturnStmt); ok {
			for _, res := range rs.Results {
				if se, ok := res.(*ast.SelectorExpr); ok {
					if id, ok := se.X.(*ast.Ident); ok && id.Name == recv {
						r.Calls = append(r.Calls, "field:"+se.Sel.Name)
					}
				}
			}
		}
	}
	r.Calls = uniq(r.Calls)
	classifyFacade(r)
	return r
}

func exprString2(s ast.Stmt) string {
	if as, ok := s.(*ast.AssignStmt); ok && len(as.Lhs) == 1 && len(as.Rhs) == 1 && as.Tok == token.ASSIGN {
		return exprString(as.Lhs[0]) + " = " + exprString(as.Rhs[0])
	}
	return ""
}

func subset(xs []string, set map[string]bool) bool {
	for _, x := range xs {
		if !set[x] {
			return false
		}
	}
	return true
}

func setOf(xs ...string) map[string]bool {
	m := map[string]bool{}
	for _, x := range xs {
		m[x] = true
	}
	return m
}

var facMutating = map[string]string{"storage.Put": ".storagePut", "storage.Delete": ".storageDelete", "storage.ApplyBatch": ".storageApplyBatch"}
var facReading = map[string]string{"storage.Get": ".storageGet", "storage.IsDeleted": ".storageIsDeleted", "storage.GetIterator": ".storageIter",
	"storage.GetRangeIterator": ".storageRangeIter"}
var facAdmin = setOf("storage.FlushMemTables", "compaction.TriggerCompaction", "compaction.CompactRange", "compaction.GetCompactionStats",
	"stats.GetStats", "storage.GetStorageStats", "txManager.GetTransactionStats", "closed.Load", "closed.Swap", "compaction.Stop",
	"storage.Close", "readOnly.Load")
var facAccess = setOf("readOnly.Store", "provider.GetWAL", "field:txManager", "txManager.GetRWLock", "txManager.IncrementTxCompleted",
	"txManager.IncrementTxAborted")

// classifyFacade — THE RULE SET for EngineFacade methods (first rule that applies):
//  1. the body calls storage.Put / Delete / ApplyBatch          -> mutator: `internalMutator` if the name ends in "Internal"
//     (replication path), else `clientMutator`
//  2. it calls txManager.BeginTransaction                       -> txBegin
//  3. it calls a storage read (Get, IsDeleted, Get[Range]Iterator) and nothing outside the read set -> reader
//  4. all its calls are maintenance / statistics / flag reads   -> admin
//  5. all its calls hand out or switch replication internals    -> internalAccess
//  6. otherwise                                                 -> unknown
func classifyFacade(r *apiRow) {
	r.Kind, r.Op = ".unknown", ".other"
	var calls []string
	for _, c := range r.Calls {
		if !strings.HasPrefix(c, "compaction.TrackTombstone") {
			calls = append(calls, c)
		}
	}
	for _, c := range calls {
		if op, ok := facMutating[c]; ok {
			r.Op = op
			if strings.HasSuffix(r.Name, "Internal") {
				r.Kind = ".internalMutator"
			} else {
				r.Kind = ".clientMutator"
			}
			return
		}
	}
	for _, c := range calls {
		if c == "txManager.BeginTransaction" {
			r.Kind, r.Op = ".txBegin", ".txBegin"
			return
		}
	}
	readSet := map[string]bool{}
	for k := range facReading {
		readSet[k] = true
	}
	if len(calls) > 0 && subset(calls, readSet) {
		r.Kind, r.Op = ".reader", facReading[calls[0]]
		return
	}
	if len(calls) > 0 && subset(calls, facAdmin) {
		r.Kind, r.Op = ".admin", ".noData"
		switch {
		case calls[0] == "storage.FlushMemTables":
			r.Op = ".storageFlush"
		case calls[0] == "closed.Swap":
			r.Op = ".close"
		case len(calls) == 1 && calls[0] == "readOnly.Load":
			r.Op = ".isReadOnly"
		}
		return
	}
	if len(calls) > 0 && subset(calls, facAccess) {
		r.Kind, r.Op = ".internalAccess", ".noData"
		if calls[0] == "readOnly.Store" {
			r.Op = ".setReadOnly"
		}
		return
	}
}

func serviceRow(fd *ast.FuncDecl, limits map[string]string) *apiRow {
	_, recv := apiRecvName(fd)
	r := &apiRow{Layer: "service", Name: fd.Name.Name}
	inGuards := true
	pendingHandle := false
	for _, st := range fd.Body.List {
		if inGuards {
			// tx, exists := s.txRegistry.Get(req.TransactionId) ; if !exists { return … }
			if as, ok := st.(*ast.AssignStmt); ok && len(as.Rhs) == 1 {
				if ce, ok := as.Rhs[0].(*ast.CallExpr); ok && componentCall(ce, recv, "service") == "txRegistry.Get" && len(as.Lhs) == 2 {
					pendingHandle = true
					r.Calls = append(r.Calls, "txRegistry.Get")
					continue
				}
			}
			if is, ok := st.(*ast.IfStmt); ok && is.Init == nil && is.Else == nil {
				cond := exprString(is.Cond)
				switch {
				case pendingHandle && cond == "!exists" && hasReturn(is.Body):
					r.Guards = append(r.Guards, ".handle")
					pendingHandle = false
					continue
				case cond == "tx.IsReadOnly()" && hasReturn(is.Body):
					r.Guards = append(r.Guards, ".txWritable")
					continue
				case cond == recv+".replicationManager == nil" && hasReturn(is.Body):
					r.Guards = append(r.Guards, ".noManager")
					continue
				}
				if g := sizeGuard(is.Cond, recv, limits); g != "" && hasReturn(is.Body) {
					r.Guards = append(r.Guards, g)
					continue
				}
				if len(callsIn(is, recv, "service")) == 0 {
					if hasReturn(is.Body) {
						r.Extra = append(r.Extra, cond)
					}
					continue
				}
			}
			if len(callsIn(st, recv, "service")) > 0 {
				inGuards = false
			}
		}
		r.Calls = append(r.Calls, callsIn(st, recv, "service")...)
		// guards inside the per-operation loop
		if rs, ok := st.(*ast.RangeStmt); ok && exprString(rs.X) == "req.Operations" {
			ast.Inspect(rs.Body, func(n ast.Node) bool {
				if is, ok := n.(*ast.IfStmt); ok && is.Init == nil {
					if g := sizeGuard(is.Cond, recv, limits); g != "" {
						r.LoopGuards = append(r.LoopGuards, g)
					}
				}
				return true
			})
		}
	}
	r.Calls = uniq(r.Calls)
	classifyService(r)
	return r
}

var svcReaderExtras = setOf("tx.Rollback", "txRegistry.Get", "stream.Send", "storageManager.GetStorageStats", "statsProvider.GetStatsProvider",
	"collector.GetStats", "tx.Get", "tx.NewIterator", "tx.NewRangeIterator", "engine.Get", "engine.BeginTransaction(true)",
	"filtered.NewPrefixIterator", "filtered.NewSuffixIterator", "iter.SeekToFirst", "iter.Valid", "iter.IsTombstone", "iter.Key", "iter.Value", "iter.Next")

func has(xs []string, x string) bool {
	for _, y := range xs {
		if x == y {
			return true
		}
	}
	return false
}

// classifyService — THE RULE SET for KevoServiceServer handlers (first rule that applies):
//  1. calls engine.Put / Delete / ApplyBatch, or opens a read-write transaction itself (engine.BeginTransaction(false)) -> clientMutator
//  2. calls txRegistry.Begin                                                       -> txBegin
//  3. commits or rolls back a transaction taken from the registry: txFinish if it also calls txRegistry.Remove, else unknown
//  4. calls tx.Put / tx.Delete on a transaction taken from the registry            -> txWrite
//  5. reads (engine.Get, tx.Get, iterators, a read-only transaction of its own) and nothing outside the read set -> reader
//  6. only asks the replication manager for node information                       -> admin
//  7. otherwise                                                                     -> unknown
func classifyService(r *apiRow) {
	r.Kind, r.Op = ".unknown", ".handler"
	c := r.Calls
	switch {
	case has(c, "engine.Put") || has(c, "engine.Delete") || has(c, "engine.ApplyBatch") || has(c, "engine.BeginTransaction(false)"):
		r.Kind = ".clientMutator"
	case has(c, "txRegistry.Begin"):
		r.Kind = ".txBegin"
	case (has(c, "tx.Commit") || has(c, "tx.Rollback")) && has(c, "txRegistry.Get") && !has(c, "engine.BeginTransaction(true)"):
		if has(c, "txRegistry.Remove") && !has(c, "tx.Put") && !has(c, "tx.Delete") {
			r.Kind = ".txFinish"
		}
	case has(c, "tx.Put") || has(c, "tx.Delete"):
		if has(c, "txRegistry.Get") {
			r.Kind = ".txWrite"
		}
	case len(c) > 0 && subset(c, svcReaderExtras) && (has(c, "engine.Get") || has(c, "tx.Get") || has(c, "tx.NewIterator")):
		r.Kind = ".reader"
	case len(c) == 1 && c[0] == "replicationManager.GetNodeInfo":
		r.Kind = ".admin"
	}
}

// scanShape: the option chain and where the result counter is advanced
func scanShape(fd *ast.FuncDecl) (branches, count string) {
	var conds []string
	ast.Inspect(fd.Body, func(n ast.Node) bool {
		is, ok := n.(*ast.IfStmt)
		if !ok || !strings.Contains(exprString(is.Cond), "req.Prefix") || len(conds) > 0 {
			return true
		}
		for cur := is; cur != nil; {
			conds = append(conds, exprString(cur.Cond))
			switch e := cur.Else.(type) {
			case *ast.IfStmt:
				cur = e
			case *ast.BlockStmt:
				conds = append(conds, "else")
				cur = nil
			default:
				cur = nil
			}
		}
		return false
	})
	count = "not-found"
	ast.Inspect(fd.Body, func(n ast.Node) bool {
		fs, ok := n.(*ast.ForStmt)
		if !ok || exprString(fs.Cond) != "iter.Valid()" {
			return true
		}
		var order []string
		for _, st := range fs.Body.List {
			switch s := st.(type) {
			case *ast.IfStmt:
				c := exprString(s.Cond)
				inc := false
				ast.Inspect(s.Body, func(m ast.Node) bool {
					if id, ok := m.(*ast.IncDecStmt); ok && exprString(id.X) == "count" {
						inc = true
					}
					return true
				})
				if _, isBreak := firstStmt(s.Body).(*ast.BranchStmt); isBreak {
					order = append(order, "if "+c+" break")
				} else if inc {
					order = append(order, "if "+c+" {send; count++}")
				} else {
					order = append(order, "if "+c)
				}
			case *ast.IncDecStmt:
				order = append(order, exprString(s.X)+"++")
			case *ast.ExprStmt:
				order = append(order, exprString(s.X))
			}
		}
		count = strings.Join(order, " ; ")
		return false
	})
	return strings.Join(conds, " | "), count
}

func firstStmt(b *ast.BlockStmt) ast.Stmt {
	if len(b.List) == 0 {
		return nil
	}
	return b.List[0]
}

func rowFact(r *apiRow) string {
	if r.Missing {
		return "missing"
	}
	s := fmt.Sprintf("guards=[%s] kind=%s op=%s calls=[%s]", strings.Join(r.Guards, " "), r.Kind, r.Op, strings.Join(r.Calls, " "))
	if len(r.LoopGuards) > 0 {
		s += " loop=[" + strings.Join(r.LoopGuards, " ") + "]"
	}
	if len(r.Extra) > 0 {
		s += " extra=[" + strings.Join(r.Extra, " ; ") + "]"
	}
	return s
}

func extractAPI(repo string) {
	apiFacade, apiService = nil, nil
	ifp := P(repo, "pkg/engine/interfaces")
	apiIface = ifp.interfaceMethods("Engine")
	if len(apiIface) == 0 {
		fail("api: interfaces.Engine not found")
	}
	F.Facts["api.iface.methods"] = strings.Join(apiIface, ",")

	ep := P(repo, "pkg/engine")
	var names []string
	for _, fd := range ep.methodsOf("EngineFacade") {
		r := facadeRow(fd)
		apiFacade = append(apiFacade, r)
		names = append(names, r.Name)
		F.Facts["api.facade."+r.Name] = rowFact(r)
	}
	F.Facts["api.facade.methods"] = strings.Join(names, ",")

	pp := P(repo, "proto/kevo")
	apiDesc = pp.descriptorNames("KevoService_ServiceDesc")
	apiServerIface = nil
	for _, m := range pp.interfaceMethods("KevoServiceServer") {
		apiServerIface = append(apiServerIface, m)
	}
	if len(apiDesc) == 0 || len(apiServerIface) == 0 {
		fail("api: KevoService descriptor / server interface not found")
	}
	sortedDesc := append([]string{}, apiDesc...)
	sort.Strings(sortedDesc)
	sortedIf := append([]string{}, apiServerIface...)
	sort.Strings(sortedIf)
	F.Facts["api.rpc.descriptor"] = strings.Join(sortedDesc, ",")
	F.Facts["api.rpc.serverInterface"] = strings.Join(sortedIf, ",")

	sp := P(repo, "pkg/grpc/service")
	limits := map[string]string{}
	for _, f := range []string{"maxKeySize", "maxValueSize", "maxBatchSize"} {
		v := sp.fieldInit("NewKevoServiceServer", f)
		limits[f] = v
		F.Consts["service."+f] = v
	}
	handlers := map[string]*ast.FuncDecl{}
	for _, fd := range sp.methodsOf("KevoServiceServer") {
		handlers[fd.Name.Name] = fd
	}
	// rows: every RPC of the descriptor and of the server interface (a handler that is not an RPC is not a row)
	all := uniq(append(append([]string{}, sortedDesc...), sortedIf...))
	sort.Strings(all)
	for _, name := range all {
		fd, ok := handlers[name]
		if !ok {
			r := &apiRow{Layer: "service", Name: name, Kind: ".unknown", Op: ".other", Missing: true}
			apiService = append(apiService, r)
			F.Facts["api.svc."+name] = rowFact(r)
			continue
		}
		r := serviceRow(fd, limits)
		apiService = append(apiService, r)
		F.Facts["api.svc."+name] = rowFact(r)
		if name == "Scan" || name == "TxScan" {
			b, c := scanShape(fd)
			F.Facts["api.svc."+name+".branches"] = b
			F.Facts["api.svc."+name+".loop"] = c
		}
	}
	// which grpc server options the shipped server sets (message size limits)
	cp := P(repo, "cmd/kevo")
	var opts []string
	if fd := cp.findFunc("Server.Start"); fd != nil {
		ast.Inspect(fd.Body, func(n ast.Node) bool {
			if ce, ok := n.(*ast.CallExpr); ok {
				s := exprString(ce.Fun)
				if strings.HasPrefix(s, "grpc.") && s != "grpc.NewServer" {
					opts = append(opts, s)
				}
			}
			return true
		})
	}
	sort.Strings(opts)
	F.Facts["api.server.grpcOptions"] = strings.Join(uniq(opts), ",")

	tbl := []map[string]any{}
	for _, r := range append(append([]*apiRow{}, apiFacade...), apiService...) {
		tbl = append(tbl, map[string]any{"layer": r.Layer, "name": r.Name, "guards": r.Guards, "loopGuards": r.LoopGuards, "kind": r.Kind,
			"op": r.Op, "calls": r.Calls, "extra": r.Extra})
	}
	F.Tables["api"] = tbl
}

// ---- Lean ----

func leanList(xs []string, quote bool) string {
	var ys []string
	for _, x := range xs {
		if quote {
			ys = append(ys, fmt.Sprintf("%q", x))
		} else {
			ys = append(ys, x)
		}
	}
	return "[" + strings.Join(ys, ", ") + "]"
}

func leanRowName(r *apiRow) string {
	if r.Layer == "facade" {
		return "f_" + r.Name
	}
	return "s_" + r.Name
}

func genAPI(dir string) {
	var sb strings.Builder
	sb.WriteString("-- GENERATED by kvfacts (extract/extract_api.go) from /repo's working tree on every run. Do not edit.\n")
	sb.WriteString("-- One row per exported method of engine.EngineFacade and per RPC of the KevoService descriptor.\n")
	sb.WriteString("import Kevo.Model.Service\nnamespace Kevo.Gen\nopen Kevo.Service\n\n")
	fmt.Fprintf(&sb, "/-- methods of interfaces.Engine -/\ndef ifaceMethods : List String := %s\n\n", leanList(apiIface, true))
	fmt.Fprintf(&sb, "/-- MethodName / StreamName entries of KevoService_ServiceDesc -/\ndef rpcDescriptor : List String := %s\n", leanList(apiDesc, true))
	fmt.Fprintf(&sb, "/-- methods of the generated KevoServiceServer interface -/\ndef rpcServerInterface : List String := %s\n\n", leanList(apiServerIface, true))
	fmt.Fprintf(&sb, "def limits : Limits := { maxKey := %s, maxValue := %s, maxBatch := %s }\n\n", genConst("service.maxKeySize"),
		genConst("service.maxValueSize"), genConst("service.maxBatchSize"))
	known := map[string]bool{}
	for _, r := range append(append([]*apiRow{}, apiFacade...), apiService...) {
		layer := ".facade"
		if r.Layer == "service" {
			layer = ".service"
		}
		known[leanRowName(r)] = true
		if r.Missing {
			fmt.Fprintf(&sb, "def %s : Row := missingRow %s %q\n", leanRowName(r), layer, r.Name)
			continue
		}
		fmt.Fprintf(&sb, "def %s : Row :=\n  { layer := %s, name := %q, guards := %s, loopGuards := %s, kind := %s, op := %s,\n    calls := %s }\n",
			leanRowName(r), layer, r.Name, leanList(r.Guards, false), leanList(r.LoopGuards, false), r.Kind, r.Op, leanList(r.Calls, true))
	}
	var fn, sn []string
	for _, r := range apiFacade {
		fn = append(fn, leanRowName(r))
	}
	for _, r := range apiService {
		sn = append(sn, leanRowName(r))
	}
	fmt.Fprintf(&sb, "\ndef facadeTable : List Row := %s\n", leanList(fn, false))
	fmt.Fprintf(&sb, "def serviceTable : List Row := %s\n", leanList(sn, false))
	sb.WriteString("def apiTable : List Row := facadeTable ++ serviceTable\n\n")
	// the rows the model refers to by name; a method that no longer exists becomes a row of kind `unknown`
	pick := func(layer, name string) string {
		n := "f_" + name
		l := ".facade"
		if layer == "service" {
			n, l = "s_"+name, ".service"
		}
		if known[n] {
			return n
		}
		return fmt.Sprintf("(missingRow %s %q)", l, name)
	}
	fields := [][3]string{{"fPut", "facade", "Put"}, {"fDelete", "facade", "Delete"}, {"fGet", "facade", "Get"}, {"fApplyBatch", "facade", "ApplyBatch"},
		{"fBegin", "facade", "BeginTransaction"}, {"fPutInternal", "facade", "PutInternal"}, {"fDeleteInternal", "facade", "DeleteInternal"},
		{"fApplyBatchInternal", "facade", "ApplyBatchInternal"}, {"fIsDeleted", "facade", "IsDeleted"}, {"fIter", "facade", "GetIterator"},
		{"fRangeIter", "facade", "GetRangeIterator"}, {"fFlush", "facade", "FlushImMemTables"}, {"fIsReadOnly", "facade", "IsReadOnly"},
		{"fSetReadOnly", "facade", "SetReadOnly"}, {"fClose", "facade", "Close"},
		{"sGet", "service", "Get"}, {"sPut", "service", "Put"}, {"sDelete", "service", "Delete"}, {"sBatchWrite", "service", "BatchWrite"},
		{"sScan", "service", "Scan"}, {"sBegin", "service", "BeginTransaction"}, {"sCommit", "service", "CommitTransaction"},
		{"sRollback", "service", "RollbackTransaction"}, {"sTxGet", "service", "TxGet"}, {"sTxPut", "service", "TxPut"},
		{"sTxDelete", "service", "TxDelete"}, {"sTxScan", "service", "TxScan"}, {"sGetStats", "service", "GetStats"},
		{"sCompact", "service", "Compact"}, {"sGetNodeInfo", "service", "GetNodeInfo"}}
	var fs []string
	for _, f := range fields {
		fs = append(fs, fmt.Sprintf("%s := %s", f[0], pick(f[1], f[2])))
	}
	fmt.Fprintf(&sb, "def rows : Rows :=\n  { %s }\n\n", strings.Join(fs, ",\n    "))
	sb.WriteString("end Kevo.Gen\n")
	writeIfChanged(filepath.Join(dir, "Api.lean"), sb.String())
}
