package main

// facts of the scan path (C05): order of the sources handed to the hierarchical iterator, comparison operators of
// the bound check and of the merge loops, which iterator the service builds for which option combination.

import (
	"go/ast"
	"go/token"
	"strings"
)

func init() {
	extractors = append(extractors, extractIter)
}

// appendShape: every `dst = append(dst, X...)` in fn, in source order, with the enclosing for/if header.
func (p *pkg) appendShape(fn, dst string) string {
	fd := p.findFunc(fn)
	if fd == nil {
		fail("iter: function %s.%s not found", p.name, fn)
		return "?"
	}
	var out []string
	var walk func(n ast.Node, ctx string)
	walk = func(n ast.Node, ctx string) {
		switch s := n.(type) {
		case *ast.BlockStmt:
			for _, st := range s.List {
				walk(st, ctx)
			}
		case *ast.IfStmt:
			walk(s.Body, "if "+exprString(s.Cond))
			if s.Else != nil {
				walk(s.Else, "else")
			}
		case *ast.ForStmt:
			h := "for "
			if as, ok := s.Init.(*ast.AssignStmt); ok && len(as.Lhs) == 1 && len(as.Rhs) == 1 {
				h += exprString(as.Lhs[0]) + " := " + exprString(as.Rhs[0])
			}
			h += "; "
			if s.Cond != nil {
				h += exprString(s.Cond)
			}
			h += "; "
			if ids, ok := s.Post.(*ast.IncDecStmt); ok {
				h += exprString(ids.X) + ids.Tok.String()
			}
			walk(s.Body, h)
		case *ast.RangeStmt:
			walk(s.Body, "range "+exprString(s.X))
		case *ast.AssignStmt:
			if len(s.Lhs) == 1 && len(s.Rhs) == 1 && exprString(s.Lhs[0]) == dst {
				if ce, ok := s.Rhs[0].(*ast.CallExpr); ok && exprString(ce.Fun) == "append" && len(ce.Args) >= 2 {
					var args []string
					for _, a := range ce.Args[1:] {
						args = append(args, exprString(a))
					}
					ell := ""
					if ce.Ellipsis != token.NoPos {
						ell = "..."
					}
					c := ctx
					if c != "" {
						c += ": "
					}
					out = append(out, c+strings.Join(args, ", ")+ell)
				}
			}
		}
	}
	walk(fd.Body, "")
	if len(out) == 0 {
		fail("iter: %s.%s: no append to %s", p.name, fn, dst)
		return "?"
	}
	return strings.Join(out, " | ")
}

// compareOps: every comparison `bytes.Compare(..) <op> 0` / `bytes.Equal(..)` in fn, in source order.
func (p *pkg) compareOps(fn string) string {
	fd := p.findFunc(fn)
	if fd == nil {
		fail("iter: function %s.%s not found", p.name, fn)
		return "?"
	}
	var out []string
	ast.Inspect(fd.Body, func(n ast.Node) bool {
		switch e := n.(type) {
		case *ast.BinaryExpr:
			if ce, ok := e.X.(*ast.CallExpr); ok && exprString(ce.Fun) == "bytes.Compare" {
				out = append(out, exprString(e))
			}
		case *ast.CallExpr:
			if exprString(e.Fun) == "bytes.Equal" {
				out = append(out, exprString(e))
			}
		}
		return true
	})
	if len(out) == 0 {
		fail("iter: %s.%s: no comparisons", p.name, fn)
		return "?"
	}
	return strings.Join(out, " ; ")
}

// ifChain: conditions of the longest if / else-if chain in fn, with the callee of the first call assigned or
// made in each branch.
func (p *pkg) ifChain(fn string) string {
	fd := p.findFunc(fn)
	if fd == nil {
		fail("iter: function %s.%s not found", p.name, fn)
		return "?"
	}
	best := []string{}
	ast.Inspect(fd.Body, func(n ast.Node) bool {
		is, ok := n.(*ast.IfStmt)
		if !ok {
			return true
		}
		var chain []string
		var cur ast.Stmt = is
		for cur != nil {
			switch s := cur.(type) {
			case *ast.IfStmt:
				chain = append(chain, exprString(s.Cond)+" => "+branchCalls(s.Body))
				cur = s.Else
			case *ast.BlockStmt:
				chain = append(chain, "else => "+branchCalls(s))
				cur = nil
			default:
				cur = nil
			}
		}
		if len(chain) > len(best) {
			best = chain
		}
		return true
	})
	if len(best) < 3 {
		fail("iter: %s.%s: no if/else-if chain", p.name, fn)
		return "?"
	}
	return strings.Join(best, " | ")
}

func branchCalls(b *ast.BlockStmt) string {
	var out []string
	ast.Inspect(b, func(n ast.Node) bool {
		if ce, ok := n.(*ast.CallExpr); ok {
			name := exprString(ce.Fun)
			if strings.Contains(name, "Iterator") {
				var args []string
				for _, a := range ce.Args {
					args = append(args, exprString(a))
				}
				out = append(out, name+"("+strings.Join(args, ",")+")")
				return false
			}
		}
		return true
	})
	return strings.Join(out, ",")
}

// hierArgs: the element list of the slice literal passed to composite.NewHierarchicalIterator in fn (all calls).
func (p *pkg) hierArgs(fn string) string {
	fd := p.findFunc(fn)
	if fd == nil {
		fail("iter: function %s.%s not found", p.name, fn)
		return "?"
	}
	var out []string
	ast.Inspect(fd.Body, func(n ast.Node) bool {
		ce, ok := n.(*ast.CallExpr)
		if !ok || exprString(ce.Fun) != "composite.NewHierarchicalIterator" || len(ce.Args) != 1 {
			return true
		}
		if cl, ok := ce.Args[0].(*ast.CompositeLit); ok {
			var el []string
			for _, e := range cl.Elts {
				el = append(el, exprString(e))
			}
			out = append(out, strings.Join(el, ", "))
		} else {
			out = append(out, exprString(ce.Args[0]))
		}
		return true
	})
	if len(out) == 0 {
		fail("iter: %s.%s: no composite.NewHierarchicalIterator call", p.name, fn)
		return "?"
	}
	return strings.Join(out, " | ")
}

// incdecGuard: the condition of the innermost `if` that encloses `<name>++` in fn ("-" when unguarded).
func (p *pkg) incdecGuard(fn, name string) string {
	fd := p.findFunc(fn)
	if fd == nil {
		fail("iter: function %s.%s not found", p.name, fn)
		return "?"
	}
	res := "?"
	var walk func(n ast.Node, guard string)
	walk = func(n ast.Node, guard string) {
		ast.Inspect(n, func(m ast.Node) bool {
			switch s := m.(type) {
			case *ast.IfStmt:
				if m == n {
					return true
				}
				walk(s.Body, exprString(s.Cond))
				if s.Else != nil {
					walk(s.Else, "else of "+exprString(s.Cond))
				}
				return false
			case *ast.IncDecStmt:
				if exprString(s.X) == name && s.Tok == token.INC && res == "?" {
					res = guard
				}
			}
			return true
		})
	}
	walk(fd.Body, "-")
	if res == "?" {
		fail("iter: %s.%s: no %s++", p.name, fn, name)
	}
	return res
}

func extractIter(repo string) {
	f := P(repo, "pkg/engine/iterator")
	F.Facts["iter.createBaseIterator.sources"] = f.appendShape("Factory.createBaseIterator", "iterators")
	F.Facts["iter.CreateRangeIterator.wrap"] = f.callOrder("Factory.CreateRangeIterator", "createBaseIterator", "bounded.NewBoundedIterator")
	mt := P(repo, "pkg/memtable")
	F.Facts["iter.GetMemTables.order"] = mt.appendShape("MemTablePool.GetMemTables", "result")
	F.Facts["iter.memadapter.SeekToLast"] = mt.callOrder("IteratorAdapter.SeekToLast", "iter.SeekToFirst", "iter.Next", "iter.Seek")
	sm := P(repo, "pkg/engine/storage")
	F.Facts["iter.storage.GetIterator"] = sm.callOrder("Manager.GetIterator", "mu.RLock", "memTablePool.GetMemTables", "factory.CreateIterator")
	F.Facts["iter.storage.GetRangeIterator"] = sm.callOrder("Manager.GetRangeIterator", "mu.RLock", "memTablePool.GetMemTables", "factory.CreateRangeIterator")
	tx := P(repo, "pkg/transaction")
	F.Facts["iter.tx.NewIterator.sources"] = tx.hierArgs("TransactionImpl.NewIterator")
	F.Facts["iter.tx.NewRangeIterator.sources"] = tx.hierArgs("TransactionImpl.NewRangeIterator")
	F.Facts["iter.tx.NewRangeIterator.order"] = tx.callOrder("TransactionImpl.NewRangeIterator", "storage.GetRangeIterator", "buffer.Size", "buffer.NewIterator", "bounded.NewBoundedIterator", "composite.NewHierarchicalIterator")
	F.Facts["iter.tx.NewIterator.order"] = tx.callOrder("TransactionImpl.NewIterator", "storage.GetIterator", "buffer.Size", "buffer.NewIterator", "composite.NewHierarchicalIterator")
	F.Facts["iter.buffer.Seek.cmp"] = tx.compareOps("BufferIterator.Seek")
	b := P(repo, "pkg/common/iterator/bounded")
	F.Facts["iter.checkBounds.cmp"] = b.compareOps("BoundedIterator.checkBounds")
	F.Facts["iter.bounded.Seek.cmp"] = b.compareOps("BoundedIterator.Seek")
	F.Facts["iter.bounded.SeekToLast.cmp"] = b.compareOps("BoundedIterator.SeekToLast")
	F.Facts["iter.bounded.SeekToLast.order"] = b.callOrder("BoundedIterator.SeekToLast", "Iterator.Seek", "Iterator.SeekToFirst", "Iterator.Next", "Iterator.SeekToLast", "checkBounds")
	F.Facts["iter.bounded.SeekToFirst.order"] = b.callOrder("BoundedIterator.SeekToFirst", "Iterator.Seek", "Iterator.SeekToFirst", "checkBounds")
	h := P(repo, "pkg/common/iterator/composite")
	F.Facts["iter.findNextUniqueKey.cmp"] = h.compareOps("HierarchicalIterator.findNextUniqueKey")
	F.Facts["iter.hier.Seek.cmp"] = h.compareOps("HierarchicalIterator.Seek")
	F.Facts["iter.hier.SeekToLast.cmp"] = h.compareOps("HierarchicalIterator.SeekToLast")
	F.Facts["iter.hier.Next.order"] = h.callOrder("HierarchicalIterator.Next", "mu.Lock", "findNextUniqueKey")
	fl := P(repo, "pkg/common/iterator/filtered")
	F.Facts["iter.filtered.Seek.order"] = fl.callOrder("FilteredIterator.Seek", "iter.Seek", "keyFilter", "fi.Next")
	F.Facts["iter.filtered.SeekToFirst.order"] = fl.callOrder("FilteredIterator.SeekToFirst", "iter.SeekToFirst", "iter.Valid", "keyFilter", "fi.Next")
	F.Facts["iter.filtered.Next.order"] = fl.callOrder("FilteredIterator.Next", "iter.Next", "keyFilter")
	F.Facts["iter.filtered.Valid.order"] = fl.callOrder("FilteredIterator.Valid", "iter.Valid", "keyFilter")
	F.Facts["iter.filtered.funcs"] = fl.callOrder("PrefixFilterFunc", "bytes.HasPrefix") + " / " + fl.callOrder("SuffixFilterFunc", "bytes.HasSuffix")
	sv := P(repo, "pkg/grpc/service")
	F.Facts["iter.service.Scan.select"] = sv.ifChain("KevoServiceServer.Scan")
	F.Facts["iter.service.TxScan.select"] = sv.ifChain("KevoServiceServer.TxScan")
	F.Facts["iter.service.Scan.loop"] = sv.callOrder("KevoServiceServer.Scan", "iter.SeekToFirst", "iter.Valid", "iter.IsTombstone", "stream.Send", "iter.Next")
	F.Facts["iter.service.Scan.count"] = sv.incdecGuard("KevoServiceServer.Scan", "count")
	F.Facts["iter.service.TxScan.count"] = sv.incdecGuard("KevoServiceServer.TxScan", "count")
	F.Facts["iter.service.TxScan.loop"] = sv.callOrder("KevoServiceServer.TxScan", "iter.SeekToFirst", "iter.Valid", "iter.IsTombstone", "stream.Send", "iter.Next")
}
