module kvfacts

go 1.24.2
