package main

import "strings"

// facts about pkg/wal/retention.go cited by C08 (Kevo.Model.Retention): the candidate set, the three rules and the bounds
// function, as condition texts in source order; and the configuration the primary passes.
func init() {
	extractors = append(extractors, func(repo string) {
		w := P(repo, "pkg/wal")
		F.Facts["retention.ManageRetention.conds"] = strings.Join(w.apIfConds("WAL.ManageRetention"), " | ")
		F.Facts["retention.ManageRetention.order"] = w.callOrder("WAL.ManageRetention", "FindWALFiles", "os.Stat", "extractTimestampFromFilename",
			"getSequenceBounds", "sort.Slice", "os.Remove")
		F.Facts["retention.getSequenceBounds.conds"] = strings.Join(w.apIfConds("getSequenceBounds"), " | ")
		F.Facts["retention.timestamp.order"] = w.callOrder("extractTimestampFromFilename", "os.Stat", "strconv.ParseInt", "time.Unix")
		r := P(repo, "pkg/replication")
		F.Facts["retention.primary.config"] = r.apKvField("Primary.maybeManageWALRetention", "MaxAge") + " ; MinSequenceKeep: " +
			r.apKvField("Primary.maybeManageWALRetention", "MinSequenceKeep")
		F.Facts["retention.primary.conds"] = strings.Join(r.apIfConds("Primary.maybeManageWALRetention"), " | ")
	})
}
