package main

// facts for C04 / C17: the transaction lock protocol (pkg/transaction) and the transaction RPC handlers
// (pkg/grpc/service). Everything here is syntactic: it pins the shape the Lean models Kevo.Model.TxLock and
// Kevo.Model.Registry assume, and regenerates Kevo/Gen/Tx.lean (constants + side conditions).

import (
	"fmt"
	"go/ast"
	"go/printer"
	"go/token"
	"path/filepath"
	"sort"
	"strings"
)

func init() {
	extractors = append(extractors, extractTx)
	generators = append(generators, genTx)
}

func txNodeText(n ast.Node) string {
	var sb strings.Builder
	printer.Fprint(&sb, token.NewFileSet(), n)
	return strings.Join(strings.Fields(sb.String()), " ")
}

// txCallsIn: callee texts of all calls below n, in source order
func txCallsIn(n ast.Node) []string {
	var out []string
	if n == nil {
		return out
	}
	ast.Inspect(n, func(x ast.Node) bool {
		if ce, ok := x.(*ast.CallExpr); ok {
			out = append(out, exprString(ce.Fun))
		}
		return true
	})
	return out
}

func txContainsCall(n ast.Node, callee string) bool {
	for _, c := range txCallsIn(n) {
		if c == callee {
			return true
		}
	}
	return false
}

func txContainsReturn(n ast.Node) bool {
	found := false
	ast.Inspect(n, func(x ast.Node) bool {
		if _, ok := x.(*ast.FuncLit); ok {
			return false
		}
		if _, ok := x.(*ast.ReturnStmt); ok {
			found = true
		}
		return true
	})
	return found
}

// txLockByMode: the `if mode == ReadOnly {RLock} else {Lock}` of BeginTransaction, and that it precedes the only return
func txLockByMode(p *pkg, fn string) string {
	fd := p.findFunc(fn)
	if fd == nil {
		fail("tx: function %s not found", fn)
		return "?"
	}
	res := "?"
	for i, st := range fd.Body.List {
		is, ok := st.(*ast.IfStmt)
		if !ok || !(txContainsCall(is, "m.txLock.RLock") || txContainsCall(is, "m.txLock.Lock")) {
			continue
		}
		before := false
		for _, s2 := range fd.Body.List[:i] {
			if txContainsReturn(s2) {
				before = true
			}
		}
		after := false
		for _, s2 := range fd.Body.List[i+1:] {
			if _, ok := s2.(*ast.ReturnStmt); ok {
				after = true
			}
		}
		res = fmt.Sprintf("if %s then [%s] else [%s] returnBefore=%v returnAfter=%v", exprString(is.Cond),
			strings.Join(txCallsIn(is.Body), ","), strings.Join(txCallsIn(is.Else), ","), before, after)
	}
	if res == "?" {
		fail("tx: %s does not take txLock in an if statement", fn)
	}
	return res
}

// txMutexMethods: methods of recv whose body starts with `<r>.mu.Lock(); defer <r>.mu.Unlock()`
func txMutexMethods(p *pkg, recv string, names ...string) string {
	var ok []string
	for _, n := range names {
		fd := p.findFunc(recv + "." + n)
		if fd == nil || len(fd.Body.List) < 2 {
			continue
		}
		if txNodeText(fd.Body.List[0]) == "tx.mu.Lock()" && txNodeText(fd.Body.List[1]) == "defer tx.mu.Unlock()" {
			ok = append(ok, n)
		}
	}
	sort.Strings(ok)
	return strings.Join(ok, ",")
}

func txFuncBodyText(p *pkg, fn string) string {
	fd := p.findFunc(fn)
	if fd == nil {
		fail("tx: function %s not found", fn)
		return "?"
	}
	return txNodeText(fd.Body)
}

// txFirstIf: condition and body of the first if statement of the function whose condition contains `needle`
func txFirstIf(p *pkg, fn, needle string) string {
	fd := p.findFunc(fn)
	if fd == nil {
		fail("tx: function %s not found", fn)
		return "?"
	}
	res := "?"
	ast.Inspect(fd.Body, func(n ast.Node) bool {
		is, ok := n.(*ast.IfStmt)
		if ok && res == "?" && strings.Contains(exprString(is.Cond), needle) {
			res = "if " + exprString(is.Cond) + " " + txNodeText(is.Body)
		}
		return true
	})
	if res == "?" {
		fail("tx: %s has no if on %s", fn, needle)
	}
	return res
}

// txHierArgs: the element list of the []iterator.Iterator{...} literal handed to NewHierarchicalIterator
func txHierArgs(p *pkg, fn string) string {
	fd := p.findFunc(fn)
	if fd == nil {
		fail("tx: function %s not found", fn)
		return "?"
	}
	var out []string
	ast.Inspect(fd.Body, func(n ast.Node) bool {
		ce, ok := n.(*ast.CallExpr)
		if !ok || exprString(ce.Fun) != "composite.NewHierarchicalIterator" || len(ce.Args) != 1 {
			return true
		}
		if cl, ok := ce.Args[0].(*ast.CompositeLit); ok {
			var el []string
			for _, e := range cl.Elts {
				el = append(el, exprString(e))
			}
			out = append(out, strings.Join(el, ","))
		}
		return true
	})
	if len(out) == 0 {
		fail("tx: %s does not build a hierarchical iterator", fn)
		return "?"
	}
	return strings.Join(out, ";")
}

// txChanCap: capacity of `name := make(chan T[, n])` in fn
func txChanCap(p *pkg, fn, name string) string {
	fd := p.findFunc(fn)
	if fd == nil {
		fail("tx: function %s not found", fn)
		return "?"
	}
	res := "?"
	ast.Inspect(fd.Body, func(n ast.Node) bool {
		as, ok := n.(*ast.AssignStmt)
		if !ok || len(as.Lhs) != 1 || len(as.Rhs) != 1 || exprString(as.Lhs[0]) != name {
			return true
		}
		ce, ok := as.Rhs[0].(*ast.CallExpr)
		if !ok || exprString(ce.Fun) != "make" || len(ce.Args) == 0 {
			return true
		}
		if _, ok := ce.Args[0].(*ast.ChanType); !ok {
			return true
		}
		if len(ce.Args) == 1 {
			res = "0"
		} else if v, err := p.eval(ce.Args[1], 0); err == nil {
			res = v.ExactString()
		} else {
			res = "?" + exprString(ce.Args[1])
		}
		return true
	})
	if res == "?" {
		fail("tx: %s: no channel %s", fn, name)
	}
	return res
}

// txSelects: every select statement of fn (source order): "comm => calls | comm => calls"
func txSelects(p *pkg, fn string) []string {
	fd := p.findFunc(fn)
	if fd == nil {
		fail("tx: function %s not found", fn)
		return nil
	}
	var out []string
	ast.Inspect(fd.Body, func(n ast.Node) bool {
		ss, ok := n.(*ast.SelectStmt)
		if !ok {
			return true
		}
		var arms []string
		for _, c := range ss.Body.List {
			cc := c.(*ast.CommClause)
			comm := "default"
			if cc.Comm != nil {
				comm = txNodeText(cc.Comm)
			}
			var calls []string
			for _, st := range cc.Body {
				calls = append(calls, txCallsIn(st)...)
			}
			arms = append(arms, comm+" => "+strings.Join(calls, ","))
		}
		out = append(out, strings.Join(arms, " | "))
		return true
	})
	return out
}

// txRemoveSites: every function of the package that calls <x>.txRegistry.Remove, with what guards the call
func txRemoveSites(p *pkg) string {
	var out []string
	for _, fname := range sortedKeys(p.files) {
		for _, d := range p.files[fname].Decls {
			fd, ok := d.(*ast.FuncDecl)
			if !ok || fd.Body == nil || !txContainsCall(fd.Body, "s.txRegistry.Remove") {
				continue
			}
			desc := "UNGUARDED"
			list := fd.Body.List
			for i, st := range list {
				if !txContainsCall(st, "s.txRegistry.Remove") {
					continue
				}
				if _, isDefer := st.(*ast.DeferStmt); isDefer {
					// deferred: some finish call must follow with no return in between
					desc = "defer Remove, no finish"
					for _, s2 := range list[i+1:] {
						if txContainsCall(s2, "tx.Commit") {
							desc = "defer Remove < tx.Commit"
							break
						}
						if txContainsCall(s2, "tx.Rollback") {
							desc = "defer Remove < tx.Rollback"
							break
						}
						if txContainsReturn(s2) {
							desc = "defer Remove, return before finish"
							break
						}
					}
				} else {
					for _, s2 := range list[:i] {
						if txContainsCall(s2, "tx.Commit") {
							desc = "tx.Commit < Remove"
						}
						if txContainsCall(s2, "tx.Rollback") {
							desc = "tx.Rollback < Remove"
						}
					}
					if is, ok := st.(*ast.IfStmt); ok {
						desc += " (inside if " + exprString(is.Cond) + ")"
					}
				}
				break
			}
			out = append(out, fd.Name.Name+": "+desc)
		}
	}
	sort.Strings(out)
	return strings.Join(out, "; ")
}

// txDirectTx: handlers that begin a transaction on the engine themselves, with their finish calls
func txDirectTx(p *pkg) string {
	var out []string
	for _, fname := range sortedKeys(p.files) {
		for _, d := range p.files[fname].Decls {
			fd, ok := d.(*ast.FuncDecl)
			if !ok || fd.Body == nil || !txContainsCall(fd.Body, "s.engine.BeginTransaction") {
				continue
			}
			var seq []string
			for _, c := range txCallsIn(fd.Body) {
				if c == "s.engine.BeginTransaction" || c == "tx.Commit" || c == "tx.Rollback" {
					if len(seq) == 0 || seq[len(seq)-1] != c {
						seq = append(seq, c)
					}
				}
			}
			deferred := ""
			for _, st := range fd.Body.List {
				if ds, ok := st.(*ast.DeferStmt); ok && txContainsCall(ds, "tx.Rollback") {
					deferred = " [deferred Rollback]"
				}
			}
			out = append(out, fd.Name.Name+": "+strings.Join(seq, " < ")+deferred)
		}
	}
	sort.Strings(out)
	return strings.Join(out, "; ")
}

// txStaleConds: conditions of the if statements that append to staleIDs
func txStaleConds(p *pkg, fn string) string {
	fd := p.findFunc(fn)
	if fd == nil {
		fail("tx: function %s not found", fn)
		return "?"
	}
	var out []string
	ast.Inspect(fd.Body, func(n ast.Node) bool {
		is, ok := n.(*ast.IfStmt)
		if !ok {
			return true
		}
		for _, st := range is.Body.List {
			if as, ok := st.(*ast.AssignStmt); ok && len(as.Lhs) == 1 && exprString(as.Lhs[0]) == "staleIDs" {
				out = append(out, exprString(is.Cond))
			}
		}
		return true
	})
	return strings.Join(out, "; ")
}

func extractTx(repo string) {
	t := P(repo, "pkg/transaction")
	F.Facts["tx.BeginTransaction.lock"] = txLockByMode(t, "Manager.BeginTransaction")
	F.Facts["tx.BeginTransaction.mode"] = txFirstIf(t, "Manager.BeginTransaction", "readOnly")
	F.Facts["tx.BeginTransaction.ttl"] = txFirstIf(t, "Manager.BeginTransaction", "mode == ReadOnly")
	F.Facts["tx.BeginTransaction.order"] = t.callOrder("Manager.BeginTransaction", "active.Store", "txLock.RLock", "txLock.Lock")
	F.Facts["tx.Commit.order"] = t.callOrder("TransactionImpl.Commit", "mu.Lock", "active.CompareAndSwap", "releaseReadLock", "ApplyBatch", "releaseWriteLock")
	F.Facts["tx.Commit.guard"] = txFirstIf(t, "TransactionImpl.Commit", "active.CompareAndSwap")
	F.Facts["tx.Rollback.order"] = t.callOrder("TransactionImpl.Rollback", "mu.Lock", "active.CompareAndSwap", "buffer.Clear", "releaseReadLock", "releaseWriteLock")
	F.Facts["tx.Rollback.guard"] = txFirstIf(t, "TransactionImpl.Rollback", "active.CompareAndSwap")
	F.Facts["tx.Get.order"] = t.callOrder("TransactionImpl.Get", "mu.Lock", "active.Load", "buffer.Get", "storage.Get")
	F.Facts["tx.Put.order"] = t.callOrder("TransactionImpl.Put", "mu.Lock", "active.Load", "buffer.Put", "storage.Put", "ApplyBatch")
	F.Facts["tx.Delete.order"] = t.callOrder("TransactionImpl.Delete", "mu.Lock", "active.Load", "buffer.Delete", "storage.Delete", "ApplyBatch")
	F.Facts["tx.NewIterator.sources"] = txHierArgs(t, "TransactionImpl.NewIterator")
	F.Facts["tx.NewRangeIterator.sources"] = txHierArgs(t, "TransactionImpl.NewRangeIterator")
	F.Facts["tx.releaseReadLock.body"] = txFuncBodyText(t, "TransactionImpl.releaseReadLock")
	F.Facts["tx.releaseWriteLock.body"] = txFuncBodyText(t, "TransactionImpl.releaseWriteLock")
	F.Facts["tx.methods.mutex"] = txMutexMethods(t, "TransactionImpl", "Get", "Put", "Delete", "NewIterator", "NewRangeIterator", "Commit", "Rollback")
	F.Facts["tx.Buffer.Operations.order"] = t.callOrder("Buffer.Operations", "mu.RLock", "sort.Slice")

	// registry
	F.Facts["tx.registry.Begin.chancap"] = txChanCap(t, "RegistryImpl.Begin", "resultCh")
	sel := txSelects(t, "RegistryImpl.Begin")
	if len(sel) != 2 {
		fail("tx: RegistryImpl.Begin has %d select statements, expected 2 (worker, caller)", len(sel))
		sel = append(sel, "?", "?")
	}
	F.Facts["tx.registry.Begin.workerSelect"] = sel[0]
	F.Facts["tx.registry.Begin.callerSelect"] = sel[1]
	F.Facts["tx.registry.Begin.timeout"] = one(t.callArgs("RegistryImpl.Begin", "context.WithTimeout", 1), "registry Begin timeout")
	F.Facts["tx.registry.CleanupStale.order"] = t.callOrder("RegistryImpl.CleanupStaleTransactions", "mu.Lock", "tx.Rollback", "delete")
	F.Facts["tx.registry.CleanupStale.conds"] = txStaleConds(t, "RegistryImpl.CleanupStaleTransactions")
	F.Facts["tx.registry.CleanupConnection.order"] = t.callOrder("RegistryImpl.CleanupConnection", "mu.Lock", "tx.Rollback", "delete")
	F.Facts["tx.registry.GracefulShutdown.order"] = t.callOrder("RegistryImpl.GracefulShutdown", "mu.Lock", "t.Rollback", "delete")
	F.Facts["tx.registry.GracefulShutdown.rollbackTimeout"] = one(t.callArgs("RegistryImpl.GracefulShutdown", "context.WithTimeout", 1), "shutdown rollback timeout")
	F.Facts["tx.registry.Remove.order"] = t.callOrder("RegistryImpl.Remove", "mu.Lock", "Rollback", "Commit", "delete")
	F.Facts["tx.registry.cleanupTick"] = one(t.callArgs("NewRegistry", "time.NewTicker", 0), "registry cleanup ticker")
	F.Facts["tx.registry.idleTxTTL"] = t.fieldInit("NewRegistry", "idleTxTTL")
	F.Facts["tx.manager.readOnlyTxTTL"] = t.fieldInit("NewManager", "readOnlyTxTTL")
	F.Facts["tx.manager.readWriteTxTTL"] = t.fieldInit("NewManager", "readWriteTxTTL")

	// service handlers
	s := P(repo, "pkg/grpc/service")
	F.Facts["tx.service.removeSites"] = txRemoveSites(s)
	F.Facts["tx.service.directTx"] = txDirectTx(s)
	F.Facts["tx.service.BeginTransaction.order"] = s.callOrder("KevoServiceServer.BeginTransaction", "CleanupStaleTransactions", "txRegistry.Begin")
	F.Facts["tx.service.TxGet.order"] = s.callOrder("KevoServiceServer.TxGet", "txRegistry.Get", "txRegistry.Remove", "tx.Get")
	F.Facts["tx.service.TxPut.order"] = s.callOrder("KevoServiceServer.TxPut", "txRegistry.Get", "txRegistry.Remove", "tx.IsReadOnly", "tx.Put")
	F.Facts["tx.service.TxDelete.order"] = s.callOrder("KevoServiceServer.TxDelete", "txRegistry.Get", "txRegistry.Remove", "tx.IsReadOnly", "tx.Delete")
}

func genTx(dir string) {
	f := genFact
	var sb strings.Builder
	sb.WriteString("-- GENERATED by kvfacts from /repo's working tree on every run. Do not edit.\n")
	sb.WriteString("import Kevo.Model.Registry\nnamespace Kevo.Gen.Tx\n\n")
	fmt.Fprintf(&sb, "def roTTL : Nat := %s\n", f("tx.manager.readOnlyTxTTL"))
	fmt.Fprintf(&sb, "def rwTTL : Nat := %s\n", f("tx.manager.readWriteTxTTL"))
	fmt.Fprintf(&sb, "def idleLimit : Nat := %s\n", f("tx.registry.idleTxTTL"))
	fmt.Fprintf(&sb, "def beginTimeout : Nat := %s\n", f("tx.registry.Begin.timeout"))
	fmt.Fprintf(&sb, "def cleanupTick : Nat := %s\n", f("tx.registry.cleanupTick"))
	fmt.Fprintf(&sb, "def shutdownRollbackTimeout : Nat := %s\n", f("tx.registry.GracefulShutdown.rollbackTimeout"))
	fmt.Fprintf(&sb, "def beginChanCap : Nat := %s\n\n", f("tx.registry.Begin.chancap"))
	sb.WriteString("def cfg : Kevo.Registry.Cfg := { roTTL := roTTL, rwTTL := rwTTL, idle := idleLimit, chanCap := beginChanCap }\n\n")
	sb.WriteString("theorem cfg_unbuffered : cfg.chanCap = 0 := by decide\n")
	sb.WriteString("theorem cfg_limits_positive : 0 < cfg.roTTL ∧ 0 < cfg.rwTTL ∧ 0 < cfg.idle ∧ 0 < beginTimeout := by decide\n")
	sb.WriteString("\nend Kevo.Gen.Tx\n")
	writeIfChanged(filepath.Join(dir, "Tx.lean"), sb.String())
}
