package main

import "go/ast"

// facts about transaction.Buffer cited by C03: keys and values are captured (copied) at call time;
// operations are committed in key order; one operation per key.
func init() {
	extractors = append(extractors, func(repo string) {
		t := P(repo, "pkg/transaction")
		F.Facts["txbuf.Put.key"] = t.fieldExpr("Buffer.Put", "Key")
		F.Facts["txbuf.Put.value"] = t.fieldExpr("Buffer.Put", "Value")
		F.Facts["txbuf.Delete.key"] = t.fieldExpr("Buffer.Delete", "Key")
		F.Facts["txbuf.Operations.order"] = t.callOrder("Buffer.Operations", "mu.RLock", "sort.Slice", "bytes.Compare")
		F.Facts["txbuf.Commit.order"] = t.callOrder("TransactionImpl.Commit", "mu.Lock", "active.CompareAndSwap", "buffer.Operations", "storage.ApplyBatch", "releaseWriteLock", "releaseReadLock")
		F.Facts["txbuf.Rollback.order"] = t.callOrder("TransactionImpl.Rollback", "mu.Lock", "active.CompareAndSwap", "buffer.Clear", "storage.ApplyBatch", "releaseWriteLock")
	})
}

// fieldExpr: source text of the value given to `field` in the first composite literal of fn that sets it.
func (p *pkg) fieldExpr(fn, field string) string {
	fd := p.findFunc(fn)
	if fd == nil {
		fail("function %s.%s not found", p.name, fn)
		return "?"
	}
	res := "?"
	ast.Inspect(fd.Body, func(n ast.Node) bool {
		kv, ok := n.(*ast.KeyValueExpr)
		if !ok || res != "?" {
			return true
		}
		if id, ok := kv.Key.(*ast.Ident); ok && id.Name == field {
			res = exprString(kv.Value)
		}
		return true
	})
	if res == "?" {
		fail("%s.%s: field %s not set", p.name, fn, field)
	}
	return res
}
