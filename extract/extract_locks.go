package main

// Lock-set / lock-order / pairing tables for C06 and C07 (syntactic; see DESIGN.md 4.1).
//
// For every tracked shared field: each syntactic read/write site with the mutexes held there. Held sets are tracked
// inside a function (X.Lock()/RLock()/Unlock()/RUnlock()/defer X.Unlock(), closures inherit the locks whose release is
// deferred) and, for unexported functions, extended by the locks held at ALL package-local call sites (intersection,
// fixed point). Functions reachable only from constructors are `init` context (object not yet shared). Lock-order edges:
// held -> acquired, directly or through resolved calls (types of receivers/fields/locals are inferred from declarations;
// interfaces are bound to their single implementation by lkIface). What cannot be resolved is emitted as `unknown`.

import (
	"fmt"
	"go/ast"
	"go/token"
	"path/filepath"
	"sort"
	"strings"
)

const lkModule = "github.com/KevoDB/kevo/"

var lkPkgs = []string{"pkg/engine", "pkg/engine/storage", "pkg/engine/compaction", "pkg/engine/iterator", "pkg/memtable", "pkg/wal",
	"pkg/compaction", "pkg/stats", "pkg/sstable", "pkg/sstable/block", "pkg/transaction"}

// short names used in the tables
var lkAlias = map[string]string{"pkg/engine": "engine", "pkg/engine/storage": "storage", "pkg/engine/compaction": "ecompaction",
	"pkg/memtable": "memtable", "pkg/wal": "wal", "pkg/compaction": "compaction", "pkg/stats": "stats", "pkg/sstable": "sstable",
	"pkg/transaction": "transaction", "pkg/engine/iterator": "eiterator", "pkg/sstable/block": "block"}

// tracked shared fields (C07 anchors + the C06 state): "alias.Type.field"
var lkTracked = []string{
	"compaction.TombstoneTracker.deletions", "compaction.TombstoneTracker.preserveForever",
	"compaction.DefaultFileTracker.obsoleteFiles", "compaction.DefaultFileTracker.pendingFiles",
	"compaction.DefaultCompactionCoordinator.lastCompactionOutputs",
	"storage.Manager.immutableMTs", "storage.Manager.sstables", "storage.Manager.lastSeqNum", "storage.Manager.wal",
	"storage.Manager.nextFileNum",
	"memtable.MemTablePool.active", "memtable.MemTablePool.immutables", "memtable.node.next",
	"transaction.RegistryImpl.transactions", "transaction.RegistryImpl.connectionTxs", "transaction.RegistryImpl.nextID",
	"transaction.TransactionImpl.lastActiveTime",
	"sstable.BlockCache.blocks",
	"stats.AtomicCollector.counts", "stats.AtomicCollector.lastOpTime", "stats.AtomicCollector.errors", "stats.AtomicCollector.latencies",
	"wal.WAL.status", "wal.WAL.nextSequence",
}

// interfaces with a single implementation in the engine (bound for call resolution)
var lkIface = map[string]string{
	"transaction.StorageBackend": "storage.Manager", "interfaces.StorageManager": "storage.Manager",
	"interfaces.CompactionManager": "ecompaction.Manager", "compaction.CompactionCoordinator": "compaction.DefaultCompactionCoordinator",
	"compaction.TombstoneManager": "compaction.TombstoneTracker", "compaction.FileTracker": "compaction.DefaultFileTracker",
	"compaction.CompactionStrategy": "compaction.TieredCompactionStrategy", "compaction.CompactionExecutor": "compaction.DefaultCompactionExecutor",
	"stats.Collector": "stats.AtomicCollector", "transaction.Transaction": "transaction.TransactionImpl",
	"interfaces.Transaction": "transaction.TransactionImpl", "transaction.StatsCollector": "transaction.Manager",
	"transaction.TransactionManager": "transaction.Manager", "transaction.Registry": "transaction.RegistryImpl",
}

// pointer fields that alias another lock
var lkLockAlias = map[string]string{"transaction.TransactionImpl.rwLock": "transaction.Manager.txLock"}

// entry points outside the property's quantifier (RotateWAL/ReloadSSTables have no caller in the engine API; Close is
// included: it takes flushMu and mu) and locks handed over between API calls.
var lkExcluded = map[string]bool{"storage.Manager.RotateWAL": true, "storage.Manager.ReloadSSTables": true, "wal.WAL.SetActive": true}
var lkHandover = map[string]string{"transaction.TransactionImpl": "transaction.Manager.txLock:R"} // held from Begin to Commit/Rollback

type lkFn struct {
	alias, key, recvName, recvType string
	fd                             *ast.FuncDecl
	exported, isNew                bool
	sites                          []*lkSite
	calls                          []*lkCall
	acqs                           []*lkAcq
	entry                          map[string]string // nil = top (not yet constrained)
	initOnly                       bool
	imports                        map[string]string // import alias -> package alias (or "ext:<name>")
}
type lkSite struct {
	field, kind string // kind: R W AR AW U(nknown)
	held        map[string]string
	detached    bool
}
type lkCall struct {
	callee, text string
	held         map[string]string
	isGo, det    bool
}
type lkAcq struct {
	lock, mode string
	held       map[string]string
	det        bool
}

var (
	lkFuncs                                    = map[string]*lkFn{}               // "alias.Recv.Name" / "alias.Name"
	lkStructs                                  = map[string]map[string]ast.Expr{} // "alias.Type" -> field -> type expr ("" key: embedded list)
	lkEmbeds                                   = map[string][]string{}            // "alias.Type" -> embedded "alias.Type"
	lkImports                                  = map[string]map[string]string{}   // alias -> import name -> alias / ext
	lkByName                                   = map[string]map[string][]string{} // alias -> unexported func/method name -> keys
	lkFieldOf                                  = map[string]map[string][]string{} // alias -> field name -> owning "alias.Type"
	lkUnpaired, lkUnknownCalls, lkUnknownLocks []string
)

func init() {
	extractors = append(extractors, extractLocks)
	generators = append(generators, genLocks)
}

func cp[V any](m map[string]V) map[string]V {
	o := make(map[string]V, len(m))
	for k, v := range m {
		o[k] = v
	}
	return o
}

func (w *lkWalker) fork() *lkWalker {
	return &lkWalker{f: w.f, env: w.env, held: cp(w.held), deferred: cp(w.deferred), det: w.det}
}

// lockOp: is the call X.Lock()/RLock()/Unlock()/RUnlock() on a sync mutex?
func (w *lkWalker) lockOp(c *ast.CallExpr) (lock, op string) {
	sel, ok := c.Fun.(*ast.SelectorExpr)
	if !ok || len(c.Args) != 0 {
		return "", ""
	}
	switch sel.Sel.Name {
	case "Lock", "RLock", "Unlock", "RUnlock":
		if t := w.typeOf(sel.X); t == "ext:sync.Mutex" || t == "ext:sync.RWMutex" || t == "" {
			if l := w.lockOf(sel.X); t != "" || !strings.HasPrefix(l, "unknown:") {
				return l, sel.Sel.Name
			}
			lkUnknownLocks = append(lkUnknownLocks, w.f.key+":"+exprString(c.Fun))
			return w.lockOf(sel.X), sel.Sel.Name
		}
	}
	return "", ""
}

func (w *lkWalker) doLock(lock, op string) {
	switch op {
	case "Lock", "RLock":
		mode := map[string]string{"Lock": "W", "RLock": "R"}[op]
		w.f.acqs = append(w.f.acqs, &lkAcq{lock: lock, mode: mode, held: cp(w.held), det: w.det})
		w.held[lock] = mode
	default:
		if _, ok := w.held[lock]; !ok {
			lkUnpaired = append(lkUnpaired, w.f.key+":release-without-acquire:"+lock)
		}
		delete(w.held, lock)
	}
}

func (w *lkWalker) trackedField(sel *ast.SelectorExpr) string {
	isTracked := func(s string) bool {
		for _, t := range lkTracked {
			if t == s {
				return true
			}
		}
		return false
	}
	if t := w.typeOf(sel.X); t != "" {
		if isTracked(t + "." + sel.Sel.Name) {
			return t + "." + sel.Sel.Name
		}
		return ""
	}
	if id, ok := sel.X.(*ast.Ident); ok {
		if _, isPkg := lkImports[w.f.alias][id.Name]; isPkg && w.env[id.Name] == "" {
			return ""
		}
	}
	owners := lkFieldOf[w.f.alias][sel.Sel.Name]
	if len(owners) == 1 && isTracked(owners[0]+"."+sel.Sel.Name) {
		return owners[0] + "." + sel.Sel.Name
	}
	for _, o := range owners {
		if isTracked(o + "." + sel.Sel.Name) {
			return "?" + o + "." + sel.Sel.Name // ambiguous owner: unknown site
		}
	}
	return ""
}

func (w *lkWalker) site(sel *ast.SelectorExpr, kind string) {
	f := w.trackedField(sel)
	if f == "" {
		return
	}
	if strings.HasPrefix(f, "?") {
		f, kind = f[1:], "U"
	}
	if ft := lkStructs[f[:strings.LastIndex(f, ".")]][f[strings.LastIndex(f, ".")+1:]]; ft != nil && strings.Contains(exprString(ft), "atomic.") && kind != "U" {
		kind = "A" + strings.TrimPrefix(kind, "A") // atomic-typed field: refined by the method name in scan()
	}
	w.f.sites = append(w.f.sites, &lkSite{field: f, kind: kind, held: cp(w.held), detached: w.det})
}

// root selector of an lvalue / address expression (strips index, slice, star, paren)
func lkRoot(e ast.Expr) *ast.SelectorExpr {
	for {
		switch x := e.(type) {
		case *ast.SelectorExpr:
			return x
		case *ast.IndexExpr:
			e = x.X
		case *ast.SliceExpr:
			e = x.X
		case *ast.StarExpr:
			e = x.X
		case *ast.ParenExpr:
			e = x.X
		case *ast.UnaryExpr:
			e = x.X
		case *ast.CallExpr: // conversions such as (*unsafe.Pointer)(unsafe.Pointer(&m.wal))
			if len(x.Args) != 1 {
				return nil
			}
			e = x.Args[0]
		default:
			return nil
		}
	}
}

func (w *lkWalker) closure(fl *ast.FuncLit, detached bool) {
	c := w.fork()
	if detached {
		c.held, c.deferred, c.det = map[string]string{}, map[string]bool{}, true
	} else {
		for l := range c.held {
			if !c.deferred[l] {
				delete(c.held, l)
			}
		}
	}
	for _, p := range fl.Type.Params.List {
		for _, n := range p.Names {
			c.env[n.Name] = lkTypeStr(w.f.alias, p.Type)
		}
	}
	c.list(fl.Body.List)
}

// scan an expression evaluated for its value
func (w *lkWalker) scan(e ast.Node) {
	if e == nil {
		return
	}
	ast.Inspect(e, func(n ast.Node) bool {
		switch x := n.(type) {
		case *ast.FuncLit:
			w.closure(x, false)
			return false
		case *ast.SelectorExpr:
			w.site(x, "R")
			w.scan(x.X)
			return false
		case *ast.UnaryExpr:
			if x.Op == token.AND {
				if sel := lkRoot(x.X); sel != nil && w.trackedField(sel) != "" {
					w.site(sel, "U") // address taken outside sync/atomic
					return false
				}
			}
		case *ast.CallExpr:
			if sel, ok := x.Fun.(*ast.SelectorExpr); ok {
				if id, ok := sel.X.(*ast.Ident); ok && lkImports[w.f.alias][id.Name] == "ext:atomic" && len(x.Args) > 0 {
					if root := lkRoot(x.Args[0]); root != nil && w.trackedField(root) != "" {
						kind := "AW"
						if strings.HasPrefix(sel.Sel.Name, "Load") {
							kind = "AR"
						}
						w.site(root, kind)
						w.scan(root.X)
						for _, a := range x.Args[1:] {
							w.scan(a)
						}
						return false
					}
				}
				// method of an atomic-typed tracked field: X.f[...].Load() / Store() / CompareAndSwap() ...
				if root := lkRoot(sel.X); root != nil && root != sel {
					if f := w.trackedField(root); f != "" && !strings.HasPrefix(f, "?") {
						if ft := lkStructs[f[:strings.LastIndex(f, ".")]][root.Sel.Name]; ft != nil && strings.Contains(exprString(ft), "atomic.") {
							kind := "AW"
							if sel.Sel.Name == "Load" {
								kind = "AR"
							}
							w.f.sites = append(w.f.sites, &lkSite{field: f, kind: kind, held: cp(w.held), detached: w.det})
							w.scan(root.X)
							for _, a := range x.Args {
								w.scan(a)
							}
							return false
						}
					}
				}
			}
			if id, ok := x.Fun.(*ast.Ident); ok && id.Name == "delete" && len(x.Args) == 2 {
				if root := lkRoot(x.Args[0]); root != nil {
					w.site(root, "W")
					w.scan(root.X)
				} else {
					w.scan(x.Args[0])
				}
				w.scan(x.Args[1])
				return false
			}
			if fl, ok := x.Fun.(*ast.FuncLit); ok {
				w.closure(fl, false)
			} else if callee := w.resolve(x); callee != nil {
				w.f.calls = append(w.f.calls, &lkCall{callee: callee.key, text: exprString(x.Fun), held: cp(w.held), det: w.det})
			} else if !w.external(x) && len(w.held) > 0 {
				lkUnknownCalls = append(lkUnknownCalls, w.f.key+":"+exprString(x.Fun))
			}
		}
		return true
	})
}

func (w *lkWalker) lhs(e ast.Expr) {
	if id, ok := e.(*ast.Ident); ok {
		_ = id
		return
	}
	if root := lkRoot(e); root != nil {
		w.site(root, "W")
		w.scan(root.X)
		if ix, ok := e.(*ast.IndexExpr); ok {
			w.scan(ix.Index)
		}
		return
	}
	w.scan(e)
}

func lkTerminates(list []ast.Stmt) bool {
	if len(list) == 0 {
		return false
	}
	switch s := list[len(list)-1].(type) {
	case *ast.ReturnStmt, *ast.BranchStmt:
		return true
	case *ast.ExprStmt:
		if c, ok := s.X.(*ast.CallExpr); ok {
			n := exprString(c.Fun)
			return n == "panic" || n == "os.Exit"
		}
	case *ast.BlockStmt:
		return lkTerminates(s.List)
	}
	return false
}

func lkSame(a, b map[string]string) bool {
	if len(a) != len(b) {
		return false
	}
	for k, v := range a {
		if b[k] != v {
			return false
		}
	}
	return true
}

// branch: walk alternative bodies from the current state; afterwards the lock state must be unchanged
func (w *lkWalker) branch(bodies ...[]ast.Stmt) {
	for _, b := range bodies {
		c := w.fork()
		c.list(b)
		if !lkTerminates(b) && !lkSame(c.held, w.held) {
			lkUnpaired = append(lkUnpaired, w.f.key+":branch-changes-lock-state")
		}
		for l := range c.deferred {
			if !w.deferred[l] && !lkTerminates(b) {
				lkUnpaired = append(lkUnpaired, w.f.key+":conditional-defer:"+l)
			}
		}
	}
}

func (w *lkWalker) bind(lhs []ast.Expr, rhs []ast.Expr) {
	for i, l := range lhs {
		id, ok := l.(*ast.Ident)
		if !ok || id.Name == "_" {
			continue
		}
		if len(rhs) == len(lhs) {
			w.env[id.Name] = w.typeOf(rhs[i])
		} else if len(rhs) == 1 && i == 0 {
			w.env[id.Name] = w.typeOf(rhs[0])
		} else if len(rhs) == 1 {
			w.env[id.Name] = ""
		}
	}
}

func (w *lkWalker) list(list []ast.Stmt) {
	for _, s := range list {
		w.stmt(s)
	}
}

func (w *lkWalker) stmt(s ast.Stmt) {
	switch x := s.(type) {
	case *ast.ExprStmt:
		if c, ok := x.X.(*ast.CallExpr); ok {
			if lock, op := w.lockOp(c); lock != "" {
				w.doLock(lock, op)
				return
			}
		}
		w.scan(x.X)
	case *ast.DeferStmt:
		if lock, op := w.lockOp(x.Call); lock != "" && (op == "Unlock" || op == "RUnlock") {
			if _, ok := w.held[lock]; !ok {
				lkUnpaired = append(lkUnpaired, w.f.key+":deferred-release-without-acquire:"+lock)
			}
			w.deferred[lock] = true
			return
		}
		if fl, ok := x.Call.Fun.(*ast.FuncLit); ok {
			w.closure(fl, false)
			return
		}
		w.scan(x.Call)
	case *ast.GoStmt:
		if fl, ok := x.Call.Fun.(*ast.FuncLit); ok {
			w.closure(fl, true)
			for _, a := range x.Call.Args {
				w.scan(a)
			}
			return
		}
		if callee := w.resolve(x.Call); callee != nil {
			w.f.calls = append(w.f.calls, &lkCall{callee: callee.key, text: exprString(x.Call.Fun), held: map[string]string{}, isGo: true, det: true})
		}
		for _, a := range x.Call.Args {
			w.scan(a)
		}
	case *ast.AssignStmt:
		for _, r := range x.Rhs {
			w.scan(r)
		}
		for _, l := range x.Lhs {
			w.lhs(l)
		}
		w.bind(x.Lhs, x.Rhs)
	case *ast.IncDecStmt:
		w.lhs(x.X)
	case *ast.DeclStmt:
		if gd, ok := x.Decl.(*ast.GenDecl); ok {
			for _, sp := range gd.Specs {
				if vs, ok := sp.(*ast.ValueSpec); ok {
					for i, n := range vs.Names {
						if vs.Type != nil {
							w.env[n.Name] = lkTypeStr(w.f.alias, vs.Type)
						} else if i < len(vs.Values) {
							w.env[n.Name] = w.typeOf(vs.Values[i])
						}
					}
					for _, v := range vs.Values {
						w.scan(v)
					}
				}
			}
		}
	case *ast.ReturnStmt:
		for _, r := range x.Results {
			w.scan(r)
		}
		for l := range w.held {
			if !w.deferred[l] {
				lkUnpaired = append(lkUnpaired, w.f.key+":held-at-return:"+l)
			}
		}
	case *ast.BlockStmt:
		w.list(x.List)
	case *ast.LabeledStmt:
		w.stmt(x.Stmt)
	case *ast.IfStmt:
		if x.Init != nil {
			w.stmt(x.Init)
		}
		w.scan(x.Cond)
		if x.Else == nil {
			w.branch(x.Body.List)
		} else if eb, ok := x.Else.(*ast.BlockStmt); ok {
			w.branch(x.Body.List, eb.List)
		} else {
			w.branch(x.Body.List, []ast.Stmt{x.Else})
		}
	case *ast.ForStmt:
		if x.Init != nil {
			w.stmt(x.Init)
		}
		w.scan(x.Cond)
		body := append([]ast.Stmt{}, x.Body.List...)
		if x.Post != nil {
			body = append(body, x.Post)
		}
		w.branch(body)
	case *ast.RangeStmt:
		w.scan(x.X)
		k, v := lkElem(w.typeOf(x.X))
		if id, ok := x.Key.(*ast.Ident); ok && x.Tok == token.DEFINE {
			w.env[id.Name] = k
		}
		if id, ok := x.Value.(*ast.Ident); ok && x.Tok == token.DEFINE {
			w.env[id.Name] = v
		}
		w.branch(x.Body.List)
	case *ast.SwitchStmt:
		if x.Init != nil {
			w.stmt(x.Init)
		}
		w.scan(x.Tag)
		w.clauses(x.Body)
	case *ast.TypeSwitchStmt:
		if x.Init != nil {
			w.stmt(x.Init)
		}
		w.stmt(x.Assign)
		w.clauses(x.Body)
	case *ast.SelectStmt:
		w.clauses(x.Body)
	case *ast.SendStmt:
		w.scan(x.Chan)
		w.scan(x.Value)
	default:
		if s != nil {
			w.scan(s)
		}
	}
}

func (w *lkWalker) clauses(b *ast.BlockStmt) {
	var bodies [][]ast.Stmt
	for _, c := range b.List {
		switch cc := c.(type) {
		case *ast.CaseClause:
			for _, e := range cc.List {
				w.scan(e)
			}
			bodies = append(bodies, cc.Body)
		case *ast.CommClause:
			body := cc.Body
			if cc.Comm != nil {
				body = append([]ast.Stmt{cc.Comm}, body...)
			}
			bodies = append(bodies, body)
		}
	}
	w.branch(bodies...)
}

func lkAnalyse(fn *lkFn) {
	w := &lkWalker{f: fn, env: map[string]string{}, held: map[string]string{}, deferred: map[string]bool{}}
	if fn.recvName != "" {
		w.env[fn.recvName] = fn.recvType
	}
	for _, p := range fn.fd.Type.Params.List {
		for _, n := range p.Names {
			w.env[n.Name] = lkTypeStr(fn.alias, p.Type)
		}
	}
	w.list(fn.fd.Body.List)
	for l := range w.held {
		if !w.deferred[l] && !lkTerminates(fn.fd.Body.List) {
			lkUnpaired = append(lkUnpaired, fn.key+":held-at-end:"+l)
		}
	}
}

func lkUnion(a, b map[string]string) map[string]string {
	o := cp(a)
	for k, v := range b {
		if o[k] != "W" {
			o[k] = v
		}
	}
	return o
}

func lkInter(a, b map[string]string) map[string]string {
	o := map[string]string{}
	for k, v := range a {
		if bv, ok := b[k]; ok {
			if v == "W" && bv == "W" {
				o[k] = "W"
			} else {
				o[k] = "R"
			}
		}
	}
	return o
}

func lkHeldStr(h map[string]string) string {
	var ks []string
	for _, k := range sortedKeys(h) {
		ks = append(ks, k+":"+h[k])
	}
	return strings.Join(ks, ",")
}

type lkRow struct {
	field, fn, kind string
	held            map[string]string
}

var (
	lkRows  []lkRow
	lkEdges = map[string]bool{}
	lkLocks = map[string]bool{}
)

func extractLocks(repo string) {
	lkLoad(repo)
	keys := sortedKeys(lkFuncs)
	for _, k := range keys {
		lkAnalyse(lkFuncs[k])
	}
	// callers per function
	type site struct {
		caller *lkFn
		c      *lkCall
	}
	callers := map[string][]site{}
	for _, k := range keys {
		for _, c := range lkFuncs[k].calls {
			callers[c.callee] = append(callers[c.callee], site{lkFuncs[k], c})
		}
	}
	// init context: constructors and unexported functions called only from init context
	for changed := true; changed; {
		changed = false
		for _, k := range keys {
			fn := lkFuncs[k]
			if fn.initOnly || fn.exported && !fn.isNew {
				continue
			}
			ok := fn.isNew && fn.recvType == ""
			if !ok && len(callers[k]) > 0 {
				ok = true
				for _, s := range callers[k] {
					if lkExcluded[s.caller.key] {
						continue
					}
					if !s.caller.initOnly || s.c.isGo {
						ok = false
					}
				}
			}
			if ok {
				fn.initOnly, changed = true, true
			}
		}
	}
	// entry-held sets (fixed point; nil = unconstrained so far)
	for _, k := range keys {
		fn := lkFuncs[k]
		if fn.exported || len(callers[k]) == 0 {
			fn.entry = map[string]string{}
			if h, ok := lkHandover[fn.recvType]; ok && fn.exported {
				p := strings.Split(h, ":")
				fn.entry[p[0]] = p[1]
			}
		}
	}
	for changed := true; changed; {
		changed = false
		for _, k := range keys {
			fn := lkFuncs[k]
			if fn.exported || len(callers[k]) == 0 {
				continue
			}
			var acc map[string]string
			seen := false
			for _, s := range callers[k] {
				if s.caller.initOnly || lkExcluded[s.caller.key] || s.caller.entry == nil && !s.c.det {
					continue
				}
				h := s.c.held
				if !s.c.det {
					h = lkUnion(s.caller.entry, s.c.held)
				}
				if !seen {
					acc, seen = cp(h), true
				} else {
					acc = lkInter(acc, h)
				}
			}
			if seen && (fn.entry == nil || !lkSame(fn.entry, acc)) {
				fn.entry, changed = acc, true
			}
		}
	}
	// transitive acquisitions per function
	acquires := map[string]map[string]bool{}
	for _, k := range keys {
		acquires[k] = map[string]bool{}
		for _, a := range lkFuncs[k].acqs {
			if !a.det {
				acquires[k][a.lock] = true
			}
		}
	}
	for changed := true; changed; {
		changed = false
		for _, k := range keys {
			for _, c := range lkFuncs[k].calls {
				if c.isGo || c.det {
					continue
				}
				for l := range acquires[c.callee] {
					if !acquires[k][l] {
						acquires[k][l], changed = true, true
					}
				}
			}
		}
	}
	// rows and edges
	for _, k := range keys {
		fn := lkFuncs[k]
		if lkExcluded[k] {
			continue
		}
		entry := fn.entry
		if entry == nil {
			entry = map[string]string{}
		}
		full := func(h map[string]string, det bool) map[string]string {
			if det {
				return h
			}
			return lkUnion(entry, h)
		}
		for _, s := range fn.sites {
			kind := s.kind
			if fn.initOnly && !s.detached {
				kind = "init"
			}
			lkRows = append(lkRows, lkRow{s.field, k, kind, full(s.held, s.detached)})
		}
		if fn.initOnly {
			continue
		}
		for _, a := range fn.acqs {
			lkLocks[a.lock] = true
			for h := range full(a.held, a.det) {
				lkEdges[h+" -> "+a.lock] = true
			}
		}
		for _, c := range fn.calls {
			if c.isGo {
				continue
			}
			for h := range full(c.held, c.det) {
				for l := range acquires[c.callee] {
					lkEdges[h+" -> "+l] = true
				}
			}
		}
	}
	for e := range lkEdges {
		p := strings.Split(e, " -> ")
		lkLocks[p[0]], lkLocks[p[1]] = true, true
	}
	// facts: one per field (sorted, de-duplicated site descriptions), edges, pairing, unknowns
	perField := map[string]map[string]bool{}
	for _, f := range lkTracked {
		perField[f] = map[string]bool{}
	}
	for _, r := range lkRows {
		if perField[r.field] != nil {
			perField[r.field][fmt.Sprintf("%s %s {%s}", r.fn[strings.Index(r.fn, ".")+1:], r.kind, lkHeldStr(r.held))] = true
		}
	}
	for _, f := range lkTracked {
		F.Facts["locks.field."+f] = strings.Join(sortedKeys(perField[f]), "; ")
	}
	F.Facts["locks.order"] = strings.Join(sortedKeys(lkEdges), "; ")
	F.Facts["locks.unpaired"] = strings.Join(lkUniq(lkUnpaired), "; ")
	F.Facts["locks.unknownCalls"] = strings.Join(lkUniq(lkUnknownCalls), "; ")
	F.Facts["locks.unknownLocks"] = strings.Join(lkUniq(lkUnknownLocks), "; ")
	F.Facts["locks.excludedEntries"] = strings.Join(sortedKeys(lkExcluded), "; ")
	// sequence hand-over at rotation (premise of unique sequence numbers, C06/C08): the old log's next sequence is read
	// (argument of UpdateNextSequence) only AFTER the old log was marked Rotating, so no append can still succeed on it
	F.Facts["locks.rotateWAL.seqHandover"] = P(repo, "pkg/engine/storage").callOrder("Manager.rotateWAL", "SetRotating", "GetNextSequence", "UpdateNextSequence", "atomic.StorePointer")
}

func lkUniq(xs []string) []string {
	m := map[string]bool{}
	for _, x := range xs {
		m[x] = true
	}
	return sortedKeys(m)
}

// topological ranks (Kahn); locks on a cycle keep rank 0, so the generated `decide` obligation fails
func lkRanks(locks []string) map[string]int {
	succ, indeg := map[string][]string{}, map[string]int{}
	for e := range lkEdges {
		p := strings.Split(e, " -> ")
		succ[p[0]] = append(succ[p[0]], p[1])
		indeg[p[1]]++
	}
	rank := map[string]int{}
	var queue []string
	for _, l := range locks {
		if indeg[l] == 0 {
			queue = append(queue, l)
		}
	}
	for len(queue) > 0 {
		l := queue[0]
		queue = queue[1:]
		sort.Strings(succ[l])
		for _, s := range succ[l] {
			if rank[s] < rank[l]+1 {
				rank[s] = rank[l] + 1
			}
			if indeg[s]--; indeg[s] == 0 {
				queue = append(queue, s)
			}
		}
	}
	return rank
}

func genLocks(dir string) {
	locks := sortedKeys(lkLocks)
	lockID := map[string]int{}
	for i, l := range locks {
		lockID[l] = i
	}
	fieldID := map[string]int{}
	for i, f := range lkTracked {
		fieldID[f] = i
	}
	rank := lkRanks(locks)
	var sb strings.Builder
	sb.WriteString("-- GENERATED by kvfacts (extract_locks.go) from /repo's working tree on every run. Do not edit.\n")
	sb.WriteString("import Kevo.Model.ConcTable\nnamespace Kevo.Gen.Locks\nopen Kevo.LConc\n\n")
	q := func(xs []string) string {
		var o []string
		for _, x := range xs {
			o = append(o, fmt.Sprintf("%q", x))
		}
		return "[" + strings.Join(o, ", ") + "]"
	}
	fmt.Fprintf(&sb, "def lockNames : List String := %s\n", q(locks))
	fmt.Fprintf(&sb, "def fieldNames : List String := %s\n", q(lkTracked))
	fmt.Fprintf(&sb, "def fields : List Nat := List.range %d\n\n", len(lkTracked))
	sb.WriteString("/-- one row per syntactic access site outside constructors: field, write?, atomic?, locks held (id, mode).\n    A site the extractor could not resolve is a plain write holding nothing. -/\ndef sites : List Site := [\n")
	seen := map[string]bool{}
	var rows, names []string
	for _, r := range lkRows {
		if r.kind == "init" {
			continue
		}
		w, a := r.kind == "W" || r.kind == "AW" || r.kind == "U", strings.HasPrefix(r.kind, "A")
		held := r.held
		if r.kind == "U" {
			held = nil
		}
		var hs []string
		for _, l := range sortedKeys(held) {
			hs = append(hs, fmt.Sprintf("(%d, .%s)", lockID[l], map[string]string{"W": "ex", "R": "sh"}[held[l]]))
		}
		row := fmt.Sprintf("  { field := %d, write := %v, atomic := %v, held := [%s] }", fieldID[r.field], w, a, strings.Join(hs, ", "))
		if _, ok := fieldID[r.field]; !ok || seen[row] {
			continue
		}
		seen[row] = true
		rows = append(rows, row)
		names = append(names, fmt.Sprintf("%s %s %s", r.field, r.fn, r.kind))
	}
	sb.WriteString(strings.Join(rows, ",\n") + "]\n\n")
	fmt.Fprintf(&sb, "def siteNames : List String := %s\n\n", q(names))
	var es []string
	for _, e := range sortedKeys(lkEdges) {
		p := strings.Split(e, " -> ")
		es = append(es, fmt.Sprintf("(%d, %d)", lockID[p[0]], lockID[p[1]]))
	}
	fmt.Fprintf(&sb, "def edges : List (Nat × Nat) := [%s]\n", strings.Join(es, ", "))
	var rs []string
	for _, l := range locks {
		rs = append(rs, fmt.Sprint(rank[l]))
	}
	fmt.Fprintf(&sb, "def ranks : List Nat := [%s]\n", strings.Join(rs, ", "))
	fmt.Fprintf(&sb, "def unpaired : List String := %s\n", q(lkUniq(lkUnpaired)))
	fmt.Fprintf(&sb, "def unknownCalls : List String := %s\n", q(lkUniq(lkUnknownCalls)))
	fmt.Fprintf(&sb, "def unknownLocks : List String := %s\n", q(lkUniq(lkUnknownLocks)))
	sb.WriteString("\nend Kevo.Gen.Locks\n")
	writeIfChanged(filepath.Join(dir, "Locks.lean"), sb.String())
}
