// kvfacts — syntactic fact extractor / tiny translator from KevoDB/kevo's Go source to Lean.
//
//	kvfacts -repo /repo -gen /verif/lean/Kevo/Gen -json /verif/build/facts.json
//
// It uses only go/parser + go/ast + go/constant. It proves nothing about Go semantics; it pins the shape
// (constants, guard chains, call order, lock sets, API tables) that the Lean model assumes, and regenerates
// the Lean files under Kevo/Gen from the source on every run.
package main

import (
	"encoding/json"
	"flag"
	"fmt"
	"go/ast"
	"go/build/constraint"
	"go/constant"
	"go/parser"
	"go/token"
	"os"
	"path/filepath"
	"sort"
	"strings"
)

type pkg struct {
	name  string
	dir   string
	fset  *token.FileSet
	files map[string]*ast.File
	// const name -> expression + iota value
	consts map[string]constDecl
	cache  map[string]constant.Value
}

type constDecl struct {
	expr ast.Expr
	iota int
}

type facts struct {
	Consts map[string]string           `json:"consts"`
	Facts  map[string]string           `json:"facts"`
	Tables map[string][]map[string]any `json:"tables,omitempty"`
	Errors []string                    `json:"errors,omitempty"`
}

var F = &facts{Consts: map[string]string{}, Facts: map[string]string{}, Tables: map[string][]map[string]any{}}

func fail(format string, a ...any) {
	F.Errors = append(F.Errors, fmt.Sprintf(format, a...))
}

func inProductBuild(src []byte) bool {
	for _, line := range strings.Split(string(src), "\n") {
		t := strings.TrimSpace(line)
		if strings.HasPrefix(t, "package ") {
			break
		}
		if constraint.IsGoBuild(t) {
			if x, err := constraint.Parse(t); err == nil {
				return x.Eval(func(tag string) bool { return tag != "verif" })
			}
		}
	}
	return true
}

func loadPkg(repo, rel string) *pkg {
	p := &pkg{dir: filepath.Join(repo, rel), fset: token.NewFileSet(), files: map[string]*ast.File{},
		consts: map[string]constDecl{}, cache: map[string]constant.Value{}}
	ents, err := os.ReadDir(p.dir)
	if err != nil {
		fail("cannot read %s: %v", rel, err)
		return p
	}
	for _, e := range ents {
		n := e.Name()
		if e.IsDir() || !strings.HasSuffix(n, ".go") || strings.HasSuffix(n, "_test.go") {
			continue
		}
		src, err := os.ReadFile(filepath.Join(p.dir, n))
		if err != nil {
			fail("read %s: %v", n, err)
			continue
		}
		// the product build is what the facts are about: a file whose build constraint is false without the tag `verif` (the
		// accessor / hook files compiled only for the verification harness) is not part of it
		if !inProductBuild(src) {
			continue
		}
		f, err := parser.ParseFile(p.fset, filepath.Join(p.dir, n), src, parser.ParseComments)
		if err != nil {
			fail("parse %s/%s: %v", rel, n, err)
			continue
		}
		p.files[n] = f
		p.name = f.Name.Name
		for _, d := range f.Decls {
			gd, ok := d.(*ast.GenDecl)
			if !ok || gd.Tok != token.CONST {
				continue
			}
			var lastExprs []ast.Expr
			for i, s := range gd.Specs {
				vs := s.(*ast.ValueSpec)
				exprs := vs.Values
				if len(exprs) == 0 {
					exprs = lastExprs
				} else {
					lastExprs = exprs
				}
				for j, id := range vs.Names {
					if j < len(exprs) {
						p.consts[id.Name] = constDecl{expr: exprs[j], iota: i}
					}
				}
			}
		}
	}
	return p
}

// evalConst evaluates a constant expression of the package (ints, floats, strings; iota; references).
func (p *pkg) eval(e ast.Expr, iota int) (constant.Value, error) {
	switch x := e.(type) {
	case *ast.BasicLit:
		v := constant.MakeFromLiteral(x.Value, x.Kind, 0)
		if v.Kind() == constant.Unknown {
			return nil, fmt.Errorf("bad literal %s", x.Value)
		}
		return v, nil
	case *ast.ParenExpr:
		return p.eval(x.X, iota)
	case *ast.Ident:
		if x.Name == "iota" {
			return constant.MakeInt64(int64(iota)), nil
		}
		if x.Name == "true" {
			return constant.MakeBool(true), nil
		}
		if x.Name == "false" {
			return constant.MakeBool(false), nil
		}
		return p.constByName(x.Name)
	case *ast.SelectorExpr:
		if id, ok := x.X.(*ast.Ident); ok {
			switch id.Name + "." + x.Sel.Name {
			case "math.MaxUint64":
				return constant.MakeUint64(^uint64(0)), nil
			case "math.MaxUint32":
				return constant.MakeUint64(1<<32 - 1), nil
			case "math.MaxInt64":
				return constant.MakeInt64(1<<63 - 1), nil
			case "math.MaxInt32":
				return constant.MakeInt64(1<<31 - 1), nil
			case "time.Nanosecond":
				return constant.MakeInt64(1), nil
			case "time.Microsecond":
				return constant.MakeInt64(1000), nil
			case "time.Millisecond":
				return constant.MakeInt64(1000000), nil
			case "time.Second":
				return constant.MakeInt64(1000000000), nil
			case "time.Minute":
				return constant.MakeInt64(60000000000), nil
			case "time.Hour":
				return constant.MakeInt64(3600000000000), nil
			}
		}
		return nil, fmt.Errorf("unsupported selector %s", exprString(e))
	case *ast.UnaryExpr:
		v, err := p.eval(x.X, iota)
		if err != nil {
			return nil, err
		}
		return constant.UnaryOp(x.Op, v, 0), nil
	case *ast.BinaryExpr:
		a, err := p.eval(x.X, iota)
		if err != nil {
			return nil, err
		}
		b, err := p.eval(x.Y, iota)
		if err != nil {
			return nil, err
		}
		switch x.Op {
		case token.SHL, token.SHR:
			s, _ := constant.Uint64Val(b)
			return constant.Shift(a, x.Op, uint(s)), nil
		case token.QUO:
			if a.Kind() == constant.Int && b.Kind() == constant.Int {
				return constant.BinaryOp(a, token.QUO_ASSIGN, b), nil
			}
		}
		return constant.BinaryOp(a, x.Op, b), nil
	case *ast.CallExpr: // conversions like uint32(0xFFFFFFFF), ValueType(1), time.Duration(x)
		if len(x.Args) == 1 {
			return p.eval(x.Args[0], iota)
		}
	}
	return nil, fmt.Errorf("unsupported const expr %s", exprString(e))
}

func (p *pkg) constByName(name string) (constant.Value, error) {
	if v, ok := p.cache[name]; ok {
		return v, nil
	}
	d, ok := p.consts[name]
	if !ok {
		return nil, fmt.Errorf("unknown constant %s.%s", p.name, name)
	}
	v, err := p.eval(d.expr, d.iota)
	if err != nil {
		return nil, err
	}
	p.cache[name] = v
	return v, nil
}

func exprString(e ast.Expr) string {
	var sb strings.Builder
	printExpr(&sb, e)
	return sb.String()
}

// recordConst stores <pkg>.<name> into the facts
func (p *pkg) recordConst(names ...string) {
	for _, n := range names {
		v, err := p.constByName(n)
		if err != nil {
			fail("const %s.%s: %v", p.name, n, err)
			continue
		}
		F.Consts[p.name+"."+n] = v.ExactString()
	}
}

// findFunc returns the declaration of function or method `name` ("Recv.Method" or "Func").
func (p *pkg) findFunc(name string) *ast.FuncDecl {
	recv, fn := "", name
	if i := strings.Index(name, "."); i >= 0 {
		recv, fn = name[:i], name[i+1:]
	}
	for _, f := range p.files {
		for _, d := range f.Decls {
			fd, ok := d.(*ast.FuncDecl)
			if !ok || fd.Name.Name != fn {
				continue
			}
			r := ""
			if fd.Recv != nil && len(fd.Recv.List) > 0 {
				t := fd.Recv.List[0].Type
				if st, ok := t.(*ast.StarExpr); ok {
					t = st.X
				}
				if id, ok := t.(*ast.Ident); ok {
					r = id.Name
				}
			}
			if r == recv {
				return fd
			}
		}
	}
	return nil
}

// callArg: in function fn, find calls whose callee prints as `callee` and evaluate argument idx of each.
func (p *pkg) callArgs(fn, callee string, idx int) []string {
	fd := p.findFunc(fn)
	if fd == nil {
		fail("function %s.%s not found", p.name, fn)
		return nil
	}
	var out []string
	ast.Inspect(fd.Body, func(n ast.Node) bool {
		ce, ok := n.(*ast.CallExpr)
		if !ok || exprString(ce.Fun) != callee || idx >= len(ce.Args) {
			return true
		}
		v, err := p.eval(ce.Args[idx], 0)
		if err != nil {
			out = append(out, "?"+exprString(ce.Args[idx]))
		} else {
			out = append(out, v.ExactString())
		}
		return true
	})
	return out
}

func main() {
	repo := flag.String("repo", "/repo", "repository root")
	gen := flag.String("gen", "", "directory for generated Lean files (Kevo/Gen)")
	jsonOut := flag.String("json", "", "facts.json output path")
	flag.Parse()

	extractAll(*repo)

	if *jsonOut != "" {
		b, _ := json.MarshalIndent(F, "", " ")
		os.WriteFile(*jsonOut, append(b, '\n'), 0644)
	}
	if *gen != "" {
		writeGen(*gen)
	}
	if len(F.Errors) > 0 {
		for _, e := range F.Errors {
			fmt.Fprintln(os.Stderr, "kvfacts:", e)
		}
		os.Exit(3)
	}
}

func sortedKeys[V any](m map[string]V) []string {
	ks := make([]string, 0, len(m))
	for k := range m {
		ks = append(ks, k)
	}
	sort.Strings(ks)
	return ks
}

// writeIfChanged avoids touching files whose content is unchanged (keeps lake's cache warm).
func writeIfChanged(path, content string) {
	old, err := os.ReadFile(path)
	if err == nil && string(old) == content {
		return
	}
	os.MkdirAll(filepath.Dir(path), 0755)
	if err := os.WriteFile(path, []byte(content), 0644); err != nil {
		fail("write %s: %v", path, err)
	}
}
