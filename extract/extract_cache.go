package main

import "strings"

// facts about the reader's block cache (pkg/sstable/reader.go) cited by C11 (Kevo.Model.Table: Cache.get / Cache.put /
// getAuxC): the cache is asked for, and filled under, the offset of the block that is fetched; a fetched block is stored only
// after a successful fetch; Put evicts before it stores; the capacity the reader is created with.
func init() {
	extractors = append(extractors, func(repo string) {
		st := P(repo, "pkg/sstable")
		F.Facts["sstable.cache.get.key"] = st.apCallArgText("Reader.Get", "r.blockCache.Get", 0)
		F.Facts["sstable.cache.put.args"] = st.callArgText("Reader.Get", "r.blockCache.Put")
		F.Facts["sstable.cache.fetch.args"] = st.callArgText("Reader.Get", "r.blockFetcher.FetchBlock")
		F.Facts["sstable.cache.get.order"] = st.callOrder("Reader.Get", "FindBlockForKey", "blockCache.Get", "FetchBlock", "blockCache.Put", "SearchBlockForKey")
		F.Facts["sstable.cache.get.conds"] = strings.Join(st.apIfConds("Reader.Get"), " | ")
		F.Facts["sstable.cache.Put.conds"] = strings.Join(st.apIfConds("BlockCache.Put"), " | ")
		F.Facts["sstable.cache.Put.store"] = st.assignedExprSel("BlockCache.Put", "c.blocks[offset]")
		F.Facts["sstable.cache.Get.lookup"] = st.assignedExpr("BlockCache.Get", "block")
		F.Facts["sstable.cache.capacity"] = st.callArgText("OpenReader", "NewBlockCache")
		F.Facts["sstable.cache.users"] = st.apCountCalls("r.blockCache.Get") + " Get / " + st.apCountCalls("r.blockCache.Put") + " Put"
	})
}
