package main

import (
	"fmt"
	"path/filepath"
	"strings"
)

var pkgs = map[string]*pkg{}

func P(repo, rel string) *pkg {
	if p, ok := pkgs[rel]; ok {
		return p
	}
	p := loadPkg(repo, rel)
	pkgs[rel] = p
	return p
}

func one(xs []string, what string) string {
	if len(xs) == 0 {
		fail("%s: not found", what)
		return "?"
	}
	for _, x := range xs[1:] {
		if x != xs[0] {
			fail("%s: inconsistent values %v", what, xs)
		}
	}
	return xs[0]
}

// registries: each area file adds its extractor (reads the source, fills F) and generator (writes Gen/<Area>.lean)
var extractors []func(repo string)
var generators []func(dir string)

func extractAll(repo string) {
	for _, e := range extractors {
		e(repo)
	}
}

func writeGen(dir string) {
	for _, g := range generators {
		g(dir)
	}
}

func init() {
	extractors = append(extractors, extractCore)
	generators = append(generators, genConsts)
}

// genConst / genFact: accessors for generators (record an error when missing)
func genConst(k string) string {
	v, ok := F.Consts[k]
	if !ok {
		fail("gen: missing const %s", k)
		return "0"
	}
	return v
}

func genFact(k string) string {
	v, ok := F.Facts[k]
	if !ok || strings.HasPrefix(v, "?") {
		fail("gen: missing fact %s", k)
		return "0"
	}
	return v
}

func extractCore(repo string) {
	// ---- pkg/wal
	w := P(repo, "pkg/wal")
	w.recordConst("RecordTypeFull", "RecordTypeFirst", "RecordTypeMiddle", "RecordTypeLast",
		"OpTypePut", "OpTypeDelete", "OpTypeMerge", "HeaderSize", "MaxRecordSize", "MaxSequenceNumber",
		"WALStatusActive", "WALStatusRotating", "WALStatusClosed")
	F.Facts["wal.NewWAL.bufio"] = one(w.callArgs("NewWAL", "bufio.NewWriterSize", 1), "wal.NewWAL bufio size")
	F.Facts["wal.ReuseWAL.bufio"] = one(w.callArgs("ReuseWAL", "bufio.NewWriterSize", 1), "wal.ReuseWAL bufio size")
	F.Facts["wal.recoverFromCorruption.skip"] = w.forBound("recoverFromCorruption")
	F.Facts["wal.parseEntryData.minSize"] = w.firstIfLenLess("Reader.parseEntryData")

	// ---- pkg/sstable (+ block, footer, bloom)
	b := P(repo, "pkg/sstable/block")
	b.recordConst("RestartInterval", "BlockFooterSize", "TombstoneValueLengthMarker", "MaxBlockEntries")
	st := P(repo, "pkg/sstable")
	st.recordConst("IndexKeyInterval")
	ft := P(repo, "pkg/sstable/footer")
	ft.recordConst("FooterSize", "FooterMagic", "CurrentVersion")
	F.Facts["sstable.bloom.fpr"] = one(st.callArgs("NewBlockBloomFilterBuilder", "bloomfilter.NewBloomFilter", 0), "bloom false-positive rate")
	F.Facts["sstable.bloom.expected"] = st.fieldInit("DefaultWriterOptions", "ExpectedEntriesPerBlock")
	F.Facts["sstable.bloom.default"] = st.fieldInit("DefaultWriterOptions", "EnableBloomFilter")

	// ---- call-order facts of the write / flush / recovery path (premises of the engine model)
	w = P(repo, "pkg/wal")
	F.Facts["wal.Append.order"] = w.callOrder("WAL.Append", "mu.Lock", "writeRecord", "writeFragmentedRecord", "notifyEntryObservers", "maybeSync")
	F.Facts["wal.AppendBatch.order"] = w.callOrder("WAL.AppendBatch", "mu.Lock", "writer.Flush", "writeRecord", "notifyBatchObservers", "maybeSync")
	F.Facts["wal.syncLocked.order"] = w.callOrder("WAL.syncLocked", "writer.Flush", "file.Sync", "notifySyncObservers")
	F.Facts["wal.Close.order"] = w.callOrder("WAL.Close", "writer.Flush", "file.Sync", "file.Close")
	F.Facts["wal.AppendBatch.nextSequence"] = w.assignedExprSel("WAL.AppendBatch", "w.nextSequence")
	sm := P(repo, "pkg/engine/storage")
	F.Facts["storage.Put.order"] = sm.callOrder("Manager.Put", "mu.Lock", "mu.RLock", ".Append", "memTablePool.Put", "scheduleFlush")
	F.Facts["storage.Delete.order"] = sm.callOrder("Manager.Delete", "mu.Lock", "mu.RLock", ".Append", "memTablePool.Delete", "scheduleFlush")
	F.Facts["storage.ApplyBatch.order"] = sm.callOrder("Manager.ApplyBatch", "mu.Lock", "mu.RLock", ".AppendBatch", "memTablePool.Put", "memTablePool.Delete", "scheduleFlush")
	F.Facts["storage.ApplyBatch.seqNum"] = sm.assignedExpr("Manager.ApplyBatch", "seqNum")
	F.Facts["storage.Get.order"] = sm.callOrder("Manager.Get", "mu.Lock", "mu.RLock", "memTablePool.Get", "NewIterator", ".Seek", "IsTombstone")
	F.Facts["storage.rotateWAL.order"] = sm.callOrder("Manager.rotateWAL", "SetRotating", "wal.NewWAL", "UpdateNextSequence", "atomic.StorePointer", "oldWAL.Close")
	F.Facts["storage.FlushMemTables.order"] = sm.callOrder("Manager.FlushMemTables", "flushMu.Lock", "rotateWAL", "flushMemTable")
	F.Facts["storage.flushMemTable.order"] = sm.callOrder("Manager.flushMemTable", "sstable.NewWriter", "AddWithSequence", "writer.Finish", "sstable.OpenReader", "mu.Lock")
	F.Facts["storage.scheduleFlush.order"] = sm.callOrder("Manager.scheduleFlush", "SwitchToNewMemTable", "append")
	F.Facts["storage.recoverFromWAL.order"] = sm.callOrder("Manager.recoverFromWAL", "memtable.RecoverFromWAL", "UpdateNextSequence", "SetImmutable", "SetActiveMemTable")
	F.Facts["storage.NewManager.order"] = sm.callOrder("NewManager", "wal.ReuseWAL", "wal.NewWAL", "loadSSTables", "recoverFromWAL", "backgroundFlush")
	mt := P(repo, "pkg/memtable")
	F.Facts["memtable.SwitchToNewMemTable.order"] = mt.callOrder("MemTablePool.SwitchToNewMemTable", "mu.Lock", "flushPending.Store", "SetImmutable", "NewMemTable", "append")
	F.Facts["memtable.Pool.Get.order"] = mt.callOrder("MemTablePool.Get", "mu.RLock", "active.Get", ".Get")
	F.Facts["memtable.Insert.order"] = mt.callOrder("SkipList.Insert", "node.setNext", "setNext")
	F.Facts["memtable.recovery.order"] = mt.callOrder("RecoverFromWAL", "ApproximateSize", "SetImmutable", "NewMemTable", "ProcessWALEntry", "wal.ReplayWALDir")
	mt.recordConst("MaxHeight")
}

// forBound: the constant upper bound of the first `for i := 0; i < N; i++` loop in the function.
func (p *pkg) forBound(fn string) string {
	fd := p.findFunc(fn)
	if fd == nil {
		fail("function %s.%s not found", p.name, fn)
		return "?"
	}
	res := "?"
	inspectFor(fd, func(cond string, bound string) {
		if res == "?" {
			res = bound
		}
	}, p)
	if res == "?" {
		fail("%s.%s: no constant for-loop bound", p.name, fn)
	}
	return res
}

func genConsts(dir string) {
	c, f := genConst, genFact
	var sb strings.Builder
	sb.WriteString("-- GENERATED by kvfacts from /repo's working tree on every run. Do not edit.\n")
	sb.WriteString("import Kevo.Model.Wal\nimport Kevo.Model.Table\nnamespace Kevo.Gen\n\n")
	fmt.Fprintf(&sb, "def walParams : Kevo.Wal.WalParams :=\n  { headerSize := %s, maxRecord := %s, tFull := %s, tFirst := %s, tMiddle := %s, tLast := %s,\n    opPut := %s, opDelete := %s, opMerge := %s, maxSeq := %s, skip := %s }\n",
		c("wal.HeaderSize"), c("wal.MaxRecordSize"), c("wal.RecordTypeFull"), c("wal.RecordTypeFirst"),
		c("wal.RecordTypeMiddle"), c("wal.RecordTypeLast"), c("wal.OpTypePut"), c("wal.OpTypeDelete"),
		c("wal.OpTypeMerge"), c("wal.MaxSequenceNumber"), f("wal.recoverFromCorruption.skip"))
	sb.WriteString("theorem walParams_wf : walParams.WF := by decide\n\n")
	fmt.Fprintf(&sb, "def walBufio : Nat := %s\n", f("wal.NewWAL.bufio"))
	fmt.Fprintf(&sb, "def walMinEntry : Nat := %s\n", f("wal.parseEntryData.minSize"))
	sb.WriteString("theorem walMinEntry_eq : walMinEntry = 13 := by decide\n")
	fmt.Fprintf(&sb, "\n-- bloomBits/bloomK are the integers the implementation computes (floating point) for the extracted\n-- parameters (fpr %s, expected %s); they are compared with the running code by the `sst` component (bloomparams).\n", f("sstable.bloom.fpr"), f("sstable.bloom.expected"))
	fmt.Fprintf(&sb, "def tableParams : Kevo.Table.Params :=\n  { ri := %s, blockCut := %s, footerSize := %s, magic := %s, version := %s,\n    bloomBits := 9586, bloomK := 7, bloomN := %s }\n",
		c("block.RestartInterval"), c("sstable.IndexKeyInterval"), c("footer.FooterSize"), c("footer.FooterMagic"),
		c("footer.CurrentVersion"), f("sstable.bloom.expected"))
	fmt.Fprintf(&sb, "def blockFooterSize : Nat := %s\ndef tombMarker : Nat := %s\n", c("block.BlockFooterSize"), c("block.TombstoneValueLengthMarker"))
	sb.WriteString("theorem blockConsts_eq : blockFooterSize = Kevo.Block.footerSize ∧ tombMarker = Kevo.Block.tombMarker := by decide\n")
	sb.WriteString("theorem tableParams_shape : tableParams.ri > 0 ∧ tableParams.footerSize = 68 ∧ tableParams.version ≥ 2 := by decide\n")
	sb.WriteString("\nend Kevo.Gen\n")
	writeIfChanged(filepath.Join(dir, "Consts.lean"), sb.String())
}
