package main

// extract_config.go — area `config` (property C20).
//
// TRANSLATOR for the guard chain config.Config.Validate: a sequence of
//
//	if <cond> { return fmt.Errorf("<text>", ...) }     ...     return nil
//
// where <cond> is built from field reads `c.Field`, literals / named constants, comparisons, `||`, `&&`, `!`,
// `math.IsNaN(c.F)`, `math.IsInf(c.F, k)`. It regenerates lean/Kevo/Gen/Config.lean (structure Cfg, guards,
// validate, guard texts, defaults of NewDefaultConfig, field accessors) from the CURRENT source on every run.
// Anything outside this subset is reported with fail("config...") and makes the C20 obligations break.
//
// FACTS: struct layout + JSON tags, defaults, DefaultManifestFileName, call order / statement shape of
// SaveManifest, LoadConfigFromManifest and the load-or-create decision of engine.NewEngineFacade.

import (
	"fmt"
	"go/ast"
	"go/constant"
	"go/printer"
	"go/token"
	"path/filepath"
	"reflect"
	"strconv"
	"strings"
)

func init() {
	extractors = append(extractors, extractConfig)
	generators = append(generators, genConfig)
}

type cfgField struct {
	name   string
	goType string // as written
	kind   string // int | str | float
	lo, hi string // Go range of integer fields
	json   string
}

type cfgGuard struct {
	src  string // Go source of the condition
	lean string // Bool-valued Lean expression over `c : Cfg`
	text string // format string of the fmt.Errorf
	errv string // the %w argument
}

type cfgDefault struct {
	field string
	lean  string
}

var cfgT struct {
	ok       bool
	fields   []cfgField
	guards   []cfgGuard
	defaults []cfgDefault
}

func cfail(format string, a ...any) { fail("config: "+format, a...) }

// ---------------------------------------------------------------------------------------------------------
// struct layout
// ---------------------------------------------------------------------------------------------------------

func (p *pkg) findType(name string) ast.Expr {
	for _, f := range p.files {
		for _, d := range f.Decls {
			gd, ok := d.(*ast.GenDecl)
			if !ok || gd.Tok != token.TYPE {
				continue
			}
			for _, s := range gd.Specs {
				ts := s.(*ast.TypeSpec)
				if ts.Name.Name == name {
					return ts.Type
				}
			}
		}
	}
	return nil
}

// basicKind resolves a field type to (kind, lo, hi); named types are followed to their underlying basic type.
func (p *pkg) basicKind(t ast.Expr, depth int) (kind, lo, hi string, ok bool) {
	id, isId := t.(*ast.Ident)
	if !isId || depth > 4 {
		return "", "", "", false
	}
	switch id.Name {
	case "int", "int64": // int is 64 bits on every platform the project builds for (recorded as an assumption)
		return "int", "-9223372036854775808", "9223372036854775807", true
	case "int32":
		return "int", "-2147483648", "2147483647", true
	case "string":
		return "str", "", "", true
	case "float64":
		return "float", "", "", true
	}
	if u := p.findType(id.Name); u != nil {
		return p.basicKind(u, depth+1)
	}
	return "", "", "", false
}

func extractCfgStruct(p *pkg) []cfgField {
	t := p.findType("Config")
	st, ok := t.(*ast.StructType)
	if !ok {
		cfail("type Config is not a struct")
		return nil
	}
	var out []cfgField
	seenJSON := map[string]bool{}
	for _, f := range st.Fields.List {
		ts := exprString(f.Type)
		if len(f.Names) == 0 {
			cfail("Config: embedded field %s is outside the supported subset", ts)
			continue
		}
		for _, n := range f.Names {
			if ts == "sync.RWMutex" || ts == "sync.Mutex" {
				if ast.IsExported(n.Name) {
					cfail("Config: exported mutex field %s", n.Name)
				}
				continue // lock, not data
			}
			kind, lo, hi, ok := p.basicKind(f.Type, 0)
			if !ok {
				cfail("Config.%s: type %s is outside the supported subset (int, int32, int64, string, float64 or a named type of these)", n.Name, ts)
				continue
			}
			if !ast.IsExported(n.Name) {
				cfail("Config.%s: unexported data field would not be stored by encoding/json", n.Name)
				continue
			}
			tag := ""
			if f.Tag != nil {
				s, _ := strconv.Unquote(f.Tag.Value)
				tag = reflect.StructTag(s).Get("json")
			}
			if tag == "" || tag == "-" || strings.Contains(tag, ",") {
				cfail("Config.%s: json tag %q is outside the supported subset (plain unique name required)", n.Name, tag)
				continue
			}
			if seenJSON[strings.ToLower(tag)] {
				cfail("Config.%s: json name %q is used twice (encoding/json would drop or merge the fields)", n.Name, tag)
				continue
			}
			seenJSON[strings.ToLower(tag)] = true
			out = append(out, cfgField{name: n.Name, goType: ts, kind: kind, lo: lo, hi: hi, json: tag})
		}
	}
	return out
}

// ---------------------------------------------------------------------------------------------------------
// condition translator
// ---------------------------------------------------------------------------------------------------------

type cfgTr struct {
	p      *pkg
	recv   string
	fields map[string]cfgField
	where  string
	bad    bool
}

func (t *cfgTr) fail(format string, a ...any) {
	t.bad = true
	cfail("%s: %s", t.where, fmt.Sprintf(format, a...))
}

type cfgOperand struct {
	kind string         // field kind, or "" for a literal
	lean string         // for fields
	lit  constant.Value // for literals
}

func (t *cfgTr) operand(e ast.Expr) (cfgOperand, bool) {
	switch x := e.(type) {
	case *ast.ParenExpr:
		return t.operand(x.X)
	case *ast.SelectorExpr:
		if id, ok := x.X.(*ast.Ident); ok && id.Name == t.recv {
			f, ok := t.fields[x.Sel.Name]
			if !ok {
				t.fail("read of %s which is not a data field of Config", exprString(e))
				return cfgOperand{}, false
			}
			return cfgOperand{kind: f.kind, lean: "c." + f.name}, true
		}
	}
	// anything else must be a compile-time constant (literal, named constant, constant arithmetic)
	if mentionsIdent(e, t.recv) {
		t.fail("operand `%s` is outside the supported subset (only plain field reads %s.Field; no arithmetic, conversions, calls or indexing on fields)", exprString(e), t.recv)
		return cfgOperand{}, false
	}
	v, err := t.p.eval(e, 0)
	if err != nil || v == nil || v.Kind() == constant.Unknown {
		t.fail("operand `%s` is neither a field read nor a constant (%v)", exprString(e), err)
		return cfgOperand{}, false
	}
	if _, isCall := e.(*ast.CallExpr); isCall {
		t.fail("operand `%s`: calls/conversions are outside the supported subset", exprString(e))
		return cfgOperand{}, false
	}
	return cfgOperand{lit: v}, true
}

func mentionsIdent(e ast.Expr, name string) bool {
	found := false
	ast.Inspect(e, func(n ast.Node) bool {
		if id, ok := n.(*ast.Ident); ok && id.Name == name {
			found = true
		}
		return true
	})
	return found
}

func leanBytes(s string) string {
	if s == "" {
		return "([] : GoStr)"
	}
	parts := make([]string, len(s))
	for i := 0; i < len(s); i++ {
		parts[i] = strconv.Itoa(int(s[i]))
	}
	return "([" + strings.Join(parts, ", ") + "] : GoStr)"
}

func leanInt(v constant.Value) (string, bool) {
	iv := constant.ToInt(v)
	if iv.Kind() != constant.Int {
		return "", false
	}
	return "(" + iv.ExactString() + " : Int)", true
}

func leanRat(v constant.Value) (string, bool) {
	fv := constant.ToFloat(v)
	if fv.Kind() != constant.Float && fv.Kind() != constant.Int {
		return "", false
	}
	n, d := constant.Num(fv), constant.Denom(fv)
	if n.Kind() != constant.Int || d.Kind() != constant.Int {
		return "", false
	}
	if d.ExactString() == "1" {
		return "(Ratio.fin (" + n.ExactString() + " : Rat))", true
	}
	return "(Ratio.fin ((" + n.ExactString() + " : Rat) / (" + d.ExactString() + " : Rat)))", true
}

// literal coerced to the kind of the field it is compared with
func (t *cfgTr) coerce(o cfgOperand, kind string, src ast.Expr) (string, bool) {
	if o.kind != "" {
		if o.kind != kind {
			t.fail("`%s`: comparison between a %s field and a %s field", exprString(src), kind, o.kind)
			return "", false
		}
		return o.lean, true
	}
	switch kind {
	case "int":
		if o.lit.Kind() == constant.Int || o.lit.Kind() == constant.Float {
			if s, ok := leanInt(o.lit); ok {
				return s, true
			}
		}
	case "float":
		if o.lit.Kind() == constant.Int || o.lit.Kind() == constant.Float {
			if s, ok := leanRat(o.lit); ok {
				return s, true
			}
		}
	case "str":
		if o.lit.Kind() == constant.String {
			return leanBytes(constant.StringVal(o.lit)), true
		}
	}
	t.fail("`%s`: constant %s cannot be compared with a %s field", exprString(src), o.lit.ExactString(), kind)
	return "", false
}

func (t *cfgTr) cmp(x *ast.BinaryExpr) string {
	l, ok1 := t.operand(x.X)
	r, ok2 := t.operand(x.Y)
	if !ok1 || !ok2 {
		return "false"
	}
	kind := l.kind
	if kind == "" {
		kind = r.kind
	}
	if kind == "" {
		t.fail("`%s`: comparison between two constants is outside the supported subset", exprString(x))
		return "false"
	}
	L, ok1 := t.coerce(l, kind, x)
	R, ok2 := t.coerce(r, kind, x)
	if !ok1 || !ok2 {
		return "false"
	}
	switch kind {
	case "int":
		op := map[token.Token]string{token.LSS: "<", token.LEQ: "≤", token.GTR: ">", token.GEQ: "≥", token.EQL: "=", token.NEQ: "≠"}[x.Op]
		return fmt.Sprintf("decide (%s %s %s)", L, op, R)
	case "str":
		switch x.Op {
		case token.EQL:
			return fmt.Sprintf("decide (%s = %s)", L, R)
		case token.NEQ:
			return fmt.Sprintf("decide (%s ≠ %s)", L, R)
		}
		t.fail("`%s`: ordering comparison of strings is outside the supported subset", exprString(x))
		return "false"
	case "float": // IEEE-754 comparison semantics live in Kevo.GoVal.Ratio
		switch x.Op {
		case token.LEQ:
			return fmt.Sprintf("Ratio.le %s %s", L, R)
		case token.LSS:
			return fmt.Sprintf("Ratio.lt %s %s", L, R)
		case token.GEQ:
			return fmt.Sprintf("Ratio.le %s %s", R, L)
		case token.GTR:
			return fmt.Sprintf("Ratio.lt %s %s", R, L)
		case token.EQL:
			return fmt.Sprintf("Ratio.eq %s %s", L, R)
		case token.NEQ:
			return fmt.Sprintf("(!Ratio.eq %s %s)", L, R)
		}
	}
	t.fail("`%s`: unsupported comparison", exprString(x))
	return "false"
}

func (t *cfgTr) floatFieldArg(e ast.Expr, call string) (string, bool) {
	o, ok := t.operand(e)
	if !ok {
		return "", false
	}
	if o.kind != "float" {
		t.fail("%s: argument `%s` is not a float64 field", call, exprString(e))
		return "", false
	}
	return o.lean, true
}

func (t *cfgTr) cond(e ast.Expr) string {
	switch x := e.(type) {
	case *ast.ParenExpr:
		return t.cond(x.X)
	case *ast.UnaryExpr:
		if x.Op == token.NOT {
			return "(!" + t.cond(x.X) + ")"
		}
	case *ast.BinaryExpr:
		switch x.Op {
		case token.LOR:
			return "(" + t.cond(x.X) + " || " + t.cond(x.Y) + ")"
		case token.LAND:
			return "(" + t.cond(x.X) + " && " + t.cond(x.Y) + ")"
		case token.LSS, token.LEQ, token.GTR, token.GEQ, token.EQL, token.NEQ:
			return t.cmp(x)
		}
	case *ast.CallExpr:
		switch exprString(x.Fun) {
		case "math.IsNaN":
			if len(x.Args) == 1 {
				if a, ok := t.floatFieldArg(x.Args[0], "math.IsNaN"); ok {
					return "Ratio.isNaN " + a
				}
				return "false"
			}
		case "utf8.ValidString":
			if len(x.Args) == 1 {
				o, ok := t.operand(x.Args[0])
				if !ok {
					return "false"
				}
				if o.kind != "str" {
					t.fail("utf8.ValidString: argument `%s` is not a string field", exprString(x.Args[0]))
					return "false"
				}
				return "decide (ValidUTF8 " + o.lean + ")"
			}
		case "math.IsInf":
			if len(x.Args) == 2 {
				a, ok := t.floatFieldArg(x.Args[0], "math.IsInf")
				if !ok {
					return "false"
				}
				v, err := t.p.eval(x.Args[1], 0)
				if err != nil || constant.ToInt(v).Kind() != constant.Int || mentionsIdent(x.Args[1], t.recv) {
					t.fail("math.IsInf: sign argument `%s` is not a constant", exprString(x.Args[1]))
					return "false"
				}
				return fmt.Sprintf("Ratio.isInf %s (%s : Int)", a, constant.ToInt(v).ExactString())
			}
		}
	}
	t.fail("condition `%s` is outside the supported subset (comparisons of fields with constants, ||, &&, !, math.IsNaN, math.IsInf, utf8.ValidString)", exprString(e))
	return "false"
}

func recvName(fd *ast.FuncDecl) string {
	if fd.Recv != nil && len(fd.Recv.List) > 0 && len(fd.Recv.List[0].Names) > 0 {
		return fd.Recv.List[0].Names[0].Name
	}
	return ""
}

func isCallTo(e ast.Expr, callee string) bool {
	ce, ok := e.(*ast.CallExpr)
	return ok && exprString(ce.Fun) == callee
}

func extractValidate(p *pkg, fields []cfgField) ([]cfgGuard, bool) {
	fd := p.findFunc("Config.Validate")
	if fd == nil || fd.Body == nil {
		cfail("function Config.Validate not found")
		return nil, false
	}
	// since the repair of D45 (recursive read lock) Validate is `RLock; defer RUnlock; return c.validateLocked()` and the guard
	// chain lives in validateLocked (which SaveManifest calls under its own lock): follow that one delegation, pin its shape
	F.Facts["config.Validate.shape"] = "direct"
	if l := fd.Body.List; len(l) == 3 {
		if rs, ok := l[2].(*ast.ReturnStmt); ok && len(rs.Results) == 1 && isCallTo(rs.Results[0], recvName(fd)+".validateLocked") {
			es, ok1 := l[0].(*ast.ExprStmt)
			ds, ok2 := l[1].(*ast.DeferStmt)
			if ok1 && ok2 && isCallTo(es.X, recvName(fd)+".mu.RLock") && isCallTo(ds.Call, recvName(fd)+".mu.RUnlock") {
				if inner := p.findFunc("Config.validateLocked"); inner != nil && inner.Body != nil {
					F.Facts["config.Validate.shape"] = "mu.RLock ; defer mu.RUnlock ; return validateLocked()"
					fd = inner
				}
			}
		}
	}
	if fd.Type.Params != nil && len(fd.Type.Params.List) != 0 {
		cfail("Validate takes parameters: outside the supported subset")
		return nil, false
	}
	t := &cfgTr{p: p, recv: recvName(fd), fields: map[string]cfgField{}}
	for _, f := range fields {
		t.fields[f.name] = f
	}
	var gs []cfgGuard
	stmts := fd.Body.List
	closed := false
	for i, s := range stmts {
		line := p.fset.Position(s.Pos()).Line
		t.where = fmt.Sprintf("Validate statement %d (line %d)", i, line)
		if closed {
			t.fail("statement after the final `return nil`")
			break
		}
		switch x := s.(type) {
		case *ast.ExprStmt: // read lock of the receiver: no effect on the result
			if isCallTo(x.X, t.recv+".mu.RLock") || isCallTo(x.X, t.recv+".mu.Lock") {
				continue
			}
		case *ast.DeferStmt:
			if isCallTo(x.Call, t.recv+".mu.RUnlock") || isCallTo(x.Call, t.recv+".mu.Unlock") {
				continue
			}
		case *ast.ReturnStmt:
			if len(x.Results) == 1 && exprString(x.Results[0]) == "nil" {
				closed = true
				if i != len(stmts)-1 {
					t.fail("`return nil` is not the last statement")
				}
				continue
			}
		case *ast.IfStmt:
			if x.Init != nil || x.Else != nil || len(x.Body.List) != 1 {
				t.fail("if-statement with init/else/several statements is outside the supported subset")
				continue
			}
			rs, ok := x.Body.List[0].(*ast.ReturnStmt)
			if !ok || len(rs.Results) != 1 || !isCallTo(rs.Results[0], "fmt.Errorf") {
				t.fail("guard body is not `return fmt.Errorf(...)`")
				continue
			}
			ce := rs.Results[0].(*ast.CallExpr)
			lit, ok := ce.Args[0].(*ast.BasicLit)
			if !ok || lit.Kind != token.STRING {
				t.fail("fmt.Errorf format is not a string literal")
				continue
			}
			text, _ := strconv.Unquote(lit.Value)
			errv := ""
			if strings.HasPrefix(text, "%w") && len(ce.Args) > 1 {
				errv = exprString(ce.Args[1])
			}
			gs = append(gs, cfgGuard{src: exprString(x.Cond), lean: t.cond(x.Cond), text: text, errv: errv})
			continue
		}
		t.fail("statement `%s` is outside the supported subset (if cond { return fmt.Errorf(...) } ... return nil)", strings.SplitN(nodeString(p, s), "\n", 2)[0])
	}
	if !closed && !t.bad {
		t.where = "Validate"
		t.fail("guard chain does not end in `return nil`")
	}
	return gs, !t.bad
}

func printerFprint(sb *strings.Builder, n ast.Node) { printer.Fprint(sb, token.NewFileSet(), n) }

func nodeString(p *pkg, n ast.Node) string {
	var sb strings.Builder
	printerFprint(&sb, n)
	return sb.String()
}

// ---------------------------------------------------------------------------------------------------------
// defaults
// ---------------------------------------------------------------------------------------------------------

func extractDefaults(p *pkg, fields []cfgField) ([]cfgDefault, bool) {
	fd := p.findFunc("NewDefaultConfig")
	if fd == nil {
		cfail("function NewDefaultConfig not found")
		return nil, false
	}
	param := ""
	if fd.Type.Params != nil && len(fd.Type.Params.List) == 1 && len(fd.Type.Params.List[0].Names) == 1 {
		param = fd.Type.Params.List[0].Names[0].Name
	}
	// locals of the form  x := filepath.Join(<param>, "lit")
	joins := map[string]string{}
	var lit *ast.CompositeLit
	okAll := true
	for _, s := range fd.Body.List {
		switch x := s.(type) {
		case *ast.AssignStmt:
			if len(x.Lhs) == 1 && len(x.Rhs) == 1 {
				id, _ := x.Lhs[0].(*ast.Ident)
				ce, _ := x.Rhs[0].(*ast.CallExpr)
				if id != nil && ce != nil && exprString(ce.Fun) == "filepath.Join" && len(ce.Args) == 2 && exprString(ce.Args[0]) == param {
					if bl, ok := ce.Args[1].(*ast.BasicLit); ok && bl.Kind == token.STRING {
						v, _ := strconv.Unquote(bl.Value)
						joins[id.Name] = v
						continue
					}
				}
			}
			cfail("NewDefaultConfig: statement `%s` is outside the supported subset", nodeString(p, s))
			okAll = false
		case *ast.ReturnStmt:
			if len(x.Results) == 1 {
				if ue, ok := x.Results[0].(*ast.UnaryExpr); ok && ue.Op == token.AND {
					lit, _ = ue.X.(*ast.CompositeLit)
				}
			}
			if lit == nil || exprString(lit.Type) != "Config" {
				cfail("NewDefaultConfig: does not return &Config{...}")
				return nil, false
			}
		default:
			cfail("NewDefaultConfig: statement `%s` is outside the supported subset", nodeString(p, s))
			okAll = false
		}
	}
	if lit == nil {
		cfail("NewDefaultConfig: no &Config{...} literal")
		return nil, false
	}
	byName := map[string]cfgField{}
	for _, f := range fields {
		byName[f.name] = f
	}
	var out []cfgDefault
	for _, el := range lit.Elts {
		kv, ok := el.(*ast.KeyValueExpr)
		if !ok {
			cfail("NewDefaultConfig: positional literal")
			return nil, false
		}
		name := exprString(kv.Key)
		f, ok := byName[name]
		if !ok {
			cfail("NewDefaultConfig: initialises %s which is not a data field", name)
			okAll = false
			continue
		}
		if id, ok := kv.Value.(*ast.Ident); ok && joins[id.Name] != "" && f.kind == "str" {
			F.Facts["config.default."+name] = "join:" + joins[id.Name]
			out = append(out, cfgDefault{name, "sub " + strconv.Quote(joins[id.Name])})
			continue
		}
		v, err := p.eval(kv.Value, 0)
		if err != nil || mentionsIdent(kv.Value, param) {
			cfail("NewDefaultConfig: value of %s (`%s`) is not a constant", name, exprString(kv.Value))
			okAll = false
			continue
		}
		F.Facts["config.default."+name] = v.ExactString()
		var lean string
		var lok bool
		switch f.kind {
		case "int":
			lean, lok = leanInt(v)
		case "float":
			lean, lok = leanRat(v)
		case "str":
			if v.Kind() == constant.String {
				lean, lok = leanBytes(constant.StringVal(v)), true
			}
		}
		if !lok {
			cfail("NewDefaultConfig: value %s does not fit field %s (%s)", v.ExactString(), name, f.goType)
			okAll = false
			continue
		}
		out = append(out, cfgDefault{name, lean})
	}
	return out, okAll
}

// ---------------------------------------------------------------------------------------------------------
// shape facts of SaveManifest / LoadConfigFromManifest / NewEngineFacade
// ---------------------------------------------------------------------------------------------------------

func oneLine(s string) string { return strings.Join(strings.Fields(s), " ") }

// returnsOf: the result lists of all return statements of fn (closures excluded), in source order.
func (p *pkg) returnsOf(fn string) string {
	fd := p.findFunc(fn)
	if fd == nil {
		cfail("function %s.%s not found", p.name, fn)
		return "?"
	}
	var out []string
	ast.Inspect(fd.Body, func(n ast.Node) bool {
		if _, ok := n.(*ast.FuncLit); ok {
			return false
		}
		if rs, ok := n.(*ast.ReturnStmt); ok {
			var parts []string
			for _, r := range rs.Results {
				parts = append(parts, oneLine(exprString(r)))
			}
			out = append(out, strings.Join(parts, ", "))
		}
		return true
	})
	return strings.Join(out, " | ")
}

// callArgText: the text of all arguments of the first call to `callee` inside fn.
func (p *pkg) callArgText(fn, callee string) string {
	fd := p.findFunc(fn)
	if fd == nil {
		cfail("function %s.%s not found", p.name, fn)
		return "?"
	}
	res := "?"
	ast.Inspect(fd.Body, func(n ast.Node) bool {
		ce, ok := n.(*ast.CallExpr)
		if !ok || res != "?" || exprString(ce.Fun) != callee {
			return true
		}
		var parts []string
		for _, a := range ce.Args {
			parts = append(parts, oneLine(exprString(a)))
		}
		res = strings.Join(parts, ", ")
		return true
	})
	if res == "?" {
		cfail("%s.%s: no call to %s", p.name, fn, callee)
	}
	return res
}

// ifHeaderOfCall: "<init>; <cond> => <body>" of the if statement whose Init (or preceding assignment) calls callee,
// used to pin `if err := c.Validate(); err != nil { return err }`.
func (p *pkg) ifHeaderOfCall(fn, callee string) string {
	fd := p.findFunc(fn)
	if fd == nil {
		cfail("function %s.%s not found", p.name, fn)
		return "?"
	}
	res := "?"
	ast.Inspect(fd.Body, func(n ast.Node) bool {
		is, ok := n.(*ast.IfStmt)
		if !ok || res != "?" || is.Init == nil {
			return true
		}
		found := false
		ast.Inspect(is.Init, func(m ast.Node) bool {
			if ce, ok := m.(*ast.CallExpr); ok && exprString(ce.Fun) == callee {
				found = true
			}
			return true
		})
		if found {
			var body []string
			for _, s := range is.Body.List {
				body = append(body, oneLine(nodeString(p, s)))
			}
			res = oneLine(nodeString(p, is.Init)) + "; " + oneLine(exprString(is.Cond)) + " => " + strings.Join(body, "; ")
			if is.Else != nil {
				res += " else …"
			}
		}
		return true
	})
	if res == "?" {
		cfail("%s.%s: no `if … := %s(…); …` statement", p.name, fn, callee)
	}
	return res
}

// assignmentsTo: right-hand sides of every assignment to identifier `name` in fn, in source order.
func (p *pkg) assignmentsTo(fn, name string) string {
	fd := p.findFunc(fn)
	if fd == nil {
		cfail("function %s.%s not found", p.name, fn)
		return "?"
	}
	var out []string
	ast.Inspect(fd.Body, func(n ast.Node) bool {
		as, ok := n.(*ast.AssignStmt)
		if !ok {
			return true
		}
		for i, l := range as.Lhs {
			if id, ok := l.(*ast.Ident); ok && id.Name == name {
				if len(as.Rhs) == len(as.Lhs) {
					out = append(out, oneLine(exprString(as.Rhs[i])))
				} else if len(as.Rhs) == 1 {
					out = append(out, oneLine(exprString(as.Rhs[0])))
				}
			}
		}
		return true
	})
	return strings.Join(out, " | ")
}

func endsInReturn(b *ast.BlockStmt) bool {
	if b == nil || len(b.List) == 0 {
		return false
	}
	_, ok := b.List[len(b.List)-1].(*ast.ReturnStmt)
	return ok
}

func containsCall(n ast.Node, callee string) bool {
	found := false
	ast.Inspect(n, func(m ast.Node) bool {
		if ce, ok := m.(*ast.CallExpr); ok && exprString(ce.Fun) == callee {
			found = true
		}
		return true
	})
	return found
}

// branchContext describes under which conditions the first call to `callee` in fn is reached:
//
//	after[<statement before the outermost enclosing if>] if <cond> { guard(<cond of an earlier if…return in the same block>) … <callee> }
func (p *pkg) branchContext(fn, callee string) string {
	fd := p.findFunc(fn)
	if fd == nil {
		cfail("function %s.%s not found", p.name, fn)
		return "?"
	}
	var walk func(b *ast.BlockStmt, depth int) string
	walk = func(b *ast.BlockStmt, depth int) string {
		var guards []string
		for i, s := range b.List {
			if !containsCall(s, callee) {
				if is, ok := s.(*ast.IfStmt); ok && depth > 0 && endsInReturn(is.Body) && is.Else == nil {
					h := oneLine(exprString(is.Cond))
					if is.Init != nil {
						h = oneLine(nodeString(p, is.Init)) + "; " + h
					}
					guards = append(guards, "guard("+h+")")
				}
				continue
			}
			pre := ""
			if depth == 0 && i > 0 {
				pre = "after[" + oneLine(nodeString(p, b.List[i-1])) + "] "
			}
			g := strings.Join(guards, " ")
			if g != "" {
				g += " "
			}
			is, ok := s.(*ast.IfStmt)
			if !ok {
				return pre + g + callee
			}
			if is.Init != nil && containsCall(is.Init, callee) {
				return pre + g + callee
			}
			h := oneLine(exprString(is.Cond))
			if is.Init != nil {
				h = oneLine(nodeString(p, is.Init)) + "; " + h
			}
			if containsCall(is.Body, callee) {
				return pre + g + "if " + h + " { " + walk(is.Body, depth+1) + " }"
			}
			if eb, ok := is.Else.(*ast.BlockStmt); ok && containsCall(eb, callee) {
				return pre + g + "if " + h + " {…} else { " + walk(eb, depth+1) + " }"
			}
			return pre + g + "if " + h + " … " + callee
		}
		return "?"
	}
	res := walk(fd.Body, 0)
	if res == "?" {
		cfail("%s.%s: no call to %s", p.name, fn, callee)
	}
	return res
}

func extractConfig(repo string) {
	p := P(repo, "pkg/config")
	p.recordConst("CurrentManifestVersion")
	if v, err := p.constByName("DefaultManifestFileName"); err == nil && v.Kind() == constant.String {
		F.Consts["config.DefaultManifestFileName"] = constant.StringVal(v)
	} else {
		cfail("DefaultManifestFileName is not a string constant")
	}

	fields := extractCfgStruct(p)
	var layout []string
	for _, f := range fields {
		layout = append(layout, f.name+":"+f.goType+":"+f.json)
	}
	F.Facts["config.Config.fields"] = strings.Join(layout, ",")

	guards, gok := extractValidate(p, fields)
	var conds, texts []string
	errs := map[string]bool{}
	for _, g := range guards {
		conds = append(conds, g.src)
		texts = append(texts, g.text)
		errs[g.errv] = true
	}
	F.Facts["config.Validate.guards"] = strings.Join(conds, " | ")
	F.Facts["config.Validate.messages"] = strings.Join(texts, " | ")
	F.Facts["config.Validate.errors"] = strings.Join(sortedKeys(errs), ",")

	defaults, dok := extractDefaults(p, fields)

	cfgT.fields, cfgT.guards, cfgT.defaults = fields, guards, defaults
	cfgT.ok = gok && dok && len(fields) > 0

	// --- SaveManifest: validate first, then write a temp file and rename it over MANIFEST
	F.Facts["config.SaveManifest.order"] = p.callOrder("Config.SaveManifest", "mu.RLock", ".validateLocked", "os.MkdirAll", "json.MarshalIndent", "json.Marshal", "os.WriteFile", "writeFileSync", "os.Create", "os.OpenFile", "os.Rename")
	// the temp file is written AND synced before the rename publishes it (repair: manifest renamed into place unsynced)
	F.Facts["config.writeFileSync.order"] = p.callOrder("writeFileSync", "os.OpenFile", "os.Create", ".Write", ".Sync", ".Close")
	F.Facts["config.SaveManifest.validate"] = p.ifHeaderOfCall("Config.SaveManifest", recvOf(p, "Config.SaveManifest")+".validateLocked")
	F.Facts["config.SaveManifest.manifestPath"] = p.assignedExpr("Config.SaveManifest", "manifestPath")
	F.Facts["config.SaveManifest.tempPath"] = p.assignedExpr("Config.SaveManifest", "tempPath")
	F.Facts["config.SaveManifest.marshal"] = p.callArgText("Config.SaveManifest", "json.MarshalIndent")
	F.Facts["config.SaveManifest.write"] = p.callArgText("Config.SaveManifest", "writeFileSync")
	F.Facts["config.SaveManifest.rename"] = p.callArgText("Config.SaveManifest", "os.Rename")
	F.Facts["config.SaveManifest.returns"] = p.returnsOf("Config.SaveManifest")

	// --- LoadConfigFromManifest: read, decode, validate; every error return carries a nil config
	F.Facts["config.Load.order"] = p.callOrder("LoadConfigFromManifest", "os.ReadFile", "os.IsNotExist", "json.Unmarshal", ".Validate")
	F.Facts["config.Load.manifestPath"] = p.assignedExpr("LoadConfigFromManifest", "manifestPath")
	F.Facts["config.Load.read"] = p.callArgText("LoadConfigFromManifest", "os.ReadFile")
	F.Facts["config.Load.unmarshal"] = p.callArgText("LoadConfigFromManifest", "json.Unmarshal")
	F.Facts["config.Load.notFound"] = p.branchContext("LoadConfigFromManifest", "os.IsNotExist")
	F.Facts["config.Load.validate"] = p.ifHeaderOfCall("LoadConfigFromManifest", "cfg.Validate")
	F.Facts["config.Load.returns"] = p.returnsOf("LoadConfigFromManifest")

	// --- NewEngineFacade: load-or-create; the default branch only under ErrManifestNotFound
	e := P(repo, "pkg/engine")
	F.Facts["config.NewEngineFacade.order"] = e.callOrder("NewEngineFacade", "config.LoadConfigFromManifest", "errors.Is", "config.NewDefaultConfig", ".SaveManifest", "storage.NewManager")
	F.Facts["config.NewEngineFacade.default"] = e.branchContext("NewEngineFacade", "config.NewDefaultConfig")
	F.Facts["config.NewEngineFacade.cfg"] = e.assignmentsTo("NewEngineFacade", "cfg")
	F.Facts["config.NewEngineFacade.storage"] = e.callArgText("NewEngineFacade", "storage.NewManager")
	F.Facts["config.NewEngine.delegates"] = e.returnsOf("NewEngine")
}

func recvOf(p *pkg, fn string) string {
	if fd := p.findFunc(fn); fd != nil {
		return recvName(fd)
	}
	return "?"
}

// ---------------------------------------------------------------------------------------------------------
// generator: lean/Kevo/Gen/Config.lean
// ---------------------------------------------------------------------------------------------------------

func leanStrList(xs []string) string {
	q := make([]string, len(xs))
	for i, x := range xs {
		q[i] = strconv.Quote(x)
	}
	return "[" + strings.Join(q, ",\n   ") + "]"
}

func genConfig(dir string) {
	path := filepath.Join(dir, "Config.lean")
	var sb strings.Builder
	sb.WriteString("-- GENERATED by kvfacts (extract/extract_config.go) from pkg/config/config.go on every run. Do not edit.\n")
	sb.WriteString("import Kevo.Base.GoVal\nnamespace Kevo.Gen.Config\nopen Kevo.GoVal\n\n")
	if !cfgT.ok {
		// the translation failed: emit a file that cannot satisfy the proofs (and say why in facts.json errors)
		sb.WriteString("-- TRANSLATION FAILED: see the `config:` errors printed by kvfacts. Kevo.Proofs.Config will not build.\n")
		sb.WriteString("def translationFailed : Bool := true\n\nend Kevo.Gen.Config\n")
		writeIfChanged(path, sb.String())
		return
	}
	leanType := map[string]string{"int": "Int", "str": "GoStr", "float": "Ratio"}
	zero := map[string]string{"int": "0", "str": "[]", "float": "Ratio.fin 0"}
	sb.WriteString("/-- config.Config: the data fields in declaration order (the mutex is not data). Integers are unbounded here;\n    `representable` states the range of the Go type. -/\nstructure Cfg where\n")
	for _, f := range cfgT.fields {
		fmt.Fprintf(&sb, "  %s : %s  -- %s `json:\"%s\"`\n", f.name, leanType[f.kind], f.goType, f.json)
	}
	sb.WriteString("  deriving DecidableEq\n\n")
	sb.WriteString("/-- Go's zero value `Config{}` (what json.Unmarshal starts from). -/\ndef zero : Cfg :=\n  { ")
	for i, f := range cfgT.fields {
		if i > 0 {
			sb.WriteString(", ")
			if i%4 == 0 {
				sb.WriteString("\n    ")
			}
		}
		fmt.Fprintf(&sb, "%s := %s", f.name, zero[f.kind])
	}
	sb.WriteString(" }\n\n")

	sb.WriteString("/-- the conditions of the guard chain `Config.Validate`, in source order (true = that guard returns its error). -/\ndef guards (c : Cfg) : List Bool :=\n  [")
	for i, g := range cfgT.guards {
		if i > 0 {
			sb.WriteString(",\n   ")
		}
		fmt.Fprintf(&sb, "%s /- %d: %s -/", g.lean, i, strings.ReplaceAll(g.src, "-/", "- /"))
	}
	sb.WriteString("]\n\n")
	sb.WriteString("/-- translated `Config.Validate`: index of the first guard that fires; `none` = `return nil`. -/\ndef validate (c : Cfg) : Option Nat := firstTrue (guards c)\n\n")
	var conds, texts, errs []string
	for _, g := range cfgT.guards {
		conds, texts, errs = append(conds, g.src), append(texts, g.text), append(errs, g.errv)
	}
	fmt.Fprintf(&sb, "def guardConds : List String :=\n  %s\n\n", leanStrList(conds))
	fmt.Fprintf(&sb, "/-- format strings of the errors, same order. -/\ndef guardTexts : List String :=\n  %s\n\n", leanStrList(texts))
	fmt.Fprintf(&sb, "/-- the error value wrapped by each guard (`%%w`). -/\ndef guardErrs : List String :=\n  %s\n\n", leanStrList(errs))

	sb.WriteString("/-- `NewDefaultConfig(dbPath)`; `sub name` stands for `filepath.Join(dbPath, name)`. -/\ndef defaults (sub : String → GoStr) : Cfg :=\n  { zero with")
	for i, d := range cfgT.defaults {
		if i > 0 {
			sb.WriteString(",")
		}
		if i%3 == 0 {
			sb.WriteString("\n   ")
		}
		fmt.Fprintf(&sb, " %s := %s", d.field, d.lean)
	}
	sb.WriteString(" }\n\n")
	fmt.Fprintf(&sb, "def manifestFileName : String := %s\n\n", strconv.Quote(genConst("config.DefaultManifestFileName")))

	// accessors used by the model driver and the codec assumptions
	sb.WriteString("/-- all fields with their values, declaration order (printing). -/\ndef fields (c : Cfg) : List (String × FieldVal) :=\n  [")
	ctor := map[string]string{"int": ".int", "str": ".str", "float": ".ratio"}
	for i, f := range cfgT.fields {
		if i > 0 {
			sb.WriteString(",\n   ")
		}
		fmt.Fprintf(&sb, "(%s, %s c.%s)", strconv.Quote(f.name), ctor[f.kind], f.name)
	}
	sb.WriteString("]\n\n")
	sb.WriteString("/-- assignment `c.<name> = v` (none: no such field / wrong type). -/\ndef setField (c : Cfg) (name : String) (v : FieldVal) : Option Cfg :=\n  match name, v with\n")
	for _, f := range cfgT.fields {
		fmt.Fprintf(&sb, "  | %s, %s x => some { c with %s := x }\n", strconv.Quote(f.name), ctor[f.kind], f.name)
	}
	sb.WriteString("  | _, _ => none\n\n")
	var strs, rats, maps, ranges []string
	for _, f := range cfgT.fields {
		switch f.kind {
		case "str":
			strs = append(strs, "c."+f.name)
			maps = append(maps, fmt.Sprintf("%s := f c.%s", f.name, f.name))
		case "float":
			rats = append(rats, "c."+f.name)
		case "int":
			ranges = append(ranges, fmt.Sprintf("(%s ≤ c.%s ∧ c.%s ≤ %s)", f.lo, f.name, f.name, f.hi))
		}
	}
	fmt.Fprintf(&sb, "/-- the string fields. -/\ndef strings (c : Cfg) : List GoStr := [%s]\n\n", strings.Join(strs, ", "))
	fmt.Fprintf(&sb, "/-- the float64 fields. -/\ndef ratios (c : Cfg) : List Ratio := [%s]\n\n", strings.Join(rats, ", "))
	if len(maps) > 0 {
		fmt.Fprintf(&sb, "/-- apply `f` to every string field. -/\ndef mapStrings (f : GoStr → GoStr) (c : Cfg) : Cfg :=\n  { c with %s }\n\n", strings.Join(maps, ", "))
	} else {
		sb.WriteString("def mapStrings (_f : GoStr → GoStr) (c : Cfg) : Cfg := c\n\n")
	}
	if len(ranges) == 0 {
		ranges = []string{"True"}
	}
	fmt.Fprintf(&sb, "/-- every integer field is within the range of its Go type (true of every value a Go program can hold). -/\ndef representable (c : Cfg) : Prop :=\n  %s\n\n", strings.Join(ranges, " ∧\n  "))
	sb.WriteString("end Kevo.Gen.Config\n")
	writeIfChanged(path, sb.String())
}
