package main

// Type resolution for the lock tables (extract_locks.go): struct field types, method lookup (one level of embedding),
// result types of analysed functions, local variables (:=, var, range, type assertion, composite literal), interface ->
// single implementation bindings. Purely syntactic (go/ast); an expression that cannot be typed is "" (unknown).

import (
	"go/ast"
	"go/token"
	"path/filepath"
	"strings"
)

func lkTypeStr(alias string, e ast.Expr) string {
	switch t := e.(type) {
	case *ast.StarExpr:
		return lkTypeStr(alias, t.X)
	case *ast.ParenExpr:
		return lkTypeStr(alias, t.X)
	case *ast.Ident:
		if t.Obj == nil && (t.Name == strings.ToLower(t.Name)) && lkStructs[alias+"."+t.Name] == nil { // builtin
			return "ext:" + t.Name
		}
		return lkBind(alias + "." + t.Name)
	case *ast.SelectorExpr:
		if id, ok := t.X.(*ast.Ident); ok {
			if a, ok := lkImports[alias][id.Name]; ok && !strings.HasPrefix(a, "ext:") {
				return lkBind(a + "." + t.Sel.Name)
			}
			if id.Name == "interfaces" || id.Name == "iterator" {
				return lkBind(id.Name + "." + t.Sel.Name)
			}
			return "ext:" + id.Name + "." + t.Sel.Name
		}
	case *ast.ArrayType:
		return "[]" + lkTypeStr(alias, t.Elt)
	case *ast.MapType:
		return "map[" + lkTypeStr(alias, t.Key) + "]" + lkTypeStr(alias, t.Value)
	case *ast.IndexExpr: // generic instantiation, e.g. atomic.Pointer[node]
		return lkTypeStr(alias, t.X)
	case *ast.InterfaceType:
		return "ext:interface"
	case *ast.FuncType:
		return "ext:func"
	case *ast.ChanType:
		return "ext:chan"
	}
	return ""
}

func lkBind(t string) string {
	if b, ok := lkIface[t]; ok {
		return b
	}
	return t
}

func lkElem(t string) (key, val string) {
	if strings.HasPrefix(t, "[]") {
		return "ext:int", t[2:]
	}
	if strings.HasPrefix(t, "map[") {
		depth := 0
		for i := 3; i < len(t); i++ {
			if t[i] == '[' {
				depth++
			} else if t[i] == ']' {
				depth--
				if depth == 0 {
					return t[4:i], t[i+1:]
				}
			}
		}
	}
	return "", ""
}

func lkLoad(repo string) {
	for _, rel := range lkPkgs {
		p, alias := P(repo, rel), lkAlias[rel]
		lkImports[alias], lkByName[alias], lkFieldOf[alias] = map[string]string{}, map[string][]string{}, map[string][]string{}
		for _, f := range p.files {
			for _, im := range f.Imports {
				path := strings.Trim(im.Path.Value, `"`)
				name := filepath.Base(path)
				if im.Name != nil {
					name = im.Name.Name
				}
				if a, ok := lkAlias[strings.TrimPrefix(path, lkModule)]; ok && strings.HasPrefix(path, lkModule) {
					lkImports[alias][name] = a
				} else {
					lkImports[alias][name] = "ext:" + filepath.Base(path)
				}
			}
		}
	}
	for _, rel := range lkPkgs {
		p, alias := P(repo, rel), lkAlias[rel]
		for _, fname := range sortedKeys(p.files) {
			for _, d := range p.files[fname].Decls {
				switch x := d.(type) {
				case *ast.GenDecl:
					for _, s := range x.Specs {
						ts, ok := s.(*ast.TypeSpec)
						if !ok {
							continue
						}
						st, ok := ts.Type.(*ast.StructType)
						if !ok {
							continue
						}
						fs := map[string]ast.Expr{}
						for _, fl := range st.Fields.List {
							if len(fl.Names) == 0 {
								lkEmbeds[alias+"."+ts.Name.Name] = append(lkEmbeds[alias+"."+ts.Name.Name], lkTypeStr(alias, fl.Type))
							}
							for _, n := range fl.Names {
								fs[n.Name] = fl.Type
								lkFieldOf[alias][n.Name] = append(lkFieldOf[alias][n.Name], alias+"."+ts.Name.Name)
							}
						}
						lkStructs[alias+"."+ts.Name.Name] = fs
					}
				case *ast.FuncDecl:
					if x.Body == nil {
						continue
					}
					fn := &lkFn{alias: alias, fd: x, exported: ast.IsExported(x.Name.Name), isNew: strings.HasPrefix(x.Name.Name, "New")}
					fn.key = alias + "." + x.Name.Name
					if x.Recv != nil && len(x.Recv.List) > 0 {
						fn.recvType = lkTypeStr(alias, x.Recv.List[0].Type)
						if len(x.Recv.List[0].Names) > 0 {
							fn.recvName = x.Recv.List[0].Names[0].Name
						}
						fn.key = fn.recvType + "." + x.Name.Name
					}
					lkFuncs[fn.key] = fn
					if !fn.exported {
						lkByName[alias][x.Name.Name] = append(lkByName[alias][x.Name.Name], fn.key)
					}
				}
			}
		}
	}
}

func lkFieldType(t, f string) string {
	if fs, ok := lkStructs[t]; ok {
		if e, ok := fs[f]; ok {
			return lkTypeStr(t[:strings.Index(t, ".")], e)
		}
	}
	for _, em := range lkEmbeds[t] {
		if r := lkFieldType(em, f); r != "" {
			return r
		}
	}
	return ""
}

func lkMethod(t, m string) *lkFn {
	if fn, ok := lkFuncs[t+"."+m]; ok {
		return fn
	}
	for _, em := range lkEmbeds[t] {
		if fn := lkMethod(em, m); fn != nil {
			return fn
		}
	}
	return nil
}

func lkResult(fn *lkFn) string {
	if fn == nil || fn.fd.Type.Results == nil || len(fn.fd.Type.Results.List) == 0 {
		return ""
	}
	return lkTypeStr(fn.alias, fn.fd.Type.Results.List[0].Type)
}

type lkWalker struct {
	f        *lkFn
	env      map[string]string
	held     map[string]string
	deferred map[string]bool
	det      bool
}

func (w *lkWalker) typeOf(e ast.Expr) string {
	switch x := e.(type) {
	case *ast.Ident:
		return w.env[x.Name]
	case *ast.ParenExpr:
		return w.typeOf(x.X)
	case *ast.StarExpr:
		return w.typeOf(x.X)
	case *ast.UnaryExpr:
		if x.Op == token.AND {
			return w.typeOf(x.X)
		}
	case *ast.CompositeLit:
		return lkTypeStr(w.f.alias, x.Type)
	case *ast.TypeAssertExpr:
		if x.Type != nil {
			return lkTypeStr(w.f.alias, x.Type)
		}
	case *ast.SelectorExpr:
		if id, ok := x.X.(*ast.Ident); ok && w.env[id.Name] == "" {
			if a, isPkg := lkImports[w.f.alias][id.Name]; isPkg {
				if strings.HasPrefix(a, "ext:") {
					return a + "." + x.Sel.Name
				}
				return ""
			}
		}
		if t := w.typeOf(x.X); strings.HasPrefix(t, "ext:") {
			return "ext:field"
		} else if t != "" {
			return lkFieldType(t, x.Sel.Name)
		}
	case *ast.IndexExpr:
		_, v := lkElem(w.typeOf(x.X))
		return v
	case *ast.CallExpr:
		if c := w.resolve(x); c != nil {
			return lkResult(c)
		}
		if sel, ok := x.Fun.(*ast.SelectorExpr); ok && w.external(x) {
			if _, isConv := x.Fun.(*ast.ParenExpr); !isConv && strings.HasPrefix(w.typeOf(sel.X), "ext:") || lkIsExtPkg(w, sel.X) {
				return "ext:result"
			}
		}
	}
	return ""
}

func lkIsExtPkg(w *lkWalker, e ast.Expr) bool {
	id, ok := e.(*ast.Ident)
	return ok && w.env[id.Name] == "" && strings.HasPrefix(lkImports[w.f.alias][id.Name], "ext:")
}

// resolve a call to an analysed function (nil: external, builtin or unknown)
func (w *lkWalker) resolve(c *ast.CallExpr) *lkFn {
	switch f := c.Fun.(type) {
	case *ast.Ident:
		return lkFuncs[w.f.alias+"."+f.Name]
	case *ast.SelectorExpr:
		if id, ok := f.X.(*ast.Ident); ok && w.env[id.Name] == "" {
			if a, isPkg := lkImports[w.f.alias][id.Name]; isPkg {
				return lkFuncs[a+"."+f.Sel.Name]
			}
		}
		if t := w.typeOf(f.X); t != "" && !strings.HasPrefix(t, "ext:") {
			return lkMethod(t, f.Sel.Name)
		}
		if ks := lkByName[w.f.alias][f.Sel.Name]; len(ks) == 1 && !ast.IsExported(f.Sel.Name) {
			return lkFuncs[ks[0]]
		}
	}
	return nil
}

// is the call target certainly outside the analysed code?
func (w *lkWalker) external(c *ast.CallExpr) bool {
	switch f := c.Fun.(type) {
	case *ast.Ident:
		return lkFuncs[w.f.alias+"."+f.Name] == nil // builtin, conversion or local func value
	case *ast.SelectorExpr:
		if id, ok := f.X.(*ast.Ident); ok && w.env[id.Name] == "" {
			if a, isPkg := lkImports[w.f.alias][id.Name]; isPkg {
				return strings.HasPrefix(a, "ext:") || lkFuncs[a+"."+f.Sel.Name] == nil
			}
		}
		t := w.typeOf(f.X)
		return strings.HasPrefix(t, "ext:") || strings.HasPrefix(t, "[]") || strings.HasPrefix(t, "map[") || strings.HasPrefix(t, "iterator.")
	case *ast.ParenExpr, *ast.ArrayType, *ast.FuncLit, *ast.IndexExpr:
		return true
	}
	return false
}

func (w *lkWalker) lockOf(x ast.Expr) string {
	if id, ok := x.(*ast.Ident); ok && w.env[id.Name] == "" && id.Obj != nil && id.Obj.Kind == ast.Var {
		return w.f.alias + "." + id.Name // package-level mutex
	}
	sel, ok := x.(*ast.SelectorExpr)
	if !ok {
		return "unknown:" + exprString(x)
	}
	name := ""
	if t := w.typeOf(sel.X); t != "" {
		name = t + "." + sel.Sel.Name
	} else if owners := lkFieldOf[w.f.alias][sel.Sel.Name]; len(owners) == 1 {
		name = owners[0] + "." + sel.Sel.Name
	} else {
		return "unknown:" + exprString(x)
	}
	if a, ok := lkLockAlias[name]; ok {
		return a
	}
	return name
}
