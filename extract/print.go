package main

import (
	"go/ast"
	"go/printer"
	"go/token"
	"strings"
)

func printExpr(sb *strings.Builder, e ast.Expr) {
	printer.Fprint(sb, token.NewFileSet(), e)
}
