package main

// extract_repl.go — source facts for C14 / C15 (pkg/replication, the observer call inside pkg/wal, the WAL hand-over in
// pkg/engine/storage) and the generated Lean file Kevo/Gen/ReplState.lean (transition table of the replica state
// machine + protocol constants).

import (
	"fmt"
	"go/ast"
	"go/token"
	"path/filepath"
	"sort"
	"strings"
)

func init() {
	extractors = append(extractors, extractRepl)
	generators = append(generators, genReplState)
}

// ---- small helpers (names prefixed with repl to stay clear of other areas)

func (p *pkg) replFunc(fn string) *ast.FuncDecl {
	fd := p.findFunc(fn)
	if fd == nil {
		fail("repl: function %s.%s not found", p.name, fn)
	}
	return fd
}

// replIfConds: texts of the conditions of all `if` statements in fn that contain `needle`, joined by " ; "
func (p *pkg) replIfConds(fn, needle string) string {
	fd := p.replFunc(fn)
	if fd == nil {
		return "?"
	}
	var out []string
	ast.Inspect(fd.Body, func(n ast.Node) bool {
		if is, ok := n.(*ast.IfStmt); ok {
			if c := exprString(is.Cond); strings.Contains(c, needle) {
				out = append(out, strings.Join(strings.Fields(c), " "))
			}
		}
		return true
	})
	if len(out) == 0 {
		fail("repl: %s.%s: no if-condition containing %q", p.name, fn, needle)
		return "?"
	}
	return strings.Join(out, " ; ")
}

// replGoStmts: number of `go` statements in fn (0 = everything it calls runs synchronously in the caller)
func (p *pkg) replGoStmts(fn string) string {
	fd := p.replFunc(fn)
	if fd == nil {
		return "?"
	}
	n := 0
	ast.Inspect(fd.Body, func(x ast.Node) bool {
		if _, ok := x.(*ast.GoStmt); ok {
			n++
		}
		return true
	})
	return fmt.Sprint(n)
}

// replFieldText: text of the value given to `field:` in the composite literals of fn (all occurrences must agree)
func (p *pkg) replFieldText(fn, field string) string {
	fd := p.replFunc(fn)
	if fd == nil {
		return "?"
	}
	var out []string
	ast.Inspect(fd.Body, func(n ast.Node) bool {
		if kv, ok := n.(*ast.KeyValueExpr); ok {
			if id, ok := kv.Key.(*ast.Ident); ok && id.Name == field {
				out = append(out, strings.Join(strings.Fields(exprString(kv.Value)), " "))
			}
		}
		return true
	})
	return one(out, fmt.Sprintf("repl: %s.%s field %s", p.name, fn, field))
}

// replLastReturn: text of the last return statement of fn (source order)
func (p *pkg) replLastReturn(fn string) string {
	fd := p.replFunc(fn)
	if fd == nil {
		return "?"
	}
	res := "?"
	ast.Inspect(fd.Body, func(n ast.Node) bool {
		if rs, ok := n.(*ast.ReturnStmt); ok && len(rs.Results) == 1 {
			res = exprString(rs.Results[0])
		}
		return true
	})
	return res
}

// replIncDec: the inc/dec statements of fn, e.g. "lastAck--"
func (p *pkg) replIncDec(fn string) string {
	fd := p.replFunc(fn)
	if fd == nil {
		return "?"
	}
	var out []string
	ast.Inspect(fd.Body, func(n ast.Node) bool {
		if st, ok := n.(*ast.IncDecStmt); ok {
			out = append(out, exprString(st.X)+st.Tok.String())
		}
		return true
	})
	return strings.Join(out, " ; ")
}

// replDeferUnlock: "defer" when the statement following the first `<lock>()` call statement is `defer <unlock>()`
func (p *pkg) replDeferUnlock(fn, lock, unlock string) string {
	fd := p.replFunc(fn)
	if fd == nil {
		return "?"
	}
	res := "no"
	ast.Inspect(fd.Body, func(n ast.Node) bool {
		bs, ok := n.(*ast.BlockStmt)
		if !ok {
			return true
		}
		for i, st := range bs.List {
			es, ok := st.(*ast.ExprStmt)
			if !ok {
				continue
			}
			ce, ok := es.X.(*ast.CallExpr)
			if !ok || exprString(ce.Fun) != lock || i+1 >= len(bs.List) {
				continue
			}
			if ds, ok := bs.List[i+1].(*ast.DeferStmt); ok && exprString(ds.Call.Fun) == unlock && res == "no" {
				res = "defer"
			}
		}
		return true
	})
	return res
}

// replAssignCount: number of assignments (outside composite literals) whose left-hand side prints as one of lhs, in the
// non-test files of the package
func (p *pkg) replAssignCount(lhs ...string) string {
	n := 0
	for _, f := range p.files {
		ast.Inspect(f, func(x ast.Node) bool {
			if as, ok := x.(*ast.AssignStmt); ok {
				for _, l := range as.Lhs {
					s := exprString(l)
					for _, want := range lhs {
						if s == want {
							n++
						}
					}
				}
			}
			return true
		})
	}
	return fmt.Sprint(n)
}

// replCallCount: number of calls in the package whose callee text ends with suffix, outside the functions listed in skip
func (p *pkg) replCallCount(suffix string, skipFile string) string {
	n := 0
	for name, f := range p.files {
		if name == skipFile {
			continue
		}
		ast.Inspect(f, func(x ast.Node) bool {
			if ce, ok := x.(*ast.CallExpr); ok && strings.HasSuffix(exprString(ce.Fun), suffix) {
				n++
			}
			return true
		})
	}
	return fmt.Sprint(n)
}

type replTransition struct {
	from string
	to   []string
}

// replTransitions: `tracker.transitions[StateX] = []ReplicaState{StateA, …}` assignments of NewStateTracker, source order
func (p *pkg) replTransitions() []replTransition {
	fd := p.replFunc("NewStateTracker")
	if fd == nil {
		return nil
	}
	var out []replTransition
	ast.Inspect(fd.Body, func(n ast.Node) bool {
		as, ok := n.(*ast.AssignStmt)
		if !ok || len(as.Lhs) != 1 || len(as.Rhs) != 1 || as.Tok != token.ASSIGN {
			return true
		}
		ix, ok := as.Lhs[0].(*ast.IndexExpr)
		if !ok || !strings.HasSuffix(exprString(ix.X), ".transitions") {
			return true
		}
		cl, ok := as.Rhs[0].(*ast.CompositeLit)
		if !ok {
			fail("repl: transitions[%s] is not a literal", exprString(ix.Index))
			return true
		}
		t := replTransition{from: exprString(ix.Index)}
		for _, e := range cl.Elts {
			t.to = append(t.to, exprString(e))
		}
		out = append(out, t)
		return true
	})
	if len(out) == 0 {
		fail("repl: no transition table found in NewStateTracker")
	}
	return out
}

var replStates = []string{"StateConnecting", "StateStreamingEntries", "StateApplyingEntries", "StateFsyncPending",
	"StateAcknowledging", "StateWaitingForData", "StateError"}

func durMs(ns string) string {
	var v int64
	if _, err := fmt.Sscan(ns, &v); err != nil {
		return "?" + ns
	}
	return fmt.Sprint(v / 1000000)
}

func extractRepl(repo string) {
	rp := P(repo, "pkg/replication")
	w := P(repo, "pkg/wal")
	sm := P(repo, "pkg/engine/storage")

	// ---- replica state machine
	rp.recordConst(replStates...)
	var rows []string
	for _, t := range rp.replTransitions() {
		rows = append(rows, strings.TrimPrefix(t.from, "State")+">"+strings.ReplaceAll(strings.Join(t.to, ","), "State", ""))
	}
	F.Facts["repl.state.transitions"] = strings.Join(rows, " ; ")
	F.Facts["repl.state.SetError"] = rp.callOrder("StateTracker.SetError", "isValidTransition") // "" : no table check on the way into ERROR
	F.Facts["repl.handleStreamingState.final"] = rp.replLastReturn("Replica.handleStreamingState")
	F.Facts["repl.handleConnectingState.final"] = rp.replLastReturn("Replica.handleConnectingState")
	F.Facts["repl.handleErrorState.final"] = rp.replLastReturn("Replica.handleErrorState")
	F.Facts["repl.handleWaitingForDataState.order"] = rp.callOrder("Replica.handleWaitingForDataState", "SetState", "processEntries")
	F.Facts["repl.processEntries.order"] = rp.callOrder("Replica.processEntries", "Decompress", "ApplyEntries", "handleSequenceGap", "SetState", "handleFsyncState")
	F.Facts["repl.processEntriesNoTransitions.order"] = rp.callOrder("Replica.processEntriesWithoutStateTransitions", "Decompress", "ApplyEntries", "handleSequenceGap", "SetState", "applier.Sync")
	F.Facts["repl.handleFsyncState.order"] = rp.callOrder("Replica.handleFsyncState", "applier.Sync", "SetState")
	F.Facts["repl.handleErrorState.order"] = rp.callOrder("Replica.handleErrorState", "calculateBackoff", "conn.Close", "SetState")
	F.Facts["repl.replicationLoop.onError"] = rp.callOrder("Replica.replicationLoop", "SetError")
	F.Facts["repl.request.StartSequence"] = rp.replFieldText("Replica.handleStreamingState", "StartSequence")
	F.Facts["repl.request.nextSeq"] = rp.assignedExpr("Replica.handleStreamingState", "nextSeq")
	F.Facts["repl.recvTimeoutMs"] = durMs(one(rp.callArgs("Replica.handleStreamingState", "context.WithTimeout", 1), "repl recv timeout"))
	F.Facts["repl.startReplica.lastApplied"] = rp.assignedExpr("Manager.startReplica", "lastApplied")
	F.Facts["repl.ack.sites"] = rp.replCallCount(".Acknowledge", "") // client calls of the Acknowledge RPC (one: handleAcknowledgingState)
	for _, f := range []string{"RetryBaseDelay", "RetryMaxDelay", "DialTimeout", "AckInterval"} {
		F.Facts["repl.DefaultReplicaConfig."+f+"Ms"] = durMs(rp.fieldInit("DefaultReplicaConfig", f))
	}
	F.Facts["repl.DefaultReplicaConfig.CompressionSupported"] = rp.fieldInit("DefaultReplicaConfig", "CompressionSupported")
	F.Facts["repl.DefaultReplicaConfig.PreferredCodec"] = rp.replFieldText("DefaultReplicaConfig", "PreferredCodec")

	// ---- applier conditions (the C14 abstraction "applies a batch iff it starts at expectedNext and is consecutive")
	F.Facts["repl.ApplyEntries.conds"] = rp.replIfConds("WALBatchApplier.ApplyEntries", "SequenceNumber") + " ; " + rp.replIfConds("WALBatchApplier.ApplyEntries", "firstSeq")
	F.Facts["repl.ApplyEntries.cursor"] = rp.assignedExprSel("WALBatchApplier.ApplyEntries", "a.expectedNextSeq")

	// ---- primary: cursor, poll, push, limit
	F.Facts["repl.poll.limit"] = rp.assignedExpr("Primary.getWALEntriesFromSequence", "maxEntriesToReturn")
	// the transport keep-alive of the primary's listener: what drops a replica whose connection went silent without a close
	// (the application heartbeat cannot: its sends into a dead connection succeed); literals in the pinned tree
	F.Facts["repl.startPrimary.keepalive"] = "Time: " + oneLine(rp.apKvField("Manager.startPrimary", "Time")) + " ; Timeout: " + oneLine(rp.apKvField("Manager.startPrimary", "Timeout")) +
		" ; MinTime: " + oneLine(rp.apKvField("Manager.startPrimary", "MinTime")) + " ; PermitWithoutStream: " + oneLine(rp.apKvField("Manager.startPrimary", "PermitWithoutStream"))
	F.Facts["repl.startPrimary.msgsize"] = rp.callArgText("Manager.startPrimary", "grpc.MaxRecvMsgSize") + " / " + rp.callArgText("Manager.startPrimary", "grpc.MaxSendMsgSize")
	F.Facts["repl.poll.bytes"] = one(rp.apLocalConst("Primary.getWALEntriesFromSequence", "maxBytesToReturn"), "maxBytesToReturn")
	F.Facts["repl.poll.bytesCond"] = rp.apCondsMatching("Primary.getWALEntriesFromSequence", "maxBytesToReturn") + " ; range " + rp.apRangeOver("Primary.getWALEntriesFromSequence", "totalBytes")
	F.Facts["repl.poll.limitCond"] = rp.replIfConds("Primary.getWALEntriesFromSequence", "maxEntriesToReturn")
	F.Facts["repl.poll.periodMs"] = durMs(one(rp.callArgs("Primary.StreamWAL", "time.NewTicker", 0), "repl poll period"))
	F.Facts["repl.poll.cond"] = rp.replIfConds("Primary.StreamWAL", "LastAckSequence")
	F.Facts["repl.poll.cursor"] = rp.assignedExpr("Primary.sendUpdatedEntries", "nextSequence")
	F.Facts["repl.poll.compressed"] = rp.replFieldText("Primary.sendUpdatedEntries", "Compressed")
	F.Facts["repl.session.LastAckSequence"] = rp.replFieldText("Primary.StreamWAL", "LastAckSequence")
	// repaired (236f30e): lastAck := req.StartSequence; if lastAck > 0 { lastAck-- }
	F.Facts["repl.session.lastAckInit"] = rp.assignedExpr("Primary.StreamWAL", "lastAck") + " ; if " + rp.replIfConds("Primary.StreamWAL", "lastAck > 0") + " { " + rp.replIncDec("Primary.StreamWAL") + " }"
	F.Facts["repl.session.StartSequence"] = rp.replFieldText("Primary.StreamWAL", "StartSequence")
	F.Facts["repl.initial.cond"] = rp.replIfConds("Primary.StreamWAL", "StartSequence > 0")
	F.Facts["repl.initial.cursor"] = one(rp.callArgsText("Primary.sendInitialEntries", "p.getWALEntriesFromSequence", 0), "repl initial cursor")
	F.Facts["repl.push.skip"] = rp.replIfConds("Primary.broadcastToReplicas", "StartSequence")
	F.Facts["repl.push.order"] = rp.callOrder("Primary.OnWALEntryWritten", "batcher.AddEntry", "batcher.GetBatch", "broadcastToReplicas")
	F.Facts["repl.pushBatch.order"] = rp.callOrder("Primary.OnWALBatchWritten", "batcher.Reset", "batcher.AddEntry", "batcher.GetBatch", "broadcastToReplicas")
	F.Facts["repl.ackUpdate.cond"] = rp.replIfConds("Primary.updateSessionAck", "LastAckSequence")
	F.Facts["repl.getEntries.source"] = rp.callOrder("Primary.getWALEntriesFromSequence", "p.wal.GetNextSequence", "p.wal.GetEntriesFrom")

	// ---- D31: pushed batches are flagged compressed, nothing compresses
	F.Facts["repl.CreateResponse.Compressed"] = rp.replFieldText("WALEntriesBuffer.CreateResponse", "Compressed")
	F.Facts["repl.CreateResponse.Codec"] = rp.replFieldText("WALEntriesBuffer.CreateResponse", "Codec")
	F.Facts["repl.DefaultPrimaryConfig.CompressionCodec"] = rp.replFieldText("DefaultPrimaryConfig", "CompressionCodec")
	F.Facts["repl.Compress.callers"] = rp.replCallCount(".Compress", "compression.go")

	// ---- D30: where the primary takes the log object
	F.Facts["repl.startPrimary.order"] = rp.callOrder("Manager.startPrimary", "m.getWAL", "NewPrimary")
	F.Facts["repl.NewPrimary.wal"] = rp.replFieldText("NewPrimary", "wal")
	F.Facts["repl.NewPrimary.order"] = rp.callOrder("NewPrimary", "RegisterObserver", "heartbeat.start")
	F.Facts["repl.Primary.wal.reassigned"] = rp.replAssignCount("p.wal", "primary.wal", "m.primary.wal")
	F.Facts["repl.storage.GetWAL"] = sm.replLastReturn("Manager.GetWAL")                             // a snapshot of the current pointer
	F.Facts["repl.storage.rotate.observers"] = sm.callOrder("Manager.rotateWAL", "RegisterObserver") // "" : observers are not carried over

	// ---- D32: the observer call is synchronous, inside the append, under the log mutex; the send is under the session mutex
	F.Facts["repl.wal.Append.unlock"] = w.replDeferUnlock("WAL.Append", "w.mu.Lock", "w.mu.Unlock")
	F.Facts["repl.wal.AppendBatch.unlock"] = w.replDeferUnlock("WAL.AppendBatch", "w.mu.Lock", "w.mu.Unlock")
	F.Facts["repl.wal.Append.order"] = w.callOrder("WAL.Append", "mu.Lock", "writeRecord", "notifyEntryObservers", "maybeSync")
	F.Facts["repl.wal.AppendBatch.order"] = w.callOrder("WAL.AppendBatch", "mu.Lock", "writeRecord", "notifyBatchObservers", "maybeSync")
	F.Facts["repl.wal.notifyEntry"] = w.callOrder("WAL.notifyEntryObservers", "observersMu.RLock", "OnWALEntryWritten") + " go=" + w.replGoStmts("WAL.notifyEntryObservers")
	F.Facts["repl.wal.notifyBatch"] = w.callOrder("WAL.notifyBatchObservers", "observersMu.RLock", "OnWALBatchWritten") + " go=" + w.replGoStmts("WAL.notifyBatchObservers")
	F.Facts["repl.wal.GetNextSequence"] = w.callOrder("WAL.GetNextSequence", "mu.Lock")
	F.Facts["repl.storage.Put.lock"] = sm.replDeferUnlock("Manager.Put", "m.mu.Lock", "m.mu.Unlock")
	F.Facts["repl.storage.ApplyBatch.lock"] = sm.replDeferUnlock("Manager.ApplyBatch", "m.mu.Lock", "m.mu.Unlock")
	F.Facts["repl.storage.Get.lock"] = sm.replDeferUnlock("Manager.Get", "m.mu.RLock", "m.mu.RUnlock")
	F.Facts["repl.broadcast.order"] = rp.callOrder("Primary.broadcastToReplicas", "mu.RLock", "sendToReplica") + " go=" + rp.replGoStmts("Primary.broadcastToReplicas")
	F.Facts["repl.broadcast.unlock"] = rp.replDeferUnlock("Primary.broadcastToReplicas", "p.mu.RLock", "p.mu.RUnlock")
	F.Facts["repl.sendToReplica.order"] = rp.callOrder("Primary.sendToReplica", "session.mu.Lock", "Stream.Send") + " go=" + rp.replGoStmts("Primary.sendToReplica")
	F.Facts["repl.sendToReplica.unlock"] = rp.replDeferUnlock("Primary.sendToReplica", "session.mu.Lock", "session.mu.Unlock")
	F.Facts["repl.sendToReplica.onError"] = rp.assignedExprSel("Primary.sendToReplica", "session.Connected")
	F.Facts["repl.sendToReplica.activity"] = rp.assignedExprSel("Primary.sendToReplica", "session.LastActivity")
	F.Facts["repl.sendUpdated.activity"] = rp.assignedExprSel("Primary.sendUpdatedEntries", "session.LastActivity")
	F.Facts["repl.OnWALEntryWritten.go"] = rp.replGoStmts("Primary.OnWALEntryWritten")
	// D38: the poll path takes the same locks in the opposite order (session.mu, Primary.mu.RLock, then wal.mu)
	F.Facts["repl.sendUpdated.lockOrder"] = rp.callOrder("Primary.sendUpdatedEntries", "session.mu.Lock", "session.mu.Unlock", "getWALEntriesFromSequence", "Stream.Send")
	F.Facts["repl.sendInitial.lockOrder"] = rp.callOrder("Primary.sendInitialEntries", "session.mu.Lock", "session.mu.Unlock", "getWALEntriesFromSequence", "Stream.Send")
	F.Facts["repl.resend.lockOrder"] = rp.callOrder("Primary.resendEntries", "session.mu.Lock", "session.mu.Unlock", "getWALEntriesFromSequence", "Stream.Send")
	F.Facts["repl.updateSessionAck.lockOrder"] = rp.callOrder("Primary.updateSessionAck", "p.mu.Lock", "session.mu.Lock")
	F.Facts["repl.checkSessions.lockOrder"] = rp.callOrder("heartbeatManager.checkSessions", "mu.RLock", "mu.RUnlock", "session.mu.Lock", "Stream.Send")
	// residual: Manager.Status -> getPrimaryStatus still reads the WAL counter while holding Primary.mu.RLock (no caller outside tests)
	F.Facts["repl.status.lockOrder"] = rp.callOrder("Manager.getPrimaryStatus", "mu.RLock", "wal.GetNextSequence")
	F.Facts["repl.sendUpdated.unlock"] = rp.replDeferUnlock("Primary.sendUpdatedEntries", "session.mu.Lock", "session.mu.Unlock")
	F.Facts["repl.getEntries.lockOrder"] = rp.callOrder("Primary.getWALEntriesFromSequence", "p.mu.RLock", "p.wal.GetNextSequence", "p.wal.GetEntriesFrom")
	F.Facts["repl.getEntries.unlock"] = rp.replDeferUnlock("Primary.getWALEntriesFromSequence", "p.mu.RLock", "p.mu.RUnlock")
	F.Facts["repl.wal.GetEntriesFrom.lock"] = w.callOrder("WAL.GetEntriesFrom", "mu.Lock") + " " + w.replDeferUnlock("WAL.GetEntriesFrom", "w.mu.Lock", "w.mu.Unlock")
	F.Facts["repl.register.lock"] = rp.callOrder("Primary.registerReplicaSession", "mu.Lock") + " / " + rp.callOrder("Primary.unregisterReplicaSession", "mu.Lock")

	// ---- heartbeat
	for _, f := range []string{"Interval", "Timeout"} {
		F.Facts["repl.DefaultHeartbeatConfig."+f+"Ms"] = durMs(rp.fieldInit("DefaultHeartbeatConfig", f))
	}
	F.Facts["repl.DefaultHeartbeatConfig.SendEmptyResponses"] = rp.fieldInit("DefaultHeartbeatConfig", "SendEmptyResponses")
	F.Facts["repl.checkSessions.conds"] = rp.replIfConds("heartbeatManager.checkSessions", "lastActivity")
	F.Facts["repl.checkSessions.skip"] = rp.replIfConds("heartbeatManager.checkSessions", "session.Connected")
	F.Facts["repl.checkSessions.order"] = rp.callOrder("heartbeatManager.checkSessions", "session.mu.Lock", "Stream.Send", "unregisterReplicaSession")
	F.Facts["repl.checkSessions.activity"] = rp.assignedExprSel("heartbeatManager.checkSessions", "session.LastActivity")
	F.Facts["repl.GetReplicaInfo.filter"] = rp.replIfConds("Primary.GetReplicaInfo", "Connected")
	F.Facts["repl.StreamWAL.unregister"] = rp.callOrder("Primary.StreamWAL", "registerReplicaSession", "unregisterReplicaSession", "SendHeader", "sendInitialEntries", "ctx.Done", "sendUpdatedEntries")
}

// callArgsText: like callArgs but returns the source text of the argument
func (p *pkg) callArgsText(fn, callee string, idx int) []string {
	fd := p.findFunc(fn)
	if fd == nil {
		fail("function %s.%s not found", p.name, fn)
		return nil
	}
	var out []string
	ast.Inspect(fd.Body, func(n ast.Node) bool {
		if ce, ok := n.(*ast.CallExpr); ok && exprString(ce.Fun) == callee && idx < len(ce.Args) {
			out = append(out, exprString(ce.Args[idx]))
		}
		return true
	})
	return out
}

// ---- generator: Kevo/Gen/ReplState.lean

func genReplState(dir string) {
	idx := map[string]string{}
	for _, s := range replStates {
		idx[strings.TrimPrefix(s, "State")] = genConst("replication." + s)
	}
	var pairs []string
	for _, row := range strings.Split(genFact("repl.state.transitions"), " ; ") {
		ft := strings.SplitN(row, ">", 2)
		if len(ft) != 2 {
			fail("gen repl: bad transition row %q", row)
			continue
		}
		for _, to := range strings.Split(ft[1], ",") {
			a, okA := idx[ft[0]]
			b, okB := idx[to]
			if !okA || !okB {
				fail("gen repl: unknown state in %q", row)
				continue
			}
			pairs = append(pairs, fmt.Sprintf("(%s, %s)", a, b))
		}
	}
	target := func(fact string) string { // `r.stateTracker.SetState(StateX)` -> number of StateX
		t := genFact(fact)
		i := strings.Index(t, "SetState(State")
		if i < 0 || !strings.HasSuffix(t, ")") {
			fail("gen repl: %s is not a SetState call: %q", fact, t)
			return "0"
		}
		name := t[i+len("SetState(State") : len(t)-1]
		v, ok := idx[name]
		if !ok {
			fail("gen repl: %s targets unknown state %q", fact, name)
			return "0"
		}
		return v
	}
	var sb strings.Builder
	sb.WriteString("-- GENERATED by kvfacts (extract/extract_repl.go) from /repo's working tree on every run. Do not edit.\n")
	sb.WriteString("-- Source: pkg/replication/state.go (NewStateTracker), replica.go, primary.go, heartbeat.go.\n")
	sb.WriteString("namespace Kevo.Gen.Repl\n\n")
	names := make([]string, 0, len(idx))
	for k := range idx {
		names = append(names, k)
	}
	sort.Slice(names, func(i, j int) bool { return idx[names[i]] < idx[names[j]] })
	for _, n := range names {
		fmt.Fprintf(&sb, "def st%s : Nat := %s\n", n, idx[n])
	}
	fmt.Fprintf(&sb, "\n/-- `tracker.transitions[from] = []ReplicaState{…}` flattened to pairs (from, to) -/\ndef allowed : List (Nat × Nat) :=\n  [%s]\n\n", strings.Join(pairs, ", "))
	fmt.Fprintf(&sb, "/-- target of the final `SetState` of handleConnectingState / handleStreamingState (after a batch was applied) / handleErrorState -/\n")
	fmt.Fprintf(&sb, "def afterConnect : Nat := %s\ndef afterStreamingApply : Nat := %s\ndef afterBackoff : Nat := %s\n\n",
		target("repl.handleConnectingState.final"), target("repl.handleStreamingState.final"), target("repl.handleErrorState.final"))
	fmt.Fprintf(&sb, "def pollLimit : Nat := %s\ndef pollBytes : Nat := %s\ndef pollPeriodMs : Nat := %s\ndef recvTimeoutMs : Nat := %s\n", genFact("repl.poll.limit"), genFact("repl.poll.bytes"), genFact("repl.poll.periodMs"), genFact("repl.recvTimeoutMs"))
	fmt.Fprintf(&sb, "def hbIntervalMs : Nat := %s\ndef hbTimeoutMs : Nat := %s\ndef hbSendEmpty : Bool := %s\n", genFact("repl.DefaultHeartbeatConfig.IntervalMs"), genFact("repl.DefaultHeartbeatConfig.TimeoutMs"), genFact("repl.DefaultHeartbeatConfig.SendEmptyResponses"))
	fmt.Fprintf(&sb, "def retryBaseMs : Nat := %s\ndef retryMaxMs : Nat := %s\n", genFact("repl.DefaultReplicaConfig.RetryBaseDelayMs"), genFact("repl.DefaultReplicaConfig.RetryMaxDelayMs"))
	fmt.Fprintf(&sb, "/-- CreateResponse flags a pushed batch compressed iff the configured codec is not NONE; number of callers of Compress -/\n")
	pushFlag := "false"
	if genFact("repl.CreateResponse.Compressed") == "b.compression != replication_proto.CompressionCodec_NONE" &&
		!strings.HasSuffix(genFact("repl.DefaultPrimaryConfig.CompressionCodec"), "CompressionCodec_NONE") {
		pushFlag = "true"
	}
	fmt.Fprintf(&sb, "def pushFlaggedCompressed : Bool := %s\ndef compressCallers : Nat := %s\n\n", pushFlag, genFact("repl.Compress.callers"))
	sb.WriteString("theorem pollLimit_pos : 0 < pollLimit := by decide\n")
	sb.WriteString("theorem states_distinct : [stConnecting, stStreamingEntries, stApplyingEntries, stFsyncPending, stAcknowledging, stWaitingForData, stError].Nodup := by decide\n")
	sb.WriteString("theorem allowed_in_range : ∀ p ∈ allowed, p.1 < 7 ∧ p.2 < 7 := by decide\n")
	sb.WriteString("\nend Kevo.Gen.Repl\n")
	writeIfChanged(filepath.Join(dir, "ReplState.lean"), sb.String())
}
