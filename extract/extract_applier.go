package main

// facts + generated constants for the applier area (property C13): the comparisons of
// WALBatchApplier.ApplyEntries as text, statement order (callback before counter update, what every return
// hands back), the poll limit and the sender rules of the primary, the sanity limits of DeserializeWALEntry,
// and the lines of Replica that harness/comp_applier.go mirrors (receive / ack / reconnect).

import (
	"fmt"
	"go/ast"
	"go/token"
	"path/filepath"
	"strings"
)

func init() {
	extractors = append(extractors, extractApplier)
	generators = append(generators, genApplierLean)
}

// apIfConds: the text of every `if` condition of the function in source order (closures included).
func (p *pkg) apIfConds(fn string) []string {
	fd := p.findFunc(fn)
	if fd == nil {
		fail("applier: function %s.%s not found", p.name, fn)
		return nil
	}
	var out []string
	ast.Inspect(fd.Body, func(n ast.Node) bool {
		if is, ok := n.(*ast.IfStmt); ok {
			c := exprString(is.Cond)
			if is.Init != nil {
				if as, ok := is.Init.(*ast.AssignStmt); ok && len(as.Rhs) > 0 {
					c = exprString(as.Rhs[0]) + "; " + c
				}
			}
			out = append(out, c)
		}
		return true
	})
	return out
}

// apCondsMatching: the if-conditions of fn that mention one of the given substrings, joined by " | "
func (p *pkg) apCondsMatching(fn string, subs ...string) string {
	var out []string
	for _, c := range p.apIfConds(fn) {
		for _, s := range subs {
			if strings.Contains(c, s) {
				out = append(out, c)
				break
			}
		}
	}
	if len(out) == 0 {
		fail("applier: %s.%s: no condition mentioning %v", p.name, fn, subs)
		return "?"
	}
	return strings.Join(out, " | ")
}

// apLimitOf: the constant N of the `if <name> > N` condition in fn
func (p *pkg) apLimitOf(fn, name string) string {
	fd := p.findFunc(fn)
	if fd == nil {
		fail("applier: function %s.%s not found", p.name, fn)
		return "?"
	}
	res := "?"
	ast.Inspect(fd.Body, func(n ast.Node) bool {
		is, ok := n.(*ast.IfStmt)
		if !ok || res != "?" {
			return true
		}
		be, ok := is.Cond.(*ast.BinaryExpr)
		if !ok || be.Op != token.GTR || exprString(be.X) != name {
			return true
		}
		if v, err := p.eval(be.Y, 0); err == nil {
			res = v.ExactString()
		}
		return true
	})
	if res == "?" {
		fail("applier: %s.%s: no `if %s > N`", p.name, fn, name)
	}
	return res
}

// apStmtOrder: source order of the listed calls ("call:<callee>") and assignments ("set:<lhs>") in fn;
// every occurrence is reported as "<marker>" or, for assignments, "<lhs> = <rhs>".
func (p *pkg) apStmtOrder(fn string, calls []string, lhs []string) string {
	fd := p.findFunc(fn)
	if fd == nil {
		fail("applier: function %s.%s not found", p.name, fn)
		return "?"
	}
	var out []string
	ast.Inspect(fd.Body, func(n ast.Node) bool {
		switch x := n.(type) {
		case *ast.CallExpr:
			name := exprString(x.Fun)
			for _, c := range calls {
				if name == c {
					out = append(out, "call "+c)
				}
			}
		case *ast.AssignStmt:
			for i, l := range x.Lhs {
				t := exprString(l)
				for _, w := range lhs {
					if t == w && i < len(x.Rhs) {
						op := " = "
						if tok := x.Tok.String(); tok != "=" && tok != ":=" {
							op = " " + tok + " "
						}
						out = append(out, t+op+exprString(x.Rhs[i]))
					}
				}
			}
		}
		return true
	})
	return strings.Join(out, " < ")
}

// apReturnsOf: every return statement of fn (closures excluded) as "r0, r1, <nil|format string of fmt.Errorf|text>"
func (p *pkg) apReturnsOf(fn string) string {
	fd := p.findFunc(fn)
	if fd == nil {
		fail("applier: function %s.%s not found", p.name, fn)
		return "?"
	}
	var out []string
	ast.Inspect(fd.Body, func(n ast.Node) bool {
		if _, ok := n.(*ast.FuncLit); ok {
			return false
		}
		rs, ok := n.(*ast.ReturnStmt)
		if !ok {
			return true
		}
		var parts []string
		for _, r := range rs.Results {
			t := exprString(r)
			if ce, ok := r.(*ast.CallExpr); ok && exprString(ce.Fun) == "fmt.Errorf" && len(ce.Args) > 0 {
				t = "Errorf(" + exprString(ce.Args[0]) + ")"
			}
			parts = append(parts, t)
		}
		out = append(out, strings.Join(parts, ", "))
		return true
	})
	return strings.Join(out, " | ")
}

// apKvField: the text of the value given to `field` in a composite literal inside fn
func (p *pkg) apKvField(fn, field string) string {
	fd := p.findFunc(fn)
	if fd == nil {
		fail("applier: function %s.%s not found", p.name, fn)
		return "?"
	}
	res := "?"
	ast.Inspect(fd.Body, func(n ast.Node) bool {
		kv, ok := n.(*ast.KeyValueExpr)
		if !ok || res != "?" {
			return true
		}
		if id, ok := kv.Key.(*ast.Ident); ok && id.Name == field {
			res = exprString(kv.Value)
		}
		return true
	})
	if res == "?" {
		fail("applier: %s.%s: no field %s in a composite literal", p.name, fn, field)
	}
	return res
}

// apCallArgText: text of argument idx of every call of `callee` in fn
func (p *pkg) apCallArgText(fn, callee string, idx int) string {
	fd := p.findFunc(fn)
	if fd == nil {
		fail("applier: function %s.%s not found", p.name, fn)
		return "?"
	}
	var out []string
	ast.Inspect(fd.Body, func(n ast.Node) bool {
		if ce, ok := n.(*ast.CallExpr); ok && exprString(ce.Fun) == callee && idx < len(ce.Args) {
			out = append(out, exprString(ce.Args[idx]))
		}
		return true
	})
	if len(out) == 0 {
		fail("applier: %s.%s: no call of %s", p.name, fn, callee)
		return "?"
	}
	return strings.Join(out, " | ")
}

// apCountCalls: number of calls of `callee` (printed text) in all non-test files of the package
func (p *pkg) apCountCalls(callee string) string {
	n := 0
	for _, f := range p.files {
		ast.Inspect(f, func(x ast.Node) bool {
			if ce, ok := x.(*ast.CallExpr); ok && exprString(ce.Fun) == callee {
				n++
			}
			return true
		})
	}
	return fmt.Sprint(n)
}

func extractApplier(repo string) {
	r := P(repo, "pkg/replication")
	w := P(repo, "pkg/wal")
	f := F.Facts
	// ---- WALBatchApplier
	f["applier.ApplyEntries.conds"] = strings.Join(r.apIfConds("WALBatchApplier.ApplyEntries"), " | ")
	f["applier.ApplyEntries.order"] = r.apStmtOrder("WALBatchApplier.ApplyEntries",
		[]string{"a.mu.Lock", "DeserializeWALEntry", "applyFn"},
		[]string{"firstSeq", "lastAppliedSeq", "a.maxAppliedSeq", "a.expectedNextSeq", "a.lastAckSeq"})
	f["applier.ApplyEntries.returns"] = r.apReturnsOf("WALBatchApplier.ApplyEntries")
	f["applier.NewWALBatchApplier.shape"] = strings.Join(r.apIfConds("NewWALBatchApplier"), " | ") + " => " +
		r.apStmtOrder("NewWALBatchApplier", nil, []string{"nextSeq"}) + " ; maxAppliedSeq: " + r.apKvField("NewWALBatchApplier", "maxAppliedSeq") +
		", lastAckSeq: " + r.apKvField("NewWALBatchApplier", "lastAckSeq") + ", expectedNextSeq: " + r.apKvField("NewWALBatchApplier", "expectedNextSeq")
	f["applier.Reset.shape"] = strings.Join(r.apIfConds("WALBatchApplier.Reset"), " | ") + " => " +
		r.apStmtOrder("WALBatchApplier.Reset", nil, []string{"a.maxAppliedSeq", "a.lastAckSeq", "a.expectedNextSeq"})
	f["applier.AcknowledgeUpTo.shape"] = strings.Join(r.apIfConds("WALBatchApplier.AcknowledgeUpTo"), " | ") + " => " +
		r.apStmtOrder("WALBatchApplier.AcknowledgeUpTo", nil, []string{"a.lastAckSeq"})
	// ---- wire encoding
	f["applier.Serialize.conds"] = strings.Join(r.apIfConds("SerializeWALEntry"), " | ")
	f["applier.Deserialize.conds"] = strings.Join(r.apIfConds("DeserializeWALEntry"), " | ")
	f["applier.Deserialize.maxKey"] = r.apLimitOf("DeserializeWALEntry", "keyLen")
	f["applier.Deserialize.maxVal"] = r.apLimitOf("DeserializeWALEntry", "valLen")
	f["applier.WALEntryToProto.seq"] = r.apKvField("WALEntryToProto", "SequenceNumber")
	// ---- primary: selection and sender rules
	f["applier.primary.limit"] = one(r.apConstAssign("Primary.getWALEntriesFromSequence", "maxEntriesToReturn"), "maxEntriesToReturn")
	f["applier.primary.bytes"] = one(r.apLocalConst("Primary.getWALEntriesFromSequence", "maxBytesToReturn"), "maxBytesToReturn")
	f["applier.primary.select.conds"] = r.apCondsMatching("Primary.getWALEntriesFromSequence", "currentSeq", "maxEntriesToReturn")
	f["applier.primary.select.order"] = r.apStmtOrder("Primary.getWALEntriesFromSequence", []string{"p.wal.GetNextSequence", "p.wal.GetEntriesFrom"}, []string{"allEntries", "currentSeq", "totalBytes"})
	f["applier.primary.select.cap"] = r.apCondsMatching("Primary.getWALEntriesFromSequence", "maxBytesToReturn") + " ; range " + r.apRangeOver("Primary.getWALEntriesFromSequence", "totalBytes")
	f["applier.primary.from.initial"] = r.apCallArgText("Primary.sendInitialEntries", "p.getWALEntriesFromSequence", 0)
	f["applier.primary.from.resend"] = r.apCallArgText("Primary.resendEntries", "p.getWALEntriesFromSequence", 0)
	f["applier.primary.from.poll"] = r.apCallArgText("Primary.sendUpdatedEntries", "p.getWALEntriesFromSequence", 0) + " where " +
		r.apStmtOrder("Primary.sendUpdatedEntries", nil, []string{"nextSequence"})
	f["applier.primary.nack.arg"] = r.apCallArgText("Primary.NegativeAcknowledge", "p.resendEntries", 1)
	f["applier.wal.GetEntriesFrom.conds"] = w.apCondsMatching("WAL.GetEntriesFrom", "sequenceNumber")
	f["applier.wal.getEntriesFromFile.conds"] = w.apCondsMatching("WAL.getEntriesFromFile", "minSequence")
	// ---- replica: the lines mirrored by harness/comp_applier.go
	for _, fn := range []string{"processEntries", "processEntriesWithoutStateTransitions"} {
		f["applier.replica."+fn+".conds"] = r.apCondsMatching("Replica."+fn, "Compressed", "len(entry.Payload) > 0", "hasGap", "err != nil")
		f["applier.replica."+fn+".order"] = r.apStmtOrder("Replica."+fn,
			[]string{"r.compressor.Decompress", "r.batchApplier.ApplyEntries", "r.handleSequenceGap", "r.applier.Sync", "r.handleFsyncState"},
			[]string{"entries[i].Payload", "r.lastAppliedSeq"})
		f["applier.replica."+fn+".callback"] = r.apCallArgText("Replica."+fn, "r.batchApplier.ApplyEntries", 1)
	}
	f["applier.replica.applyEntry.order"] = r.apStmtOrder("Replica.applyEntry", []string{"r.applier.Apply"}, nil)
	f["applier.replica.nack.from"] = r.apKvField("Replica.handleSequenceGap", "MissingFromSequence")
	f["applier.replica.ack.order"] = r.apStmtOrder("Replica.handleAcknowledgingState",
		[]string{"r.batchApplier.GetMaxApplied", "r.client.Acknowledge", "r.batchApplier.AcknowledgeUpTo"}, []string{"maxApplied", "r.lastAppliedSeq"}) +
		" ; AcknowledgedUpTo: " + r.apKvField("Replica.handleAcknowledgingState", "AcknowledgedUpTo")
	f["applier.replica.stream.start"] = r.apKvField("Replica.handleStreamingState", "StartSequence") + " where " +
		r.apStmtOrder("Replica.handleStreamingState", nil, []string{"nextSeq"})
	f["applier.replica.stream.empty"] = r.apCondsMatching("Replica.handleStreamingState", "entryCount")
	f["applier.replica.Reset.calls"] = r.apCountCalls("r.batchApplier.Reset")
	f["applier.replica.NewReplica.applier"] = r.apCallArgText("NewReplica", "NewWALBatchApplier", 0) + " ; lastAppliedSeq: " + r.apKvField("NewReplica", "lastAppliedSeq")
	// ---- engine applier
	f["applier.EngineApplier.readOnly.order"] = r.callOrder("EngineApplier.applyInReadOnlyMode", "PutInternal", "DeleteInternal", "SetReadOnly", "engine.Put", "engine.Delete")
	f["applier.EngineApplier.normal.order"] = r.callOrder("EngineApplier.applyInNormalMode", "engine.Put", "engine.Delete")
}

// apConstAssign: constant value assigned to local `name` in fn (list form for `one`)
func (p *pkg) apConstAssign(fn, name string) []string {
	fd := p.findFunc(fn)
	if fd == nil {
		fail("applier: function %s.%s not found", p.name, fn)
		return nil
	}
	var out []string
	ast.Inspect(fd.Body, func(n ast.Node) bool {
		as, ok := n.(*ast.AssignStmt)
		if !ok {
			return true
		}
		for i, l := range as.Lhs {
			if id, ok := l.(*ast.Ident); ok && id.Name == name && i < len(as.Rhs) {
				if v, err := p.eval(as.Rhs[i], 0); err == nil {
					out = append(out, v.ExactString())
				} else {
					out = append(out, "?"+exprString(as.Rhs[i]))
				}
			}
		}
		return true
	})
	return out
}

// apLocalConst: value of the constant `name` declared inside fn
func (p *pkg) apLocalConst(fn, name string) []string {
	fd := p.findFunc(fn)
	if fd == nil {
		fail("applier: function %s.%s not found", p.name, fn)
		return nil
	}
	var out []string
	ast.Inspect(fd.Body, func(n ast.Node) bool {
		vs, ok := n.(*ast.ValueSpec)
		if !ok {
			return true
		}
		for i, id := range vs.Names {
			if id.Name == name && i < len(vs.Values) {
				if v, err := p.eval(vs.Values[i], 0); err == nil {
					out = append(out, v.ExactString())
				} else {
					out = append(out, "?"+exprString(vs.Values[i]))
				}
			}
		}
		return true
	})
	return out
}

// apRangeOver: "k, v := range X" header of the range loop of fn whose body assigns to `lhs`
func (p *pkg) apRangeOver(fn, lhs string) string {
	fd := p.findFunc(fn)
	if fd == nil {
		fail("applier: function %s.%s not found", p.name, fn)
		return "?"
	}
	var out []string
	ast.Inspect(fd.Body, func(n ast.Node) bool {
		rs, ok := n.(*ast.RangeStmt)
		if !ok {
			return true
		}
		hit := false
		ast.Inspect(rs.Body, func(m ast.Node) bool {
			if as, ok := m.(*ast.AssignStmt); ok {
				for _, l := range as.Lhs {
					if exprString(l) == lhs {
						hit = true
					}
				}
			}
			return true
		})
		if hit {
			k, v := "_", "_"
			if rs.Key != nil {
				k = exprString(rs.Key)
			}
			if rs.Value != nil {
				v = exprString(rs.Value)
			}
			out = append(out, k+", "+v+" := range "+exprString(rs.X))
		}
		return true
	})
	return strings.Join(out, " | ")
}

func genApplierLean(dir string) {
	c, f := genConst, genFact
	var sb strings.Builder
	sb.WriteString("-- GENERATED by kvfacts from /repo's working tree on every run. Do not edit.\n")
	sb.WriteString("import Kevo.Model.Applier\nnamespace Kevo.Gen\n\n")
	fmt.Fprintf(&sb, "def applierParams : Kevo.Applier.Params :=\n  { opPut := %s, opDelete := %s, opMerge := %s, maxKey := %s, maxVal := %s, pollLimit := %s, pollBytes := %s }\n",
		c("wal.OpTypePut"), c("wal.OpTypeDelete"), c("wal.OpTypeMerge"),
		f("applier.Deserialize.maxKey"), f("applier.Deserialize.maxVal"), f("applier.primary.limit"), f("applier.primary.bytes"))
	sb.WriteString("theorem applierParams_wf : applierParams.WF := by decide\n")
	sb.WriteString("\nend Kevo.Gen\n")
	writeIfChanged(filepath.Join(dir, "Applier.lean"), sb.String())
}
