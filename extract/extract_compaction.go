package main

// Facts and translations for the compaction model (C12): guard-chain skeletons of SSTableInfo.Overlaps,
// BasicTombstoneFilter.ShouldKeep and TombstoneTracker.ShouldKeepTombstone (regenerated into Kevo/Gen/Compaction.lean
// together with theorems tying them to Kevo.Model.Compaction), call orders of the compaction cycle, the sort inside
// CompactFiles, the level-0 trigger, the tracker retention and the tombstone-tracking call sites of the facade.

import (
	"fmt"
	"go/ast"
	"go/printer"
	"go/token"
	"path/filepath"
	"strings"
)

func printNode(sb *strings.Builder, n ast.Node) {
	printer.Fprint(sb, token.NewFileSet(), n)
}

func init() {
	extractors = append(extractors, extractCompaction)
	generators = append(generators, genCompaction)
}

type chainResult struct {
	lean    string   // if c1 then e1 else if c2 then e2 else e3   (over the atom names)
	prelude []string // statements that are neither guards nor the final return, printed
	ok      bool
}

var compactionChains = map[string]chainResult{}

// boolExpr translates a Go boolean expression into Lean Bool syntax; leaves are looked up (by printed text) in atoms.
func boolExpr(e ast.Expr, atoms map[string]string, what string) string {
	switch x := e.(type) {
	case *ast.ParenExpr:
		return "(" + boolExpr(x.X, atoms, what) + ")"
	case *ast.UnaryExpr:
		if x.Op == token.NOT {
			return "!" + boolExpr(x.X, atoms, what)
		}
	case *ast.BinaryExpr:
		if x.Op == token.LOR {
			return boolExpr(x.X, atoms, what) + " || " + boolExpr(x.Y, atoms, what)
		}
		if x.Op == token.LAND {
			return boolExpr(x.X, atoms, what) + " && " + boolExpr(x.Y, atoms, what)
		}
	case *ast.Ident:
		if x.Name == "true" || x.Name == "false" {
			return x.Name
		}
	}
	t := exprString(e)
	if a, ok := atoms[t]; ok {
		return a
	}
	fail("compaction translator: %s: unknown condition `%s`", what, t)
	return "?"
}

// guardChain translates a function body of the shape  (stmt)* (if c { return e })* return e  into a Lean if-chain.
func (p *pkg) guardChain(fn string, atoms map[string]string) chainResult {
	fd := p.findFunc(fn)
	if fd == nil {
		fail("compaction translator: function %s.%s not found", p.name, fn)
		return chainResult{}
	}
	var sb strings.Builder
	res := chainResult{ok: true}
	closed := false
	for _, st := range fd.Body.List {
		switch s := st.(type) {
		case *ast.IfStmt:
			if closed || s.Init != nil || s.Else != nil || len(s.Body.List) != 1 {
				fail("compaction translator: %s: unsupported if statement", fn)
				return chainResult{}
			}
			rs, ok := s.Body.List[0].(*ast.ReturnStmt)
			if !ok || len(rs.Results) != 1 {
				fail("compaction translator: %s: guard body is not a single return", fn)
				return chainResult{}
			}
			fmt.Fprintf(&sb, "if %s then %s else ", boolExpr(s.Cond, atoms, fn), boolExpr(rs.Results[0], atoms, fn))
		case *ast.ReturnStmt:
			if closed || len(s.Results) != 1 {
				fail("compaction translator: %s: unsupported return", fn)
				return chainResult{}
			}
			sb.WriteString(boolExpr(s.Results[0], atoms, fn))
			closed = true
		default:
			if closed {
				fail("compaction translator: %s: statement after the final return", fn)
				return chainResult{}
			}
			res.prelude = append(res.prelude, stmtString(st))
		}
	}
	if !closed {
		fail("compaction translator: %s: no final return", fn)
		return chainResult{}
	}
	res.lean = sb.String()
	return res
}

func stmtString(s ast.Stmt) string {
	var sb strings.Builder
	printNode(&sb, s)
	return strings.Join(strings.Fields(sb.String()), " ")
}

// lessText: the body of the comparison closure given to the first call of `callee` (sort.Slice / sort.SliceStable) in fn
func (p *pkg) lessText(fn, callee string) string {
	fd := p.findFunc(fn)
	if fd == nil {
		fail("function %s.%s not found", p.name, fn)
		return "?"
	}
	res := "?"
	ast.Inspect(fd.Body, func(n ast.Node) bool {
		ce, ok := n.(*ast.CallExpr)
		if !ok || res != "?" || exprString(ce.Fun) != callee || len(ce.Args) < 2 {
			return true
		}
		if fl, ok := ce.Args[1].(*ast.FuncLit); ok {
			var parts []string
			for _, st := range fl.Body.List {
				parts = append(parts, stmtString(st))
			}
			res = strings.Join(parts, " ; ")
		}
		return true
	})
	if res == "?" {
		fail("%s.%s: no %s with a comparison closure", p.name, fn, callee)
	}
	return res
}

// ifCondWith: the condition of the first if statement of fn whose printed condition contains `needle`
func (p *pkg) ifCondWith(fn, needle string) string {
	fd := p.findFunc(fn)
	if fd == nil {
		fail("function %s.%s not found", p.name, fn)
		return "?"
	}
	res := "?"
	ast.Inspect(fd.Body, func(n ast.Node) bool {
		is, ok := n.(*ast.IfStmt)
		if !ok || res != "?" {
			return true
		}
		if c := exprString(is.Cond); strings.Contains(c, needle) {
			res = c
		}
		return true
	})
	if res == "?" {
		fail("%s.%s: no if condition containing %s", p.name, fn, needle)
	}
	return res
}

// varInit: the initial value text of `var name T = expr` inside fn
func (p *pkg) varInit(fn, name string) string {
	fd := p.findFunc(fn)
	if fd == nil {
		fail("function %s.%s not found", p.name, fn)
		return "?"
	}
	res := "?"
	ast.Inspect(fd.Body, func(n ast.Node) bool {
		vs, ok := n.(*ast.ValueSpec)
		if !ok || res != "?" {
			return true
		}
		for i, id := range vs.Names {
			if id.Name == name && i < len(vs.Values) {
				res = exprString(vs.Values[i])
			}
		}
		return true
	})
	if res == "?" {
		fail("%s.%s: no initialised variable %s", p.name, fn, name)
	}
	return res
}

func extractCompaction(repo string) {
	c := P(repo, "pkg/compaction")
	ov := c.guardChain("SSTableInfo.Overlaps", map[string]string{
		"len(s.FirstKey) == 0":                         "sfE",
		"len(s.LastKey) == 0":                          "slE",
		"len(other.FirstKey) == 0":                     "ofE",
		"len(other.LastKey) == 0":                      "olE",
		"bytes.Compare(s.LastKey, other.FirstKey) < 0": "slLtOf",
		"bytes.Compare(s.FirstKey, other.LastKey) > 0": "olLtSf",
	})
	sk := c.guardChain("BasicTombstoneFilter.ShouldKeep", map[string]string{
		"value != nil":                       "valueSome",
		"f.tracker != nil":                   "trackerSome",
		"f.tracker.ShouldKeepTombstone(key)": "trackerKeeps",
		"f.level <= f.maxTombstoneLevel":     "levelLe",
	})
	tk := c.guardChain("TombstoneTracker.ShouldKeepTombstone", map[string]string{
		"t.preserveForever[strKey]":           "preserved",
		"exists":                              "tracked",
		"time.Since(timestamp) < t.retention": "young",
	})
	compactionChains["overlaps"], compactionChains["shouldKeep"], compactionChains["trackerKeep"] = ov, sk, tk
	F.Facts["compaction.Overlaps.chain"] = ov.lean
	F.Facts["compaction.ShouldKeep.chain"] = sk.lean
	F.Facts["compaction.ShouldKeepTombstone.chain"] = tk.lean
	F.Facts["compaction.ShouldKeepTombstone.prelude"] = strings.Join(tk.prelude, " ; ")

	F.Facts["compaction.runCompactionCycle.shape"] = c.skeleton("DefaultCompactionCoordinator.runCompactionCycle", "LoadSSTables", "SelectCompaction",
		"MarkFilePending", "CompactFiles", "UnmarkFilePending", "MarkFileObsolete", "CleanupObsoleteFiles")
	F.Facts["compaction.runCompactionCycle.order"] = c.callOrder("DefaultCompactionCoordinator.runCompactionCycle",
		"LoadSSTables", "SelectCompaction", "MarkFilePending", "CompactFiles", "UnmarkFilePending", "MarkFileObsolete", "CleanupObsoleteFiles")
	F.Facts["compaction.CompactRange.order"] = c.callOrder("TieredCompactionStrategy.CompactRange", "Overlaps", "CompactFiles", "DeleteCompactedFiles", "LoadSSTables")
	F.Facts["compaction.CompactRange.target"] = c.assignedExprSel("TieredCompactionStrategy.CompactRange", "task.TargetLevel")
	F.Facts["compaction.CleanupObsoleteFiles.skip"] = c.ifCondWith("DefaultFileTracker.CleanupObsoleteFiles", "pendingFiles")
	F.Facts["compaction.CompactFiles.sort"] = c.lessText("DefaultCompactionExecutor.CompactFiles", "sort.SliceStable")
	F.Facts["compaction.CompactFiles.levels"] = c.ifOrForCond("DefaultCompactionExecutor.CompactFiles", "task.TargetLevel")
	F.Facts["compaction.CompactFiles.order"] = c.callOrder("DefaultCompactionExecutor.CompactFiles",
		"sort.SliceStable", "NewHierarchicalIterator", "SeekToFirst", "bytes.Equal", "IsTombstone", "ShouldKeep", "AddTombstone", "currentWriter.Add", "createNewOutputFile", "Abort")
	F.Facts["compaction.CompactFiles.keepDefault"] = c.assignedExprLast("DefaultCompactionExecutor.CompactFiles", "shouldKeep")
	F.Facts["compaction.CompactFiles.cut"] = c.ifCondWith("DefaultCompactionExecutor.CompactFiles", "SSTableMaxSize")
	F.Facts["compaction.CompactFiles.firstOutputNumber"] = c.varInit("DefaultCompactionExecutor.CompactFiles", "outputFileSequence")
	F.Facts["compaction.SelectCompaction.l0"] = c.ifCondWith("TieredCompactionStrategy.SelectCompaction", "levels[0]")
	F.Facts["compaction.SelectCompaction.ratio"] = c.ifCondWith("TieredCompactionStrategy.SelectCompaction", "sizeRatio")
	F.Facts["compaction.selectL0.min"] = c.ifCondWith("TieredCompactionStrategy.selectL0Compaction", "len(s.levels[0])")
	F.Facts["compaction.selectL0.take"] = c.assignedExpr("TieredCompactionStrategy.selectL0Compaction", "maxCompactFiles")
	F.Facts["compaction.selectL0.sort"] = c.lessText("TieredCompactionStrategy.selectL0Compaction", "sort.Slice")
	F.Facts["compaction.LoadSSTables.sort"] = c.lessText("BaseCompactionStrategy.LoadSSTables", "sort.Slice")
	F.Facts["compaction.tracker.retention"] = one(c.callArgs("NewCompactionCoordinator", "NewTombstoneTracker", 0), "tracker retention")

	sm := P(repo, "pkg/engine/storage")
	F.Facts["compaction.storage.loadSSTables.sort"] = sm.lessText("Manager.loadSSTables", "sort.Slice")
	en := P(repo, "pkg/engine")
	F.Facts["compaction.facade.Delete.track"] = en.callOrder("EngineFacade.Delete", "storage.Delete", "TrackTombstone")
	F.Facts["compaction.facade.ApplyBatch.track"] = en.callOrder("EngineFacade.ApplyBatch", "storage.ApplyBatch", "TrackTombstone")
	tx := P(repo, "pkg/transaction")
	F.Facts["compaction.tx.Commit.track"] = tx.callOrder("TransactionImpl.Commit", "storage.ApplyBatch", "TrackTombstone")
	cf := P(repo, "pkg/config")
	F.Facts["compaction.config.MaxMemTables"] = cf.fieldInit("NewDefaultConfig", "MaxMemTables")
	F.Facts["compaction.config.MaxLevelWithTombstones"] = cf.fieldInit("NewDefaultConfig", "MaxLevelWithTombstones")
	F.Facts["compaction.config.CompactionRatio"] = cf.fieldInit("NewDefaultConfig", "CompactionRatio")
}

// ifOrForCond: the condition of the first for statement of fn whose printed condition contains `needle`
func (p *pkg) ifOrForCond(fn, needle string) string {
	fd := p.findFunc(fn)
	if fd == nil {
		fail("function %s.%s not found", p.name, fn)
		return "?"
	}
	res := "?"
	ast.Inspect(fd.Body, func(n ast.Node) bool {
		fs, ok := n.(*ast.ForStmt)
		if !ok || res != "?" || fs.Cond == nil {
			return true
		}
		if c := exprString(fs.Cond); strings.Contains(c, needle) {
			res = stmtString(fs.Init) + " ; " + c
		}
		return true
	})
	if res == "?" {
		fail("%s.%s: no for condition containing %s", p.name, fn, needle)
	}
	return res
}

// assignedExprLast: text of the right-hand side of the LAST plain assignment `name = expr` in fn
func (p *pkg) assignedExprLast(fn, name string) string {
	fd := p.findFunc(fn)
	if fd == nil {
		fail("function %s.%s not found", p.name, fn)
		return "?"
	}
	res := "?"
	ast.Inspect(fd.Body, func(n ast.Node) bool {
		as, ok := n.(*ast.AssignStmt)
		if !ok {
			return true
		}
		for i, l := range as.Lhs {
			if id, ok := l.(*ast.Ident); ok && id.Name == name && i < len(as.Rhs) {
				res = exprString(as.Rhs[i])
			}
		}
		return true
	})
	if res == "?" {
		fail("%s.%s: no assignment to %s", p.name, fn, name)
	}
	return res
}

func genCompaction(dir string) {
	ov, sk, tk := compactionChains["overlaps"], compactionChains["shouldKeep"], compactionChains["trackerKeep"]
	if !ov.ok || !sk.ok || !tk.ok {
		fail("compaction translator: guard chains missing, Gen/Compaction.lean not regenerated")
		return
	}
	hours := "0"
	if v, ok := F.Facts["compaction.tracker.retention"]; ok {
		var ns int64
		fmt.Sscan(v, &ns)
		hours = fmt.Sprint(ns / 3600000000000)
	}
	var sb strings.Builder
	sb.WriteString("-- GENERATED by kvfacts (extract/extract_compaction.go) from /repo's working tree on every run. Do not edit.\n")
	sb.WriteString("import Kevo.Model.Compaction\nnamespace Kevo.Gen.Compaction\nopen Kevo Kevo.Compaction\n\n")
	sb.WriteString("/-- SSTableInfo.Overlaps as a guard chain over its atomic conditions (xE: len(x) == 0; aLtB: bytes.Compare(a, b) < 0) -/\n")
	fmt.Fprintf(&sb, "def overlapsGen (sfE slE ofE olE slLtOf olLtSf : Bool) : Bool :=\n  %s\n\n", ov.lean)
	sb.WriteString("theorem overlaps_eq (f1 l1 f2 l2 : Bytes) :\n    overlaps f1 l1 f2 l2 = overlapsGen f1.isEmpty l1.isEmpty f2.isEmpty l2.isEmpty (ltB l1 f2) (ltB l2 f1) := by\n  unfold overlaps overlapsGen\n  cases f1.isEmpty <;> cases l1.isEmpty <;> cases f2.isEmpty <;> cases l2.isEmpty <;> cases ltB l1 f2 <;> cases ltB l2 f1 <;> rfl\n\n")
	sb.WriteString("/-- BasicTombstoneFilter.ShouldKeep -/\n")
	fmt.Fprintf(&sb, "def shouldKeepGen (valueSome trackerSome trackerKeeps levelLe : Bool) : Bool :=\n  %s\n\n", sk.lean)
	sb.WriteString("theorem filterShouldKeep_eq (level maxTomb : Nat) (tr : Option Tracker) (retention now : Nat) (k : Bytes) (v : Option Bytes) :\n    filterShouldKeep level maxTomb tr retention now k v =\n      shouldKeepGen v.isSome tr.isSome ((tr.map (fun t => t.shouldKeep retention now k)).getD false) (decide (level ≤ maxTomb)) := by\n  unfold filterShouldKeep shouldKeepGen\n  cases v <;> cases tr <;> simp\n\n")
	sb.WriteString("/-- TombstoneTracker.ShouldKeepTombstone -/\n")
	fmt.Fprintf(&sb, "def trackerKeepGen (preserved tracked young : Bool) : Bool :=\n  %s\n\n", tk.lean)
	sb.WriteString("theorem trackerShouldKeep_eq (t : Tracker) (retention now : Nat) (k : Bytes) :\n    t.shouldKeep retention now k =\n      trackerKeepGen (t.preserve.contains k) (t.deletions.find? (fun d => d.1 == k)).isSome\n        (match t.deletions.find? (fun d => d.1 == k) with | some d => decide (now - d.2 < retention) | none => false) := by\n  unfold Tracker.shouldKeep trackerKeepGen\n  cases t.preserve.contains k <;> cases t.deletions.find? (fun d => d.1 == k) <;> simp\n\n")
	fmt.Fprintf(&sb, "/-- NewCompactionCoordinator: NewTombstoneTracker(%s h); one clock tick of the model = 1 s -/\n", hours)
	fmt.Fprintf(&sb, "def trackerRetentionHours : Nat := %s\n", hours)
	sb.WriteString("theorem retention_default : ({} : Cfg).retention = trackerRetentionHours * 3600 := by decide\n")
	fmt.Fprintf(&sb, "theorem config_defaults : ({} : Cfg).maxMemTables = %s ∧ ({} : Cfg).maxLevelWithTombstones = %s ∧ ({} : Cfg).ratioNum = %s := by decide\n",
		genFact("compaction.config.MaxMemTables"), genFact("compaction.config.MaxLevelWithTombstones"), genFact("compaction.config.CompactionRatio"))
	sb.WriteString("\nend Kevo.Gen.Compaction\n")
	writeIfChanged(filepath.Join(dir, "Compaction.lean"), sb.String())
}
