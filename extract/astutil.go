package main

import (
	"go/ast"
	"go/token"
	"strings"
)

// inspectFor calls f(cond, bound) for every `for ... ; i < N ; ...` loop whose bound N is constant.
func inspectFor(fd *ast.FuncDecl, f func(cond, bound string), p *pkg) {
	ast.Inspect(fd.Body, func(n ast.Node) bool {
		fs, ok := n.(*ast.ForStmt)
		if !ok || fs.Cond == nil {
			return true
		}
		be, ok := fs.Cond.(*ast.BinaryExpr)
		if !ok || be.Op != token.LSS {
			return true
		}
		v, err := p.eval(be.Y, 0)
		if err == nil {
			f(exprString(fs.Cond), v.ExactString())
		}
		return true
	})
}

// firstIfLenLess: the constant N of the first `if len(x) < N` in the function.
func (p *pkg) firstIfLenLess(fn string) string {
	fd := p.findFunc(fn)
	if fd == nil {
		fail("function %s.%s not found", p.name, fn)
		return "?"
	}
	res := "?"
	ast.Inspect(fd.Body, func(n ast.Node) bool {
		is, ok := n.(*ast.IfStmt)
		if !ok || res != "?" {
			return true
		}
		be, ok := is.Cond.(*ast.BinaryExpr)
		if !ok || be.Op != token.LSS {
			return true
		}
		if ce, ok := be.X.(*ast.CallExpr); ok && exprString(ce.Fun) == "len" {
			if v, err := p.eval(be.Y, 0); err == nil {
				res = v.ExactString()
			}
		}
		return true
	})
	if res == "?" {
		fail("%s.%s: no `if len(x) < N`", p.name, fn)
	}
	return res
}

// fieldInit: the constant value given to field `field` in the first composite literal returned by function fn.
func (p *pkg) fieldInit(fn, field string) string {
	fd := p.findFunc(fn)
	if fd == nil {
		fail("function %s.%s not found", p.name, fn)
		return "?"
	}
	res := "?"
	ast.Inspect(fd.Body, func(n ast.Node) bool {
		kv, ok := n.(*ast.KeyValueExpr)
		if !ok || res != "?" {
			return true
		}
		if id, ok := kv.Key.(*ast.Ident); ok && id.Name == field {
			if v, err := p.eval(kv.Value, 0); err == nil {
				res = v.ExactString()
			} else {
				res = "?" + exprString(kv.Value)
			}
		}
		return true
	})
	if res == "?" {
		fail("%s.%s: field %s not initialised by a constant", p.name, fn, field)
	}
	return res
}

// callOrder: the calls in function fn (source order, closures included) whose callee text ends with one of the
// given suffixes, joined by " < ". Consecutive duplicates are collapsed.
func (p *pkg) callOrder(fn string, suffixes ...string) string {
	fd := p.findFunc(fn)
	if fd == nil {
		fail("function %s.%s not found", p.name, fn)
		return "?"
	}
	var out []string
	ast.Inspect(fd.Body, func(n ast.Node) bool {
		ce, ok := n.(*ast.CallExpr)
		if !ok {
			return true
		}
		name := exprString(ce.Fun)
		for _, s := range suffixes {
			if name == s || (len(name) > len(s) && name[len(name)-len(s):] == s && (s[0] == '.' || name[len(name)-len(s)-1] == '.')) {
				if len(out) == 0 || out[len(out)-1] != s {
					out = append(out, s)
				}
				break
			}
		}
		return true
	})
	res := ""
	for i, s := range out {
		if i > 0 {
			res += " < "
		}
		res += s
	}
	return res
}

// assignedExpr: text of the right-hand side of the first `name := expr` / `name = expr` in fn.
func (p *pkg) assignedExpr(fn, name string) string {
	fd := p.findFunc(fn)
	if fd == nil {
		fail("function %s.%s not found", p.name, fn)
		return "?"
	}
	res := "?"
	ast.Inspect(fd.Body, func(n ast.Node) bool {
		as, ok := n.(*ast.AssignStmt)
		if !ok || res != "?" {
			return true
		}
		for i, l := range as.Lhs {
			if id, ok := l.(*ast.Ident); ok && id.Name == name && i < len(as.Rhs) {
				res = exprString(as.Rhs[i])
			}
		}
		return true
	})
	if res == "?" {
		fail("%s.%s: no assignment to %s", p.name, fn, name)
	}
	return res
}

// assignedExprSel: like assignedExpr but the left-hand side is matched by its printed text (e.g. "w.nextSequence");
// returns the LAST such assignment in the function.
func (p *pkg) assignedExprSel(fn, lhs string) string {
	fd := p.findFunc(fn)
	if fd == nil {
		fail("function %s.%s not found", p.name, fn)
		return "?"
	}
	res := "?"
	ast.Inspect(fd.Body, func(n ast.Node) bool {
		as, ok := n.(*ast.AssignStmt)
		if !ok {
			return true
		}
		for i, l := range as.Lhs {
			if exprString(l) == lhs && i < len(as.Rhs) {
				res = exprString(as.Rhs[i])
			}
		}
		return true
	})
	if res == "?" {
		fail("%s.%s: no assignment to %s", p.name, fn, lhs)
	}
	return res
}

// skeleton: the top-level statements of fn in source order, each reduced to its kind and the calls it contains:
// `if <cond> {return}` / `if <cond> {…}`, `for {calls}`, `x := call`, `call`, `return`. Pins WHERE in a function an error is
// checked relative to the calls around it (a call order alone does not).
func (p *pkg) skeleton(fn string, interesting ...string) string {
	fd := p.findFunc(fn)
	if fd == nil {
		fail("skeleton: function %s.%s not found", p.name, fn)
		return "?"
	}
	want := func(name string) bool {
		if len(interesting) == 0 {
			return true
		}
		for _, s := range interesting {
			if strings.HasSuffix(name, s) {
				return true
			}
		}
		return false
	}
	callsIn := func(n ast.Node) []string {
		var cs []string
		ast.Inspect(n, func(x ast.Node) bool {
			if _, ok := x.(*ast.FuncLit); ok {
				return false
			}
			if ce, ok := x.(*ast.CallExpr); ok && want(exprString(ce.Fun)) {
				cs = append(cs, exprString(ce.Fun))
			}
			return true
		})
		return cs
	}
	hasReturn := func(b *ast.BlockStmt) bool {
		for _, s := range b.List {
			if _, ok := s.(*ast.ReturnStmt); ok {
				return true
			}
		}
		return false
	}
	var out []string
	for _, st := range fd.Body.List {
		switch x := st.(type) {
		case *ast.IfStmt:
			t := "if " + oneLine(exprString(x.Cond))
			if x.Init != nil {
				if cs := callsIn(x.Init); len(cs) > 0 {
					t = "if " + strings.Join(cs, ",") + "; " + oneLine(exprString(x.Cond))
				}
			}
			if hasReturn(x.Body) {
				t += " {return}"
			} else if cs := callsIn(x.Body); len(cs) > 0 {
				t += " {" + strings.Join(cs, ",") + "}"
			} else {
				t += " {}"
			}
			out = append(out, t)
		case *ast.ForStmt, *ast.RangeStmt:
			if cs := callsIn(x); len(cs) > 0 {
				out = append(out, "for {"+strings.Join(cs, ",")+"}")
			}
		case *ast.ReturnStmt:
			if cs := callsIn(x); len(cs) > 0 {
				out = append(out, "return "+strings.Join(cs, ","))
			} else {
				out = append(out, "return")
			}
		default:
			if cs := callsIn(x); len(cs) > 0 {
				out = append(out, strings.Join(cs, ","))
			}
		}
	}
	return strings.Join(out, " ; ")
}
