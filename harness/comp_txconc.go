package main

// component txconc (C04): 2–8 goroutines run generated transaction bodies against a REAL engine; the schedule
// is perturbed through the verif hooks; every transaction records its lock-acquisition ticket, every read with its
// result, its buffered writes and its outcome. The serial-order check (replay in ticket order against an abstract
// map) runs here AND, independently, in lib/oracledefs/txconc.py (which also brute-forces small histories).
//
// script:   open mem=<bytes> yield=<permille> seed=<n> pre=<k:v,k:v|->
//           g <i> <tx> | <tx> | ...          tx = ro|rw op op ... ; ops: g:<k>  s:<lo|->:<hi|->  p:<k>:<v>  d:<k>  C  R
//                                             (ops after the first C/R are calls on a finished transaction)
//           run
// output:   ok / ok / `ok tx=<n> reads=<m> hist=<json>` | `bad <what> hist=<json>`

import (
	"bufio"
	"bytes"
	"encoding/json"
	"errors"
	"fmt"
	"runtime"
	"sort"
	"strconv"
	"strings"
	"sync"
	"sync/atomic"
	"time"

	"github.com/KevoDB/kevo/pkg/config"
	"github.com/KevoDB/kevo/pkg/engine"
	"github.com/KevoDB/kevo/pkg/engine/interfaces"
	"github.com/KevoDB/kevo/pkg/transaction"
	"github.com/KevoDB/kevo/pkg/verifhook"
)

func init() {
	components["txconc"] = &component{gen: genTxConc, run: runTxConc}
	// the same scenarios under the -race build, but with 1 MB memtables only: no background flush runs inside a
	// scenario. (Known races outside C04: Manager.immutableMTs — D21 — and Manager.Close reading m.sstables while the
	// background flush publishes a table; both belong to C06/C07.)
	components["txconc_race"] = &component{gen: func(g *gen, n int, tier string, w *bufio.Writer) {
		txcBigMemOnly = true
		genTxConc(g, n, tier, w)
	}, run: runTxConc}
}

var txcBigMemOnly bool

// ---------- generator ----------

var txcKeys = []string{"6b31", "6b32", "6b33", "6b34", "61", "7a", "6b3100", "6d"} // k1 k2 k3 k4 a z k1\0 m

func (g *gen) txcKey() string { return txcKeys[g.intn(len(txcKeys))] }

func (g *gen) txcBound() string {
	if g.chance(1, 3) {
		return "-"
	}
	return g.txcKey()
}

func genTxBody(g *gen, gid, ti int) string {
	ro := g.chance(2, 5)
	parts := []string{"rw"}
	if ro {
		parts[0] = "ro"
	}
	n := 1 + g.intn(7)
	// read-modify-write shape makes lost updates visible
	rmw := !ro && g.chance(1, 2)
	for i := 0; i < n; i++ {
		val := fmt.Sprintf("%02x%02x%02x", gid+1, ti+1, i+1)
		switch x := g.intn(100); {
		case rmw && i == 0:
			parts = append(parts, "g:"+txcKeys[g.intn(3)])
		case rmw && i == n-1:
			parts = append(parts, "p:"+txcKeys[g.intn(3)]+":"+val)
		case x < 35 || (ro && x < 70):
			parts = append(parts, "g:"+g.txcKey())
		case x < 50 || (ro && x < 92):
			parts = append(parts, "s:"+g.txcBound()+":"+g.txcBound())
		case x < 85:
			if g.chance(1, 12) {
				val = g.txcPick("=", "-") // empty value, as an empty or as a nil slice (what the TxPut handler passes for an empty field)
			}
			parts = append(parts, "p:"+g.txcKey()+":"+val)
		default:
			parts = append(parts, "d:"+g.txcKey())
		}
	}
	if g.chance(3, 4) {
		parts = append(parts, "C")
	} else {
		parts = append(parts, "R")
	}
	if g.chance(1, 8) { // calls on the finished handle
		parts = append(parts, g.txcPick("C", "R", "g:"+g.txcKey(), "p:"+g.txcKey()+":ff"))
	}
	return strings.Join(parts, " ")
}

func (g *gen) txcPick(xs ...string) string { return xs[g.intn(len(xs))] }

func genTxConc(g *gen, n int, tier string, w *bufio.Writer) {
	for c := 0; c < n; c++ {
		fmt.Fprintf(w, "# case %d\n", c)
		mem := g.pick(1<<20, 1<<20, 1<<20, 4096, 512)
		if txcBigMemOnly {
			mem = 1 << 20
		}
		var pre []string
		for _, k := range txcKeys {
			if g.chance(1, 2) {
				pre = append(pre, k+":00"+k[:2])
			}
		}
		ps := "-"
		if len(pre) > 0 {
			ps = strings.Join(pre, ",")
		}
		fmt.Fprintf(w, "open mem=%d yield=%d seed=%d pre=%s\n", mem, g.pick(200, 500, 800), g.intn(1<<30), ps)
		ng := 2 + g.intn(7)
		small := g.chance(1, 3) // small histories (<= 6 transactions) are brute-forced over all orders
		if small {
			ng = 2 + g.intn(2)
		}
		for i := 0; i < ng; i++ {
			nt := 1 + g.intn(4)
			if small {
				nt = 1 + g.intn(2)
			}
			var txs []string
			for t := 0; t < nt; t++ {
				txs = append(txs, genTxBody(g, i, t))
			}
			fmt.Fprintf(w, "g %d %s\n", i, strings.Join(txs, " | "))
		}
		fmt.Fprintln(w, "run")
	}
}

// ---------- executor ----------

type txcOp struct {
	Op  string `json:"op"`           // g s p d C R
	K   string `json:"k,omitempty"`  // key / lo
	K2  string `json:"k2,omitempty"` // hi
	V   string `json:"v,omitempty"`  // value written
	Res string `json:"res"`          // found:<v> | nf | ok | closed | readonly | err:<..> | scan:<k>=<v>,...
}

type txcTx struct {
	G      int      `json:"g"`
	I      int      `json:"i"`
	Mode   string   `json:"mode"`
	Call   int64    `json:"call"`   // logical clock before BeginTransaction was called
	Ticket int64    `json:"ticket"` // logical clock inside BeginTransaction right after the lock was acquired
	Ret    int64    `json:"ret"`    // logical clock after the first Commit/Rollback returned
	Out    string   `json:"out"`    // committed | rolledback | commit-error:<..> | unfinished
	Ops    []*txcOp `json:"ops"`
}

type txcHist struct {
	Pre   map[string]string `json:"pre"`
	Txs   []*txcTx          `json:"txs"`
	Final map[string]string `json:"final"`
}

type txcWorker struct {
	ticket atomic.Int64
}

type txcRun struct {
	r      *runner
	dir    string
	e      *engine.EngineFacade
	yield  int
	seed   uint64
	pre    map[string]string
	progs  map[int][]string
	clock  atomic.Int64
	hits   atomic.Uint64
	byGoid sync.Map // goroutine id -> *txcWorker
}

func txcGoid() uint64 {
	var buf [64]byte
	n := runtime.Stack(buf[:], false)
	// "goroutine 123 [running]:"
	f := bytes.Fields(buf[:n])
	if len(f) < 2 {
		return 0
	}
	id, _ := strconv.ParseUint(string(f[1]), 10, 64)
	return id
}

func txcMix(x uint64) uint64 {
	x += 0x9e3779b97f4a7c15
	x = (x ^ (x >> 30)) * 0xbf58476d1ce4e5b9
	x = (x ^ (x >> 27)) * 0x94d049bb133111eb
	return x ^ (x >> 31)
}

// perturb: seeded schedule noise (Gosched / short sleeps)
func (x *txcRun) perturb() {
	h := txcMix(x.seed ^ x.hits.Add(1))
	if int(h%1000) >= x.yield {
		return
	}
	switch (h >> 10) % 4 {
	case 0, 1:
		runtime.Gosched()
	case 2:
		time.Sleep(time.Duration((h>>20)%60) * time.Microsecond)
	default:
		time.Sleep(time.Duration((h>>20)%400) * time.Microsecond)
	}
}

var txcSites = map[string]bool{"tx.begin.beforeLock": true, "tx.begin.locked": true, "tx.commit.beforeApply": true,
	"tx.commit.applied": true, "mgr.batch.afterLog": true, "mgr.batch.entry": true}

func (x *txcRun) hook(site string) {
	if !txcSites[site] {
		return
	}
	if site == "tx.begin.locked" {
		if w, ok := x.byGoid.Load(txcGoid()); ok {
			w.(*txcWorker).ticket.Store(x.clock.Add(1))
		}
	}
	x.perturb()
}

func txcErr(err error) string {
	switch {
	case err == nil:
		return "ok"
	case errors.Is(err, transaction.ErrTransactionClosed):
		return "closed"
	case errors.Is(err, transaction.ErrReadOnlyTransaction):
		return "readonly"
	case strings.Contains(err.Error(), "not found"):
		return "nf"
	}
	return "err:" + errTok(err)
}

func txcScan(tx interfaces.Transaction, lo, hi []byte) string {
	it := tx.NewIterator()
	if lo != nil || hi != nil {
		it = tx.NewRangeIterator(lo, hi)
	}
	var parts []string
	var prev []byte
	for it.SeekToFirst(); it.Valid(); it.Next() {
		if prev != nil && bytes.Compare(it.Key(), prev) <= 0 {
			parts = append(parts, "ORDER-VIOLATION")
		}
		prev = append([]byte{}, it.Key()...)
		if it.IsTombstone() {
			continue
		}
		parts = append(parts, hx(it.Key())+"="+hx(it.Value()))
		if len(parts) > 10000 {
			break
		}
	}
	return "scan:" + strings.Join(parts, ",")
}

func (x *txcRun) runTx(w *txcWorker, g, i int, body string) *txcTx {
	ws := strings.Fields(body)
	rec := &txcTx{G: g, I: i, Mode: ws[0], Out: "unfinished"}
	w.ticket.Store(0)
	rec.Call = x.clock.Add(1)
	tx, err := x.e.BeginTransaction(ws[0] == "ro")
	if err != nil {
		rec.Out = "begin-error:" + errTok(err)
		return rec
	}
	rec.Ticket = w.ticket.Load()
	finished := false
	for _, o := range ws[1:] {
		x.perturb()
		f := strings.Split(o, ":")
		op := &txcOp{Op: f[0]}
		switch f[0] {
		case "g":
			op.K = f[1]
			v, err := tx.Get(unhx(f[1]))
			if err == nil {
				op.Res = "found:" + hx(v)
			} else {
				op.Res = txcErr(err)
			}
		case "s":
			op.K, op.K2 = f[1], f[2]
			op.Res = txcScan(tx, optBound(f[1]), optBound(f[2]))
		case "p":
			op.K, op.V = f[1], f[2]
			if op.V == "-" { // a nil value is the empty value
				op.V = "="
			}
			k, v := unhx(f[1]), unhx(f[2])
			op.Res = txcErr(tx.Put(k, v))
			for j := range k { // the caller may reuse its buffers
				k[j] ^= 0x5a
			}
			for j := range v {
				v[j] ^= 0x5a
			}
		case "d":
			op.K = f[1]
			op.Res = txcErr(tx.Delete(unhx(f[1])))
		case "C", "R":
			var err error
			if f[0] == "C" {
				err = tx.Commit()
			} else {
				err = tx.Rollback()
			}
			op.Res = txcErr(err)
			if !finished {
				finished = true
				rec.Ret = x.clock.Add(1)
				switch {
				case err != nil:
					rec.Out = "finish-error:" + errTok(err)
				case f[0] == "C":
					rec.Out = "committed"
				default:
					rec.Out = "rolledback"
				}
			}
		}
		rec.Ops = append(rec.Ops, op)
	}
	if !finished {
		tx.Rollback()
		rec.Ret = x.clock.Add(1)
		rec.Out = "rolledback"
	}
	return rec
}

// ---- abstract replay (the specification, Go side) ----

func txcReplay(pre map[string]string, order []*txcTx) (map[string]string, string) {
	db := map[string]string{}
	for k, v := range pre {
		db[k] = v
	}
	for _, t := range order {
		buf := map[string]*string{}
		done := false
		for n, o := range t.Ops {
			where := fmt.Sprintf("tx g%d.%d op%d %s", t.G, t.I, n, o.Op)
			if done {
				want := "closed"
				if o.Op == "s" {
					want = "scan:"
				}
				if o.Res != want {
					return nil, fmt.Sprintf("%s after finish: got %s want %s", where, o.Res, want)
				}
				continue
			}
			view := func(k string) (string, bool) {
				if p, ok := buf[k]; ok {
					if p == nil {
						return "", false
					}
					return *p, true
				}
				v, ok := db[k]
				return v, ok
			}
			switch o.Op {
			case "g":
				want := "nf"
				if v, ok := view(o.K); ok {
					want = "found:" + v
				}
				if o.Res != want {
					return nil, fmt.Sprintf("%s %s: read %s, serial order gives %s", where, o.K, o.Res, want)
				}
			case "s":
				keys := map[string]bool{}
				for k := range db {
					keys[k] = true
				}
				for k := range buf {
					keys[k] = true
				}
				var ks []string
				for k := range keys {
					ks = append(ks, string(unhx(k)))
				}
				sort.Strings(ks)
				var parts []string
				for _, kb := range ks {
					k := hx([]byte(kb))
					if o.K != "-" && kb < string(unhx(o.K)) {
						continue
					}
					if o.K2 != "-" && kb >= string(unhx(o.K2)) {
						continue
					}
					if v, ok := view(k); ok {
						parts = append(parts, k+"="+v)
					}
				}
				want := "scan:" + strings.Join(parts, ",")
				if o.Res != want {
					return nil, fmt.Sprintf("%s [%s,%s): read %s, serial order gives %s", where, o.K, o.K2, o.Res, want)
				}
			case "p", "d":
				if t.Mode == "ro" {
					if o.Res != "readonly" {
						return nil, fmt.Sprintf("%s on read-only: got %s", where, o.Res)
					}
					continue
				}
				if o.Res != "ok" {
					return nil, fmt.Sprintf("%s: got %s", where, o.Res)
				}
				if o.Op == "p" {
					v := o.V
					buf[o.K] = &v
				} else {
					buf[o.K] = nil
				}
			case "C", "R":
				done = true
				if o.Res != "ok" {
					return nil, fmt.Sprintf("%s: got %s", where, o.Res)
				}
				if o.Op == "C" {
					for k, p := range buf {
						if p == nil {
							delete(db, k)
						} else {
							db[k] = *p
						}
					}
				}
			}
		}
	}
	return db, ""
}

func (x *txcRun) scenario() string {
	var mu sync.Mutex
	hist := &txcHist{Pre: x.pre, Final: map[string]string{}}
	var wg sync.WaitGroup
	x.clock.Store(0)
	x.hits.Store(0)
	verifhook.Set(x.hook)
	defer verifhook.Set(nil)
	gids := make([]int, 0, len(x.progs))
	for g := range x.progs {
		gids = append(gids, g)
	}
	sort.Ints(gids)
	start := make(chan struct{})
	for _, g := range gids {
		wg.Add(1)
		go func(g int, bodies []string) {
			defer wg.Done()
			w := &txcWorker{}
			id := txcGoid()
			x.byGoid.Store(id, w)
			defer x.byGoid.Delete(id)
			<-start
			for i, b := range bodies {
				rec := func() (rec *txcTx) {
					defer func() {
						if p := recover(); p != nil {
							rec = &txcTx{G: g, I: i, Out: "panic:" + strings.ReplaceAll(fmt.Sprint(p), " ", "_")}
						}
					}()
					return x.runTx(w, g, i, b)
				}()
				mu.Lock()
				hist.Txs = append(hist.Txs, rec)
				mu.Unlock()
			}
		}(g, x.progs[g])
	}
	close(start)
	done := make(chan struct{})
	go func() { wg.Wait(); close(done) }()
	select {
	case <-done:
	case <-time.After(patience(30 * time.Second)):
		return "bad hang"
	}
	verifhook.Set(nil)
	// final state through a fresh read-only transaction
	ftx, err := x.e.BeginTransaction(true)
	if err != nil {
		return "bad final-begin:" + errTok(err)
	}
	it := ftx.NewIterator()
	for it.SeekToFirst(); it.Valid(); it.Next() {
		if !it.IsTombstone() {
			hist.Final[hx(it.Key())] = hx(it.Value())
		}
	}
	ftx.Rollback()
	sort.Slice(hist.Txs, func(i, j int) bool { return hist.Txs[i].Ticket < hist.Txs[j].Ticket })
	hj, _ := json.Marshal(hist)
	js := " hist=" + string(hj)
	reads := 0
	seen := map[int64]bool{}
	for _, t := range hist.Txs {
		if t.Out != "committed" && t.Out != "rolledback" {
			return "bad outcome:" + t.Out + js
		}
		if t.Ticket <= t.Call || t.Ticket >= t.Ret || seen[t.Ticket] {
			return fmt.Sprintf("bad ticket g%d.%d call=%d ticket=%d ret=%d", t.G, t.I, t.Call, t.Ticket, t.Ret) + js
		}
		seen[t.Ticket] = true
		for _, o := range t.Ops {
			if o.Op == "g" || o.Op == "s" {
				reads++
			}
		}
	}
	// real time: a transaction that ended before another one was requested acquired the lock earlier
	for _, a := range hist.Txs {
		for _, b := range hist.Txs {
			if a.Ret < b.Call && !(a.Ticket < b.Ticket) {
				return fmt.Sprintf("bad realtime g%d.%d ended before g%d.%d began but acquired later", a.G, a.I, b.G, b.I) + js
			}
		}
	}
	db, prob := txcReplay(x.pre, hist.Txs)
	if prob != "" {
		return "bad serial: " + strings.ReplaceAll(prob, " ", "_") + js
	}
	if len(db) != len(hist.Final) {
		return "bad final-state-size" + js
	}
	for k, v := range db {
		if fv, ok := hist.Final[k]; !ok || fv != v {
			return "bad final-state key " + k + js
		}
	}
	return fmt.Sprintf("ok tx=%d reads=%d", len(hist.Txs), reads) + js
}

func (x *txcRun) open(ws []string) string {
	if x.e != nil {
		x.e.Close()
		x.e = nil
	}
	x.r.dropTemp()
	x.dir = x.r.tempDir()
	x.progs = map[int][]string{}
	x.pre = map[string]string{}
	mem := 1 << 20
	for _, w := range ws[1:] {
		kv := strings.SplitN(w, "=", 2)
		switch kv[0] {
		case "mem":
			mem, _ = strconv.Atoi(kv[1])
		case "yield":
			x.yield, _ = strconv.Atoi(kv[1])
		case "seed":
			s, _ := strconv.ParseUint(kv[1], 10, 64)
			x.seed = s
		case "pre":
			if kv[1] != "-" {
				for _, p := range strings.Split(kv[1], ",") {
					f := strings.Split(p, ":")
					x.pre[f[0]] = f[1]
				}
			}
		}
	}
	cfg := config.NewDefaultConfig(x.dir)
	cfg.MemTableSize = int64(mem)
	cfg.MaxMemTables = 4
	cfg.MaxMemTableAge = 0
	cfg.CompactionInterval = 3600
	cfg.WALSyncMode = config.SyncNone
	if err := cfg.SaveManifest(x.dir); err != nil {
		return "err " + errTok(err)
	}
	e, err := engine.NewEngineFacade(x.dir)
	if err != nil {
		return "err " + errTok(err)
	}
	x.e = e
	// initial contents, written through one transaction before any concurrency starts
	tx, err := e.BeginTransaction(false)
	if err != nil {
		return "err " + errTok(err)
	}
	for k, v := range x.pre {
		tx.Put(unhx(k), unhx(v))
	}
	if err := tx.Commit(); err != nil {
		return "err " + errTok(err)
	}
	return "ok"
}

func runTxConc(r *runner) {
	x := &txcRun{r: r}
	for {
		ws, ok := r.next()
		if !ok {
			break
		}
		out := func() (out string) {
			defer func() {
				if p := recover(); p != nil {
					out = "panic " + strings.ReplaceAll(fmt.Sprint(p), " ", "_")
				}
			}()
			switch ws[0] {
			case "open":
				return x.open(ws)
			case "g":
				if x.e == nil {
					return "closed"
				}
				gi, _ := strconv.Atoi(ws[1])
				x.progs[gi] = strings.Split(strings.Join(ws[2:], " "), " | ")
				return "ok"
			case "run":
				if x.e == nil {
					return "closed"
				}
				return x.scenario()
			}
			return "bad-op"
		}()
		r.emit(out)
	}
	if x.e != nil {
		x.e.Close()
	}
}
