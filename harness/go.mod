module kvharness

go 1.24.2

require (
	github.com/KevoDB/kevo v0.0.0
	github.com/cespare/xxhash/v2 v2.3.0
)

replace github.com/KevoDB/kevo => /repo
