package main

// component registry (C17): the REAL transaction registry + transaction manager (short TTLs injected through
// NewManagerWithTTL / NewRegistryWithTTL) + the REAL service handlers (KevoServiceServer.BeginTransaction, TxGet,
// TxPut, TxDelete, CommitTransaction, RollbackTransaction) on a real engine in a temp dir, driven by scripted
// clients. After every scenario block the probe "can a fresh read-write transaction begin within a deadline".
// Expected outputs are computed by the Python specification lib/oracledefs/registry.py (implementation-only).
//
//   new ro=<ms> rw=<ms> idle=<ms>     fresh engine/manager/registry/service
//   begin <c> ro|rw <deadline_ms>     service.BeginTransaction, ctx deadline, peer = conn<c>   -> ok | err timeout | err <..>
//   beginbg <c> ro|rw                same with a context that has no deadline and is never cancelled
//   hold ro|rw / release              another client holding a transaction directly on the manager
//   txget <c> <k> / txput <c> <k> <v> / txdel <c> <k>      through the service handlers (k: hex, `=` empty, `big` 4097 bytes)
//   commit <c> / rollback <c>         through the service handlers
//   race <c> <n>                      n goroutines commit/rollback the same handle concurrently (service handlers)
//   ref <c> / refop <c> get|put|commit|rollback            keep and use the raw Transaction behind the handle
//   sleep <ms> / cleanup / cleanconn <c> / shutdown
//   probe                             -> probe ok | probe BLOCKED   (5 s deadline; after BLOCKED the rest of the case is `skipped`)
//   active <n>                        wait (<= 5 s) until the manager reports n active transactions -> active <m>

import (
	"bufio"
	"bytes"
	"context"
	"errors"
	"fmt"
	"strconv"
	"strings"
	"sync"
	"time"

	"github.com/KevoDB/kevo/pkg/config"
	"github.com/KevoDB/kevo/pkg/engine"
	"github.com/KevoDB/kevo/pkg/engine/interfaces"
	"github.com/KevoDB/kevo/pkg/grpc/service"
	"github.com/KevoDB/kevo/pkg/transaction"
	pb "github.com/KevoDB/kevo/proto/kevo"
)

func init() {
	components["registry"] = &component{gen: genRegistry, run: runRegistry}
}

// ---------- generator ----------

type regGen struct {
	g    *gen
	w    *bufio.Writer
	next int // next client id
}

func (x *regGen) client() int { x.next++; return x.next }
func (x *regGen) p(format string, a ...any) {
	fmt.Fprintf(x.w, format+"\n", a...)
}
func (x *regGen) mode() string { return x.g.txcPick("ro", "rw") }
func (x *regGen) key() string  { return x.g.txcPick("6b31", "6b32", "6b33", "61") }
func (x *regGen) free()        { x.p("probe"); x.p("active 0") }

const regLong, regShort = 5000, 40

// every block starts and ends with no transaction alive
func (x *regGen) block(tiny bool) {
	g := x.g
	if g.chance(1, 70) {
		// the registry's own 10 s limit fires while the caller's context stays alive (never cancelled): the worker that
		// obtains the lock afterwards must give it back (takes 10 s: rare)
		hm := x.mode()
		x.p("hold %s", hm)
		m := "rw"
		if hm == "rw" && g.chance(1, 3) {
			m = "ro"
		}
		x.p("beginbg %d %s", x.client(), m)
		x.p("release")
		x.free()
		return
	}
	switch k := g.intn(9); {
	case k == 0: // begin-timeout while another client (not in the registry) holds the lock
		hm := x.mode()
		x.p("hold %s", hm)
		n := 1 + g.intn(3)
		for i := 0; i < n; i++ {
			m := "rw"
			if hm == "rw" && g.chance(1, 3) {
				m = "ro"
			}
			x.p("begin %d %s %d", x.client(), m, regShort)
		}
		x.p("release")
		x.free()
	case k == 1: // begin-timeout while a registered transaction holds the lock
		a := x.client()
		am := x.mode()
		x.p("begin %d %s %d", a, am, regLong)
		x.p("begin %d rw %d", x.client(), regShort)
		if g.chance(1, 2) { // a pending writer also keeps readers out
			x.p("begin %d ro %d", x.client(), regShort)
		}
		x.p("%s %d", g.txcPick("commit", "rollback"), a)
		x.free()
	case k == 2: // double finish through the handlers, use after finish through a kept reference
		a := x.client()
		x.p("begin %d %s %d", a, x.mode(), regLong)
		x.p("txput %d %s %02x", a, x.key(), 1+g.intn(200))
		x.p("ref %d", a)
		x.p("%s %d", g.txcPick("commit", "rollback"), a)
		x.p("%s %d", g.txcPick("commit", "rollback"), a)
		x.p("refop %d %s", a, g.txcPick("commit", "rollback"))
		x.p("refop %d get", a)
		x.p("refop %d put", a)
		x.p("txget %d %s", a, x.key())
		x.free()
	case k == 3: // racing finishers
		a := x.client()
		x.p("begin %d %s %d", a, x.mode(), regLong)
		x.p("txput %d %s %02x", a, x.key(), 1+g.intn(200))
		x.p("race %d %d", a, 2+g.intn(5))
		x.p("commit %d", a)
		x.free()
	case k == 4: // abandoned transaction, stale cleanup (needs a tiny TTL or idle limit)
		if !tiny {
			x.block(tiny)
			return
		}
		a := x.client()
		x.p("begin %d %s %d", a, x.mode(), regLong)
		if g.chance(1, 2) {
			x.p("txput %d %s %02x", a, x.key(), 1+g.intn(200))
		}
		x.p("sleep 150")
		if g.chance(1, 2) {
			x.p("cleanup")
		} else { // the service runs the cleanup at the start of every BeginTransaction
			b := x.client()
			x.p("begin %d rw %d", b, regLong)
			x.p("rollback %d", b)
		}
		x.free()
		x.p("txget %d %s", a, x.key())
		x.p("commit %d", a)
	case k == 5: // connection cleanup
		a, b := x.client(), x.client()
		if g.chance(1, 2) {
			x.p("begin %d ro %d", a, regLong)
			x.p("begin %d ro %d", b, regLong)
			x.p("cleanconn %d", a)
			x.p("txget %d %s", a, x.key())
			x.p("txget %d %s", b, x.key())
			x.p("cleanconn %d", b)
		} else {
			x.p("begin %d rw %d", a, regLong)
			x.p("txput %d %s %02x", a, x.key(), 1+g.intn(200))
			x.p("cleanconn %d", b) // somebody else's connection: nothing happens
			x.p("txget %d %s", a, x.key())
			x.p("cleanconn %d", a)
			x.p("commit %d", a)
		}
		x.free()
	case k == 6: // invalid key sizes through the handlers: the handle must survive, the lock must not leak
		a := x.client()
		m := x.mode()
		x.p("begin %d %s %d", a, m, regLong)
		x.p("txget %d %s", a, g.txcPick("=", "big"))
		x.p("txput %d %s 01", a, g.txcPick("=", "big"))
		x.p("txdel %d %s", a, g.txcPick("=", "big"))
		k1 := x.key()
		x.p("txput %d %s %02x", a, k1, 1+g.intn(200))
		x.p("txget %d %s", a, k1)
		x.p("%s %d", g.txcPick("commit", "rollback"), a)
		x.free()
	case k == 7: // plain use: writes become visible after commit only
		a := x.client()
		k1 := x.key()
		x.p("begin %d rw %d", a, regLong)
		x.p("txput %d %s %02x", a, k1, 1+g.intn(200))
		x.p("txdel %d %s", a, x.key())
		x.p("txget %d %s", a, k1)
		x.p("%s %d", g.txcPick("commit", "commit", "rollback"), a)
		b := x.client()
		x.p("begin %d ro %d", b, regLong)
		x.p("txget %d %s", b, k1)
		x.p("txput %d %s 07", b, k1)
		x.p("commit %d", b)
		x.free()
	default: // several readers, then a writer that has to wait for all of them; shutdown in some cases
		n := 2 + g.intn(3)
		var cs []int
		for i := 0; i < n; i++ {
			c := x.client()
			cs = append(cs, c)
			x.p("begin %d ro %d", c, regLong)
		}
		x.p("begin %d rw %d", x.client(), regShort)
		for _, c := range cs[:len(cs)-1] {
			x.p("%s %d", g.txcPick("commit", "rollback"), c)
		}
		x.p("cleanconn %d", cs[len(cs)-1])
		x.free()
	}
}

func genRegistry(g *gen, n int, tier string, w *bufio.Writer) {
	for c := 0; c < n; c++ {
		fmt.Fprintf(w, "# case %d\n", c)
		x := &regGen{g: g, w: w}
		tiny := g.chance(1, 2)
		switch {
		case !tiny && g.chance(1, 3):
			// the REAL engine's BeginTransaction (whatever it returns must be rolled back by the registry's cleanup, ended by
			// connection cleanup and shutdown, and refuse use after it finished); lifetime limits = the configured 180 s / 60 s
			x.p("new ro=180000 rw=60000 idle=60000 real=1")
		case !tiny:
			x.p("new ro=60000 rw=60000 idle=60000")
		case g.chance(1, 2):
			x.p("new ro=25 rw=25 idle=60000") // lifetime limit
		case g.chance(1, 2):
			x.p("new ro=180000 rw=60000 idle=25 real=1") // idle limit on transactions begun through the real engine
		default:
			x.p("new ro=60000 rw=60000 idle=25") // idle limit
		}
		if !tiny && g.chance(1, 3) {
			x.p(fmt.Sprintf("idstorm %d %d", g.pick(16, 32), g.pick(60, 120)))
		}
		if !tiny && g.chance(1, 25) {
			x.p("lateidle")
		}
		if !tiny && g.chance(1, 5) {
			x.p(fmt.Sprintf("twoconn %d", g.pick(2, 2, 3)))
		}
		nb := 2 + g.intn(4)
		if tiny {
			// with a tiny limit only blocks that do not depend on a handle surviving
			for i := 0; i < nb; i++ {
				x.blockTiny()
			}
		} else {
			for i := 0; i < nb; i++ {
				x.block(false)
				if g.chance(1, 3) {
					// a batch the service refuses (an invalid operation among valid ones): the read-write transaction the handler
					// opened for it must be ended - nothing registered it, nothing else could ever end it
					x.p("batchbad %s %d", g.txcPick("emptykey", "bigkey", "bigvalue", "badop"), g.intn(3))
					x.free()
				}
			}
		}
		if g.chance(1, 3) {
			a := x.client()
			x.p("begin %d %s %d", a, x.mode(), regLong)
			x.p("shutdown")
			x.free()
			x.p("txget %d %s", a, x.key())
		}
	}
}

func (x *regGen) blockTiny() {
	g := x.g
	switch g.intn(3) {
	case 0: // abandon + cleanup
		a := x.client()
		x.p("begin %d %s %d", a, x.mode(), regLong)
		x.p("sleep 150")
		if g.chance(1, 2) {
			x.p("cleanup")
		} else {
			b := x.client()
			x.p("begin %d rw %d", b, regLong)
			x.p("rollback %d", b)
		}
		x.free()
		x.p("txget %d %s", a, x.key())
		x.p("commit %d", a)
	case 1: // begin timeout under contention (holder is outside the registry, so no TTL applies to it)
		x.p("hold rw")
		x.p("begin %d %s %d", x.client(), x.mode(), regShort)
		x.p("release")
		x.free()
	default: // two abandoned readers: the first is collected by the second's BeginTransaction, the second by the cleanup
		a, b := x.client(), x.client()
		x.p("begin %d ro %d", a, regLong)
		x.p("sleep 150")
		x.p("begin %d ro %d", b, regLong)
		x.p("txget %d %s", a, x.key())
		x.p("sleep 150")
		x.p("cleanup")
		x.free()
		x.p("rollback %d", b)
	}
}

// ---------- executor ----------

// the engine seen by the registry and the service: the real facade, with transactions created by a manager
// that has the injected TTLs (the facade's own manager has the 1 min / 3 min defaults hard-wired)
type regTTLEngine struct {
	*engine.EngineFacade
	m    *transaction.Manager
	real bool // `new … real=1`: transactions are begun through the REAL EngineFacade.BeginTransaction (configured limits, in seconds)
}

// txm: the manager transactions are begun on (probes, holders, statistics)
func (e *regTTLEngine) txm() transaction.TransactionManager {
	if e.real {
		return e.EngineFacade.GetTransactionManager()
	}
	return e.m
}

func (e *regTTLEngine) BeginTransaction(readOnly bool) (interfaces.Transaction, error) {
	if e.real {
		return e.EngineFacade.BeginTransaction(readOnly)
	}
	tx, err := e.m.BeginTransaction(readOnly)
	if err != nil {
		return nil, err
	}
	return tx, nil
}

type regRun struct {
	r       *runner
	dir     string
	fac     *engine.EngineFacade
	eng     *regTTLEngine
	reg     transaction.Registry
	svc     *service.KevoServiceServer
	handles map[string]string
	refs    map[string]transaction.Transaction
	holder  transaction.Transaction
	shut    bool
	dead    bool // the probe found the lock leaked: the rest of the case would only wait for deadlines
}

func (x *regRun) closeAll() {
	if x.reg != nil && !x.shut {
		func() {
			defer func() { recover() }()
			ctx, cancel := context.WithTimeout(context.Background(), 2*time.Second)
			x.reg.GracefulShutdown(ctx)
			cancel()
		}()
	}
	x.reg = nil
	x.shut = false
	if x.holder != nil {
		x.holder.Rollback()
		x.holder = nil
	}
	if x.fac != nil {
		x.fac.Close()
		x.fac = nil
	}
}

func regKey(s string) []byte {
	if s == "big" {
		return []byte(strings.Repeat("K", 4097))
	}
	return unhx(s)
}

func regErr(err error) string {
	if err == nil {
		return "ok"
	}
	s := err.Error()
	switch {
	case errors.Is(err, transaction.ErrTransactionClosed) || strings.Contains(s, "already committed or rolled back"):
		return "err closed"
	case strings.Contains(s, "transaction not found"):
		return "err notfound"
	case strings.Contains(s, "invalid key size"):
		return "err invalidkey"
	case strings.Contains(s, "read-only"):
		return "err readonly"
	case strings.Contains(s, "timed out") || strings.Contains(s, "deadline exceeded"):
		return "err timeout"
	}
	return "err other:" + errTok(err)
}

func (x *regRun) activeCount() int {
	v := x.eng.txm().GetTransactionStats()["tx_active"]
	if u, ok := v.(uint64); ok {
		return int(int64(u))
	}
	return -1
}

func (x *regRun) probe() string {
	done := make(chan error, 1)
	go func() {
		tx, err := x.eng.txm().BeginTransaction(false)
		if err == nil {
			err = tx.Rollback()
		}
		done <- err
	}()
	select {
	case err := <-done:
		if err != nil {
			return "probe err:" + errTok(err)
		}
		return "probe ok"
	case <-time.After(patience(5 * time.Second)):
		x.dead = true
		return "probe BLOCKED"
	}
}

func (x *regRun) step(ws []string) (out string) {
	defer func() {
		if p := recover(); p != nil {
			out = "panic " + strings.ReplaceAll(fmt.Sprint(p), " ", "_")
		}
	}()
	if ws[0] != "new" && x.reg == nil {
		return "closed"
	}
	if ws[0] != "new" && x.dead {
		return "skipped"
	}
	bg := context.Background()
	switch ws[0] {
	case "new":
		x.dead = false
		x.closeAll()
		x.r.dropTemp()
		x.dir = x.r.tempDir()
		var ro, rw, idle int
		real := false
		for _, w := range ws[1:] {
			kv := strings.SplitN(w, "=", 2)
			n, _ := strconv.Atoi(kv[1])
			switch kv[0] {
			case "real":
				real = n == 1
			case "ro":
				ro = n
			case "rw":
				rw = n
			case "idle":
				idle = n
			}
		}
		cfg := config.NewDefaultConfig(x.dir)
		cfg.WALSyncMode = config.SyncNone
		cfg.CompactionInterval = 3600
		if err := cfg.SaveManifest(x.dir); err != nil {
			return "err " + errTok(err)
		}
		fac, err := engine.NewEngineFacade(x.dir)
		if err != nil {
			return "err " + errTok(err)
		}
		x.fac = fac
		ms := time.Millisecond
		m := transaction.NewManagerWithTTL(fac, nil, time.Duration(ro)*ms, time.Duration(rw)*ms, time.Duration(idle)*ms)
		x.eng = &regTTLEngine{EngineFacade: fac, m: m, real: real}
		x.reg = transaction.NewRegistryWithTTL(time.Duration(rw)*ms, time.Duration(idle)*ms, 75, 90)
		x.svc = service.NewKevoServiceServer(x.eng, x.reg, nil)
		x.handles = map[string]string{}
		x.refs = map[string]transaction.Transaction{}
		return "ok"
	case "begin":
		d, _ := strconv.Atoi(ws[3])
		ctx, cancel := context.WithTimeout(context.WithValue(bg, "peer", "conn"+ws[1]), time.Duration(d)*time.Millisecond)
		defer cancel()
		resp, err := x.svc.BeginTransaction(ctx, &pb.BeginTransactionRequest{ReadOnly: ws[2] == "ro"})
		if err != nil {
			return regErr(err)
		}
		x.handles[ws[1]] = resp.TransactionId
		return "ok"
	case "beginbg": // a context that is never cancelled and has no deadline: only the registry's internal limit ends the wait
		ctx := context.WithValue(bg, "peer", "conn"+ws[1])
		resp, err := x.svc.BeginTransaction(ctx, &pb.BeginTransactionRequest{ReadOnly: ws[2] == "ro"})
		if err != nil {
			return regErr(err)
		}
		x.handles[ws[1]] = resp.TransactionId
		return "ok"
	case "hold":
		if x.holder != nil {
			return "err already-holding"
		}
		type res struct {
			tx  transaction.Transaction
			err error
		}
		ch := make(chan res)
		giveUp := make(chan struct{})
		go func() {
			tx, err := x.eng.txm().BeginTransaction(ws[1] == "ro")
			select {
			case ch <- res{tx, err}:
			case <-giveUp:
				if tx != nil {
					tx.Rollback()
				}
			}
		}()
		select {
		case r := <-ch:
			if r.err != nil {
				return regErr(r.err)
			}
			x.holder = r.tx
			return "ok"
		case <-time.After(patience(2 * time.Second)):
			close(giveUp)
			return "err timeout"
		}
	case "release":
		if x.holder == nil {
			return "err not-holding"
		}
		err := x.holder.Rollback()
		x.holder = nil
		return regErr(err)
	case "txget":
		resp, err := x.svc.TxGet(bg, &pb.TxGetRequest{TransactionId: x.handle(ws[1]), Key: regKey(ws[2])})
		if err != nil {
			return regErr(err)
		}
		if !resp.Found {
			return "nf"
		}
		return "found " + hx(resp.Value)
	case "txput":
		resp, err := x.svc.TxPut(bg, &pb.TxPutRequest{TransactionId: x.handle(ws[1]), Key: regKey(ws[2]), Value: unhx(ws[3])})
		if err != nil {
			return regErr(err)
		}
		if !resp.Success {
			return "err nosuccess"
		}
		return "ok"
	case "txdel":
		resp, err := x.svc.TxDelete(bg, &pb.TxDeleteRequest{TransactionId: x.handle(ws[1]), Key: regKey(ws[2])})
		if err != nil {
			return regErr(err)
		}
		if !resp.Success {
			return "err nosuccess"
		}
		return "ok"
	case "commit":
		_, err := x.svc.CommitTransaction(bg, &pb.CommitTransactionRequest{TransactionId: x.handle(ws[1])})
		return regErr(err)
	case "rollback":
		_, err := x.svc.RollbackTransaction(bg, &pb.RollbackTransactionRequest{TransactionId: x.handle(ws[1])})
		return regErr(err)
	case "race":
		n, _ := strconv.Atoi(ws[2])
		h := x.handle(ws[1])
		res := make([]string, n)
		var wg sync.WaitGroup
		start := make(chan struct{})
		for i := 0; i < n; i++ {
			wg.Add(1)
			go func(i int) {
				defer wg.Done()
				defer func() {
					if p := recover(); p != nil {
						res[i] = "panic"
					}
				}()
				<-start
				var err error
				if i%2 == 0 {
					_, err = x.svc.CommitTransaction(bg, &pb.CommitTransactionRequest{TransactionId: h})
				} else {
					_, err = x.svc.RollbackTransaction(bg, &pb.RollbackTransactionRequest{TransactionId: h})
				}
				res[i] = regErr(err)
			}(i)
		}
		close(start)
		wg.Wait()
		cnt := map[string]int{}
		for _, r := range res {
			cnt[r]++
		}
		other := n - cnt["ok"] - cnt["err closed"] - cnt["err notfound"]
		return fmt.Sprintf("race ok=%d closed=%d notfound=%d other=%d", cnt["ok"], cnt["err closed"], cnt["err notfound"], other)
	case "ref":
		tx, ok := x.reg.Get(x.handle(ws[1]))
		if !ok {
			return "nf"
		}
		x.refs[ws[1]] = tx
		return "ok"
	case "refop":
		tx, ok := x.refs[ws[1]]
		if !ok {
			return "noref"
		}
		switch ws[2] {
		case "get":
			v, err := tx.Get([]byte("k1"))
			if err == nil {
				return "found " + hx(v)
			}
			if strings.Contains(err.Error(), "not found") && !strings.Contains(err.Error(), "transaction") {
				return "nf"
			}
			return regErr(err)
		case "put":
			return regErr(tx.Put([]byte("k1"), []byte{0x63}))
		case "commit":
			return regErr(tx.Commit())
		default:
			return regErr(tx.Rollback())
		}
	case "sleep":
		d, _ := strconv.Atoi(ws[1])
		time.Sleep(time.Duration(d) * time.Millisecond)
		return "ok"
	case "cleanup":
		x.reg.(*transaction.RegistryImpl).CleanupStaleTransactions()
		return "ok"
	case "cleanconn":
		x.svc.CleanupConnection("conn" + ws[1])
		return "ok"
	case "shutdown":
		if x.shut { // GracefulShutdown closes a channel: it can be called once; the registry stays usable for lookups
			return "err already-shut-down"
		}
		x.shut = true
		ctx, cancel := context.WithTimeout(bg, 5*time.Second)
		defer cancel()
		return regErr(x.reg.GracefulShutdown(ctx))
	case "batchbad": // batchbad <kind> <pos>: BatchWrite with one invalid operation at position pos among valid ones
		ops := []*pb.Operation{{Type: pb.Operation_PUT, Key: []byte("bb1"), Value: []byte("1")}, {Type: pb.Operation_PUT, Key: []byte("bb2"), Value: []byte("2")},
			{Type: pb.Operation_DELETE, Key: []byte("bb3")}}
		pos, _ := strconv.Atoi(ws[2])
		switch ws[1] {
		case "emptykey":
			ops[pos%3].Key = nil
		case "bigkey":
			ops[pos%3].Key = bytes.Repeat([]byte("k"), 4097)
		case "bigvalue":
			ops[pos%3] = &pb.Operation{Type: pb.Operation_PUT, Key: []byte("bbv"), Value: make([]byte, 10*1024*1024+1)}
		default:
			ops[pos%3].Type = pb.Operation_Type(77)
		}
		done := make(chan error, 1)
		go func() {
			_, err := x.svc.BatchWrite(context.WithValue(bg, "peer", "connB"), &pb.BatchWriteRequest{Operations: ops})
			done <- err
		}()
		select {
		case err := <-done:
			if err == nil {
				return "ok"
			}
			return "err invalid"
		case <-time.After(patience(5 * time.Second)):
			return "err blocked"
		}
	case "lateidle": // a transaction that is used until it is past the WARNING threshold of its lifetime (75 %) and only then abandoned is
		// still reaped by the idle rule at the next cleanup pass (not only when its whole lifetime is over)
		ms := time.Millisecond
		ttl, idle := 4000*ms, 400*ms
		m := transaction.NewManagerWithTTL(x.fac, nil, ttl, ttl, idle)
		eng := &regTTLEngine{EngineFacade: x.fac, m: m}
		reg := transaction.NewRegistryWithTTL(ttl, idle, 75, 90)
		svc := service.NewKevoServiceServer(eng, reg, nil)
		ctx := context.WithValue(bg, "peer", "late")
		resp, err := svc.BeginTransaction(ctx, &pb.BeginTransactionRequest{ReadOnly: false})
		if err != nil {
			return "lateidle begin-" + regErr(err)
		}
		t0 := time.Now()
		for time.Since(t0) < 3100*ms {
			svc.TxGet(bg, &pb.TxGetRequest{TransactionId: resp.TransactionId, Key: []byte("k")})
			time.Sleep(100 * ms)
		}
		time.Sleep(600 * ms)
		reg.(*transaction.RegistryImpl).CleanupStaleTransactions()
		_, still := reg.Get(resp.TransactionId)
		b := make(chan error, 1)
		go func() {
			c2, cancel := context.WithTimeout(context.WithValue(bg, "peer", "late2"), 1500*ms)
			defer cancel()
			r2, err := svc.BeginTransaction(c2, &pb.BeginTransactionRequest{ReadOnly: false})
			if err == nil {
				svc.RollbackTransaction(bg, &pb.RollbackTransactionRequest{TransactionId: r2.TransactionId})
			}
			b <- err
		}()
		berr := <-b
		// leave nothing behind
		svc.RollbackTransaction(bg, &pb.RollbackTransactionRequest{TransactionId: resp.TransactionId})
		if still || berr != nil {
			return fmt.Sprintf("lateidle not-reaped registered=%v next-writer=%s age_ms=%d (idle for 600 ms with an idle limit of 400 ms)", still, regErr(berr), time.Since(t0).Milliseconds())
		}
		return "lateidle ok"
	case "twoconn": // one connection owns two (then three) transactions; one of them ends normally; the connection goes away: the others
		// are rolled back by the connection cleanup and the next writer begins
		ms := time.Millisecond
		m := transaction.NewManagerWithTTL(x.fac, nil, 60000*ms, 60000*ms, 60000*ms)
		eng := &regTTLEngine{EngineFacade: x.fac, m: m}
		reg := transaction.NewRegistryWithTTL(60000*ms, 60000*ms, 75, 90)
		svc := service.NewKevoServiceServer(eng, reg, nil)
		n := atoi(ws[1])
		ctx := context.WithValue(bg, "peer", "pair")
		var ids []string
		for i := 0; i < n; i++ {
			r, err := svc.BeginTransaction(ctx, &pb.BeginTransactionRequest{ReadOnly: true})
			if err != nil {
				return "twoconn begin-" + regErr(err)
			}
			ids = append(ids, r.TransactionId)
		}
		if _, err := svc.CommitTransaction(bg, &pb.CommitTransactionRequest{TransactionId: ids[0]}); err != nil {
			return "twoconn commit-" + regErr(err)
		}
		svc.CleanupConnection("pair")
		b := make(chan error, 1)
		go func() {
			c2, cancel := context.WithTimeout(context.WithValue(bg, "peer", "other"), 1500*ms)
			defer cancel()
			r2, err := svc.BeginTransaction(c2, &pb.BeginTransactionRequest{ReadOnly: false})
			if err == nil {
				svc.RollbackTransaction(bg, &pb.RollbackTransactionRequest{TransactionId: r2.TransactionId})
			}
			b <- err
		}()
		berr := <-b
		left := 0
		for _, id := range ids[1:] {
			if _, ok := reg.Get(id); ok {
				left++
			}
			svc.RollbackTransaction(bg, &pb.RollbackTransactionRequest{TransactionId: id}) // leave nothing behind
		}
		if berr != nil || left > 0 {
			return fmt.Sprintf("twoconn leaked registered=%d next-writer=%s (transactions of a connection that went away were not ended)", left, regErr(berr))
		}
		return "twoconn ok"
	case "idstorm": // idstorm <goroutines> <rounds>: clients begin read-only transactions in lock step; every handle is handed out once
		g, rounds := atoi(ws[1]), atoi(ws[2])
		begins := 0
		for r := 0; r < rounds; r++ {
			ids := make([]string, g)
			var wg sync.WaitGroup
			start := make(chan struct{})
			for i := 0; i < g; i++ {
				wg.Add(1)
				go func(i int) {
					defer wg.Done()
					defer func() { recover() }()
					<-start
					ctx, cancel := context.WithTimeout(context.WithValue(bg, "peer", fmt.Sprintf("storm%d", i)), 10*time.Second)
					defer cancel()
					if resp, err := x.svc.BeginTransaction(ctx, &pb.BeginTransactionRequest{ReadOnly: true}); err == nil {
						ids[i] = resp.TransactionId
					}
				}(i)
			}
			close(start)
			wg.Wait()
			seen := map[string]bool{}
			dup := ""
			for _, id := range ids {
				if id == "" {
					continue
				}
				begins++
				if seen[id] {
					dup = id
				}
				seen[id] = true
			}
			for id := range seen {
				x.svc.CommitTransaction(bg, &pb.CommitTransactionRequest{TransactionId: id})
			}
			if dup != "" {
				return fmt.Sprintf("idstorm dup=%s round=%d (two transactions were registered under one handle: one of them can never be ended)", dup, r)
			}
		}
		return fmt.Sprintf("idstorm ok begins=%d", begins)
	case "probe":
		return x.probe()
	case "active":
		want, _ := strconv.Atoi(ws[1])
		deadline := time.Now().Add(patience(5 * time.Second))
		for x.activeCount() != want && time.Now().Before(deadline) {
			time.Sleep(time.Millisecond)
		}
		return fmt.Sprintf("active %d", x.activeCount())
	}
	return "bad-op"
}

func (x *regRun) handle(c string) string {
	if h, ok := x.handles[c]; ok {
		return h
	}
	return "tx-none-" + c
}

func runRegistry(r *runner) {
	x := &regRun{r: r}
	for {
		ws, ok := r.next()
		if !ok {
			break
		}
		r.emit(x.step(ws))
	}
	x.closeAll()
}
