package main

// component `mem` (C18, sequential differential): the REAL memtable.MemTable / Iterator / IteratorAdapter /
// MemTablePool driven through the line protocol; `kvmodel mem` (lean/Driver/MemDrv.lean) executes the same script.
//
//	new | put <k> <v> <seq> | del <k> <seq> | get <k> | has <k> | immut | size
//	it (new iterator) | iter (new iterator + full iteration) | first | next | anext | seek <t> | last | cur
//	pool <memTableSize> | poolput <k> <v> <seq> | pooldel <k> <seq> | poolget <k> | switch | pooltables | pooltab <i>
//
// "the table" T is a stand-alone table (`new`) or, after `pooltab i`, table i of MemTablePool.GetMemTables().
// The iterator belongs to T and is dropped when another table is selected.

import (
	"bufio"
	"fmt"
	"strconv"
	"strings"

	"github.com/KevoDB/kevo/pkg/config"
	"github.com/KevoDB/kevo/pkg/memtable"
)

func init() {
	components["mem"] = &component{gen: genMem, run: runMem}
}

// ---------- generator ----------

func (g *gen) memKey(small [][]byte) []byte {
	switch c := g.intn(100); {
	case c < 3:
		return []byte{}
	case c < 75:
		return small[g.intn(len(small))]
	default:
		return g.key()
	}
}

func (g *gen) memVal() string {
	switch c := g.intn(100); {
	case c < 12:
		return "="
	case c < 17:
		return "-" // Put(k, nil): stored as an empty value, NOT as a deletion marker
	case c < 85:
		return hx(g.bytesN(1 + g.intn(6)))
	default:
		return hx(g.bytesN(10 + g.intn(60)))
	}
}

// sequence numbers: arbitrary, repeated, non-monotone; 0 and ties are frequent; sometimes huge
func (g *gen) memSeq(style int, counter *uint64) uint64 {
	switch style {
	case 0: // monotone with ties (batches)
		if g.chance(2, 3) {
			*counter++
		}
		return *counter
	case 1: // tiny range: many equal numbers
		return uint64(g.intn(4))
	case 2: // arbitrary
		switch c := g.intn(10); {
		case c < 6:
			return uint64(g.intn(12))
		case c < 8:
			return uint64(g.intn(1000))
		case c < 9:
			return 1<<40 + uint64(g.intn(3))
		default:
			return 1<<63 + uint64(g.intn(3))
		}
	default: // descending
		if *counter == 0 {
			*counter = 40
		}
		if g.chance(2, 3) && *counter > 0 {
			*counter--
		}
		return *counter
	}
}

func (g *gen) memTarget(small [][]byte) string {
	k := g.memKey(small)
	switch g.intn(6) {
	case 0:
		k = append(append([]byte{}, k...), 0)
	case 1:
		if len(k) > 0 {
			k = k[:len(k)-1]
		}
	case 2:
		k = []byte{0xff, 0xff, 0xff}
	}
	return hx(k)
}

func genMem(g *gen, n int, tier string, w *bufio.Writer) {
	for c := 0; c < n; c++ {
		fmt.Fprintf(w, "# case %d\n", c)
		fmt.Fprintln(w, "new")
		// a small set of keys so that versions pile up
		nk := g.pick(1, 2, 3, 5, 8)
		small := make([][]byte, nk)
		for i := range small {
			small[i] = g.key()
		}
		style := g.intn(4)
		var counter uint64
		if g.chance(1, 3) {
			fmt.Fprintf(w, "pool %d\n", g.pick(40, 80, 150, 400, 1<<20))
		} else {
			fmt.Fprintf(w, "pool %d\n", 1<<20)
		}
		steps := 12 + g.intn(50)
		for s := 0; s < steps; s++ {
			switch x := g.intn(100); {
			case x < 24:
				fmt.Fprintln(w, join("put", hx(g.memKey(small)), g.memVal(), strconv.FormatUint(g.memSeq(style, &counter), 10)))
			case x < 32:
				fmt.Fprintln(w, join("del", hx(g.memKey(small)), strconv.FormatUint(g.memSeq(style, &counter), 10)))
			case x < 42:
				fmt.Fprintln(w, join("get", hx(g.memKey(small))))
			case x < 44:
				fmt.Fprintln(w, join("has", hx(g.memKey(small))))
			case x < 46:
				fmt.Fprintln(w, "immut")
			case x < 48:
				fmt.Fprintln(w, "size")
			case x < 52:
				fmt.Fprintln(w, "it")
			case x < 57:
				fmt.Fprintln(w, "iter")
			case x < 60:
				fmt.Fprintln(w, "first")
			case x < 66:
				fmt.Fprintln(w, "next")
			case x < 70:
				fmt.Fprintln(w, "anext")
			case x < 76:
				fmt.Fprintln(w, join("seek", g.memTarget(small)))
			case x < 79:
				fmt.Fprintln(w, "last")
			case x < 81:
				fmt.Fprintln(w, "cur")
			case x < 88:
				fmt.Fprintln(w, join("poolput", hx(g.memKey(small)), g.memVal(), strconv.FormatUint(g.memSeq(style, &counter), 10)))
			case x < 91:
				fmt.Fprintln(w, join("pooldel", hx(g.memKey(small)), strconv.FormatUint(g.memSeq(style, &counter), 10)))
			case x < 95:
				fmt.Fprintln(w, join("poolget", hx(g.memKey(small))))
			case x < 97:
				fmt.Fprintln(w, "switch")
			case x < 98:
				fmt.Fprintln(w, "pooltables")
			case x < 99:
				fmt.Fprintln(w, join("pooltab", strconv.Itoa(g.intn(3))))
			default:
				fmt.Fprintln(w, "new")
			}
		}
		fmt.Fprintln(w, "iter")
		fmt.Fprintln(w, "last")
		for _, k := range small {
			fmt.Fprintln(w, join("get", hx(k)))
			fmt.Fprintln(w, join("poolget", hx(k)))
		}
		fmt.Fprintln(w, "pooltables")
	}
}

// ---------- executor ----------

type memRun struct {
	t    *memtable.MemTable
	it   *memtable.Iterator
	ad   *memtable.IteratorAdapter
	pool *memtable.MemTablePool
}

func memB01(b bool) string {
	if b {
		return "1"
	}
	return "0"
}

func (x *memRun) showPos(ret string) string {
	if x.it == nil {
		return "noiter"
	}
	if !x.it.Valid() {
		// Key()/Value() return nil unless Valid()
		if x.it.Key() != nil || x.it.Value() != nil || x.it.SequenceNumber() != 0 || x.it.IsTombstone() || x.ad.Valid() {
			return ret + " INCONSISTENT-invalid"
		}
		return ret + " 0 - - 0 0"
	}
	k, v := x.it.Key(), x.it.Value()
	tomb := x.it.IsTombstone()
	if tomb != (v == nil) || tomb != (x.it.ValueType() == memtable.TypeDeletion) || !x.ad.Valid() ||
		string(x.ad.Key()) != string(k) || string(x.ad.Value()) != string(v) || (x.ad.Value() == nil) != (v == nil) ||
		x.ad.IsTombstone() != tomb || x.ad.SequenceNumber() != x.it.SequenceNumber() {
		return ret + " INCONSISTENT-valid"
	}
	return fmt.Sprintf("%s 1 %s %s %d %s", ret, hx(k), hxv(v), x.it.SequenceNumber(), memB01(tomb))
}

func (x *memRun) newIter() {
	x.it = x.t.NewIterator()
	x.ad = memtable.NewIteratorAdapter(x.it)
}

func memShowGet(v []byte, ok bool) string {
	if !ok {
		if v != nil {
			return "INCONSISTENT-nf"
		}
		return "nf"
	}
	if v == nil {
		return "deleted"
	}
	return "found " + hx(v)
}

func (x *memRun) poolInfo() string {
	return fmt.Sprintf("ok %s %d %d %d", memB01(x.pool.IsFlushNeeded()), x.pool.ImmutableCount(), x.pool.TotalSize(), x.pool.GetNextSequenceNumber())
}

func (x *memRun) step(ws []string) (out string) {
	defer func() {
		if p := recover(); p != nil {
			out = "panic " + strings.ReplaceAll(fmt.Sprint(p), " ", "_")
		}
	}()
	u64 := func(s string) uint64 {
		v, err := strconv.ParseUint(s, 10, 64)
		if err != nil {
			panic("bad number " + s)
		}
		return v
	}
	switch ws[0] {
	case "new":
		x.t, x.it, x.ad = memtable.NewMemTable(), nil, nil
		return "ok"
	case "put":
		k, v := unhx(ws[1]), unhx(ws[2])
		x.t.Put(k, v, u64(ws[3]))
		// the caller may reuse its buffers
		for i := range k {
			k[i] ^= 0x5a
		}
		for i := range v {
			v[i] ^= 0x5a
		}
		return fmt.Sprintf("ok %d %d", x.t.ApproximateSize(), x.t.GetNextSequenceNumber())
	case "del":
		k := unhx(ws[1])
		x.t.Delete(k, u64(ws[2]))
		for i := range k {
			k[i] ^= 0x5a
		}
		return fmt.Sprintf("ok %d %d", x.t.ApproximateSize(), x.t.GetNextSequenceNumber())
	case "get":
		v, ok := x.t.Get(unhx(ws[1]))
		return memShowGet(v, ok)
	case "has":
		return memB01(x.t.Contains(unhx(ws[1])))
	case "immut":
		x.t.SetImmutable()
		return "ok"
	case "size":
		return fmt.Sprintf("ok %d %d %s", x.t.ApproximateSize(), x.t.GetNextSequenceNumber(), memB01(x.t.IsImmutable()))
	case "it":
		x.newIter()
		return "ok"
	case "iter":
		x.newIter()
		var parts []string
		for x.it.SeekToFirst(); x.it.Valid(); x.it.Next() {
			v := x.it.Value()
			if x.it.IsTombstone() != (v == nil) {
				parts = append(parts, "INCONSISTENT")
			}
			parts = append(parts, fmt.Sprintf("%s:%s:%d", hx(x.it.Key()), hxv(v), x.it.SequenceNumber()))
			if len(parts) > 100000 {
				break
			}
		}
		return strings.TrimRight("ok "+strconv.Itoa(len(parts))+" "+strings.Join(parts, " "), " ")
	case "first":
		if x.it == nil {
			return "noiter"
		}
		x.it.SeekToFirst()
		return x.showPos("-")
	case "next":
		if x.it == nil {
			return "noiter"
		}
		x.it.Next()
		return x.showPos("-")
	case "anext":
		if x.it == nil {
			return "noiter"
		}
		return x.showPos(memB01(x.ad.Next()))
	case "seek":
		if x.it == nil {
			return "noiter"
		}
		return x.showPos(memB01(x.ad.Seek(unhx(ws[1]))))
	case "last":
		if x.it == nil {
			return "noiter"
		}
		x.ad.SeekToLast()
		return x.showPos("-")
	case "cur":
		return x.showPos("-")
	case "pool":
		cfg := config.NewDefaultConfig("/nonexistent")
		cfg.MemTableSize = int64(u64(ws[1]))
		cfg.MaxMemTables = 4
		cfg.MaxMemTableAge = 0
		x.pool = memtable.NewMemTablePool(cfg)
		return "ok"
	case "poolput":
		x.pool.Put(unhx(ws[1]), unhx(ws[2]), u64(ws[3]))
		return x.poolInfo()
	case "pooldel":
		x.pool.Delete(unhx(ws[1]), u64(ws[2]))
		return x.poolInfo()
	case "poolget":
		v, ok := x.pool.Get(unhx(ws[1]))
		return memShowGet(v, ok)
	case "switch":
		old := x.pool.SwitchToNewMemTable()
		return fmt.Sprintf("ok %d %d %s %d", old.ApproximateSize(), old.GetNextSequenceNumber(), memB01(old.IsImmutable()), x.pool.ImmutableCount())
	case "pooltables":
		ts := x.pool.GetMemTables()
		parts := []string{"ok", strconv.Itoa(len(ts))}
		for _, t := range ts {
			parts = append(parts, fmt.Sprintf("%d:%s:%d", t.ApproximateSize(), memB01(t.IsImmutable()), t.GetNextSequenceNumber()))
		}
		return strings.Join(parts, " ")
	case "pooltab":
		ts := x.pool.GetMemTables()
		i, _ := strconv.Atoi(ws[1])
		if i < 0 || i >= len(ts) {
			return "none"
		}
		x.t, x.it, x.ad = ts[i], nil, nil
		return "ok"
	}
	return "bad-op"
}

func runMem(r *runner) {
	x := &memRun{t: memtable.NewMemTable()}
	cfg := config.NewDefaultConfig("/nonexistent")
	cfg.MaxMemTableAge = 0
	cfg.MemTableSize = 1 << 20
	x.pool = memtable.NewMemTablePool(cfg)
	for {
		ws, ok := r.next()
		if !ok {
			break
		}
		r.emit(x.step(ws))
	}
}
