package main

// Component `replstream` (C15): a REAL primary engine with the real replication.Primary observing its log, and replication
// streams attached IN PROCESS through fake stream objects whose Send can be made to fail, or to hang for a bounded time and
// then fail, while the stream's context stays alive — the faults a loopback gRPC connection cannot produce (a connection
// that is cut below gRPC without the server noticing; a peer that reconnects from the same address while its old stream
// still exists). Implementation only (no Lean driver); one scenario per case; every client operation on the primary runs
// under a watchdog.
//
//	cfg class=<name> hb=<ms> to=<ms>
//	stream <id> addr=<a> start=<seq> ack=<0|1>     attach a stream (StreamWAL in a goroutine); ack=1: acknowledge what arrives
//	setsend <id> ok | fail | hangfail:<ms>          behaviour of the stream's Send from now on
//	cutctx <id>                                     cancel the stream's context (the server learns the peer is gone)
//	load <n> <vlen> | commit <n> | get <i>          client operations on the primary (5 s watchdog each)
//	sleep <ms>
//	listed <id>                                     is the stream's CURRENT session still in the reported topology?
//	watchdrop <id> <ms>                             wait until the stream's session has left the topology
//	caughtup <id> <ms>                              wait until the stream has been sent every entry of the log
//	acks <id>                                       acknowledgements sent / refused
//	verdict

import (
	"bufio"
	"context"
	"errors"
	"fmt"
	"runtime"
	"strconv"
	"strings"
	"sync"
	"sync/atomic"
	"time"

	"github.com/KevoDB/kevo/pkg/config"
	"github.com/KevoDB/kevo/pkg/engine"
	"github.com/KevoDB/kevo/pkg/replication"
	"github.com/KevoDB/kevo/pkg/wal"
	rproto "github.com/KevoDB/kevo/proto/kevo/replication"
	"google.golang.org/grpc/metadata"
)

func init() {
	components["replstream"] = &component{gen: genReplStream, run: runReplStream}
}

func genReplStream(g *gen, n int, tier string, w *bufio.Writer) {
	classes := []string{"pollfail", "hbfail", "sameaddr", "mixed", "ackchurn", "topology", "nackchurn"}
	c0 := g.intn(len(classes))
	for c := 0; c < n; c++ {
		cls := classes[(c+c0)%len(classes)]
		fmt.Fprintf(w, "# case %d %s\n", c, cls)
		if cls == "ackchurn" {
			fmt.Fprintf(w, "cfg class=%s hb=150 to=900 preflush=%d\n", cls, 2+g.intn(3))
		} else {
			fmt.Fprintf(w, "cfg class=%s hb=150 to=900\n", cls)
		}
		switch cls {
		case "pollfail":
			// a lagging reader (never acknowledges: the polling sender keeps re-sending to it) whose connection starts failing
			// while its stream context is still alive; only then do client writes arrive
			fmt.Fprintln(w, "stream h addr=h:1 start=1 ack=1")
			fmt.Fprintln(w, "stream x addr=x:1 start=1 ack=0")
			fmt.Fprintf(w, "load %d %d\n", 3+g.intn(6), 10+g.intn(50))
			fmt.Fprintf(w, "sleep %d\n", 150+g.intn(100))
			fmt.Fprintln(w, "setsend x fail")
			fmt.Fprintf(w, "sleep %d\n", 250+g.intn(250)) // at least two poll ticks hit the failing stream
			fmt.Fprintf(w, "load %d %d\n", 3+g.intn(6), 10+g.intn(50))
			fmt.Fprintln(w, "commit 3")
			fmt.Fprintln(w, "get 0")
			fmt.Fprintln(w, "cutctx x")
			fmt.Fprintln(w, "watchdrop x 2500")
			fmt.Fprintf(w, "load %d 20\n", 2+g.intn(4))
			fmt.Fprintln(w, "caughtup h 4000")
			fmt.Fprintln(w, "listed h")
		case "hbfail":
			// an idle reader whose next heartbeat Send hangs, then fails (a stalled connection that is finally cut), while
			// client writes are being broadcast to the same session
			fmt.Fprintln(w, "stream h addr=h:1 start=1 ack=1")
			fmt.Fprintln(w, "stream x addr=x:1 start=1 ack=1")
			fmt.Fprintf(w, "load %d 20\n", 2+g.intn(4))
			fmt.Fprintf(w, "setsend x hangfail:%d\n", 300+g.intn(300))
			fmt.Fprintf(w, "sleep %d\n", 180+g.intn(60)) // the heartbeat (interval 150 ms) is now inside Send, holding the session
			fmt.Fprintf(w, "load %d 20\n", 5+g.intn(10))
			fmt.Fprintln(w, "commit 2")
			fmt.Fprintln(w, "get 1")
			fmt.Fprintln(w, "cutctx x")
			fmt.Fprintln(w, "watchdrop x 2500")
			fmt.Fprintf(w, "load %d 20\n", 2+g.intn(4))
			fmt.Fprintln(w, "caughtup h 4000")
			fmt.Fprintln(w, "listed h")
		case "sameaddr":
			// a peer reconnects from the same listener address while its old stream still exists; the old stream is torn
			// down afterwards: the NEW stream must stay registered, be served and have its acknowledgements accepted
			fmt.Fprintln(w, "stream old addr=r:7 start=1 ack=0")
			fmt.Fprintf(w, "load %d 20\n", 2+g.intn(4))
			fmt.Fprintln(w, "stream new addr=r:7 start=1 ack=1")
			fmt.Fprintf(w, "load %d 20\n", 2+g.intn(4))
			if g.chance(1, 2) {
				fmt.Fprintln(w, "setsend old fail")
				fmt.Fprintf(w, "sleep %d\n", 200+g.intn(200))
			}
			fmt.Fprintln(w, "cutctx old")
			fmt.Fprintf(w, "sleep %d\n", 300+g.intn(200))
			fmt.Fprintf(w, "load %d 20\n", 3+g.intn(5))
			fmt.Fprintln(w, "caughtup new 4000")
			fmt.Fprintln(w, "listed new")
			fmt.Fprintln(w, "acks new")
		case "topology":
			// the reported topology follows the sessions: a stream whose connection fails on a write's broadcast is not reported as
			// connected any more - asked with nothing but the topology query itself (no acknowledgement, no registration in between)
			fmt.Fprintln(w, "stream h addr=h:1 start=1 ack=0") // nobody acknowledges in this class: nothing but sends touches the sessions
			fmt.Fprintln(w, "stream x addr=x:1 start=1 ack=0")
			fmt.Fprintf(w, "load %d 20\n", 2+g.intn(4))
			fmt.Fprintln(w, "topo x 1")
			fmt.Fprintln(w, "topo h 1")
			fmt.Fprintln(w, "setsend x fail")
			fmt.Fprintln(w, "quiet h") // the healthy stream stops acknowledging for a while: nothing but the failing send touches the sessions
			fmt.Fprintf(w, "load %d 20\n", 2+g.intn(4))
			fmt.Fprintf(w, "sleep %d\n", 50+g.intn(100))
			fmt.Fprintln(w, "topo x 0")
			fmt.Fprintln(w, "topo h 1")
			fmt.Fprintln(w, "cutctx x")
			fmt.Fprintln(w, "watchdrop x 2500")
		case "nackchurn":
			// retransmission requests (NACK) arrive for sessions that have just ended, and while sessions come and go: the request
			// is answered (refused) - a request handler that panics takes the whole primary process down (gRPC does not recover)
			fmt.Fprintln(w, "stream h addr=h:1 start=1 ack=1")
			fmt.Fprintf(w, "load %d %d\n", 20+g.intn(60), 10+g.intn(40))
			fmt.Fprintln(w, "stream t addr=t:1 start=1 ack=0")
			fmt.Fprintln(w, "nack t 1")
			fmt.Fprintln(w, "cutctx t")
			fmt.Fprintf(w, "sleep %d\n", 100+g.intn(100))
			fmt.Fprintln(w, "nack t 1") // the session is gone
			fmt.Fprintln(w, "nack nobody 1")
			for i, m := 0, 6+g.intn(6); i < m; i++ {
				fmt.Fprintf(w, "stream u%d addr=u%d:1 start=1 ack=0\n", i, i)
				fmt.Fprintf(w, "nackstorm u%d %d\n", i, 60+g.intn(80))
				fmt.Fprintf(w, "sleep %d\n", 5+g.intn(30))
				fmt.Fprintf(w, "cutctx u%d\n", i)
				fmt.Fprintf(w, "sleep %d\n", 80+g.intn(60))
			}
			fmt.Fprintf(w, "bgload %d %d\n", 600+g.intn(400), 10+g.intn(20)) // client writes while requests for a LIVE session arrive
			fmt.Fprintf(w, "nackstorm h %d\n", 400+g.intn(300))
			fmt.Fprintf(w, "flapstorm %d %d\n", 900+g.intn(300), 48)
			fmt.Fprintln(w, "bgwait")
			fmt.Fprintf(w, "load %d %d\n", 20+g.intn(40), 10)
			fmt.Fprintln(w, "get 0")
			fmt.Fprintln(w, "caughtup h 6000")
			// every replica leaves; later another one (no compression support, like all fake streams) joins and writes go on
			fmt.Fprintln(w, "cutctx h")
			fmt.Fprintf(w, "sleep %d\n", 300+g.intn(200))
			fmt.Fprintln(w, "stream z addr=z:1 start=1 ack=1")
			fmt.Fprintf(w, "load %d %d\n", 10+g.intn(20), 10)
			fmt.Fprintln(w, "caughtup z 8000")
		case "ackchurn":
			// several closed log files exist (so that every acknowledgement makes the retention pass look at files), two streams
			// acknowledge everything they get while a client writes continuously, and further streams come and go (registering and
			// unregistering sessions takes the primary's lock exclusively): writes, acknowledgements and registrations must never
			// wait for each other for good
			fmt.Fprintln(w, "stream h addr=h:1 start=1 ack=1")
			fmt.Fprintln(w, "stream g addr=g:1 start=1 ack=1")
			fmt.Fprintf(w, "bgload %d %d\n", 1500+g.intn(1500), 10+g.intn(40))
			for i, m := 0, 10+g.intn(10); i < m; i++ {
				fmt.Fprintf(w, "stream t%d addr=t%d:1 start=1 ack=%d\n", i, i, g.intn(2))
				fmt.Fprintf(w, "sleep %d\n", 5+g.intn(40))
				fmt.Fprintf(w, "cutctx t%d\n", i)
			}
			fmt.Fprintln(w, "bgwait")
			fmt.Fprintln(w, "get 0")
			fmt.Fprintln(w, "caughtup h 6000")
			fmt.Fprintln(w, "listed h")
			fmt.Fprintln(w, "acks h")
		default: // mixed: random bounded faults on two of three streams
			fmt.Fprintln(w, "stream h addr=h:1 start=1 ack=1")
			fmt.Fprintln(w, "stream a addr=a:1 start=1 ack="+g.pickS("0", "1"))
			fmt.Fprintln(w, "stream b addr="+g.pickS("b:1", "a:1")+" start=1 ack="+g.pickS("0", "1"))
			for s := 0; s < 6+g.intn(6); s++ {
				switch g.intn(7) {
				case 0:
					fmt.Fprintln(w, "setsend "+g.pickS("a", "b")+" fail")
				case 1:
					fmt.Fprintf(w, "setsend %s hangfail:%d\n", g.pickS("a", "b"), 100+g.intn(400))
				case 2:
					fmt.Fprintf(w, "sleep %d\n", 100+g.intn(300))
				case 3:
					fmt.Fprintf(w, "commit %d\n", 1+g.intn(4))
				case 4:
					fmt.Fprintf(w, "get %d\n", g.intn(5))
				default:
					fmt.Fprintf(w, "load %d %d\n", 2+g.intn(8), 10+g.intn(80))
				}
			}
			fmt.Fprintln(w, "cutctx a")
			fmt.Fprintln(w, "cutctx b")
			fmt.Fprintln(w, "watchdrop a 2500")
			fmt.Fprintln(w, "watchdrop b 2500")
			fmt.Fprintln(w, "load 3 20")
			fmt.Fprintln(w, "caughtup h 4000")
			fmt.Fprintln(w, "listed h")
		}
		fmt.Fprintln(w, "verdict")
	}
}

// ---------- fake stream ----------

type rsStream struct {
	id       string
	addr     string
	ctx      context.Context
	cancel   context.CancelFunc
	header   chan metadata.MD
	session  string
	doAck    bool
	doAckOff bool // set by `quiet` (under mu)

	mu       sync.Mutex
	mode     string // ok | fail | hangfail
	hangMs   int
	maxSeq   uint64 // highest sequence number ever handed to Send successfully
	msgs     int
	acksOK   int64
	acksRef  int64
	ackCh    chan uint64
	finished chan struct{}
}

func (s *rsStream) Send(m *rproto.WALStreamResponse) error {
	s.mu.Lock()
	mode, hang := s.mode, s.hangMs
	s.mu.Unlock()
	switch mode {
	case "fail":
		return errors.New("transport is closing")
	case "hangfail":
		select {
		case <-time.After(time.Duration(hang) * time.Millisecond):
		case <-s.ctx.Done():
		}
		s.mu.Lock()
		s.mode = "fail"
		s.mu.Unlock()
		return errors.New("transport is closing")
	}
	var top uint64
	for _, e := range m.Entries {
		if e.SequenceNumber > top {
			top = e.SequenceNumber
		}
	}
	s.mu.Lock()
	s.msgs++
	if top > s.maxSeq {
		s.maxSeq = top
	}
	s.mu.Unlock()
	if s.doAck && !s.doAckOff && top > 0 {
		select {
		case s.ackCh <- top:
		default:
		}
	}
	return nil
}
func (s *rsStream) SetHeader(metadata.MD) error { return nil }
func (s *rsStream) SendHeader(md metadata.MD) error {
	select {
	case s.header <- md:
	default:
	}
	return nil
}
func (s *rsStream) SetTrailer(metadata.MD)   {}
func (s *rsStream) Context() context.Context { return s.ctx }
func (s *rsStream) SendMsg(m any) error      { return nil }
func (s *rsStream) RecvMsg(m any) error      { return nil }

// ---------- scenario runner ----------

type rsRun struct {
	r       *runner
	e       *engine.EngineFacade
	p       *replication.Primary
	streams map[string]*rsStream
	nput    int
	bad     []string
	badMu   sync.Mutex
	bg      chan string
}

// note: record a problem (also called from the background loader)
func (x *rsRun) note(s string) {
	x.badMu.Lock()
	x.bad = append(x.bad, s)
	x.badMu.Unlock()
}

func (x *rsRun) guarded(what string, f func() error) string {
	done := make(chan error, 1)
	go func() {
		defer func() {
			if p := recover(); p != nil {
				done <- fmt.Errorf("panic: %v", p)
			}
		}()
		done <- f()
	}()
	select {
	case err := <-done:
		if err != nil {
			x.note("failed op=" + what)
			return "failed op=" + what + " err=" + errTok(err)
		}
		return ""
	case <-time.After(patience(5 * time.Second)):
		x.note("blocked op=" + what)
		return "blocked op=" + what
	}
}

func (x *rsRun) listed(s *rsStream) bool {
	// the topology the primary reports: one row per registered session; the harness identifies the stream's CURRENT session
	// by asking the primary to accept a (harmless, position 0) acknowledgement for it
	ctx := metadata.NewIncomingContext(context.Background(), metadata.Pairs("session-id", s.session))
	resp, err := x.p.Acknowledge(ctx, &rproto.Ack{AcknowledgedUpTo: 0})
	if err != nil || resp == nil || !resp.Success {
		return false
	}
	for _, n := range x.p.GetReplicaInfo() {
		if n.Address == s.addr {
			return true
		}
	}
	return false
}

func (x *rsRun) step(ws []string) string {
	switch ws[0] {
	case "cfg":
		hb, to := 150, 900
		for _, w := range ws[1:] {
			if strings.HasPrefix(w, "hb=") {
				hb, _ = strconv.Atoi(w[3:])
			}
			if strings.HasPrefix(w, "to=") {
				to, _ = strconv.Atoi(w[3:])
			}
		}
		dir := x.r.tempDir()
		cfg := config.NewDefaultConfig(dir)
		cfg.WALSyncMode = config.SyncNone
		cfg.CompactionInterval = 3600
		if err := cfg.SaveManifest(dir); err != nil {
			return "err manifest"
		}
		e, err := engine.NewEngineFacade(dir)
		if err != nil {
			return "err open " + errTok(err)
		}
		x.e = e
		for _, w := range ws[1:] { // preflush=<k>: k earlier generations of writes, each flushed (a log rotation): closed log files exist
			if strings.HasPrefix(w, "preflush=") {
				k, _ := strconv.Atoi(w[9:])
				for i := 0; i < k; i++ {
					for j := 0; j < 20; j++ {
						e.Put([]byte(fmt.Sprintf("pre%d-%d", i, j)), []byte("p"))
					}
					e.FlushImMemTables()
				}
			}
		}
		p, err := replication.NewPrimary(e.GetWAL(), &replication.PrimaryConfig{MaxBatchSizeKB: 256,
			CompressionCodec: rproto.CompressionCodec_NONE, RespectTxBoundaries: true,
			HeartbeatConfig: &replication.HeartbeatConfig{Interval: time.Duration(hb) * time.Millisecond,
				Timeout: time.Duration(to) * time.Millisecond, SendEmptyResponses: true}})
		if err != nil {
			return "err primary"
		}
		x.p = p
		return "ok"
	case "stream":
		s := &rsStream{id: ws[1], mode: "ok", header: make(chan metadata.MD, 1), ackCh: make(chan uint64, 64), finished: make(chan struct{})}
		start := uint64(1)
		for _, w := range ws[2:] {
			switch {
			case strings.HasPrefix(w, "addr="):
				s.addr = w[5:]
			case strings.HasPrefix(w, "start="):
				start, _ = strconv.ParseUint(w[6:], 10, 64)
			case strings.HasPrefix(w, "ack="):
				s.doAck = w[4:] == "1"
			}
		}
		s.ctx, s.cancel = context.WithCancel(context.Background())
		x.streams[s.id] = s
		go func() {
			defer close(s.finished)
			defer func() { recover() }()
			x.p.StreamWAL(&rproto.WALStreamRequest{StartSequence: start, ListenerAddress: s.addr}, s)
		}()
		select {
		case md := <-s.header:
			if ids := md.Get("session-id"); len(ids) > 0 {
				s.session = ids[0]
			}
		case <-time.After(patience(5 * time.Second)):
			x.bad = append(x.bad, "blocked op=stream-register")
			return "blocked op=stream-register"
		}
		if s.doAck {
			go func() {
				for {
					select {
					case <-s.ctx.Done():
						return
					case seq := <-s.ackCh:
						actx := metadata.NewIncomingContext(context.Background(), metadata.Pairs("session-id", s.session))
						done := make(chan bool, 1)
						go func() {
							resp, err := x.p.Acknowledge(actx, &rproto.Ack{AcknowledgedUpTo: seq})
							done <- err == nil && resp != nil && resp.Success
						}()
						select {
						case ok := <-done:
							if ok {
								atomic.AddInt64(&s.acksOK, 1)
							} else {
								atomic.AddInt64(&s.acksRef, 1)
							}
						case <-time.After(patience(5 * time.Second)):
							atomic.AddInt64(&s.acksRef, 1)
						}
					}
				}
			}()
		}
		return "ok"
	case "nack", "nackstorm": // nack <id> <from> | nackstorm <id> <ms>: retransmission requests for that stream's session (also after it ended)
		sid := "no-such-session"
		if s := x.streams[ws[1]]; s != nil {
			sid = s.session
		}
		call := func(from uint64) (res string) {
			defer func() {
				if p := recover(); p != nil {
					res = "panic:" + strings.ReplaceAll(fmt.Sprint(p), " ", "_")
				}
			}()
			nctx := metadata.NewIncomingContext(context.Background(), metadata.Pairs("session-id", sid))
			resp, err := x.p.NegativeAcknowledge(nctx, &rproto.Nack{MissingFromSequence: from})
			switch {
			case err != nil:
				return "err"
			case resp != nil && resp.Success:
				return "resent"
			}
			return "refused"
		}
		if ws[0] == "nack" {
			out := make(chan string, 1)
			go func() { out <- call(1) }()
			select {
			case r := <-out:
				if strings.HasPrefix(r, "panic") {
					x.bad = append(x.bad, "nack-handler-panicked "+r)
				}
				return "nack " + r
			case <-time.After(patience(5 * time.Second)):
				x.bad = append(x.bad, "blocked op=nack")
				return "blocked op=nack"
			}
		}
		ms, _ := strconv.Atoi(ws[2])
		for k := 0; k < 4; k++ {
			go func(k int) {
				// requests for the last entry only are cheap (and still reach the session): many are in flight when the session ends
				last := uint64(x.nput)
				if last == 0 {
					last = 1
				}
				for dl := time.Now().Add(time.Duration(ms) * time.Millisecond); time.Now().Before(dl); {
					if r := call(last); strings.HasPrefix(r, "panic") {
						x.note("nack-handler-panicked " + r)
						return
					}
				}
			}(k)
		}
		return "ok"
	case "flapstorm": // flapstorm <cycles> <goroutines>: a replica's stream registers and ends again and again while retransmission
		// requests for its CURRENT session keep arriving
		cycles, gor := atoi(ws[1]), atoi(ws[2])
		var cur atomic.Value
		cur.Store("")
		stopStorm := make(chan struct{})
		var sg sync.WaitGroup
		last := uint64(x.nput)
		if last == 0 {
			last = 1
		}
		for k := 0; k < gor; k++ {
			sg.Add(1)
			go func() {
				defer sg.Done()
				defer func() {
					if p := recover(); p != nil {
						x.note("nack-handler-panicked panic:" + strings.ReplaceAll(fmt.Sprint(p), " ", "_"))
					}
				}()
				for {
					select {
					case <-stopStorm:
						return
					default:
					}
					sid, _ := cur.Load().(string)
					if sid == "" {
						runtime.Gosched()
						continue
					}
					nctx := metadata.NewIncomingContext(context.Background(), metadata.Pairs("session-id", sid))
					x.p.NegativeAcknowledge(nctx, &rproto.Nack{MissingFromSequence: last})
				}
			}()
		}
		done := 0
		for c := 0; c < cycles; c++ {
			s := &rsStream{id: fmt.Sprintf("flap%d", c), mode: "ok", addr: "flap:1", header: make(chan metadata.MD, 1), ackCh: make(chan uint64, 64), finished: make(chan struct{})}
			s.ctx, s.cancel = context.WithCancel(context.Background())
			go func() {
				defer close(s.finished)
				defer func() { recover() }()
				x.p.StreamWAL(&rproto.WALStreamRequest{StartSequence: last + 1, ListenerAddress: s.addr}, s)
			}()
			select {
			case md := <-s.header:
				if ids := md.Get("session-id"); len(ids) > 0 {
					cur.Store(ids[0])
				}
			case <-time.After(patience(5 * time.Second)):
				close(stopStorm)
				x.bad = append(x.bad, "blocked op=stream-register")
				return "blocked op=stream-register"
			}
			time.Sleep(time.Duration(50+c%7*30) * time.Microsecond)
			s.cancel()
			select {
			case <-s.finished:
			case <-time.After(patience(5 * time.Second)):
				close(stopStorm)
				x.bad = append(x.bad, "blocked op=stream-end")
				return "blocked op=stream-end"
			}
			done++
			x.badMu.Lock()
			nb := len(x.bad)
			x.badMu.Unlock()
			if nb > 0 {
				break
			}
		}
		close(stopStorm)
		sg.Wait()
		return fmt.Sprintf("ok cycles=%d", done)
	case "setsend":
		s := x.streams[ws[1]]
		if s == nil {
			return "bad-op"
		}
		s.mu.Lock()
		switch {
		case ws[2] == "ok" || ws[2] == "fail":
			s.mode = ws[2]
		case strings.HasPrefix(ws[2], "hangfail:"):
			s.mode = "hangfail"
			s.hangMs, _ = strconv.Atoi(ws[2][9:])
		}
		s.mu.Unlock()
		return "ok"
	case "cutctx":
		s := x.streams[ws[1]]
		if s == nil {
			return "bad-op"
		}
		s.cancel()
		return "ok"
	case "sleep":
		ms, _ := strconv.Atoi(ws[1])
		time.Sleep(time.Duration(ms) * time.Millisecond)
		return "ok"
	case "load":
		n, _ := strconv.Atoi(ws[1])
		vlen, _ := strconv.Atoi(ws[2])
		for i := 0; i < n; i++ {
			k := []byte(fmt.Sprintf("k%05d", x.nput))
			v := []byte(strings.Repeat("v", vlen))
			if r := x.guarded("put", func() error { return x.e.Put(k, v) }); r != "" {
				return r
			}
			x.nput++
		}
		return fmt.Sprintf("ok n=%d", n)
	case "bgload": // bgload <n> <vlen>: n puts in the background (each under the watchdog); `bgwait` collects the outcome
		n, _ := strconv.Atoi(ws[1])
		vlen, _ := strconv.Atoi(ws[2])
		x.bg = make(chan string, 1)
		base := x.nput
		x.nput += n
		go func() {
			for i := 0; i < n; i++ {
				k := []byte(fmt.Sprintf("k%05d", base+i))
				v := []byte(strings.Repeat("v", vlen))
				if r := x.guarded("put", func() error { return x.e.Put(k, v) }); r != "" {
					x.bg <- r
					return
				}
			}
			x.bg <- fmt.Sprintf("ok n=%d", n)
		}()
		return "ok"
	case "bgwait":
		if x.bg == nil {
			return "bad-op"
		}
		select {
		case r := <-x.bg:
			x.bg = nil
			return r
		case <-time.After(patience(90 * time.Second)):
			x.bad = append(x.bad, "blocked op=bgload")
			return "blocked op=bgload"
		}
	case "commit":
		n, _ := strconv.Atoi(ws[1])
		r := x.guarded("commit", func() error {
			tx, err := x.e.BeginTransaction(false)
			if err != nil {
				return err
			}
			for i := 0; i < n; i++ {
				if err := tx.Put([]byte(fmt.Sprintf("t%05d-%d", x.nput, i)), []byte("tv")); err != nil {
					tx.Rollback()
					return err
				}
			}
			return tx.Commit()
		})
		if r != "" {
			return r
		}
		x.nput++
		return "ok"
	case "get":
		r := x.guarded("get", func() error {
			_, err := x.e.Get([]byte(fmt.Sprintf("k%05d", 0)))
			if err != nil && x.nput > 0 && !strings.Contains(err.Error(), "not found") {
				return err
			}
			return nil
		})
		if r != "" {
			return r
		}
		return "ok"
	case "quiet": // quiet <id>: the stream stops acknowledging from now on
		s := x.streams[ws[1]]
		if s == nil {
			return "bad-op"
		}
		s.mu.Lock()
		s.doAckOff = true
		s.mu.Unlock()
		return "ok"
	case "topo": // topo <id> <want>: is the stream's listener address in GetReplicaInfo() — asked with the topology query ALONE
		s := x.streams[ws[1]]
		if s == nil {
			return "bad-op"
		}
		got := 0
		if r := x.guarded("topology", func() error {
			for _, n := range x.p.GetReplicaInfo() {
				if n.Address == s.addr {
					got = 1
				}
			}
			return nil
		}); r != "" {
			return r
		}
		if strconv.Itoa(got) != ws[2] {
			x.note(fmt.Sprintf("topology %s reported=%d expected=%s", s.id, got, ws[2]))
		}
		return fmt.Sprintf("topo %d", got)
	case "listed":
		s := x.streams[ws[1]]
		if s == nil {
			return "bad-op"
		}
		var res string
		if r := x.guarded("topology", func() error {
			if x.listed(s) {
				res = "listed 1"
			} else {
				res = "listed 0"
			}
			return nil
		}); r != "" {
			return r
		}
		if res == "listed 0" {
			x.bad = append(x.bad, "unlisted "+s.id)
		}
		return res
	case "watchdrop":
		s := x.streams[ws[1]]
		if s == nil {
			return "bad-op"
		}
		ms, _ := strconv.Atoi(ws[2])
		deadline := time.Now().Add(patience(time.Duration(ms) * time.Millisecond))
		for {
			gone := false
			if r := x.guarded("topology", func() error { gone = !x.listed(s); return nil }); r != "" {
				return r
			}
			if gone {
				return "dropped"
			}
			if time.Now().After(deadline) {
				x.bad = append(x.bad, "notdropped "+s.id)
				return "notdropped"
			}
			time.Sleep(50 * time.Millisecond)
		}
	case "caughtup":
		s := x.streams[ws[1]]
		if s == nil {
			return "bad-op"
		}
		ms, _ := strconv.Atoi(ws[2])
		deadline := time.Now().Add(patience(time.Duration(ms) * time.Millisecond))
		for {
			last := x.e.GetWAL().GetNextSequence() - 1
			s.mu.Lock()
			got := s.maxSeq
			s.mu.Unlock()
			if got >= last {
				return fmt.Sprintf("caughtup %d", last)
			}
			if time.Now().After(deadline) {
				x.bad = append(x.bad, "lagging "+s.id)
				return fmt.Sprintf("lagging got=%d last=%d", got, last)
			}
			time.Sleep(50 * time.Millisecond)
		}
	case "acks":
		s := x.streams[ws[1]]
		if s == nil {
			return "bad-op"
		}
		time.Sleep(200 * time.Millisecond)
		ok, ref := atomic.LoadInt64(&s.acksOK), atomic.LoadInt64(&s.acksRef)
		if ref > 0 || ok == 0 {
			x.bad = append(x.bad, "acks-refused "+s.id)
		}
		return fmt.Sprintf("acks accepted=%d refused=%d", ok, ref)
	case "verdict":
		if len(x.bad) == 0 {
			return "ok"
		}
		return strings.ReplaceAll(strings.Join(x.bad, ";"), " ", "_")
	}
	return "bad-op"
}

func (x *rsRun) closeAll() {
	for _, s := range x.streams {
		s.cancel()
	}
	if x.p != nil {
		done := make(chan struct{})
		go func() { defer func() { recover() }(); x.p.Close(); close(done) }()
		select {
		case <-done:
		case <-time.After(patience(3 * time.Second)):
		}
	}
	if x.e != nil {
		done := make(chan struct{})
		go func() { defer func() { recover() }(); x.e.Close(); close(done) }()
		select {
		case <-done:
		case <-time.After(patience(3 * time.Second)):
		}
	}
}

// one child process per case would isolate a deadlocked primary; the watchdogs make a blocked operation return to the
// script instead, and a case never reuses the engine of another case
func runReplStream(r *runner) {
	wal.DisableRecoveryLogs = true
	var x *rsRun
	for {
		ws, ok := r.next()
		if !ok {
			break
		}
		if ws[0] == "cfg" {
			if x != nil {
				x.closeAll()
			}
			x = &rsRun{r: r, streams: map[string]*rsStream{}}
		}
		if x == nil {
			r.emit("bad-op")
			continue
		}
		if len(x.bad) > 0 && ws[0] != "verdict" && strings.HasPrefix(x.bad[0], "blocked") {
			r.emit("skipped") // the primary is wedged: do not pile further blocked goroutines on it
			continue
		}
		r.emit(x.step(ws))
	}
	if x != nil {
		x.closeAll()
	}
}
