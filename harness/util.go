package main

import (
	"encoding/hex"
	"fmt"
	"math/rand"
	"os"
	"runtime"
	"strings"
	"time"
)

// hex protocol: "=" empty (non-nil), "-" nil, else lowercase hex
func hx(b []byte) string {
	if len(b) == 0 {
		return "="
	}
	return hex.EncodeToString(b)
}

func hxv(b []byte) string {
	if b == nil {
		return "-"
	}
	return hx(b)
}

func unhx(s string) []byte {
	if s == "=" {
		return []byte{}
	}
	if s == "-" {
		return nil
	}
	if strings.HasPrefix(s, "*") { // run-length form "*<n>:<hh>": n copies of one byte (large values without large scripts)
		var n int
		var c byte
		if _, err := fmt.Sscanf(s, "*%d:%02x", &n, &c); err != nil {
			panic(fmt.Sprintf("bad run-length token %q", s))
		}
		b := make([]byte, n)
		for i := range b {
			b[i] = c
		}
		return b
	}
	b, err := hex.DecodeString(s)
	if err != nil {
		panic(fmt.Sprintf("bad hex %q", s))
	}
	return b
}

type gen struct {
	r *rand.Rand
}

func newGen(seed int64) *gen { return &gen{r: rand.New(rand.NewSource(seed))} }

func (g *gen) intn(n int) int            { return g.r.Intn(n) }
func (g *gen) chance(num, den int) bool  { return g.r.Intn(den) < num }
func (g *gen) pick(xs ...int) int        { return xs[g.r.Intn(len(xs))] }
func (g *gen) pickS(xs ...string) string { return xs[g.r.Intn(len(xs))] }

// bytesN returns n bytes: random, or a repeated short pattern (compressible, shares prefixes)
func (g *gen) bytesN(n int) []byte {
	b := make([]byte, n)
	switch g.r.Intn(3) {
	case 0:
		g.r.Read(b)
	case 1:
		pat := []byte{byte('a' + g.r.Intn(26)), byte(g.r.Intn(256)), 0x00, 0xff}
		for i := range b {
			b[i] = pat[i%len(pat)]
		}
	default:
		c := byte(g.r.Intn(256))
		for i := range b {
			b[i] = c
		}
	}
	return b
}

// a small colliding key alphabet (binary, shared prefixes, 0x00 / 0xff edges)
var keyAlphabet = [][]byte{
	[]byte("a"), []byte("b"), []byte("ab"), []byte("abc"), []byte("a\x00"), []byte("a\x00\x00"), []byte("\xff"),
	[]byte("\xff\xff"), []byte("\x00"), []byte("key1"), []byte("key10"), []byte("key2"), []byte("k"), []byte("zz"),
	[]byte("user:1"), []byte("user:10"), []byte("user:2"), []byte("b\xffa"), []byte("prefix/long/shared/path/1"),
	[]byte("prefix/long/shared/path/2"), []byte("prefix/long/shared/path/10"), []byte("m"), []byte("mm"), []byte("n"),
}

func (g *gen) key() []byte {
	if g.chance(9, 10) {
		return keyAlphabet[g.r.Intn(len(keyAlphabet))]
	}
	return g.bytesN(1 + g.r.Intn(12))
}

func join(parts ...string) string { return strings.Join(parts, " ") }

// patience stretches a watchdog or wait bound when the machine is overloaded (load average above the number of CPUs), so that
// a slow environment is not mistaken for a hang: d * clamp(load1/ncpu, 1, 12). It never shortens a bound.
func patience(d time.Duration) time.Duration {
	b, err := os.ReadFile("/proc/loadavg")
	if err != nil {
		return d
	}
	var l1 float64
	if _, err := fmt.Sscanf(string(b), "%f", &l1); err != nil {
		return d
	}
	f := l1 / float64(runtime.NumCPU())
	if f < 1 {
		f = 1
	}
	if f > 12 {
		f = 12
	}
	return time.Duration(float64(d) * f)
}
