package main

// component scanconc (C05, concurrent clause; implementation only): a scan that runs while other clients write stays
// strictly ascending and duplicate-free and contains every key that existed before it started and is not written
// during it.
//
//   scan seed=<n> stable=<n> mem=<bytes> mode=steps|threads kind=full|range|tx writers=<n> flush=<0|1>
//
// stable keys s%05d (even numbers) are written before the scan starts, spread over SSTables, immutable and active
// memtables by explicit flushes; during the scan writers insert NEW keys (odd numbers, in runs of 1-6 neighbours, ahead
// of and behind the cursor), overwrite and delete keys of a separate volatile family v%05d, and optionally flush.
// mode=steps interleaves deterministically in one goroutine (k iterator steps, then a burst of writes); mode=threads
// runs the writers in their own goroutines while the scan sleeps a little between steps.

import (
	"bufio"
	"bytes"
	"fmt"
	"strings"
	"sync"
	"sync/atomic"
	"time"

	"github.com/KevoDB/kevo/pkg/common/iterator"
	"github.com/KevoDB/kevo/pkg/engine"
	"github.com/KevoDB/kevo/pkg/verifhook"
	"github.com/KevoDB/kevo/pkg/wal"
)

func init() {
	components["scanconc"] = &component{gen: genScanConc, run: runScanConc}
}

func genScanConc(g *gen, n int, tier string, w *bufio.Writer) {
	for c := 0; c < n; c++ {
		fmt.Fprintf(w, "# case %d\n", c)
		if c%4 == 3 {
			// seek storm: while writers insert new keys (the writer yields between the level links of an insert), range scans are
			// POSITIONED again and again on keys that existed before: each must land exactly on its key
			fmt.Fprintf(w, "scan seed=%d stable=%d mem=%d mode=seeks kind=range writers=%d flush=0\n", g.intn(1<<30), g.pick(40, 200, 600),
				1<<20, g.pick(1, 2))
			continue
		}
		fmt.Fprintf(w, "scan seed=%d stable=%d mem=%d mode=%s kind=%s writers=%d flush=%d\n", g.intn(1<<30), g.pick(10, 40, 200, 600),
			g.pick(1<<20, 1<<20, 4096, 1500), g.pickS("steps", "steps", "threads"), g.pickS("full", "full", "range", "tx"), g.pick(1, 2, 4), g.intn(2))
	}
}

func scanConcScenario(r *runner, ws []string) (out string) {
	defer func() {
		if p := recover(); p != nil {
			out = "bad panic " + strings.ReplaceAll(fmt.Sprint(p), " ", "_")
		}
	}()
	seed, nStable, mem := kvInt(ws[1]), kvInt(ws[2]), kvInt(ws[3])
	mode, kind := ws[4][len("mode="):], ws[5][len("kind="):]
	writers, flush := kvInt(ws[6]), kvInt(ws[7])
	g := newGen(int64(seed))
	x := &engRun{r: r, dir: r.tempDir()}
	if err := openCrashEngine(x, 0, mem, true); err != nil {
		return "bad open " + errTok(err)
	}
	e := x.e
	defer e.Close()
	sk := func(i int) []byte { return []byte(fmt.Sprintf("s%05d", i)) }
	vk := func(i int) []byte { return []byte(fmt.Sprintf("v%05d", i)) }
	stable := map[string]string{}
	// the stable family, spread over layers; some stable keys have older versions and deleted neighbours
	for i := 0; i < nStable; i++ {
		k := sk(2 * i)
		if g.chance(1, 5) {
			e.Put(k, []byte("old"))
		}
		v := fmt.Sprintf("S%d", i)
		if err := e.Put(k, []byte(v)); err != nil {
			return "bad put " + errTok(err)
		}
		stable[string(k)] = v
		if mode != "seeks" && g.chance(1, 40) { // (seek storm: the stable keys stay in the active memtable, next to the inserts)
			e.FlushImMemTables()
		}
	}
	for i := 0; i < 30; i++ {
		e.Put(vk(i), []byte("V0"))
	}
	if mode == "seeks" {
		return seekStorm(e, g, nStable, writers, sk)
	}
	lo, hi := []byte(nil), []byte(nil)
	if kind == "range" {
		lo, hi = sk(2*g.intn(nStable)), sk(2*nStable+1)
		if g.chance(1, 2) {
			hi = sk(2 * (nStable/2 + g.intn(nStable/2+1)))
		}
		if bytes.Compare(lo, hi) > 0 {
			lo, hi = hi, lo
		}
	}
	var it iterator.Iterator
	var err error
	switch kind {
	case "range":
		it, err = e.GetRangeIterator(lo, hi)
	case "tx":
		tx, terr := e.BeginTransaction(true)
		if terr != nil {
			return "bad begin " + errTok(terr)
		}
		defer tx.Rollback()
		it = tx.NewIterator()
	default:
		it, err = e.GetIterator()
	}
	if err != nil {
		return "bad iterator " + errTok(err)
	}
	if kind == "tx" {
		// a read-only transaction holds the shared lock: transactional writers would wait; plain writers do not
	}
	var written sync.Map // keys written during the scan
	var nWrites atomic.Int64
	var cursor atomic.Value
	cursor.Store("")
	burst := func(g *gen) {
		switch g.intn(10) {
		case 0, 1, 2, 3, 4: // a run of new neighbouring keys, mostly ahead of the cursor
			base := g.intn(nStable)
			if cur, _ := cursor.Load().(string); len(cur) == 6 && cur[0] == 's' && g.chance(3, 4) {
				var c int
				fmt.Sscanf(cur[1:], "%d", &c)
				base = c/2 + g.intn(4)
			}
			for j, m := 0, 1+g.intn(6); j < m; j++ {
				// odd numbers: s(2*base+1) sits between two stable keys; longer runs use a third component
				k := []byte(fmt.Sprintf("s%05d.%02d", 2*base+1, j))
				written.Store(string(k), true)
				e.Put(k, []byte("N"))
				nWrites.Add(1)
			}
		case 5, 6:
			k := vk(g.intn(30))
			written.Store(string(k), true)
			e.Put(k, []byte(fmt.Sprintf("V%d", g.intn(1000))))
			nWrites.Add(1)
		case 7:
			k := vk(g.intn(30))
			written.Store(string(k), true)
			e.Delete(k)
			nWrites.Add(1)
		case 8:
			if flush == 1 {
				e.FlushImMemTables()
			}
		default:
			k := vk(30 + g.intn(30))
			written.Store(string(k), true)
			e.ApplyBatch([]*wal.Entry{{Type: wal.OpTypePut, Key: k, Value: []byte("B")}, {Type: wal.OpTypePut, Key: append(append([]byte{}, k...), 'x'), Value: []byte("B")}})
			written.Store(string(k)+"x", true)
			nWrites.Add(2)
		}
	}
	var stop atomic.Bool
	var wg sync.WaitGroup
	if mode == "threads" {
		for wi := 0; wi < writers; wi++ {
			wg.Add(1)
			wg2 := newGen(int64(seed) + int64(wi) + 1)
			go func(g *gen) {
				defer wg.Done()
				for !stop.Load() {
					burst(g)
				}
			}(wg2)
		}
	}
	type kv struct{ k, v string }
	var got []kv
	steps := 0
	for it.SeekToFirst(); it.Valid(); it.Next() {
		if !it.IsTombstone() {
			got = append(got, kv{string(it.Key()), string(it.Value())})
		}
		cursor.Store(string(it.Key()))
		steps++
		if mode == "steps" {
			if g.chance(1, 3) {
				for b, m := 0, 1+g.intn(3); b < m; b++ {
					burst(g)
				}
			}
		} else if steps%8 == 0 {
			time.Sleep(50 * time.Microsecond)
		}
		if steps > 10*(nStable+2000) {
			stop.Store(true)
			wg.Wait()
			return "bad scan-does-not-end"
		}
	}
	stop.Store(true)
	wg.Wait()
	// checks
	seen := map[string]bool{}
	for i, p := range got {
		if i > 0 && got[i-1].k >= p.k {
			return fmt.Sprintf("bad order position=%d prev=%s key=%s", i, hx([]byte(got[i-1].k)), hx([]byte(p.k)))
		}
		seen[p.k] = true
		_, w := written.Load(p.k)
		sv, isStable := stable[p.k]
		if !w && !isStable && !(len(p.k) == 6 && p.k[0] == 'v') {
			return "bad unknown-key " + hx([]byte(p.k))
		}
		if isStable && !w && sv != p.v {
			return fmt.Sprintf("bad stale-value key=%s got=%s want=%s", hx([]byte(p.k)), hx([]byte(p.v)), hx([]byte(sv)))
		}
		if (lo != nil && p.k < string(lo)) || (hi != nil && p.k >= string(hi)) {
			return "bad out-of-range " + hx([]byte(p.k))
		}
	}
	missing := 0
	first := ""
	for k := range stable {
		if (lo != nil && k < string(lo)) || (hi != nil && k >= string(hi)) {
			continue
		}
		if _, w := written.Load(k); w {
			continue
		}
		if !seen[k] {
			missing++
			if first == "" || k < first {
				first = k
			}
		}
	}
	if missing > 0 {
		return fmt.Sprintf("bad missing-keys n=%d first=%s (existed before the scan, not written during it) returned=%d writes=%d", missing, hx([]byte(first)), len(got), nWrites.Load())
	}
	return fmt.Sprintf("ok returned=%d writes=%d", len(got), nWrites.Load())
}

// seekStorm: see genScanConc. One insert at a time is PAUSED between two of its level links (hook site
// skiplist.insert.level, the k-th hit of that insert); while it is paused a range scan is positioned on the stable key
// right behind the key being inserted — the new node is then the last node before the target on every level it is linked
// at, so the positioning search walks over it. Then the insert is released. (Deterministic companion of C18's step scheduler,
// at engine level; a few free-running writers add ordinary contention.)
func seekStorm(e *engine.EngineFacade, g *gen, nStable, writers int, sk func(int) []byte) string {
	var nWrites atomic.Int64
	var armed atomic.Int32 // hits of the armed insert still to pass before it is paused
	var owner atomic.Int64 // goroutine token of the armed insert (0 = none)
	paused := make(chan struct{}, 1)
	release := make(chan struct{})
	verifhook.Set(func(site string) {
		if site != "skiplist.insert.level" || owner.Load() == 0 {
			return
		}
		if armed.Add(-1) == 0 {
			paused <- struct{}{}
			<-release
		}
	})
	defer verifhook.Set(nil)
	bad := ""
	seeks := 0
	for seeks = 0; seeks < 1500 && bad == ""; seeks++ {
		i := 1 + g.intn(nStable-1)
		t := sk(2 * i)
		newKey := []byte(fmt.Sprintf("s%05d.%04d", 2*i-1, seeks))
		// the scan is CREATED first (creating it needs the storage lock, which the paused writer holds); it is positioned
		// while the insert is paused (iterators run without the storage lock)
		it, err := e.GetRangeIterator(t, nil)
		if err != nil {
			bad = "bad iterator " + errTok(err)
			break
		}
		armed.Store(int32(1 + g.intn(4))) // pause before the 1st..4th level link (an insert of lower height just completes)
		owner.Store(1)
		done := make(chan struct{})
		go func() {
			e.Put(newKey, []byte("N"))
			nWrites.Add(1)
			close(done)
		}()
		isPaused := false
		select {
		case <-paused:
			isPaused = true
		case <-done:
		case <-time.After(patience(5 * time.Second)):
			bad = "bad hung insert"
		}
		owner.Store(0)
		if bad == "" {
			it.SeekToFirst()
			switch {
			case !it.Valid():
				bad = fmt.Sprintf("bad missing-keys seek=%s landed=invalid (the key existed before the scan started; an insert of its left neighbour was in flight) seeks=%d", hx(t), seeks)
			case !bytes.Equal(it.Key(), t):
				bad = fmt.Sprintf("bad missing-keys seek=%s landed=%s (the key existed before the scan started; an insert of its left neighbour was in flight) seeks=%d", hx(t), hx(it.Key()), seeks)
			}
		}
		if isPaused {
			release <- struct{}{}
			<-done
		}
	}
	if bad != "" {
		return bad
	}
	return fmt.Sprintf("ok returned=%d writes=%d", seeks, nWrites.Load())
}

func runScanConc(r *runner) {
	wal.DisableRecoveryLogs = true
	for {
		ws, ok := r.next()
		if !ok {
			break
		}
		if ws[0] != "scan" || len(ws) != 8 {
			r.emit("bad-op")
			continue
		}
		done := make(chan string, 1)
		go func() { done <- scanConcScenario(r, ws) }()
		select {
		case s := <-done:
			r.emit(s)
		case <-time.After(patience(120 * time.Second)):
			r.emit("bad hung (scenario did not finish within 120 s)")
		}
	}
}
