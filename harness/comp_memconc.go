package main

// component `memconc` (C18, implementation only, run with the -race build): ONE writer goroutine inserting a generated
// sequence into a real memtable.MemTable, readers doing Get / Seek / full iteration at arbitrary moments. Every
// observation is checked in-process against the writer's progress counters:
//
//	sortedness            key ascending, sequence number descending, equal (key, seq): later insert first
//	no phantom            every observed entry is an insert that had at least STARTED when the traversal ended
//	no duplicate          every insert is observed at most once per traversal
//	completeness          every insert that had RETURNED before the traversal (iterator creation) started is observed
//	                      (for Seek(t): those with key >= t)
//	Seek landing          the first entry after Seek(t) has key >= t                     [class seek-below-target]
//	Get                   equals the sequential lookup over ops[0:x] for some x between "returned before the call" and
//	                      "started after the call" (Get is serialised with Put by the table's RWMutex, so this is exact)
//
// kinds:  step   the writer is PAUSED at every yield site (skiplist.insert.level / skiplist.insert.linkPrev) and complete
//	               reader operations run at each pause (deterministic exploration of "reader between two writer stores")
//	        free   free-running goroutines; the hook handler yields / sleeps from a seeded PRNG at the two sites
//	        storm  readers hammer Seek(t) while the writer links ascending keys just below t (targets the window between
//	               the search loop and the final `current.getNext(0)`)
//	        immut  SetImmutable while the last Put is in flight: lock-free Gets (SkipList.Find) race with the insert
//
// One script line per scenario, one verdict line: `ok kind=… readers=… obs=… …` or `bad <class> <detail>`.

import (
	"bufio"
	"bytes"
	"encoding/binary"
	"fmt"
	"math/rand"
	"runtime"
	"sort"
	"strconv"
	"strings"
	"sync"
	"sync/atomic"
	"time"

	"github.com/KevoDB/kevo/pkg/memtable"
	"github.com/KevoDB/kevo/pkg/verifhook"
)

func init() {
	components["memconc"] = &component{gen: genMemConc, run: runMemConc}
}

// ---------- generator ----------

func genMemConc(g *gen, n int, tier string, w *bufio.Writer) {
	for c := 0; c < n; c++ {
		fmt.Fprintf(w, "# case %d\n", c)
		seed := g.r.Int63()
		switch x := g.intn(100); {
		case x < 40:
			fmt.Fprintf(w, "conc kind=step seed=%d n=%d keys=%d readers=1 seqstyle=%d\n", seed, 8+g.intn(40), g.pick(1, 2, 3, 6, 12), g.intn(4))
		case x < 80:
			nn := 150 + g.intn(500)
			if tier == "thorough" {
				nn = 300 + g.intn(3000)
			}
			fmt.Fprintf(w, "conc kind=free seed=%d n=%d keys=%d readers=%d seqstyle=%d\n", seed, nn, g.pick(2, 4, 8, 20, 60), 1+g.intn(5), g.intn(4))
		case x < 90:
			nn := 3000 + g.intn(5000)
			fmt.Fprintf(w, "conc kind=storm seed=%d n=%d keys=1 readers=%d seqstyle=1\n", seed, nn, 2+g.intn(4))
		default:
			fmt.Fprintf(w, "conc kind=immut seed=%d n=%d keys=%d readers=%d seqstyle=%d\n", seed, 10+g.intn(60), g.pick(2, 4, 8), 2+g.intn(3), g.intn(4))
		}
	}
}

// ---------- scenario ----------

type concOp struct {
	key []byte
	val []byte // nil = Delete
	seq uint64
}

type obsEntry struct {
	key  []byte
	val  []byte
	seq  uint64
	tomb bool
}

type concScen struct {
	ops       []concOp
	delIdx    map[string]int // (key, seq) of a Delete -> op index (unique by construction)
	byKey     map[string][]int
	started   int64 // number of ops whose Put/Delete call has begun
	completed int64 // number of ops whose Put/Delete call has returned
	t         *memtable.MemTable
	failMu    sync.Mutex
	fail      string
	known     string // first verdict of a class that is a known finding (does not stop the scenario)
	obs       int64
	iters     int64
	seeks     int64
	gets      int64
}

func (s *concScen) bad(class, format string, a ...any) {
	s.failMu.Lock()
	msg := class + " " + strings.ReplaceAll(fmt.Sprintf(format, a...), " ", "_")
	if class == "seek-below-target" || class == "find-missed" {
		// the re-load window of Seek/Find (KNOWN_FINDINGS KF-C18-SEEK-RELOAD): note it, keep checking everything else
		if s.known == "" {
			s.known = msg
		}
	} else if s.fail == "" {
		s.fail = msg
	}
	s.failMu.Unlock()
}

func (s *concScen) failed() bool {
	s.failMu.Lock()
	defer s.failMu.Unlock()
	return s.fail != ""
}

func delKey(k []byte, seq uint64) string { return string(k) + "\x00#" + strconv.FormatUint(seq, 10) }

func concKey(r *rand.Rand, keys int) []byte {
	i := r.Intn(keys)
	switch i % 3 {
	case 0:
		return []byte(fmt.Sprintf("k%03d", i))
	case 1:
		return []byte{byte('a' + i%26), 0x00, byte(i)}
	default:
		return append([]byte("user:"), byte('0'+i%10), byte(i))
	}
}

func buildScenario(seed int64, n, keys, seqstyle int) *concScen {
	r := rand.New(rand.NewSource(seed))
	s := &concScen{delIdx: map[string]int{}, byKey: map[string][]int{}, t: memtable.NewMemTable()}
	var counter uint64 = 1
	for i := 0; i < n; i++ {
		var seq uint64
		switch seqstyle {
		case 0: // monotone with ties (batches)
			if r.Intn(3) > 0 {
				counter++
			}
			seq = counter
		case 1: // tiny range
			seq = uint64(r.Intn(4))
		case 2: // arbitrary
			seq = uint64(r.Intn(50))
			if r.Intn(10) == 0 {
				seq = 1<<40 + uint64(r.Intn(3))
			}
		default: // descending
			seq = uint64(2*n - i + r.Intn(2))
		}
		op := concOp{key: concKey(r, keys), seq: seq}
		if r.Intn(5) == 0 {
			// Delete: keep (key, seq) unique among deletes so that an observed marker identifies its insert
			for tries := 0; ; tries++ {
				if _, dup := s.delIdx[delKey(op.key, op.seq)]; !dup {
					break
				}
				op.seq += 1000 + uint64(tries)
			}
			s.delIdx[delKey(op.key, op.seq)] = i
		} else {
			v := make([]byte, 4+r.Intn(6))
			binary.BigEndian.PutUint32(v, uint32(i))
			op.val = v
		}
		s.ops = append(s.ops, op)
		s.byKey[string(op.key)] = append(s.byKey[string(op.key)], i)
	}
	return s
}

func (s *concScen) apply(i int) {
	op := s.ops[i]
	atomic.StoreInt64(&s.started, int64(i+1))
	if op.val == nil {
		s.t.Delete(op.key, op.seq)
	} else {
		s.t.Put(op.key, op.val, op.seq)
	}
	atomic.StoreInt64(&s.completed, int64(i+1))
}

// index of the insert an observed entry comes from, or -1
func (s *concScen) identify(e obsEntry) int {
	if e.tomb {
		if i, ok := s.delIdx[delKey(e.key, e.seq)]; ok {
			return i
		}
		return -1
	}
	if len(e.val) < 4 {
		return -1
	}
	i := int(binary.BigEndian.Uint32(e.val))
	if i < 0 || i >= len(s.ops) {
		return -1
	}
	op := s.ops[i]
	if op.val == nil || !bytes.Equal(op.key, e.key) || !bytes.Equal(op.val, e.val) || op.seq != e.seq {
		return -1
	}
	return i
}

// walk collects what the iterator shows from its current position to the end
func memWalk(it *memtable.Iterator, limit int) []obsEntry {
	var out []obsEntry
	for ; it.Valid() && len(out) < limit; it.Next() {
		v := it.Value()
		out = append(out, obsEntry{key: it.Key(), val: v, seq: it.SequenceNumber(), tomb: it.IsTombstone()})
	}
	return out
}

// checkTraversal: obs = everything from the landing position to the end; target nil = SeekToFirst.
// c0 = ops returned before the iterator was created, s1 = ops started when the traversal ended.
func (s *concScen) checkTraversal(what string, obs []obsEntry, target []byte, c0, s1 int) {
	atomic.AddInt64(&s.obs, int64(len(obs)))
	seen := make(map[int]bool, len(obs))
	prevIdx := -1
	for j, e := range obs {
		if e.tomb != (e.val == nil) {
			s.bad("tombstone-flag", "%s: entry %x seq %d: IsTombstone=%v but value nil=%v", what, e.key, e.seq, e.tomb, e.val == nil)
			return
		}
		idx := s.identify(e)
		if idx < 0 {
			s.bad("phantom", "%s: observed entry key=%x seq=%d val=%x tomb=%v was never inserted", what, e.key, e.seq, e.val, e.tomb)
			return
		}
		if idx >= s1 {
			s.bad("phantom", "%s: observed insert #%d before its call began (started=%d)", what, idx, s1)
			return
		}
		if seen[idx] {
			s.bad("dup", "%s: insert #%d (key=%x seq=%d) observed twice", what, idx, e.key, e.seq)
			return
		}
		seen[idx] = true
		if j > 0 {
			p := obs[j-1]
			c := bytes.Compare(p.key, e.key)
			if c > 0 || (c == 0 && p.seq < e.seq) {
				s.bad("order", "%s: (%x,%d) is followed by (%x,%d)", what, p.key, p.seq, e.key, e.seq)
				return
			}
			if c == 0 && p.seq == e.seq && prevIdx < idx {
				s.bad("tie-order", "%s: equal (key,seq)=(%x,%d): insert #%d shown before the later insert #%d", what, e.key, e.seq, prevIdx, idx)
				return
			}
		}
		prevIdx = idx
	}
	if target != nil && len(obs) > 0 && bytes.Compare(obs[0].key, target) < 0 {
		s.bad("seek-below-target", "%s: Seek(%x) landed on key %x (seq %d)", what, target, obs[0].key, obs[0].seq)
	}
	for i := 0; i < c0; i++ {
		if target != nil && bytes.Compare(s.ops[i].key, target) < 0 {
			continue
		}
		if !seen[i] {
			s.bad("incomplete", "%s: insert #%d (key=%x seq=%d), which had returned before the traversal started (completed=%d), was not observed (%d entries seen)",
				what, i, s.ops[i].key, s.ops[i].seq, c0, len(obs))
			return
		}
	}
}

// the sequential lookup over ops[0:x]: greatest sequence number, latest insert among equals; -1 = not found
func (s *concScen) specGet(key []byte, x int) int {
	best := -1
	for _, i := range s.byKey[string(key)] {
		if i >= x {
			break
		}
		if best < 0 || s.ops[i].seq >= s.ops[best].seq {
			best = i
		}
	}
	return best
}

func (s *concScen) checkGet(what string, key, v []byte, found bool, c0, s1 int, lockFree bool) {
	atomic.AddInt64(&s.gets, 1)
	for x := c0; x <= s1; x++ {
		b := s.specGet(key, x)
		switch {
		case b < 0:
			if !found {
				return
			}
		case s.ops[b].val == nil:
			if found && v == nil {
				return
			}
		default:
			if found && v != nil && bytes.Equal(v, s.ops[b].val) {
				return
			}
		}
	}
	b := s.specGet(key, c0)
	if !found && b >= 0 && lockFree {
		s.bad("find-missed", "%s: Get(%x) = not found although insert #%d (seq %d) had returned before the call", what, key, b, s.ops[b].seq)
		return
	}
	s.bad("get-wrong", "%s: Get(%x) = (%x, found=%v) matches no prefix ops[0:x], x in [%d,%d] (prefix %d gives insert #%d)", what, key, v, found, c0, s1, c0, b)
}

// after everything is quiet: the table is exactly the sequential level-0 list
func (s *concScen) checkFinal() {
	n := len(s.ops)
	idx := make([]int, n)
	for i := range idx {
		idx[i] = i
	}
	sort.SliceStable(idx, func(a, b int) bool {
		x, y := s.ops[idx[a]], s.ops[idx[b]]
		if c := bytes.Compare(x.key, y.key); c != 0 {
			return c < 0
		}
		if x.seq != y.seq {
			return x.seq > y.seq
		}
		return idx[a] > idx[b]
	})
	it := s.t.NewIterator()
	it.SeekToFirst()
	obs := memWalk(it, n+10)
	if len(obs) != n {
		s.bad("final", "final iteration shows %d entries, %d were inserted", len(obs), n)
		return
	}
	for j, e := range obs {
		if s.identify(e) != idx[j] {
			s.bad("final", "final iteration position %d: insert #%d expected, got #%d (key=%x seq=%d)", j, idx[j], s.identify(e), e.key, e.seq)
			return
		}
	}
	for k := range s.byKey {
		v, found := s.t.Get([]byte(k))
		s.checkGet("final", []byte(k), v, found, n, n, false)
	}
}

func (s *concScen) someTarget(r *rand.Rand) []byte {
	k := append([]byte{}, s.ops[r.Intn(len(s.ops))].key...)
	switch r.Intn(5) {
	case 0:
		k = append(k, 0)
	case 1:
		if len(k) > 1 {
			k = k[:len(k)-1]
		}
	case 2:
		k[len(k)-1]++
	}
	return k
}

// ---------- kind=step ----------

func isSkiplistSite(site string) bool {
	return site == "skiplist.insert.level" || site == "skiplist.insert.linkPrev"
}

func (s *concScen) runStep(seed int64) {
	r := rand.New(rand.NewSource(seed ^ 0x5eed))
	pause := make(chan string)
	resume := make(chan struct{})
	verifhook.Set(func(site string) {
		if isSkiplistSite(site) {
			pause <- site
			<-resume
		}
	})
	defer verifhook.Set(nil)
	const perInsert = 64
	for i := range s.ops {
		if s.failed() {
			break
		}
		// NewIterator takes the table's read lock: create the iterators before the writer holds the write lock
		its := make([]*memtable.Iterator, perInsert)
		for j := range its {
			its[j] = s.t.NewIterator()
		}
		used := 0
		next := func() *memtable.Iterator {
			if used >= len(its) {
				return nil
			}
			used++
			return its[used-1]
		}
		observe := func(at string, c0, s1 int) {
			if it := next(); it != nil {
				it.SeekToFirst()
				atomic.AddInt64(&s.iters, 1)
				s.checkTraversal(fmt.Sprintf("step#%d@%s iterate", i, at), memWalk(it, len(s.ops)+10), nil, c0, s1)
			}
			if it := next(); it != nil {
				t := s.someTarget(r)
				it.Seek(t)
				atomic.AddInt64(&s.seeks, 1)
				s.checkTraversal(fmt.Sprintf("step#%d@%s seek", i, at), memWalk(it, len(s.ops)+10), t, c0, s1)
			}
		}
		done := make(chan struct{})
		go func() { s.apply(i); close(done) }()
	loop:
		for {
			select {
			case site := <-pause:
				observe(site, i, i+1)
				resume <- struct{}{}
			case <-done:
				break loop
			}
		}
		// the iterators above were created before the call (their snapshot may hide the new entry): take fresh ones
		its = []*memtable.Iterator{s.t.NewIterator(), s.t.NewIterator()}
		used = 0
		observe("done", i+1, i+1)
		k := s.ops[r.Intn(i+1)].key
		v, found := s.t.Get(k)
		s.checkGet(fmt.Sprintf("step#%d get", i), k, v, found, i+1, i+1, false)
	}
}

// ---------- kind=free / storm ----------

func (s *concScen) reader(id int, seed int64, stop *int32, fixedTarget []byte, wg *sync.WaitGroup) {
	defer wg.Done()
	defer func() {
		if p := recover(); p != nil {
			s.bad("panic", "reader %d: %v", id, p)
		}
	}()
	r := rand.New(rand.NewSource(seed + int64(id)*7919))
	extra := 3
	for !s.failed() {
		if atomic.LoadInt32(stop) != 0 {
			if extra--; extra < 0 {
				return
			}
		}
		switch c := r.Intn(10); {
		case fixedTarget != nil || c < 4:
			t := fixedTarget
			if t == nil {
				t = s.someTarget(r)
			}
			c0 := int(atomic.LoadInt64(&s.completed))
			it := s.t.NewIterator()
			it.Seek(t)
			limit := len(s.ops) + 10
			if fixedTarget != nil {
				limit = 3
			}
			obs := memWalk(it, limit)
			s1 := int(atomic.LoadInt64(&s.started))
			atomic.AddInt64(&s.seeks, 1)
			if fixedTarget != nil {
				// storm: only the landing is of interest
				if len(obs) > 0 && bytes.Compare(obs[0].key, t) < 0 {
					s.bad("seek-below-target", "reader%d: Seek(%x) landed on key %x (seq %d)", id, t, obs[0].key, obs[0].seq)
				}
				continue
			}
			s.checkTraversal(fmt.Sprintf("reader%d seek", id), obs, t, c0, s1)
		case c < 7:
			c0 := int(atomic.LoadInt64(&s.completed))
			it := s.t.NewIterator()
			it.SeekToFirst()
			obs := memWalk(it, len(s.ops)+10)
			s1 := int(atomic.LoadInt64(&s.started))
			atomic.AddInt64(&s.iters, 1)
			s.checkTraversal(fmt.Sprintf("reader%d iterate", id), obs, nil, c0, s1)
		default:
			k := s.ops[r.Intn(len(s.ops))].key
			c0 := int(atomic.LoadInt64(&s.completed))
			v, found := s.t.Get(k)
			s1 := int(atomic.LoadInt64(&s.started))
			s.checkGet(fmt.Sprintf("reader%d get", id), k, v, found, c0, s1, false)
		}
		if r.Intn(4) == 0 {
			runtime.Gosched()
		}
	}
}

// writer loop shared by free / storm: applies the ops on the calling goroutine, stops at the deadline.
// Returns the number of ops applied (s.ops itself is not touched while readers run).
func (s *concScen) writeAll() (applied int) {
	defer func() {
		if p := recover(); p != nil {
			s.bad("panic", "writer: %v", p)
		}
	}()
	deadline := time.Now().Add(patience(4 * time.Second))
	for i := range s.ops {
		if s.failed() || time.Now().After(deadline) {
			return i
		}
		s.apply(i)
		applied = i + 1
	}
	return applied
}

func (s *concScen) runFree(seed int64, readers int, fixedTarget []byte, yieldPct, sleepPct int) {
	hr := rand.New(rand.NewSource(seed ^ 0x7ace)) // used by the writer goroutine only (the handler runs in it)
	verifhook.Set(func(site string) {
		if !isSkiplistSite(site) {
			return
		}
		switch c := hr.Intn(100); {
		case c < yieldPct:
			runtime.Gosched()
		case c < yieldPct+sleepPct:
			time.Sleep(time.Duration(1+hr.Intn(30)) * time.Microsecond)
		}
	})
	defer verifhook.Set(nil)
	var stop int32
	var wg sync.WaitGroup
	for id := 0; id < readers; id++ {
		wg.Add(1)
		go s.reader(id, seed, &stop, fixedTarget, &wg)
	}
	applied := s.writeAll()
	atomic.StoreInt32(&stop, 1)
	wg.Wait()
	s.ops = s.ops[:applied]
}

func buildStorm(seed int64, n int) *concScen {
	s := &concScen{delIdx: map[string]int{}, byKey: map[string][]int{}, t: memtable.NewMemTable()}
	mk := func(i int, key []byte, seq uint64) {
		v := make([]byte, 4)
		binary.BigEndian.PutUint32(v, uint32(i))
		s.ops = append(s.ops, concOp{key: key, val: v, seq: seq})
		s.byKey[string(key)] = append(s.byKey[string(key)], i)
	}
	mk(0, []byte("zzz"), 9)
	for i := 1; i < n; i++ {
		k := make([]byte, 9)
		k[0] = 'a'
		binary.BigEndian.PutUint64(k[1:], uint64(i))
		mk(i, k, uint64(i%5))
	}
	return s
}

// ---------- kind=immut ----------

func (s *concScen) runImmut(seed int64, readers int) {
	n := len(s.ops)
	for i := 0; i < n-1; i++ {
		s.apply(i)
	}
	inflight := make(chan struct{})
	var once sync.Once
	hr := rand.New(rand.NewSource(seed ^ 0x1337))
	verifhook.Set(func(site string) {
		if !isSkiplistSite(site) {
			return
		}
		once.Do(func() { close(inflight) })
		time.Sleep(time.Duration(20+hr.Intn(80)) * time.Microsecond)
	})
	defer verifhook.Set(nil)
	done := make(chan struct{})
	go func() {
		defer close(done)
		defer func() {
			if p := recover(); p != nil {
				s.bad("panic", "writer: %v", p)
			}
		}()
		s.apply(n - 1)
	}()
	select {
	case <-inflight:
	case <-done:
	}
	s.t.SetImmutable() // from now on Get bypasses the lock: SkipList.Find runs against the insert in flight
	var wg sync.WaitGroup
	for id := 0; id < readers; id++ {
		wg.Add(1)
		go func(id int) {
			defer wg.Done()
			defer func() {
				if p := recover(); p != nil {
					s.bad("panic", "reader %d: %v", id, p)
				}
			}()
			r := rand.New(rand.NewSource(seed + int64(id)*104729))
			for rounds := 0; rounds < 4000 && !s.failed(); rounds++ {
				select {
				case <-done:
					if rounds > 50 {
						return
					}
				default:
				}
				k := s.ops[r.Intn(n)].key
				c0 := int(atomic.LoadInt64(&s.completed))
				v, found := s.t.Get(k)
				s1 := int(atomic.LoadInt64(&s.started))
				s.checkGet(fmt.Sprintf("immut reader%d get", id), k, v, found, c0, s1, true)
			}
		}(id)
	}
	wg.Wait()
	<-done
}

// ---------- executor ----------

func concInt(ws []string, name string, def int64) int64 {
	for _, w := range ws {
		if strings.HasPrefix(w, name+"=") {
			v, err := strconv.ParseInt(w[len(name)+1:], 10, 64)
			if err == nil {
				return v
			}
		}
	}
	return def
}

func concStr(ws []string, name, def string) string {
	for _, w := range ws {
		if strings.HasPrefix(w, name+"=") {
			return w[len(name)+1:]
		}
	}
	return def
}

func runConcScenario(ws []string) (out string) {
	defer func() {
		if p := recover(); p != nil {
			out = "bad panic " + strings.ReplaceAll(fmt.Sprint(p), " ", "_")
		}
		verifhook.Set(nil)
	}()
	kind := concStr(ws, "kind", "free")
	seed := concInt(ws, "seed", 1)
	n := int(concInt(ws, "n", 100))
	keys := int(concInt(ws, "keys", 4))
	readers := int(concInt(ws, "readers", 2))
	style := int(concInt(ws, "seqstyle", 0))
	if n < 1 {
		n = 1
	}
	var s *concScen
	switch kind {
	case "step":
		s = buildScenario(seed, n, keys, style)
		s.runStep(seed)
	case "free":
		s = buildScenario(seed, n, keys, style)
		s.runFree(seed, readers, nil, 30, 4)
	case "storm":
		// keys a<counter> ascending, all below the target "m"; one entry above it; small repeating sequence numbers so
		// that a new entry passes the snapshot filter of an iterator created earlier
		s = buildStorm(seed, n)
		s.runFree(seed, readers, []byte("m"), 10, 0)
	case "immut":
		s = buildScenario(seed, n, keys, style)
		s.runImmut(seed, readers)
	default:
		return "bad-op"
	}
	verifhook.Set(nil)
	if !s.failed() {
		s.checkFinal()
	}
	if s.failed() {
		return "bad " + s.fail
	}
	if s.known != "" {
		return "bad " + s.known
	}
	return fmt.Sprintf("ok kind=%s readers=%d inserts=%d obs=%d iters=%d seeks=%d gets=%d", kind, readers, len(s.ops), s.obs, s.iters, s.seeks, s.gets)
}

func runMemConc(r *runner) {
	for {
		ws, ok := r.next()
		if !ok {
			break
		}
		if ws[0] != "conc" {
			r.emit("bad-op")
			continue
		}
		r.emit(runConcScenario(ws))
	}
}
