package main

// component rorace (C16, implementation only): on a read-only engine a replication applier applies replicated puts and
// deletes (EngineApplier.Apply) while client goroutines keep calling the client mutators (Put, Delete, ApplyBatch,
// read-write transactions). No client call may ever be accepted, every replicated entry must be applied, and no client
// key may exist afterwards.
//
//   race seed=<n> entries=<n> clients=<n> deletes=<percent>

import (
	"bufio"
	"fmt"
	"strings"
	"sync"
	"sync/atomic"
	"time"

	"github.com/KevoDB/kevo/pkg/engine"
	"github.com/KevoDB/kevo/pkg/replication"
	"github.com/KevoDB/kevo/pkg/wal"
)

func init() {
	components["rorace"] = &component{gen: genRoRace, run: runRoRace}
}

func genRoRace(g *gen, n int, tier string, w *bufio.Writer) {
	for c := 0; c < n; c++ {
		fmt.Fprintf(w, "# case %d\n", c)
		fmt.Fprintf(w, "race seed=%d entries=%d clients=%d deletes=%d\n", g.intn(1<<30), g.pick(200, 600, 1500), g.pick(1, 2, 4, 8), g.pick(0, 30, 50, 100))
	}
}

func roRaceScenario(r *runner, ws []string) (out string) {
	defer func() {
		if p := recover(); p != nil {
			out = "bad panic " + strings.ReplaceAll(fmt.Sprint(p), " ", "_")
		}
	}()
	seed, entries, clients, delPct := kvInt(ws[1]), kvInt(ws[2]), kvInt(ws[3]), kvInt(ws[4])
	dir := r.tempDir()
	e, err := engine.NewEngineFacade(dir)
	if err != nil {
		return "bad open " + errTok(err)
	}
	defer e.Close()
	// some replicated keys exist before the switch (so that replicated deletes delete something)
	for i := 0; i < 40; i++ {
		if err := e.Put([]byte(fmt.Sprintf("r%04d", i)), []byte("old")); err != nil {
			return "bad put " + errTok(err)
		}
	}
	e.SetReadOnly(true)
	app := replication.NewEngineApplier(e)
	g := newGen(int64(seed))
	type ent struct {
		del bool
		k   string
		v   string
	}
	var plan []ent
	want := map[string]string{}
	for i := 0; i < 40; i++ {
		want[fmt.Sprintf("r%04d", i)] = "old"
	}
	for i := 0; i < entries; i++ {
		k := fmt.Sprintf("r%04d", g.intn(60))
		if g.intn(100) < delPct {
			plan = append(plan, ent{true, k, ""})
			delete(want, k)
		} else {
			v := fmt.Sprintf("v%d", i)
			plan = append(plan, ent{false, k, v})
			want[k] = v
		}
	}
	var stop atomic.Bool
	var accepted atomic.Int64
	var refused atomic.Int64
	var first atomic.Value
	note := func(what string, err error) {
		if err == nil {
			if accepted.Add(1) == 1 {
				first.Store(what)
			}
		} else {
			refused.Add(1)
		}
	}
	var wg sync.WaitGroup
	for c := 0; c < clients; c++ {
		wg.Add(1)
		go func(c int) {
			defer wg.Done()
			for i := 0; !stop.Load(); i++ {
				k := []byte(fmt.Sprintf("c%d-%d", c, i%50))
				switch i % 4 {
				case 0:
					note("Put", e.Put(k, []byte("client")))
				case 1:
					note("Delete", e.Delete([]byte(fmt.Sprintf("r%04d", i%60))))
				case 2:
					note("ApplyBatch", e.ApplyBatch([]*wal.Entry{{Type: wal.OpTypePut, Key: k, Value: []byte("client")}}))
				default:
					tx, err := e.BeginTransaction(false)
					if err == nil {
						if err = tx.Put(k, []byte("client")); err == nil {
							err = tx.Commit()
						} else {
							tx.Rollback()
						}
					}
					note("BeginTransaction(rw)+Put+Commit", err)
				}
			}
		}(c)
	}
	applyErr := ""
	for i, en := range plan {
		we := &wal.Entry{SequenceNumber: uint64(1000 + i), Type: wal.OpTypePut, Key: []byte(en.k), Value: []byte(en.v)}
		if en.del {
			we = &wal.Entry{SequenceNumber: uint64(1000 + i), Type: wal.OpTypeDelete, Key: []byte(en.k)}
		}
		if err := app.Apply(we); err != nil && applyErr == "" {
			applyErr = fmt.Sprintf("replicated entry #%d refused: %s", i, errTok(err))
		}
	}
	// let the clients run a little longer against the quiet engine
	time.Sleep(2 * time.Millisecond)
	stop.Store(true)
	wg.Wait()
	if !e.IsReadOnly() {
		return "bad engine-no-longer-read-only"
	}
	if applyErr != "" {
		return "bad " + strings.ReplaceAll(applyErr, " ", "_")
	}
	if n := accepted.Load(); n > 0 {
		return fmt.Sprintf("bad client-write-accepted-on-a-read-only-engine n=%d first=%v refused=%d", n, first.Load(), refused.Load())
	}
	it, err := e.GetIterator()
	if err != nil {
		return "bad iter " + errTok(err)
	}
	got := map[string]string{}
	for it.SeekToFirst(); it.Valid(); it.Next() {
		if !it.IsTombstone() {
			got[string(it.Key())] = string(it.Value())
		}
	}
	for k, v := range got {
		if wv, ok := want[k]; !ok || wv != v {
			return fmt.Sprintf("bad state key=%s got=%s want=%v/%s", hx([]byte(k)), hx([]byte(v)), ok, hx([]byte(wv)))
		}
	}
	for k := range want {
		if _, ok := got[k]; !ok {
			return "bad state missing key=" + hx([]byte(k))
		}
	}
	return fmt.Sprintf("ok applied=%d refused=%d", len(plan), refused.Load())
}

func runRoRace(r *runner) {
	wal.DisableRecoveryLogs = true
	for {
		ws, ok := r.next()
		if !ok {
			break
		}
		if ws[0] != "race" {
			r.emit("bad-op")
			continue
		}
		done := make(chan string, 1)
		go func() { done <- roRaceScenario(r, ws) }()
		select {
		case s := <-done:
			r.emit(s)
		case <-time.After(patience(120 * time.Second)):
			r.emit("bad hung (scenario did not finish within 120 s)")
		}
	}
}
