package main

// component `race` (C07): every public engine / transaction / registry / compaction-manager / statistics entry point
// mixed from 8-16 goroutines with background maintenance running, in a CHILD process (this binary re-executed with
// VERIF_RACE_CHILD set) so that a race report (GORACE exitcode=66), a runtime fatal error, a panic or a hang becomes
// a verdict line instead of killing the harness. Built with -race by the orchestrator (Comp(race=True)).
//
// Script: one case per (scenario, field query):   race seed=.. threads=.. ops=.. mem=.. yield=.. known=a,b,c field=<f|other>
//   field=<f>     -> "ok" | "race field=<f> sites=<A|B>;<C|D>..."      races whose two racing source lines both name <f>
//   field=other   -> "ok ops=.." | "bad race ..." | "bad fatal ..." | "bad panic ..." | "bad hang <op>" | "bad exit .."
// The child runs once per scenario (cached by its parameters inside one harness process).

import (
	"bufio"
	"bytes"
	"context"
	"fmt"
	"math/rand"
	"os"
	"os/exec"
	"path/filepath"
	"regexp"
	"runtime"
	"sort"
	"strings"
	"sync"
	"sync/atomic"
	"time"

	"github.com/KevoDB/kevo/pkg/sstable"
	"github.com/KevoDB/kevo/pkg/transaction"
	"github.com/KevoDB/kevo/pkg/verifhook"
	"github.com/KevoDB/kevo/pkg/wal"
)

func init() {
	components["race"] = &component{gen: genRace, run: runRace}
}

// fields with a known, recorded race get their own query case (none on the repaired tree: D21/D22/D39/D40 are fixed,
// so every race report lands in the `other` query and is a violation)
var raceKnownFields = []string{}

func genRace(g *gen, n int, tier string, w *bufio.Writer) {
	per := len(raceKnownFields) + 1
	for c := 0; c < n; c += per {
		ops := g.pick(150, 250)
		if tier == "thorough" {
			ops = g.pick(400, 800)
		}
		params := fmt.Sprintf("seed=%d threads=%d ops=%d mem=%d yield=%d known=%s", g.intn(1<<30), g.pick(8, 12, 16), ops,
			g.pick(300, 700, 2000), g.pick(10, 30, 60), strings.Join(raceKnownFields, ","))
		for i, f := range append(append([]string{}, raceKnownFields...), "other") {
			fmt.Fprintf(w, "# case %d\nrace %s field=%s\n", c+i, params, f)
		}
	}
	fmt.Fprintf(w, "# case %d\ncloseflush n=%d\n", n, 3+g.intn(5))
	// first-use races: many FRESH engines, on each a crowd of goroutines released together performs the first call of every
	// kind (lazily created counters, maps and caches are initialised under contention exactly once per engine lifetime)
	engines := 90
	if tier == "thorough" {
		engines = 1200
	}
	fmt.Fprintf(w, "# case %d\nrace cold=1 seed=%d engines=%d threads=%d field=other known=\n", n+1, g.intn(1<<30), engines, g.pick(16, 24, 32))
}

// closeFlush: Engine.Close while the flush goroutine is between the WAL pointer swap and the close of the old log (held
// there by the hook until Close has returned, at most 3 s): are the acknowledged writes in the log directory when
// Close returns? (deterministic companion of the Close / flushMemTable race; no-sync log, nothing else running)
func closeFlush(r *runner, n int) string {
	dir := r.tempDir()
	e, err := openLinEngine(dir, 1<<20, "none")
	if err != nil {
		return "bad open " + errTok(err)
	}
	for i := 0; i < n; i++ {
		if err := e.Put([]byte(fmt.Sprintf("k%d", i)), []byte(fmt.Sprintf("v%d", i))); err != nil {
			return "bad put " + errTok(err)
		}
	}
	swapped, closeDone, flushDone := make(chan struct{}), make(chan struct{}), make(chan struct{})
	var once sync.Once
	verifhook.Set(func(site string) {
		if site == "mgr.rotate.swapped" {
			once.Do(func() {
				close(swapped)
				select {
				case <-closeDone:
				case <-time.After(patience(3 * time.Second)):
				}
			})
		}
	})
	defer verifhook.Set(nil)
	go func() { e.FlushImMemTables(); close(flushDone) }()
	select {
	case <-swapped:
	case <-time.After(patience(20 * time.Second)):
		return "bad hang flush-did-not-reach-the-swap"
	}
	closeErr := e.Close()
	count := func() int {
		c := 0
		recs, _ := replayPerFile(filepath.Join(dir, "wal"))
		for _, rc := range recs {
			if rc.e.Type == wal.OpTypePut && strings.HasPrefix(string(rc.e.Value), "v") {
				c++
			}
		}
		return c
	}
	atClose := count()
	close(closeDone)
	select {
	case <-flushDone:
	case <-time.After(patience(20 * time.Second)):
		return "bad hang flush-did-not-finish"
	}
	atEnd := count()
	desc := fmt.Sprintf("acked=%d inLogWhenCloseReturned=%d inLogWhenFlushEnded=%d closeErr=%v", n, atClose, atEnd, closeErr != nil)
	switch {
	case atClose == n && atEnd == n:
		return "ok closeflush " + desc
	case atClose == 0 && atEnd == n && closeErr == nil:
		return "closeflush lost-at-close " + desc
	}
	return "bad closeflush " + desc
}

// ---------- parent: run the child, parse reports ----------

type raceEntry struct {
	field string
	sites [2]string
}

type raceResult struct {
	exit    int
	entries []raceEntry
	done    string // the child's summary line
	problem string // fatal / panic / hang / unexpected exit
}

const kevoMod = "github.com/KevoDB/kevo/"

var reFrameFn = regexp.MustCompile(`^  (\S+)\(`)
var reFrameLoc = regexp.MustCompile(`^      (\S+):(\d+)`)
var reDotIdent = regexp.MustCompile(`\.([A-Za-z_][A-Za-z0-9_]*)`)

func shortFn(fn string) string {
	fn = strings.TrimPrefix(fn, kevoMod)
	if i := strings.LastIndex(fn, "/"); i >= 0 {
		fn = fn[i+1:]
	}
	if i := strings.Index(fn, "."); i >= 0 { // drop the package name
		fn = fn[i+1:]
	}
	return strings.NewReplacer("(*", "", ")", "").Replace(fn)
}

func sourceLine(file string, line int) string {
	f, err := os.Open(file)
	if err != nil {
		return ""
	}
	defer f.Close()
	sc := bufio.NewScanner(f)
	sc.Buffer(make([]byte, 1<<20), 1<<24)
	for i := 1; sc.Scan(); i++ {
		if i == line {
			return sc.Text()
		}
	}
	return ""
}

func fieldTokens(src string) map[string]bool {
	out := map[string]bool{}
	for _, m := range reDotIdent.FindAllStringSubmatchIndex(src, -1) {
		name, end := src[m[2]:m[3]], m[3]
		if end < len(src) && src[end] == '(' && !strings.HasSuffix(src[:m[2]-1], "unsafe") {
			continue // a method or function call, not a field
		}
		out[name] = true
	}
	return out
}

// parseRaceReports: for every "WARNING: DATA RACE" block the first frame inside the module of each of the two accesses.
func parseRaceReports(text string) []raceEntry {
	var out []raceEntry
	seen := map[string]bool{}
	for _, block := range strings.Split(text, "WARNING: DATA RACE")[1:] {
		lines := strings.Split(block, "\n")
		var fns, srcs []string
		for i := 0; i < len(lines) && len(fns) < 2; i++ {
			l := lines[i]
			if !(strings.HasPrefix(l, "Read at") || strings.HasPrefix(l, "Write at") || strings.HasPrefix(l, "Previous read at") ||
				strings.HasPrefix(l, "Previous write at") || strings.HasPrefix(l, "Atomic") || strings.HasPrefix(l, "Previous atomic")) {
				continue
			}
			fn, src := "?", ""
			for j := i + 1; j+1 < len(lines) && strings.HasPrefix(lines[j], "  "); j += 2 {
				m, loc := reFrameFn.FindStringSubmatch(lines[j]), reFrameLoc.FindStringSubmatch(lines[j+1])
				if m != nil && loc != nil && strings.HasPrefix(m[1], kevoMod) && !strings.Contains(m[1], "/verifhook.") {
					fn, src = shortFn(m[1]), sourceLine(loc[1], atoi(loc[2]))
					break
				}
			}
			fns, srcs = append(fns, fn), append(srcs, src)
		}
		if len(fns) < 2 {
			fns, srcs = append(fns, "?", "?")[:2], append(srcs, "", "")[:2]
		}
		// the field: named on both racing source lines; when one access was inlined (its line is only a call site
		// and names no field) the single field named on the other line. The site functions are validated strictly
		// by the known-finding predicates (lib/findings.py).
		field := "?"
		a, b := fieldTokens(srcs[0]), fieldTokens(srcs[1])
		var common []string
		for t := range a {
			if b[t] {
				common = append(common, t)
			}
		}
		if len(common) == 0 && (len(a) == 0 || len(b) == 0) && len(a)+len(b) == 1 {
			for t := range a {
				common = append(common, t)
			}
			for t := range b {
				common = append(common, t)
			}
		}
		sort.Strings(common)
		if len(common) > 0 {
			field = strings.Join(common, "+")
		}
		sort.Strings(fns)
		e := raceEntry{field: field, sites: [2]string{fns[0], fns[1]}}
		if k := fmt.Sprint(e); !seen[k] {
			seen[k] = true
			out = append(out, e)
		}
	}
	sort.Slice(out, func(i, j int) bool { return fmt.Sprint(out[i]) < fmt.Sprint(out[j]) })
	return out
}

func firstLineWith(text string, subs ...string) string {
	for _, l := range strings.Split(text, "\n") {
		for _, s := range subs {
			if strings.Contains(l, s) {
				return strings.ReplaceAll(strings.TrimSpace(l), " ", "_")
			}
		}
	}
	return ""
}

func raceRunChild(r *runner, params string) *raceResult {
	// /proc/self/exe stays valid when the orchestrator of another check renames a rebuilt binary over ours
	exe, err := "/proc/self/exe", error(nil)
	if _, e := os.Stat(exe); e != nil {
		if exe, err = os.Executable(); err != nil {
			return &raceResult{exit: -1, problem: "bad exec " + errTok(err)}
		}
	}
	dir := r.tempDir()
	cmd := exec.Command(exe, "race", "run")
	cmd.Env = append(os.Environ(), "VERIF_RACE_CHILD="+params, "VERIF_KEEP_STDERR=1", "VERIF_RACE_DIR="+dir,
		"GORACE=halt_on_error=0 exitcode=66 history_size=3 log_path="+filepath.Join(dir, "racelog"))
	var stdout, stderr bytes.Buffer
	cmd.Stdout, cmd.Stderr = &stdout, &stderr
	cmd.Stdin = nil
	res := &raceResult{}
	if err := cmd.Start(); err != nil {
		return &raceResult{exit: -1, problem: "bad exec " + errTok(err)}
	}
	waited := make(chan error, 1)
	go func() { waited <- cmd.Wait() }()
	select {
	case err = <-waited:
	case <-time.After(patience(8 * time.Minute)):
		cmd.Process.Kill()
		<-waited
		return &raceResult{exit: -1, problem: "bad hang child-did-not-exit"}
	}
	res.exit = cmd.ProcessState.ExitCode()
	var reports strings.Builder
	logs, _ := filepath.Glob(filepath.Join(dir, "racelog.*"))
	for _, f := range logs {
		b, _ := os.ReadFile(f)
		reports.Write(b)
	}
	reports.WriteString(stderr.String())
	res.entries = parseRaceReports(reports.String())
	for _, l := range strings.Split(stdout.String(), "\n") {
		if strings.HasPrefix(l, "done ") || strings.HasPrefix(l, "hang ") || strings.HasPrefix(l, "panic ") {
			res.done = l
		}
	}
	errText := stderr.String()
	switch {
	case strings.HasPrefix(res.done, "hang "):
		res.problem = "bad " + res.done
	case strings.HasPrefix(res.done, "panic "):
		res.problem = "bad " + res.done
	case strings.Contains(errText, "fatal error:"):
		res.problem = "bad fatal " + firstLineWith(errText, "fatal error:")
	case strings.Contains(errText, "panic:"):
		res.problem = "bad panic " + firstLineWith(errText, "panic:")
	case res.exit != 0 && res.exit != 66:
		tail := errText
		if len(tail) > 300 {
			tail = tail[len(tail)-300:]
		}
		res.problem = fmt.Sprintf("bad exit %d %s", res.exit, strings.ReplaceAll(strings.TrimSpace(tail), " ", "_"))
	case !strings.HasPrefix(res.done, "done "):
		res.problem = fmt.Sprintf("bad exit %d no-summary", res.exit)
	case res.exit == 66 && len(res.entries) == 0:
		res.problem = "bad race unparsed-report"
	}
	if os.Getenv("VERIF_RACE_KEEP") != "" {
		os.WriteFile(os.Getenv("VERIF_RACE_KEEP"), []byte(reports.String()), 0644)
	}
	return res
}

func runRace(r *runner) {
	if p := os.Getenv("VERIF_RACE_CHILD"); p != "" {
		raceChild(r, parseKV(strings.Fields(p)))
		return
	}
	cache := map[string]*raceResult{}
	for {
		ws, ok := r.next()
		if !ok {
			break
		}
		if ws[0] == "closeflush" {
			r.emit(closeFlush(r, atoi(parseKV(ws[1:])["n"])))
			r.dropTemp()
			continue
		}
		if ws[0] != "race" {
			r.emit("bad-op")
			continue
		}
		kv := parseKV(ws[1:])
		var ps []string
		for _, w := range ws[1:] {
			if !strings.HasPrefix(w, "field=") && !strings.HasPrefix(w, "known=") {
				ps = append(ps, w)
			}
		}
		params := strings.Join(ps, " ")
		res := cache[params]
		if res == nil {
			res = raceRunChild(r, params)
			cache[params] = res
			r.dropTemp()
		}
		known := map[string]bool{}
		for _, k := range strings.Split(kv["known"], ",") {
			known[k] = true
		}
		var sel []string
		for _, e := range res.entries {
			if (kv["field"] == "other") != known[e.field] && (kv["field"] == "other" || e.field == kv["field"]) {
				sel = append(sel, fmt.Sprintf("%s|%s", e.sites[0], e.sites[1]))
				if kv["field"] == "other" {
					sel[len(sel)-1] = "field=" + e.field + ":" + sel[len(sel)-1]
				}
			}
		}
		switch {
		case kv["field"] == "other" && res.problem != "":
			r.emit(res.problem)
		case kv["field"] == "other" && len(sel) > 0:
			r.emit("bad race " + strings.Join(sel, ";"))
		case kv["field"] == "other":
			r.emit("ok " + strings.TrimPrefix(res.done, "done "))
		case len(sel) > 0:
			r.emit("race field=" + kv["field"] + " sites=" + strings.Join(sel, ";"))
		default:
			r.emit("ok")
		}
	}
}

// ---------- child: the workload ----------

type raceWatch struct {
	op    atomic.Value // string
	since atomic.Int64
}

// coldChild: first-use contention on fresh engines (see genRace)
func coldChild(r *runner, p map[string]string) {
	seed, threads, engines := int64(atoi(p["seed"])), atoi(p["threads"]), atoi(p["engines"])
	var total atomic.Int64
	t0 := time.Now()
	for n := 0; n < engines && time.Since(t0) < 4*time.Minute; n++ {
		dir, err := os.MkdirTemp(os.Getenv("VERIF_RACE_DIR"), "cold-")
		if err != nil {
			r.emit("panic tempdir")
			return
		}
		e, err := openLinEngine(dir, 1<<20, "none")
		if err != nil {
			r.emit("panic open_" + errTok(err))
			return
		}
		var ready, goFlag atomic.Int32
		var wg sync.WaitGroup
		kind := int(seed+int64(n)) % 6
		for t := 0; t < threads; t++ {
			wg.Add(1)
			go func(t int) {
				defer wg.Done()
				defer func() {
					if x := recover(); x != nil {
						buf := make([]byte, 1<<16)
						os.Stderr.Write(buf[:runtime.Stack(buf, false)])
						r.emit("panic " + strings.ReplaceAll(fmt.Sprint(x), " ", "_") + fmt.Sprintf("_first-use-kind=%d", kind))
						r.out.Flush()
						os.Exit(3)
					}
				}()
				ready.Add(1)
				for goFlag.Load() == 0 { // spin barrier: everybody leaves within a few hundred nanoseconds
				}
				missing := []byte(fmt.Sprintf("missing-%d", t%3))
				// every goroutine performs THE SAME first call (the window of a lazily created per-kind object is one call wide)
				switch kind {
				case 0:
					e.Get(missing)
				case 1:
					e.IsDeleted(missing)
				case 2:
					e.Put([]byte("k"), []byte("v"))
				case 3:
					e.Delete(missing)
				case 4:
					e.GetStats()
				default:
					if tx, err := e.BeginTransaction(true); err == nil {
						tx.Get(missing)
						tx.Commit()
					}
				}
				// ... followed by a mixed second round
				switch (t + n) % 5 {
				case 0:
					e.Get(missing)
				case 1:
					e.GetStats()
				case 2:
					if it, err := e.GetIterator(); err == nil {
						it.SeekToFirst()
					}
				case 3:
					e.IsDeleted(missing)
				default:
					e.Put(missing, []byte("x"))
				}
				total.Add(2)
			}(t)
		}
		for int(ready.Load()) < threads {
			runtime.Gosched()
		}
		goFlag.Store(1)
		done := make(chan struct{})
		go func() { wg.Wait(); close(done) }()
		select {
		case <-done:
		case <-time.After(patience(60 * time.Second)):
			buf := make([]byte, 4<<20)
			os.Stderr.Write(buf[:runtime.Stack(buf, true)])
			r.emit("hang first-use")
			r.out.Flush()
			os.Exit(3)
		}
		e.Close()
		os.RemoveAll(dir)
	}
	r.emit(fmt.Sprintf("done ops=%d errs=0 cold=1", total.Load()))
}

func raceChild(r *runner, p map[string]string) {
	if p["cold"] != "" {
		coldChild(r, p)
		return
	}
	seed, threads, nops := int64(atoi(p["seed"])), atoi(p["threads"]), atoi(p["ops"])
	dir, err := os.MkdirTemp(os.Getenv("VERIF_RACE_DIR"), "db-")
	if err != nil {
		r.emit("panic tempdir")
		return
	}
	e, err := openLinEngine(dir, atoi(p["mem"]), []string{"immediate", "none"}[seed%2])
	if err != nil {
		r.emit("panic open_" + errTok(err))
		return
	}
	y := &yielder{seed: uint64(seed), percent: uint64(atoi(p["yield"]))}
	verifhook.Set(y.at)
	reg := transaction.NewRegistry()
	regImpl, _ := reg.(*transaction.RegistryImpl)
	watch := make([]raceWatch, threads)
	t0 := time.Now()
	var total, errs atomic.Int64
	// watchdog: a call that does not return within the limit is a hang
	go func() {
		for {
			time.Sleep(250 * time.Millisecond)
			for i := range watch {
				if s := watch[i].since.Load(); s != 0 && int64(time.Since(t0))-s > int64(90*time.Second) {
					buf := make([]byte, 4<<20)
					os.Stderr.Write(buf[:runtime.Stack(buf, true)])
					r.emit(fmt.Sprintf("hang %v", watch[i].op.Load()))
					r.out.Flush()
					os.Exit(3)
				}
			}
		}
	}()
	var wg sync.WaitGroup
	for t := 0; t < threads; t++ {
		wg.Add(1)
		go func(t int) {
			defer wg.Done()
			rnd := rand.New(rand.NewSource(seed*977 + int64(t)))
			key := func() []byte { return []byte(fmt.Sprintf("k%02d", rnd.Intn(12))) }
			val := func() []byte {
				return []byte(fmt.Sprintf("v%d-%d-%s", t, rnd.Intn(1000), strings.Repeat("y", rnd.Intn(40))))
			}
			call := func(name string, f func() error) {
				watch[t].op.Store(name)
				watch[t].since.Store(int64(time.Since(t0)) + 1)
				err := f()
				watch[t].since.Store(0)
				total.Add(1)
				if err != nil {
					errs.Add(1)
				}
			}
			drain := func(it interface {
				SeekToFirst()
				Valid() bool
				Next() bool
				Key() []byte
				Value() []byte
			}) {
				n := 0
				for it.SeekToFirst(); it.Valid() && n < 25; it.Next() {
					_, _ = it.Key(), it.Value()
					n++
				}
			}
			for i := 0; i < nops; i++ {
				switch c := rnd.Intn(100); {
				case c < 16:
					call("Put", func() error { return e.Put(key(), val()) })
				case c < 28:
					call("Get", func() error { e.Get(key()); return nil })
				case c < 36:
					call("Delete", func() error { return e.Delete(key()) })
				case c < 40:
					call("IsDeleted", func() error { e.IsDeleted(key()); return nil })
				case c < 46:
					call("GetIterator", func() error {
						it, err := e.GetIterator()
						if err == nil {
							drain(it)
						}
						return err
					})
				case c < 51:
					call("GetRangeIterator", func() error {
						it, err := e.GetRangeIterator([]byte("k02"), []byte("k09"))
						if err == nil {
							drain(it)
						}
						return err
					})
				case c < 60: // read-write transaction through the engine
					call("BeginTransaction(rw)+ops+Commit", func() error {
						tx, err := e.BeginTransaction(false)
						if err != nil {
							return err
						}
						tx.Put(key(), val())
						if rnd.Intn(10) == 0 {
							// a record the log refuses: the commit fails as a whole and must still end the transaction
							tx.Put(key(), make([]byte, 40000))
						}
						tx.Get(key())
						tx.Delete(key())
						drain(tx.NewIterator())
						drain(tx.NewRangeIterator([]byte("k01"), []byte("k05")))
						if rnd.Intn(4) == 0 {
							return tx.Rollback()
						}
						return tx.Commit()
					})
				case c < 62: // ONE read-write transaction used by several goroutines at once (a transaction object has its own mutex: its
					// methods may be called concurrently): writes of the same keys, reads, scans
					call("BeginTransaction(rw)+shared-by-3-goroutines+Commit", func() error {
						tx, err := e.BeginTransaction(false)
						if err != nil {
							return err
						}
						ks := [][]byte{key(), key()}
						var sg sync.WaitGroup
						for w := 0; w < 3; w++ {
							sg.Add(1)
							go func(w int) {
								defer sg.Done()
								defer func() { recover() }()
								for j := 0; j < 6; j++ {
									k := ks[(w+j)%2]
									switch (w + j) % 3 {
									case 0:
										tx.Put(k, []byte(fmt.Sprintf("shared-%d-%d-%d", t, w, j)))
									case 1:
										if v, err := tx.Get(k); err == nil {
											_ = string(v) // reads the bytes
										}
									default:
										it := tx.NewIterator()
										for it.SeekToFirst(); it.Valid(); it.Next() {
											_ = string(it.Value())
										}
									}
								}
							}(w)
						}
						sg.Wait()
						return tx.Commit()
					})
				case c < 66: // read-only transaction
					call("BeginTransaction(ro)+ops+Commit", func() error {
						tx, err := e.BeginTransaction(true)
						if err != nil {
							return err
						}
						tx.Get(key())
						drain(tx.NewIterator())
						tx.IsReadOnly()
						return tx.Commit()
					})
				case c < 72:
					call("ApplyBatch", func() error {
						if rnd.Intn(10) == 0 {
							return e.ApplyBatch([]*wal.Entry{{Type: wal.OpTypePut, Key: key(), Value: val()}, {Type: wal.OpTypePut, Key: key(), Value: make([]byte, 40000)}})
						}
						return e.ApplyBatch([]*wal.Entry{{Type: wal.OpTypePut, Key: key(), Value: val()}, {Type: wal.OpTypeDelete, Key: key()},
							{Type: wal.OpTypePut, Key: key(), Value: val()}})
					})
				case c < 76:
					call("FlushImMemTables", func() error { return e.FlushImMemTables() })
				case c < 79:
					call("TriggerCompaction", func() error { e.TriggerCompaction(); return nil })
				case c < 81:
					call("CompactRange", func() error { e.CompactRange([]byte("k00"), []byte("k06")); return nil })
				case c < 85:
					call("GetStats", func() error { e.GetStats(); return nil })
				case c < 88:
					call("GetCompactionStats", func() error { _, err := e.GetCompactionStats(); return err })
				case c < 90:
					call("GetWAL", func() error { e.GetWAL(); e.IsReadOnly(); return nil })
				case c < 97: // transaction registry (the service layer's entry points)
					call("Registry.Begin+ops+Remove", func() error {
						ctx := context.WithValue(context.Background(), "peer", fmt.Sprintf("conn-%d", t))
						id, err := reg.Begin(ctx, e, rnd.Intn(2) == 0)
						if err != nil {
							return err
						}
						tx, ok := reg.Get(id)
						if !ok {
							return fmt.Errorf("registered transaction %s not found", id)
						}
						tx.Get(key())
						if !tx.IsReadOnly() {
							tx.Put(key(), val())
						}
						runtime.Gosched()
						tx.Get(key())
						var err2 error
						if rnd.Intn(3) == 0 {
							err2 = tx.Rollback()
						} else {
							err2 = tx.Commit()
						}
						if rnd.Intn(5) == 0 {
							reg.CleanupConnection(fmt.Sprintf("conn-%d", t))
						} else {
							reg.Remove(id)
						}
						return err2
					})
				default:
					call("Registry.CleanupStaleTransactions", func() error {
						if regImpl != nil {
							regImpl.CleanupStaleTransactions()
						}
						return nil
					})
				}
			}
		}(t)
	}
	wg.Wait()
	// phase 2: readers only, all starting at once on freshly flushed tables (no writer in between orders the readers through
	// the storage lock, so unsynchronised state on the read path - block cache, reader, iterators - is visible to the detector)
	for round := 0; round < 3; round++ {
		for i := 0; i < 12; i++ {
			e.Put([]byte(fmt.Sprintf("k%02d", i)), []byte(fmt.Sprintf("storm-%d-%d", round, i)))
		}
		e.FlushImMemTables()
		start := make(chan struct{})
		for t := 0; t < threads; t++ {
			wg.Add(1)
			go func(t int) {
				defer wg.Done()
				<-start
				watch[t].op.Store("read-storm:GetIterator/GetRangeIterator/Get")
				watch[t].since.Store(int64(time.Since(t0)) + 1)
				for j := 0; j < 4; j++ {
					if it, err := e.GetIterator(); err == nil {
						for it.SeekToFirst(); it.Valid(); it.Next() {
							_, _ = it.Key(), it.Value()
						}
					}
					if it, err := e.GetRangeIterator([]byte("k03"), []byte("k08")); err == nil {
						for it.SeekToFirst(); it.Valid(); it.Next() {
						}
					}
					e.Get([]byte(fmt.Sprintf("k%02d", (t+j)%12)))
					total.Add(3)
				}
				watch[t].since.Store(0)
			}(t)
		}
		close(start)
		wg.Wait()
	}
	// phase 3: sstable.Reader.Get (the only user of the block cache; not on an engine path) from all goroutines at once
	if ssts, _ := filepath.Glob(filepath.Join(dir, "sst", "*.sst")); len(ssts) > 0 {
		for _, path := range ssts[max(0, len(ssts)-3):] {
			rd, err := sstable.OpenReader(path)
			if err != nil {
				continue
			}
			start := make(chan struct{})
			for t := 0; t < threads; t++ {
				wg.Add(1)
				go func(t int) {
					defer wg.Done()
					<-start
					for j := 0; j < 12; j++ {
						rd.Get([]byte(fmt.Sprintf("k%02d", (t+j)%12)))
						total.Add(1)
					}
				}(t)
			}
			close(start)
			wg.Wait()
			rd.Close()
		}
	}
	verifhook.Set(nil)
	reg.GracefulShutdown(context.Background())
	nsites := 0
	y.sites.Range(func(_, _ any) bool { nsites++; return true })
	st := e.GetStats()
	e.Close()
	os.RemoveAll(dir)
	r.emit(fmt.Sprintf("done ops=%d errs=%d flushes=%v sites=%d", total.Load(), errs.Load(), st["flush_count"], nsites))
}
