package main

import (
	"bufio"
	"bytes"
	"errors"
	"fmt"
	"hash/crc32"
	"os"
	"path/filepath"
	"sort"
	"strconv"
	"strings"
	"time"

	"github.com/KevoDB/kevo/pkg/config"
	"github.com/KevoDB/kevo/pkg/engine"
	"github.com/KevoDB/kevo/pkg/engine/storage"
	"github.com/KevoDB/kevo/pkg/sstable"
	"github.com/KevoDB/kevo/pkg/wal"
)

func init() {
	components["engine"] = &component{gen: genEngine, run: runEngine}
}

// ---------- generator ----------

func (g *gen) engValue(mem int) []byte {
	if mem >= 4096 && g.chance(1, 40) {
		// sizes that put the log entry at -1/0/+1 of k record payloads (fragment boundaries), short keys assumed
		k := g.pick(1, 1, 2)
		return g.bytesN(k*32768 - 17 - g.pick(1, 2, 3, 4, 6) + g.pick(-1, 0, 1, 13, 14, 15))
	}
	switch c := g.intn(100); {
	case c < 4:
		return nil // Put(k, nil): an empty value, not a deletion
	case c < 10:
		return []byte{}
	case c < 55:
		return g.bytesN(1 + g.intn(12))
	case c < 90:
		return g.bytesN(20 + g.intn(mem/3+1))
	default:
		return g.bytesN(mem/2 + g.intn(mem+1))
	}
}

func (g *gen) engKey() []byte {
	if g.chance(1, 60) {
		return []byte{} // the empty key is a legal key
	}
	k := g.key()
	if len(k) == 0 {
		return []byte("e")
	}
	return k
}

func (g *gen) bound() string {
	if g.chance(1, 4) {
		return "-"
	}
	k := g.engKey()
	if g.chance(1, 3) {
		k = append(append([]byte{}, k...), 0)
	}
	return hx(k)
}

func genEngineOps(g *gen, w *bufio.Writer, mem int, steps int) {
	for s := 0; s < steps; s++ {
		switch x := g.intn(100); {
		case x < 34:
			fmt.Fprintln(w, join("put", hx(g.engKey()), hxv(g.engValue(mem))))
		case x < 44:
			fmt.Fprintln(w, join("del", hx(g.engKey())))
		case x < 64:
			fmt.Fprintln(w, join("get", hx(g.engKey())))
		case x < 74:
			m := 1 + g.intn(5)
			kind := "tx"
			if g.chance(1, 3) {
				kind = "batch"
			}
			parts := []string{kind, strconv.Itoa(m)}
			used := map[string]bool{}
			for i := 0; i < m; i++ {
				k := g.engKey()
				if kind == "batch" && used[string(k)] { // raw batches are applied as given: keep keys distinct
					continue
				}
				used[string(k)] = true
				if g.chance(1, 4) {
					parts = append(parts, "d", hx(k), "=")
				} else {
					bm := mem
					if bm > 8000 { // a batch entry must fit one log record (32 KB); the oversize branch belongs to C03
						bm = 8000
					}
					v := g.engValue(bm)
					if len(v) > 30000 {
						v = v[:30000]
					}
					if mem >= 4096 && g.chance(1, 6) { // transactions beyond the 64 KB log buffer
						v = g.bytesN(20000 + g.intn(10000))
					}
					parts = append(parts, "p", hx(k), hxv(v))
				}
			}
			parts[1] = strconv.Itoa((len(parts) - 2) / 3)
			fmt.Fprintln(w, strings.Join(parts, " "))
		case x < 80:
			fmt.Fprintln(w, "flush")
		case x < 86:
			fmt.Fprintln(w, "reopen")
		case x < 96:
			fmt.Fprintln(w, join("scan", g.bound(), g.bound()))
		default:
			fmt.Fprintln(w, "dump")
		}
	}
}

func genEngine(g *gen, n int, tier string, w *bufio.Writer) {
	for c := 0; c < n; c++ {
		mem := g.pick(64, 128, 200, 512, 1024, 4096, 1<<20)
		fmt.Fprintf(w, "# case %d\n", c)
		if g.chance(1, 8) {
			fmt.Fprintf(w, "open mem=%d walmax=1\n", mem)
		} else {
			fmt.Fprintf(w, "open mem=%d\n", mem)
		}
		genEngineOps(g, w, mem, 10+g.intn(50))
		fmt.Fprintln(w, "dump")
		fmt.Fprintln(w, "scan - -")
		fmt.Fprintln(w, "reopen")
		fmt.Fprintln(w, "scan - -")
		for _, k := range keyAlphabet[:8] {
			fmt.Fprintln(w, join("get", hx(k)))
		}
	}
}

// ---------- executor ----------

type engRun struct {
	r      *runner
	dir    string
	e      *engine.EngineFacade
	walmax int64 // cfg.WALMaxSize for the next openDir with a new configuration (0 = default)
}

func (x *engRun) stat(name string) uint64 {
	v := x.e.GetStats()[name]
	switch t := v.(type) {
	case uint64:
		return t
	case int:
		return uint64(t)
	case int64:
		return uint64(t)
	}
	return 0
}

func (x *engRun) immCount() int { return int(x.stat("storage_immutable_memtable_count")) }

// wait until a background flush scheduled by the last operation has completed
func (x *engRun) quiesce(before int) {
	if n := x.immCount(); n <= before {
		// no new immutable table - but tables recovered at the last open may be waiting, and this write may have signalled the
		// background flush for them: give it a moment (on an overloaded machine the next operation overtook that flush: thorough
		// C01 seed 77, C08 seed 88). When nothing was signalled the tables stay (model and implementation agree on that).
		if n == 0 {
			return
		}
		deadline := time.Now().Add(patience(40 * time.Millisecond))
		for x.immCount() == n && time.Now().Before(deadline) {
			time.Sleep(200 * time.Microsecond)
		}
		if x.immCount() == n {
			return
		}
	}
	deadline := time.Now().Add(patience(20 * time.Second))
	for x.immCount() != 0 && time.Now().Before(deadline) {
		time.Sleep(200 * time.Microsecond)
	}
}

func (x *engRun) showW() string {
	next := uint64(0)
	if w := x.e.GetWAL(); w != nil {
		next = w.GetNextSequence()
	}
	return fmt.Sprintf("ok %d %d", x.stat("storage_last_sequence"), next)
}

func (x *engRun) openDir(mem int) error {
	cfg := config.NewDefaultConfig(x.dir)
	if mem > 0 {
		cfg.MemTableSize = int64(mem)
		cfg.MaxMemTables = 4
		cfg.MaxMemTableAge = 0
		cfg.CompactionInterval = 3600
		cfg.WALSyncMode = config.SyncNone
		if x.walmax > 0 {
			cfg.WALMaxSize = x.walmax
		}
		if err := cfg.SaveManifest(x.dir); err != nil {
			return err
		}
	}
	e, err := engine.NewEngineFacade(x.dir)
	if err != nil {
		return err
	}
	x.e = e
	return nil
}

func parseEngOps(ws []string) (out [][3]string) {
	for i := 0; i+2 < len(ws); i += 3 {
		out = append(out, [3]string{ws[i], ws[i+1], ws[i+2]})
	}
	return
}

type sstName struct {
	level, seq int
	ts         int64
	path       string
}

func listSSTs(dir string) []sstName {
	ents, _ := os.ReadDir(dir)
	var out []sstName
	for _, e := range ents {
		var s sstName
		if n, err := fmt.Sscanf(e.Name(), "%d_%06d_%020d.sst", &s.level, &s.seq, &s.ts); n == 3 && err == nil {
			s.path = filepath.Join(dir, e.Name())
			out = append(out, s)
		}
	}
	sort.Slice(out, func(i, j int) bool {
		if out[i].level != out[j].level {
			return out[i].level > out[j].level
		}
		if out[i].ts != out[j].ts {
			return out[i].ts < out[j].ts
		}
		return out[i].seq < out[j].seq
	})
	return out
}

func (x *engRun) dump() string {
	if w := x.e.GetWAL(); w != nil {
		w.Sync()
	}
	var walTxt []string
	n := 0
	wal.ReplayWALDir(filepath.Join(x.dir, "wal"), func(e *wal.Entry) error {
		walTxt = append(walTxt, fmt.Sprintf("%d:%d:%s:%s", e.Type, e.SequenceNumber, hx(e.Key), hx(e.Value)))
		n++
		return nil
	})
	files := walFiles(filepath.Join(x.dir, "wal"))
	var sstTxt, sstEnt []string
	for _, s := range listSSTs(filepath.Join(x.dir, "sst")) {
		rd, err := sstable.OpenReader(s.path)
		if err != nil {
			sstTxt = append(sstTxt, fmt.Sprintf("%d/%d/openerr", s.level, s.seq))
			continue
		}
		it := rd.NewIterator()
		var ents []string
		for it.SeekToFirst(); it.Valid(); it.Next() {
			ents = append(ents, fmt.Sprintf("%s:%s:%d", hx(it.Key()), hxv(it.Value()), it.SequenceNumber()))
		}
		rd.Close()
		sstTxt = append(sstTxt, fmt.Sprintf("%d/%d/%d", s.level, s.seq, len(ents)))
		sstEnt = append(sstEnt, strings.Join(ents, ","))
	}
	return fmt.Sprintf("dump imm=%d walfiles=%d walentries=%d walcrc=%d ssts=[%s] sstcrc=%d", x.immCount(), len(files), n,
		crc32.ChecksumIEEE([]byte(strings.Join(walTxt, ";"))), strings.Join(sstTxt, ","), crc32.ChecksumIEEE([]byte(strings.Join(sstEnt, ";"))))
}

func optBound(s string) []byte {
	if s == "-" {
		return nil
	}
	return unhx(s)
}

func (x *engRun) step(ws []string) (out string) {
	defer func() {
		if p := recover(); p != nil {
			out = "panic " + strings.ReplaceAll(fmt.Sprint(p), " ", "_")
		}
	}()
	if ws[0] != "open" && x.e == nil {
		return "closed"
	}
	switch ws[0] {
	case "open":
		if x.e != nil {
			x.e.Close()
			x.e = nil
		}
		x.r.dropTemp()
		x.dir = x.r.tempDir()
		mem, _ := strconv.Atoi(strings.TrimPrefix(ws[1], "mem="))
		x.walmax = 0
		if len(ws) > 2 && ws[2] == "walmax=1" {
			x.walmax = 1 // a log file that holds anything is too large to reuse: every open starts a new one
		}
		if err := x.openDir(mem); err != nil {
			return "err " + errTok(err)
		}
		return "ok"
	case "put", "del", "batch", "tx":
		before := x.immCount()
		var err error
		// the caller's buffers belong to the caller again as soon as the call has returned: they are overwritten at once (an
		// engine that keeps a reference to them instead of a copy shows the scribble on a later read)
		scribble := func(bs ...[]byte) {
			for _, b := range bs {
				for i := range b {
					b[i] = 0xEE
				}
			}
		}
		switch ws[0] {
		case "put":
			k, v := unhx(ws[1]), unhx(ws[2])
			err = x.e.Put(k, v)
			scribble(k, v)
		case "del":
			k := unhx(ws[1])
			err = x.e.Delete(k)
			scribble(k)
		case "batch":
			var es []*wal.Entry
			for _, o := range parseEngOps(ws[2:]) {
				if o[0] == "d" {
					es = append(es, &wal.Entry{Type: wal.OpTypeDelete, Key: unhx(o[1])})
				} else {
					es = append(es, &wal.Entry{Type: wal.OpTypePut, Key: unhx(o[1]), Value: unhx(o[2])})
				}
			}
			err = x.e.ApplyBatch(es)
			for _, e := range es {
				scribble(e.Key, e.Value)
			}
		case "tx":
			tx, e2 := x.e.BeginTransaction(false)
			if e2 != nil {
				return "err " + errTok(e2)
			}
			nops := 0
			for _, o := range parseEngOps(ws[2:]) {
				k, v := unhx(o[1]), unhx(o[2])
				if o[0] == "d" {
					err = tx.Delete(k)
				} else {
					err = tx.Put(k, v)
				}
				// the caller may reuse its buffers after the call
				for i := range k {
					k[i] ^= 0x5a
				}
				for i := range v {
					v[i] ^= 0x5a
				}
				if err != nil {
					break
				}
				// reading the transaction's own view between its writes changes nothing about what it commits (an iterator over the
				// write set is opened and drained after every other write: a cached, stale write set would be committed)
				if nops++; nops%2 == 1 {
					it := tx.NewIterator()
					for it.SeekToFirst(); it.Valid(); it.Next() {
					}
				}
			}
			if err == nil {
				err = tx.Commit()
			} else {
				tx.Rollback()
			}
		}
		if err != nil {
			return "err " + errTok(err)
		}
		x.quiesce(before)
		return x.showW()
	case "get":
		v, err := x.e.Get(unhx(ws[1]))
		if err != nil {
			if errors.Is(err, engine.ErrKeyNotFound) || errors.Is(err, storage.ErrKeyNotFound) {
				return "nf"
			}
			return "err " + errTok(err)
		}
		return "found " + hx(v)
	case "flush":
		if err := x.e.FlushImMemTables(); err != nil {
			return "err " + errTok(err)
		}
		return "ok"
	case "reopen":
		if err := x.e.Close(); err != nil {
			return "err close " + errTok(err)
		}
		x.e = nil
		if err := x.openDir(0); err != nil {
			return "err " + errTok(err)
		}
		return x.showW()
	case "scan":
		lo, hi := optBound(ws[1]), optBound(ws[2])
		var parts []string
		var err error
		it, err := x.e.GetIterator()
		if lo != nil || hi != nil {
			it, err = x.e.GetRangeIterator(lo, hi)
		}
		if err != nil {
			return "err " + errTok(err)
		}
		var prev []byte
		for it.SeekToFirst(); it.Valid(); it.Next() {
			if prev != nil && bytes.Compare(it.Key(), prev) <= 0 {
				parts = append(parts, "ORDER-VIOLATION")
				if len(parts) > 1000 { // an iterator stuck on one key never reaches the size guard below
					break
				}
			}
			prev = append([]byte{}, it.Key()...)
			if it.IsTombstone() {
				continue
			}
			parts = append(parts, hx(it.Key())+":"+hx(it.Value()))
			if len(parts) > 100000 {
				break
			}
		}
		return strings.TrimRight("scan "+strconv.Itoa(len(parts))+" "+strings.Join(parts, " "), " ")
	case "dump":
		return x.dump()
	}
	return "bad-op"
}

func errTok(err error) string { return strings.ReplaceAll(err.Error(), " ", "_") }

func runEngine(r *runner) {
	x := &engRun{r: r}
	for {
		ws, ok := r.next()
		if !ok {
			break
		}
		r.emit(x.step(ws))
	}
	if x.e != nil {
		x.e.Close()
	}
}
