package main

// component `iter` (C05): the scan path on hand-fed sources.
//
//	new                                  fresh state (first line of every case)
//	src <kind> <n> {<k> <v|->}...        a source, newest first; kind = mem (real memtable; the first one is the
//	                                     active table, later ones are immutable), sst (real SSTable file + reader),
//	                                     slice (slice-backed iterator for arbitrary/adversarial contents)
//	tx <n> {p|d <k> <v>}...              a real read-write transaction with these buffered operations
//	build hier                           composite.NewHierarchicalIterator over the adapters, in the listed order
//	build factory | range <lo> <hi>      iterator.Factory.CreateIterator / CreateRangeIterator
//	build txiter | txrange <lo> <hi>     Transaction.NewIterator / NewRangeIterator (storage backend = the factory)
//	bound <lo> <hi> | prefix <p> | suffix <s>    wrap the current iterator
//	first | last | next | seek <t> | cur         -> <ret> <valid> <key> <val> <tomb>
//	collect                                      -> collect <n> k:v...   (SeekToFirst; Valid; Next)
//	scan pre= suf= start= end= limit=            -> scan <n> k:v...      (KevoServiceServer.Scan / TxScan)

import (
	"bufio"
	"bytes"
	"fmt"
	"os"
	"path/filepath"
	"sort"
	"strconv"
	"strings"
	"time"

	"github.com/KevoDB/kevo/pkg/common/iterator"
	"github.com/KevoDB/kevo/pkg/common/iterator/bounded"
	"github.com/KevoDB/kevo/pkg/common/iterator/composite"
	"github.com/KevoDB/kevo/pkg/common/iterator/filtered"
	"github.com/KevoDB/kevo/pkg/engine/interfaces"
	engiter "github.com/KevoDB/kevo/pkg/engine/iterator"
	"github.com/KevoDB/kevo/pkg/grpc/service"
	"github.com/KevoDB/kevo/pkg/memtable"
	"github.com/KevoDB/kevo/pkg/sstable"
	"github.com/KevoDB/kevo/pkg/transaction"
	"github.com/KevoDB/kevo/pkg/wal"
	pb "github.com/KevoDB/kevo/proto/kevo"
	"google.golang.org/grpc"
)

func init() {
	components["iter"] = &component{gen: genIter, run: runIter}
}

// ---------- generator ----------

type gkv struct {
	k []byte
	v []byte // nil = deletion marker
}

func (g *gen) iterVal() []byte {
	switch c := g.intn(100); {
	case c < 25:
		return nil
	case c < 35:
		return []byte{}
	default:
		return g.bytesN(1 + g.intn(4))
	}
}

func (g *gen) iterKey() []byte {
	k := g.key()
	if len(k) == 0 {
		return []byte("e")
	}
	return k
}

// sorted source: unique ascending keys; with dups=true a key may have several versions (newest first)
func (g *gen) sortedSource(n int, dups bool) []gkv {
	m := map[string]bool{}
	var keys [][]byte
	for i := 0; i < n; i++ {
		k := g.iterKey()
		if !m[string(k)] {
			m[string(k)] = true
			keys = append(keys, k)
		}
	}
	sort.Slice(keys, func(i, j int) bool { return bytes.Compare(keys[i], keys[j]) < 0 })
	var out []gkv
	for _, k := range keys {
		out = append(out, gkv{k, g.iterVal()})
		for dups && g.chance(1, 4) {
			out = append(out, gkv{k, g.iterVal()})
		}
	}
	return out
}

func srcLine(kind string, es []gkv) string {
	parts := []string{"src", kind, strconv.Itoa(len(es))}
	for _, e := range es {
		parts = append(parts, hx(e.k), hxv(e.v))
	}
	return strings.Join(parts, " ")
}

// a target/bound derived from the keys in play: present, between (key+0x00), before first, after last, absent
func (g *gen) target(keys [][]byte) []byte {
	switch c := g.intn(10); {
	case c < 4 && len(keys) > 0:
		return keys[g.intn(len(keys))]
	case c < 6 && len(keys) > 0:
		return append(append([]byte{}, keys[g.intn(len(keys))]...), 0)
	case c < 7:
		return []byte{0}
	case c < 8:
		return []byte{0xff, 0xff, 0xff}
	default:
		return g.iterKey()
	}
}

func (g *gen) optTarget(keys [][]byte) string {
	if g.chance(1, 4) {
		return "-"
	}
	return hx(g.target(keys))
}

var iterPrefixes = []string{"key", "key1", "user:", "a", "prefix/long/shared/path/", "\xff", "m", "zz", "q"}
var iterSuffixes = []string{"1", "2", "10", "a", "\x00", "c", "m", "\xff", "/1"}

func (g *gen) cursorOps(w *bufio.Writer, keys [][]byte, n int, allowLast bool) {
	for i := 0; i < n; i++ {
		switch c := g.intn(100); {
		case c < 15:
			fmt.Fprintln(w, "first")
		case c < 45:
			fmt.Fprintln(w, "next")
		case c < 80:
			fmt.Fprintln(w, join("seek", hx(g.target(keys))))
		case c < 90 && allowLast:
			fmt.Fprintln(w, "last")
		default:
			fmt.Fprintln(w, "cur")
		}
	}
}

func (g *gen) scanLine(keys [][]byte) string {
	f := func(s string) string {
		if s == "" {
			return "-"
		}
		return hx([]byte(s))
	}
	pre, suf, start, end := "", "", "-", "-"
	switch c := g.intn(100); {
	case c < 20: // full scan
	case c < 45: // range
		start, end = g.optTarget(keys), g.optTarget(keys)
	case c < 62:
		pre = iterPrefixes[g.intn(len(iterPrefixes))]
	case c < 78:
		suf = iterSuffixes[g.intn(len(iterSuffixes))]
	case c < 94:
		pre, suf = iterPrefixes[g.intn(len(iterPrefixes))], iterSuffixes[g.intn(len(iterSuffixes))]
	default: // a filter together with bounds: the filter decides (bounds are not looked at)
		pre = iterPrefixes[g.intn(len(iterPrefixes))]
		start, end = g.optTarget(keys), g.optTarget(keys)
	}
	limit := 0
	if g.chance(1, 2) {
		limit = g.intn(6)
	}
	return fmt.Sprintf("scan pre=%s suf=%s start=%s end=%s limit=%d", f(pre), f(suf), start, end, limit)
}

func genIter(g *gen, n int, tier string, w *bufio.Writer) {
	for c := 0; c < n; c++ {
		kind := g.intn(100)
		tag := "sorted"
		switch {
		case kind < 12:
			tag = "adversarial"
		case kind < 36:
			tag = "tx"
		case kind < 42:
			tag = "boundedlast" // concentrates on SeekToLast under end bounds (repaired in 8151b8c; used everywhere else too)
		case kind < 54:
			tag = "bigsst" // tables with many restart intervals / several blocks; targets in the gaps between stored keys
		}
		fmt.Fprintf(w, "# case %d %s\n", c, tag)
		fmt.Fprintln(w, "new")
		if tag == "bigsst" {
			g.bigSstCase(w)
			continue
		}
		var keys [][]byte
		add := func(es []gkv) {
			for _, e := range es {
				keys = append(keys, e.k)
			}
		}
		nm, ns := g.intn(4), g.intn(4)
		if tag == "adversarial" {
			nm, ns = g.intn(2), g.intn(2)
		}
		for i := 0; i < nm; i++ {
			es := g.sortedSource(g.intn(7), true)
			if g.chance(1, 6) {
				es = nil
			}
			add(es)
			fmt.Fprintln(w, srcLine("mem", es))
		}
		for i := 0; i < ns; i++ {
			es := g.sortedSource(1+g.intn(7), false)
			if len(es) == 0 {
				es = []gkv{{[]byte("k"), []byte("v")}}
			}
			add(es)
			fmt.Fprintln(w, srcLine("sst", es))
		}
		if tag == "adversarial" {
			for i := 0; i < 1+g.intn(2); i++ {
				var es []gkv
				for j := g.intn(8); j > 0; j-- {
					es = append(es, gkv{g.iterKey(), g.iterVal()})
				}
				add(es)
				fmt.Fprintln(w, srcLine("slice", es))
			}
		}
		hasSlice := tag == "adversarial"
		switch tag {
		case "adversarial":
			fmt.Fprintln(w, "build hier")
			switch g.intn(4) {
			case 0:
				fmt.Fprintln(w, join("bound", g.optTarget(keys), g.optTarget(keys)))
			case 1:
				fmt.Fprintln(w, join("prefix", hx([]byte(iterPrefixes[g.intn(len(iterPrefixes))]))))
			}
			fmt.Fprintln(w, "collect")
			// no SeekToLast over slice sources: the test double goes to its last POSITION, the adapters to the first
			// version of the greatest key
			g.cursorOps(w, keys, 4+g.intn(10), false)
			fmt.Fprintln(w, "collect")
		case "tx":
			m := g.intn(6)
			parts := []string{"tx", strconv.Itoa(m)}
			for i := 0; i < m; i++ {
				k := g.iterKey()
				if g.chance(1, 2) && len(keys) > 0 {
					k = keys[g.intn(len(keys))]
				}
				keys = append(keys, k)
				if g.chance(1, 3) {
					parts = append(parts, "d", hx(k), "=")
				} else {
					v := g.iterVal()
					if v == nil {
						v = []byte{}
					}
					parts = append(parts, "p", hx(k), hx(v))
				}
			}
			fmt.Fprintln(w, strings.Join(parts, " "))
			for r := 0; r < 2; r++ {
				if g.chance(1, 2) {
					fmt.Fprintln(w, "build txiter")
				} else {
					fmt.Fprintln(w, join("build", "txrange", g.optTarget(keys), g.optTarget(keys)))
				}
				fmt.Fprintln(w, "collect")
				g.cursorOps(w, keys, 3+g.intn(6), true)
			}
			// more writes in the same transaction AFTER scans were taken from it (overwrites and deletes of keys it already
			// wrote, and new keys), then scans again: a scan always shows the write set as it is now
			if m > 0 {
				for rr := 0; rr < 1+g.intn(2); rr++ {
					m2 := 1 + g.intn(4)
					parts2 := []string{"txmore", strconv.Itoa(m2)}
					for i := 0; i < m2; i++ {
						k := keys[g.intn(len(keys))]
						if g.chance(1, 4) {
							k = g.iterKey()
							keys = append(keys, k)
						}
						if g.chance(1, 3) {
							parts2 = append(parts2, "d", hx(k), "=")
						} else {
							v := g.iterVal()
							if v == nil {
								v = []byte{}
							}
							parts2 = append(parts2, "p", hx(k), hx(v))
						}
					}
					fmt.Fprintln(w, strings.Join(parts2, " "))
					if g.chance(1, 2) {
						fmt.Fprintln(w, "build txiter")
					} else {
						fmt.Fprintln(w, join("build", "txrange", g.optTarget(keys), g.optTarget(keys)))
					}
					fmt.Fprintln(w, "collect")
				}
			}
			for r := 0; r < 3; r++ {
				fmt.Fprintln(w, g.scanLine(keys))
			}
		case "boundedlast":
			what := "range"
			if hasSlice {
				what = "range"
			}
			for r := 0; r < 3; r++ {
				fmt.Fprintln(w, join("build", what, g.optTarget(keys), hx(g.target(keys))))
				fmt.Fprintln(w, "last")
				fmt.Fprintln(w, "cur")
			}
		default:
			for r := 0; r < 2; r++ {
				switch g.intn(3) {
				case 0:
					fmt.Fprintln(w, "build hier")
				case 1:
					fmt.Fprintln(w, "build factory")
				default:
					fmt.Fprintln(w, join("build", "range", g.optTarget(keys), g.optTarget(keys)))
				}
				switch g.intn(5) {
				case 0:
					fmt.Fprintln(w, join("prefix", hx([]byte(iterPrefixes[g.intn(len(iterPrefixes))]))))
				case 1:
					fmt.Fprintln(w, join("suffix", hx([]byte(iterSuffixes[g.intn(len(iterSuffixes))]))))
				case 2:
					fmt.Fprintln(w, join("prefix", hx([]byte(iterPrefixes[g.intn(len(iterPrefixes))]))))
					fmt.Fprintln(w, join("suffix", hx([]byte(iterSuffixes[g.intn(len(iterSuffixes))]))))
				case 3:
					fmt.Fprintln(w, join("bound", g.optTarget(keys), g.optTarget(keys)))
				}
				fmt.Fprintln(w, "collect")
				g.cursorOps(w, keys, 4+g.intn(10), true)
			}
			for r := 0; r < 3; r++ {
				fmt.Fprintln(w, g.scanLine(keys))
			}
		}
	}
}

// bigSstCase: 1-2 tables of 17-150 entries with keys key%04d at even numbers (odd numbers = absent targets between
// neighbours, also across restart-interval and block boundaries); every third case has values of 600-2500 bytes so
// that the table has several data blocks; an optional small memtable shadows a few of the keys.
func (g *gen) bigSstCase(w *bufio.Writer) {
	bigVals := g.chance(1, 3)
	nt := 1 + g.intn(2)
	var keys [][]byte
	maxN := 0
	for t := 0; t < nt; t++ {
		n := 17 + g.intn(134)
		if bigVals {
			n = 17 + g.intn(50)
		}
		if n > maxN {
			maxN = n
		}
		off := 2 * g.intn(4)
		var es []gkv
		for i := 0; i < n; i++ {
			k := []byte(fmt.Sprintf("key%04d", off+2*i))
			var v []byte
			switch c := g.intn(20); {
			case c == 0:
				v = nil
			case c == 1:
				v = []byte{}
			case bigVals:
				v = bytes.Repeat([]byte{byte(0x41 + i%26)}, 600+g.intn(1900))
			default:
				v = g.bytesN(1 + g.intn(3))
			}
			es = append(es, gkv{k, v})
			keys = append(keys, k)
		}
		if t == 0 && g.chance(1, 2) { // a memtable above the tables with a few of their keys
			var ms []gkv
			for i := 0; i < n; i += 1 + g.intn(30) {
				ms = append(ms, gkv{es[i].k, g.iterVal()})
			}
			fmt.Fprintln(w, srcLine("mem", ms))
		}
		fmt.Fprintln(w, srcLine("sst", es))
	}
	tgt := func() []byte {
		i := g.intn(2*maxN + 10)
		switch g.intn(6) {
		case 0: // just below / at / above a multiple of the restart interval
			i = 2*16*(1+g.intn(1+maxN/16)) + g.pick(-3, -2, -1, 0, 1)
			if i < 0 {
				i = 1
			}
		case 1:
			return append([]byte(fmt.Sprintf("key%04d", i)), 0)
		}
		return []byte(fmt.Sprintf("key%04d", i))
	}
	for r := 0; r < 2; r++ {
		switch g.intn(3) {
		case 0:
			fmt.Fprintln(w, "build hier")
		case 1:
			fmt.Fprintln(w, "build factory")
		default:
			lo, hi := "-", "-"
			if g.chance(2, 3) {
				lo = hx(tgt())
			}
			if g.chance(2, 3) {
				hi = hx(tgt())
			}
			fmt.Fprintln(w, join("build", "range", lo, hi))
		}
		for i, n := 0, 12+g.intn(16); i < n; i++ {
			switch c := g.intn(100); {
			case c < 60:
				fmt.Fprintln(w, join("seek", hx(tgt())))
			case c < 85:
				fmt.Fprintln(w, "next")
			case c < 90:
				fmt.Fprintln(w, "last")
			case c < 94:
				fmt.Fprintln(w, "first")
			default:
				fmt.Fprintln(w, "cur")
			}
		}
		if !bigVals {
			fmt.Fprintln(w, "collect")
		}
	}
	for r := 0; r < 2; r++ {
		lo, hi := hx(tgt()), hx(tgt())
		fmt.Fprintln(w, join("scan", "pre=-", "suf=-", "start="+lo, "end="+hi, fmt.Sprintf("limit=%d", g.pick(0, 0, 3, 40))))
	}
}

// ---------- executor ----------

// sliceIter: a positional iterator over an arbitrary list (the model's `slice` source)
type sliceIter struct {
	es  []gkv
	pos int
}

func (s *sliceIter) SeekToFirst() {
	s.pos = 0
	if len(s.es) == 0 {
		s.pos = -1
	}
}
func (s *sliceIter) SeekToLast() { s.pos = len(s.es) - 1 }
func (s *sliceIter) Seek(t []byte) bool {
	s.pos = -1
	for i, e := range s.es {
		if bytes.Compare(e.k, t) >= 0 {
			s.pos = i
			break
		}
	}
	return s.Valid()
}
func (s *sliceIter) Next() bool {
	if !s.Valid() {
		return false
	}
	s.pos++
	if s.pos >= len(s.es) {
		s.pos = -1
	}
	return s.Valid()
}
func (s *sliceIter) Valid() bool { return s.pos >= 0 && s.pos < len(s.es) }
func (s *sliceIter) Key() []byte {
	if !s.Valid() {
		return nil
	}
	return s.es[s.pos].k
}
func (s *sliceIter) Value() []byte {
	if !s.Valid() {
		return nil
	}
	return s.es[s.pos].v
}
func (s *sliceIter) IsTombstone() bool { return s.Valid() && s.es[s.pos].v == nil }

type iterSrc struct {
	kind string
	es   []gkv
	mem  *memtable.MemTable
	rd   *sstable.Reader
}

type iterRun struct {
	r    *runner
	dir  string
	nsst int
	srcs []*iterSrc
	tx   transaction.Transaction
	txm  *transaction.Manager
	top  iterator.Iterator
}

func (x *iterRun) reset() {
	if x.tx != nil {
		x.tx.Rollback()
		x.tx = nil
	}
	for _, s := range x.srcs {
		if s.rd != nil {
			s.rd.Close()
		}
	}
	x.srcs, x.top, x.txm = nil, nil, nil
}

func (x *iterRun) hasSlice() bool {
	for _, s := range x.srcs {
		if s.kind == "slice" {
			return true
		}
	}
	return false
}

func (x *iterRun) adapter(s *iterSrc) iterator.Iterator {
	switch s.kind {
	case "mem":
		return memtable.NewIteratorAdapter(s.mem.NewIterator())
	case "sst":
		return sstable.NewIteratorAdapter(s.rd.NewIterator())
	}
	return &sliceIter{es: s.es, pos: -1}
}

// the arguments the storage manager would pass to the factory for sources listed newest first:
// GetMemTables() = active, then immutables oldest -> newest; m.sstables = oldest -> newest
func (x *iterRun) factoryArgs() (mems []*memtable.MemTable, ssts []*sstable.Reader) {
	var imm []*memtable.MemTable
	for _, s := range x.srcs {
		switch s.kind {
		case "mem":
			if len(mems) == 0 {
				mems = append(mems, s.mem)
			} else {
				imm = append([]*memtable.MemTable{s.mem}, imm...)
			}
		case "sst":
			ssts = append([]*sstable.Reader{s.rd}, ssts...)
		}
	}
	mems = append(mems, imm...)
	return
}

func (x *iterRun) hier() iterator.Iterator {
	var its []iterator.Iterator
	for _, s := range x.srcs {
		its = append(its, x.adapter(s))
	}
	return composite.NewHierarchicalIterator(its)
}

// storage backend of the transaction manager
func (x *iterRun) GetIterator() (iterator.Iterator, error) {
	if x.hasSlice() {
		return x.hier(), nil
	}
	m, s := x.factoryArgs()
	return engiter.NewFactory().CreateIterator(m, s), nil
}
func (x *iterRun) GetRangeIterator(lo, hi []byte) (iterator.Iterator, error) {
	if x.hasSlice() {
		return bounded.NewBoundedIterator(x.hier(), lo, hi), nil
	}
	m, s := x.factoryArgs()
	return engiter.NewFactory().CreateRangeIterator(m, s, lo, hi), nil
}
func (x *iterRun) Get(key []byte) ([]byte, error)        { return nil, fmt.Errorf("not used") }
func (x *iterRun) ApplyBatch(entries []*wal.Entry) error { return fmt.Errorf("not used") }

// the service sees an engine that can only begin transactions, and a registry that knows one transaction
type iterEngine struct {
	interfaces.Engine
	x *iterRun
}

func (e iterEngine) BeginTransaction(readOnly bool) (interfaces.Transaction, error) {
	return e.x.txm.BeginTransaction(readOnly)
}

type iterRegistry struct {
	transaction.Registry
	x *iterRun
}

func (r iterRegistry) Get(id string) (transaction.Transaction, bool) { return r.x.tx, r.x.tx != nil }

type iterStream[T any] struct {
	grpc.ServerStream
	got []*T
}

func (s *iterStream[T]) Send(m *T) error {
	if len(s.got) > 20000 { // a scan that does not advance must not hang the harness
		return fmt.Errorf("RUNAWAY")
	}
	s.got = append(s.got, m)
	return nil
}

func parseGkv(ws []string) (out []gkv) {
	for i := 0; i+1 < len(ws); i += 2 {
		out = append(out, gkv{unhx(ws[i]), unhx(ws[i+1])})
	}
	return
}

func tf(b bool) string {
	if b {
		return "t"
	}
	return "f"
}

func showCursor(ret string, it iterator.Iterator) string {
	return fmt.Sprintf("%s %s %s %s %s", ret, tf(it.Valid()), hxv(it.Key()), hxv(it.Value()), tf(it.IsTombstone()))
}

func field(s string) []byte {
	v := s[strings.Index(s, "=")+1:]
	if v == "-" {
		return nil // an empty bytes field arrives as nil
	}
	return unhx(v)
}

func (x *iterRun) step(ws []string) (out string) {
	defer func() {
		if p := recover(); p != nil {
			out = "panic " + strings.ReplaceAll(fmt.Sprint(p), " ", "_")
		}
	}()
	switch ws[0] {
	case "new":
		x.reset()
		return "ok"
	case "src":
		s := &iterSrc{kind: ws[1], es: parseGkv(ws[3:])}
		switch s.kind {
		case "mem":
			s.mem = memtable.NewMemTable()
			n := len(s.es)
			for i := n - 1; i >= 0; i-- { // the first listed version of a key is the newest: highest number
				e := s.es[i]
				if e.v == nil {
					s.mem.Delete(e.k, uint64(n-i))
				} else {
					s.mem.Put(e.k, e.v, uint64(n-i))
				}
			}
			for _, o := range x.srcs {
				if o.kind == "mem" {
					s.mem.SetImmutable()
					break
				}
			}
		case "sst":
			if x.dir == "" {
				x.dir = x.r.tempDir()
			}
			x.nsst++
			p := filepath.Join(x.dir, fmt.Sprintf("s%d.sst", x.nsst))
			w, err := sstable.NewWriter(p)
			if err != nil {
				return "err"
			}
			for i, e := range s.es {
				if err := w.AddWithSequence(e.k, e.v, uint64(i+1)); err != nil {
					w.Abort()
					return "err add"
				}
			}
			if err := w.Finish(); err != nil {
				return "err finish"
			}
			rd, err := sstable.OpenReader(p)
			if err != nil {
				return "err open"
			}
			s.rd = rd
		case "slice":
		default:
			return "bad-op"
		}
		x.srcs = append(x.srcs, s)
		return "ok"
	case "tx":
		x.txm = transaction.NewManager(x, nil)
		tx, err := x.txm.BeginTransaction(false)
		if err != nil {
			return "err"
		}
		x.tx = tx
		for i := 2; i+2 < len(ws); i += 3 {
			k, v := unhx(ws[i+1]), unhx(ws[i+2])
			if ws[i] == "d" {
				err = tx.Delete(k)
			} else {
				err = tx.Put(k, v)
			}
			if err != nil {
				return "err " + errTok(err)
			}
		}
		return "ok"
	case "txmore":
		if x.tx == nil { // no tx line (a shrunk script): as the model, the transaction starts empty
			x.txm = transaction.NewManager(x, nil)
			tx, err := x.txm.BeginTransaction(false)
			if err != nil {
				return "err"
			}
			x.tx = tx
		}
		for i := 2; i+2 < len(ws); i += 3 {
			k, v := unhx(ws[i+1]), unhx(ws[i+2])
			var err error
			if ws[i] == "d" {
				err = x.tx.Delete(k)
			} else {
				err = x.tx.Put(k, v)
			}
			if err != nil {
				return "err " + errTok(err)
			}
		}
		return "ok"
	case "build":
		var lo, hi []byte
		if len(ws) == 4 {
			lo, hi = optBound(ws[2]), optBound(ws[3])
		}
		switch ws[1] {
		case "hier":
			x.top = x.hier()
		case "factory":
			x.top, _ = x.GetIterator()
		case "range":
			x.top, _ = x.GetRangeIterator(lo, hi)
		case "txiter", "txrange":
			if x.tx == nil { // no tx line: as the model, a transaction without buffered operations
				x.txm = transaction.NewManager(x, nil)
				tx, err := x.txm.BeginTransaction(false)
				if err != nil {
					return "err"
				}
				x.tx = tx
			}
			if ws[1] == "txiter" {
				x.top = x.tx.NewIterator()
			} else {
				x.top = x.tx.NewRangeIterator(lo, hi)
			}
		default:
			return "bad-op"
		}
		return "ok"
	case "bound", "prefix", "suffix", "first", "last", "next", "seek", "cur", "collect":
		if x.top == nil { // only reachable in shrunk scripts: same answer as the model
			return "bad-op"
		}
	}
	switch ws[0] {
	case "bound":
		x.top = bounded.NewBoundedIterator(x.top, optBound(ws[1]), optBound(ws[2]))
		return "ok"
	case "prefix":
		x.top = filtered.NewPrefixIterator(x.top, unhx(ws[1]))
		return "ok"
	case "suffix":
		x.top = filtered.NewSuffixIterator(x.top, unhx(ws[1]))
		return "ok"
	case "first":
		x.top.SeekToFirst()
		return showCursor("-", x.top)
	case "last":
		x.top.SeekToLast()
		return showCursor("-", x.top)
	case "next":
		r := x.top.Next()
		return showCursor(tf(r), x.top)
	case "seek":
		r := x.top.Seek(unhx(ws[1]))
		return showCursor(tf(r), x.top)
	case "cur":
		return showCursor("-", x.top)
	case "collect":
		var parts []string
		for x.top.SeekToFirst(); x.top.Valid(); x.top.Next() {
			parts = append(parts, hx(x.top.Key())+":"+hxv(x.top.Value()))
			if len(parts) > 10000 {
				parts = append(parts, "RUNAWAY")
				break
			}
		}
		return strings.TrimRight("collect "+strconv.Itoa(len(parts))+" "+strings.Join(parts, " "), " ")
	case "scan":
		limit, _ := strconv.Atoi(ws[5][strings.Index(ws[5], "=")+1:])
		if x.txm == nil {
			x.txm = transaction.NewManager(x, nil)
		}
		svc := service.NewKevoServiceServer(iterEngine{x: x}, iterRegistry{x: x}, nil)
		var parts []string
		if x.tx != nil {
			st := &iterStream[pb.TxScanResponse]{}
			err := svc.TxScan(&pb.TxScanRequest{TransactionId: "t", Prefix: field(ws[1]), Suffix: field(ws[2]), StartKey: field(ws[3]),
				EndKey: field(ws[4]), Limit: int32(limit)}, st)
			if err != nil {
				return "err " + errTok(err)
			}
			for _, m := range st.got {
				parts = append(parts, hx(m.Key)+":"+hxv(m.Value))
			}
		} else {
			st := &iterStream[pb.ScanResponse]{}
			err := svc.Scan(&pb.ScanRequest{Prefix: field(ws[1]), Suffix: field(ws[2]), StartKey: field(ws[3]),
				EndKey: field(ws[4]), Limit: int32(limit)}, st)
			if err != nil {
				return "err " + errTok(err)
			}
			for _, m := range st.got {
				parts = append(parts, hx(m.Key)+":"+hxv(m.Value))
			}
		}
		return strings.TrimRight("scan "+strconv.Itoa(len(parts))+" "+strings.Join(parts, " "), " ")
	}
	return "bad-op"
}

// in-memory cursor calls return within microseconds; building sources writes files
func iterStepTimeout(op string) time.Duration {
	switch op {
	case "new", "src", "tx", "txmore", "build":
		return 60 * time.Second
	}
	return 5 * time.Second
}

func runIter(r *runner) {
	x := &iterRun{r: r}
	for {
		ws, ok := r.next()
		if !ok {
			break
		}
		// a call that does not return (an iterator that stops advancing inside a filter loop) must not hang the
		// check: the process exits without answering, the orchestrator records a crash for this case and goes on
		done := make(chan string, 1)
		go func() { done <- x.step(ws) }()
		select {
		case out := <-done:
			r.emit(out)
		case <-time.After(iterStepTimeout(ws[0])):
			r.close()
			os.Exit(3)
		}
	}
	x.reset()
}
