package main

// Component `service` (C16, C19): drives the REAL grpc KevoServiceServer through an in-process gRPC server on a
// bufconn listener with the generated client stubs, AND the same request sequence translated to embedded calls on a
// second engine (the twin). One output line per script line:
//
//	svc=<response of the service> emb=<result of the translated embedded call(s) | - when the request was rejected
//	    by the service's own validation and therefore translates to no embedded call> [st=<pre>/<post> on errors]
//
// Script:
//	open mode=<none|disabled|standalone|primary|replica|weird> ro=<0|1> mem=<bytes> [big=1]
//	rpc <Name> <fields…>          (all 15 RPCs of the service descriptor)
//	emb <Method> <fields…>        (a facade method called directly, on both engines)
//	apply <type> <key> <value>    (replication.EngineApplier.Apply on both engines)
//	readonly on|off | dump | probe | close
//
// Byte tokens: lowercase hex, `=` empty, `-` nil, `*<n>:<hexbyte>[+<hex>]` n repetitions of a byte plus a suffix.
// Printed bytes longer than 40 are abbreviated to `#<len>.<crc32>`.

import (
	"bufio"
	"bytes"
	"context"
	"fmt"
	"hash/crc32"
	"io"
	"net"
	"os"
	"path/filepath"
	"reflect"
	"regexp"
	"sort"
	"strconv"
	"strings"
	"time"

	"github.com/KevoDB/kevo/pkg/common/iterator"
	"github.com/KevoDB/kevo/pkg/config"
	"github.com/KevoDB/kevo/pkg/engine"
	"github.com/KevoDB/kevo/pkg/engine/interfaces"
	grpcservice "github.com/KevoDB/kevo/pkg/grpc/service"
	"github.com/KevoDB/kevo/pkg/replication"
	"github.com/KevoDB/kevo/pkg/transaction"
	"github.com/KevoDB/kevo/pkg/wal"
	pb "github.com/KevoDB/kevo/proto/kevo"
	"google.golang.org/grpc"
	"google.golang.org/grpc/credentials/insecure"
	"google.golang.org/grpc/status"
	"google.golang.org/grpc/test/bufconn"
)

func init() {
	components["service"] = &component{gen: genService, run: runService}
	// same executor, generator weighted towards read-only engines (C16)
	components["replica"] = &component{gen: genReplica, run: runService}
}

// documented request limits (service.NewKevoServiceServer); the generator aims at them, the oracle knows them
// independently, the model takes them from the generated API table.
const (
	svcMaxKey   = 4096
	svcMaxValue = 10 * 1024 * 1024
	svcMaxBatch = 1000
)

const compactMarkerHex = "5f5f636f6d706163745f6d61726b65725f5f" // "__compact_marker__"

// serverMsgSize: the value cmd/kevo/server.go passes to grpc.MaxRecvMsgSize / MaxSendMsgSize (0 = it sets neither: gRPC's 4 MB default)
var reMsgConst = regexp.MustCompile(`maxMessageSize\s*=\s*(\d+)\s*\*\s*1024\s*\*\s*1024`)

func serverMsgSize() int {
	repo := os.Getenv("VERIF_REPO")
	if repo == "" {
		repo = "/repo"
	}
	b, err := os.ReadFile(filepath.Join(repo, "cmd", "kevo", "server.go"))
	if err != nil {
		return 0
	}
	src := string(b)
	if !strings.Contains(src, "grpc.MaxRecvMsgSize(maxMessageSize)") || !strings.Contains(src, "grpc.MaxSendMsgSize(maxMessageSize)") {
		return 0
	}
	m := reMsgConst.FindStringSubmatch(src)
	if m == nil {
		return 0
	}
	n, _ := strconv.Atoi(m[1])
	return n * 1024 * 1024
}

// ---------- byte tokens ----------

func bx(s string) []byte {
	if strings.HasPrefix(s, "*") {
		rest := s[1:]
		suffix := ""
		if i := strings.Index(rest, "+"); i >= 0 {
			rest, suffix = rest[:i], rest[i+1:]
		}
		parts := strings.SplitN(rest, ":", 2)
		n, err := strconv.Atoi(parts[0])
		if err != nil || len(parts) != 2 {
			panic("bad repeat token " + s)
		}
		b := unhx(parts[1])
		out := bytes.Repeat(b, n)
		if suffix != "" {
			out = append(out, unhx(suffix)...)
		}
		return out
	}
	return unhx(s)
}

func ob(b []byte) string {
	if len(b) == 0 {
		return "="
	}
	if len(b) > 40 {
		return fmt.Sprintf("#%d.%d", len(b), crc32.ChecksumIEEE(b))
	}
	return hx(b)
}

// ---------- error classes ----------

func svcErrTok(msg string) string {
	switch {
	case strings.Contains(msg, "invalid key size"):
		return "keysize"
	case strings.Contains(msg, "value too large"):
		return "valuesize"
	case strings.Contains(msg, "batch size exceeds"):
		return "batchsize"
	case strings.Contains(msg, "unknown operation type"):
		return "badop"
	case strings.Contains(msg, "transaction not found"):
		return "nohandle"
	case strings.Contains(msg, "cannot write to read-only transaction"), strings.Contains(msg, "cannot delete in read-only transaction"):
		return "rotx-svc"
	case strings.Contains(msg, "cannot write to a read-only transaction"):
		return "rotx"
	case strings.Contains(msg, "read-only mode"):
		return "readonly"
	case strings.Contains(msg, "engine is closed"):
		return "closed"
	case strings.Contains(msg, "storage is closed"):
		return "storageclosed"
	case strings.Contains(msg, "record too large"):
		return "recordtoolarge"
	case strings.Contains(msg, "already committed or rolled back"):
		return "txclosed"
	case strings.Contains(msg, "key not found"):
		return "nf"
	case strings.Contains(msg, "unsupported WAL entry type"):
		return "badentry"
	case strings.Contains(msg, "larger than max"):
		return "transport-size"
	}
	m := strings.Map(func(r rune) rune {
		if r == ' ' || r == '=' || r == '/' {
			return '_'
		}
		return r
	}, msg)
	if len(m) > 60 {
		m = m[:60]
	}
	return "other." + m
}

func errOf(err error) string {
	if err == nil {
		return "ok"
	}
	if st, ok := status.FromError(err); ok {
		return "err:" + svcErrTok(st.Message())
	}
	return "err:" + svcErrTok(err.Error())
}

// service-level validation errors: the request translates to NO embedded call
func isValidationReject(r string) bool {
	switch r {
	case "err:keysize", "err:valuesize", "err:batchsize", "err:badop", "err:nohandle", "err:transport-size":
		return true
	}
	return false
}

// ---------- the two engines, the server, the client ----------

type svcEnv struct {
	r          *runner
	a, b       *engine.EngineFacade // a: behind the service; b: embedded twin
	reg        transaction.Registry
	srv        *grpc.Server
	conn       *grpc.ClientConn
	cl         pb.KevoServiceClient
	mode       string
	mgrCfg     *replication.ManagerConfig
	appA, appB *replication.EngineApplier
	twin       map[string]interfaces.Transaction // service handle -> twin transaction
	held       map[string]bool                   // open handles (service and embedded) -> read-only?
	embA, embB map[string]interfaces.Transaction // `emb BeginTransaction` handles
	embNext    int
	closed     bool
	seq        uint64
	wedged     bool // an apply is blocked for good: the rest of the case is skipped
}

func (x *svcEnv) teardown() {
	if x.conn != nil {
		x.conn.Close()
		x.conn = nil
	}
	if x.srv != nil {
		x.srv.Stop()
		x.srv = nil
	}
	// release whatever the script left open so that Close cannot wait for a lock
	for id, tx := range x.twin {
		tx.Rollback()
		delete(x.twin, id)
	}
	for id := range x.embA {
		x.embA[id].Rollback()
		x.embB[id].Rollback()
	}
	if x.reg != nil {
		ctx, cancel := context.WithTimeout(context.Background(), 5*time.Second)
		if gs, ok := x.reg.(interface{ GracefulShutdown(context.Context) error }); ok {
			gs.GracefulShutdown(ctx)
		}
		cancel()
		x.reg = nil
	}
	if x.a != nil {
		x.a.Close()
		x.a = nil
	}
	if x.b != nil {
		x.b.Close()
		x.b = nil
	}
	x.r.dropTemp()
}

func openSvcEngine(dir string, mem int) (*engine.EngineFacade, error) {
	cfg := config.NewDefaultConfig(dir)
	cfg.MemTableSize = int64(mem)
	cfg.MaxMemTables = 4
	cfg.MaxMemTableAge = 0
	cfg.CompactionInterval = 3600
	cfg.WALSyncMode = config.SyncNone
	if err := cfg.SaveManifest(dir); err != nil {
		return nil, err
	}
	return engine.NewEngineFacade(dir)
}

func (x *svcEnv) open(ws []string) string {
	x.wedged = false
	x.teardown()
	kv := map[string]string{"mode": "none", "ro": "0", "mem": "1048576", "big": "0"}
	for _, w := range ws[1:] {
		if i := strings.Index(w, "="); i > 0 {
			kv[w[:i]] = w[i+1:]
		}
	}
	mem, _ := strconv.Atoi(kv["mem"])
	var err error
	if x.a, err = openSvcEngine(x.r.tempDir(), mem); err != nil {
		return "err " + errTok(err)
	}
	if x.b, err = openSvcEngine(x.r.tempDir(), mem); err != nil {
		return "err " + errTok(err)
	}
	x.mode = kv["mode"]
	x.twin, x.held = map[string]interfaces.Transaction{}, map[string]bool{}
	x.embA, x.embB, x.embNext = map[string]interfaces.Transaction{}, map[string]interfaces.Transaction{}, 0
	x.closed, x.seq = false, 0
	x.appA, x.appB = replication.NewEngineApplier(x.a), replication.NewEngineApplier(x.b)
	// replication manager: configured but not started (no network); GetNodeInfo only reads its configuration
	var provider grpcservice.ReplicationInfoProvider
	x.mgrCfg = nil
	switch x.mode {
	case "none":
	case "disabled":
		x.mgrCfg = replication.DefaultManagerConfig()
	default:
		x.mgrCfg = &replication.ManagerConfig{Enabled: true, Mode: x.mode, PrimaryAddr: "primary.example:50052", ListenAddr: ":50053", ForceReadOnly: true}
	}
	if x.mgrCfg != nil {
		m, err := replication.NewManager(x.a, x.mgrCfg)
		if err != nil {
			return "err " + errTok(err)
		}
		provider = m
	}
	if kv["ro"] == "1" { // what Manager.startReplica does with ForceReadOnly
		x.a.SetReadOnly(true)
		x.b.SetReadOnly(true)
	}
	x.reg = transaction.NewRegistry()
	svc := grpcservice.NewKevoServiceServer(x.a, x.reg, provider)
	lis := bufconn.Listen(1 << 20)
	var opts []grpc.ServerOption
	var dopts []grpc.DialOption
	// the server's message-size options are those of cmd/kevo/server.go (read from the source being checked: package main cannot
	// be imported); the test client accepts anything
	if n := serverMsgSize(); n > 0 {
		opts = append(opts, grpc.MaxRecvMsgSize(n), grpc.MaxSendMsgSize(n))
	}
	dopts = append(dopts, grpc.WithDefaultCallOptions(grpc.MaxCallRecvMsgSize(64<<20), grpc.MaxCallSendMsgSize(64<<20)))
	x.srv = grpc.NewServer(opts...)
	pb.RegisterKevoServiceServer(x.srv, svc)
	go x.srv.Serve(lis)
	dopts = append(dopts, grpc.WithContextDialer(func(ctx context.Context, _ string) (net.Conn, error) { return lis.DialContext(ctx) }),
		grpc.WithTransportCredentials(insecure.NewCredentials()))
	x.conn, err = grpc.NewClient("passthrough:///bufnet", dopts...)
	if err != nil {
		return "err " + errTok(err)
	}
	x.cl = pb.NewKevoServiceClient(x.conn)
	return "ok"
}

// ---------- state digest ----------

func engStat(e *engine.EngineFacade, name string) uint64 {
	switch t := e.GetStats()[name].(type) {
	case uint64:
		return t
	case int:
		return uint64(t)
	case int64:
		return uint64(t)
	}
	return 0
}

func svcQuiesce(e *engine.EngineFacade) {
	if engStat(e, "storage_immutable_memtable_count") == 0 {
		return
	}
	deadline := time.Now().Add(patience(20 * time.Second))
	for engStat(e, "storage_immutable_memtable_count") != 0 && time.Now().Before(deadline) {
		time.Sleep(200 * time.Microsecond)
	}
}

func (x *svcEnv) digest(e *engine.EngineFacade) string {
	if x.closed {
		return "closed"
	}
	it, err := e.GetIterator()
	if err != nil {
		return "err." + svcErrTok(err.Error())
	}
	var parts []string
	for it.SeekToFirst(); it.Valid(); it.Next() {
		if it.IsTombstone() {
			continue
		}
		parts = append(parts, hx(it.Key())+":"+ob(it.Value()))
	}
	return fmt.Sprintf("%d.%d.%d", len(parts), crc32.ChecksumIEEE([]byte(strings.Join(parts, ";"))), engStat(e, "storage_last_sequence"))
}

// ---------- scans ----------

type scanOpts struct {
	prefix, suffix, start, end []byte
	limit                      int32
}

func parseScan(ws []string) scanOpts {
	l, _ := strconv.ParseInt(ws[4], 10, 32)
	return scanOpts{bx(ws[0]), bx(ws[1]), bx(ws[2]), bx(ws[3]), int32(l)}
}

func nilIfEmpty(b []byte) []byte {
	if len(b) == 0 {
		return nil
	}
	return b
}

func showPairs(ps [][2][]byte) string {
	if len(ps) == 0 {
		return "scan:0"
	}
	var sb []string
	for _, p := range ps {
		sb = append(sb, hx(p[0])+":"+ob(p[1]))
	}
	return fmt.Sprintf("scan:%d:%s", len(ps), strings.Join(sb, ","))
}

// the SPECIFIED result of a scan: the live entries of the merged view that pass the filter selected by the option
// combination (prefix and suffix, prefix, suffix, [start,end), everything), in key order, at most `limit` of them.
func specScan(full func() (iterator.Iterator, error), ranged func(lo, hi []byte) (iterator.Iterator, error), o scanOpts) string {
	var it iterator.Iterator
	var err error
	pred := func(k []byte) bool { return true }
	switch {
	case len(o.prefix) > 0 && len(o.suffix) > 0:
		it, err = full()
		pred = func(k []byte) bool { return bytes.HasPrefix(k, o.prefix) && bytes.HasSuffix(k, o.suffix) }
	case len(o.prefix) > 0:
		it, err = full()
		pred = func(k []byte) bool { return bytes.HasPrefix(k, o.prefix) }
	case len(o.suffix) > 0:
		it, err = full()
		pred = func(k []byte) bool { return bytes.HasSuffix(k, o.suffix) }
	case len(o.start) > 0 || len(o.end) > 0:
		it, err = ranged(nilIfEmpty(o.start), nilIfEmpty(o.end))
	default:
		it, err = full()
	}
	if err != nil {
		return errOf(err)
	}
	var out [][2][]byte
	for it.SeekToFirst(); it.Valid(); it.Next() {
		if it.IsTombstone() || !pred(it.Key()) {
			continue
		}
		out = append(out, [2][]byte{append([]byte{}, it.Key()...), append([]byte{}, it.Value()...)})
		if o.limit > 0 && int32(len(out)) >= o.limit {
			break
		}
	}
	return showPairs(out)
}

// ---------- lock bookkeeping (Manager.txLock): an operation that could never return is not executed ----------

func (x *svcEnv) lockState() (readers int, writer bool) {
	for _, ro := range x.held {
		if ro {
			readers++
		} else {
			writer = true
		}
	}
	return
}

// needs: 'r' shared, 'w' exclusive
func (x *svcEnv) wouldBlock(need byte) bool {
	if x.closed {
		return false // BeginTransaction fails before it touches the lock
	}
	readers, writer := x.lockState()
	if need == 'w' && x.a.IsReadOnly() {
		need = 'r' // the facade downgrades
	}
	if need == 'r' {
		return writer
	}
	return writer || readers > 0
}

// ---------- rpc ----------

func (x *svcEnv) ctx() (context.Context, context.CancelFunc) {
	return context.WithTimeout(context.Background(), 60*time.Second)
}

func parseBatchOps(ws []string) (ops []*pb.Operation, raw [][3]string) {
	for i := 0; i+2 < len(ws); i += 3 {
		raw = append(raw, [3]string{ws[i], ws[i+1], ws[i+2]})
		op := &pb.Operation{Key: bx(ws[i+1]), Value: bx(ws[i+2])}
		switch ws[i] {
		case "p":
			op.Type = pb.Operation_PUT
		case "d":
			op.Type = pb.Operation_DELETE
		default:
			op.Type = pb.Operation_Type(7)
		}
		ops = append(ops, op)
	}
	return
}

func getResp(found bool, v []byte, err error) string {
	if err != nil {
		return errOf(err)
	}
	if !found {
		return "nf"
	}
	return "found:" + ob(v)
}

func embGet(v []byte, err error) string {
	if err != nil {
		r := errOf(err)
		if r == "err:nf" {
			return "nf"
		}
		return r
	}
	return "found:" + ob(v)
}

func (x *svcEnv) rpc(ws []string) (svc, emb string) {
	ctx, cancel := x.ctx()
	defer cancel()
	name, f := ws[0], ws[1:]
	emb = "-"
	switch name {
	case "Get":
		k := bx(f[0])
		resp, err := x.cl.Get(ctx, &pb.GetRequest{Key: k})
		svc = getResp(err == nil && resp.Found, respValue(resp), err)
		if !isValidationReject(svc) {
			emb = embGet(x.b.Get(k))
		}
	case "Put":
		k, v := bx(f[0]), bx(f[1])
		_, err := x.cl.Put(ctx, &pb.PutRequest{Key: k, Value: v})
		svc = errOf(err)
		if !isValidationReject(svc) {
			emb = errOf(x.b.Put(k, v))
		}
	case "Delete":
		k := bx(f[0])
		_, err := x.cl.Delete(ctx, &pb.DeleteRequest{Key: k})
		svc = errOf(err)
		if !isValidationReject(svc) {
			emb = errOf(x.b.Delete(k))
		}
	case "BatchWrite":
		ops, raw := parseBatchOps(f[1:])
		if len(ops) > 0 && len(ops) <= svcMaxBatch && x.wouldBlock('w') {
			return "blocked", "blocked"
		}
		_, err := x.cl.BatchWrite(ctx, &pb.BatchWriteRequest{Operations: ops})
		svc = errOf(err)
		if !isValidationReject(svc) {
			emb = x.twinBatch(raw)
		}
	case "Scan":
		if x.wouldBlock('r') {
			return "blocked", "blocked"
		}
		o := parseScan(f)
		st, err := x.cl.Scan(ctx, &pb.ScanRequest{Prefix: o.prefix, Suffix: o.suffix, StartKey: o.start, EndKey: o.end, Limit: o.limit})
		var ps [][2][]byte
		for err == nil {
			var m *pb.ScanResponse
			if m, err = st.Recv(); err == nil {
				ps = append(ps, [2][]byte{m.Key, m.Value})
			}
		}
		if err == io.EOF {
			svc = showPairs(ps)
		} else {
			svc = errOf(err)
		}
		emb = specScan(x.b.GetIterator, x.b.GetRangeIterator, o)
	case "BeginTransaction":
		ro := f[0] == "ro"
		need := byte('w')
		if ro {
			need = 'r'
		}
		if x.wouldBlock(need) {
			return "blocked", "blocked"
		}
		resp, err := x.cl.BeginTransaction(ctx, &pb.BeginTransactionRequest{ReadOnly: ro})
		if err != nil {
			svc = errOf(err)
			tx, e2 := x.b.BeginTransaction(ro)
			if e2 == nil {
				tx.Rollback()
			}
			emb = errOf(e2)
			return
		}
		id := resp.TransactionId
		svc = "tx:" + id
		if tx, ok := x.reg.Get(id); ok {
			x.held[id] = tx.IsReadOnly()
		}
		tx, e2 := x.b.BeginTransaction(ro)
		if e2 != nil {
			emb = errOf(e2)
			return
		}
		x.twin[id] = tx
		emb = "tx:" + id
	case "CommitTransaction", "RollbackTransaction":
		id := f[0]
		var err error
		if name == "CommitTransaction" {
			_, err = x.cl.CommitTransaction(ctx, &pb.CommitTransactionRequest{TransactionId: id})
		} else {
			_, err = x.cl.RollbackTransaction(ctx, &pb.RollbackTransactionRequest{TransactionId: id})
		}
		svc = errOf(err)
		if isValidationReject(svc) {
			return
		}
		delete(x.held, id)
		if tx, ok := x.twin[id]; ok {
			if name == "CommitTransaction" {
				emb = errOf(tx.Commit())
			} else {
				emb = errOf(tx.Rollback())
			}
			delete(x.twin, id)
		} else {
			emb = "err:twin-has-no-such-handle"
		}
	case "TxGet":
		id, k := f[0], bx(f[1])
		resp, err := x.cl.TxGet(ctx, &pb.TxGetRequest{TransactionId: id, Key: k})
		svc = getResp(err == nil && resp.Found, txRespValue(resp), err)
		if tx, ok := x.twin[id]; ok && !isValidationReject(svc) {
			emb = embGet(tx.Get(k))
		}
	case "TxPut":
		id, k, v := f[0], bx(f[1]), bx(f[2])
		_, err := x.cl.TxPut(ctx, &pb.TxPutRequest{TransactionId: id, Key: k, Value: v})
		svc = errOf(err)
		if tx, ok := x.twin[id]; ok && !isValidationReject(svc) {
			emb = errOf(tx.Put(k, v))
		}
	case "TxDelete":
		id, k := f[0], bx(f[1])
		_, err := x.cl.TxDelete(ctx, &pb.TxDeleteRequest{TransactionId: id, Key: k})
		svc = errOf(err)
		if tx, ok := x.twin[id]; ok && !isValidationReject(svc) {
			emb = errOf(tx.Delete(k))
		}
	case "TxScan":
		id := f[0]
		o := parseScan(f[1:])
		st, err := x.cl.TxScan(ctx, &pb.TxScanRequest{TransactionId: id, Prefix: o.prefix, Suffix: o.suffix, StartKey: o.start, EndKey: o.end, Limit: o.limit})
		var ps [][2][]byte
		for err == nil {
			var m *pb.TxScanResponse
			if m, err = st.Recv(); err == nil {
				ps = append(ps, [2][]byte{m.Key, m.Value})
			}
		}
		if err == io.EOF {
			svc = showPairs(ps)
		} else {
			svc = errOf(err)
		}
		if tx, ok := x.twin[id]; ok && !isValidationReject(svc) {
			emb = specScan(func() (iterator.Iterator, error) { return tx.NewIterator(), nil },
				func(lo, hi []byte) (iterator.Iterator, error) { return tx.NewRangeIterator(lo, hi), nil }, o)
		}
	case "GetStats":
		if x.wouldBlock('r') {
			return "blocked", "blocked"
		}
		resp, err := x.cl.GetStats(ctx, &pb.GetStatsRequest{})
		if err != nil {
			svc = errOf(err)
		} else {
			svc = fmt.Sprintf("stats:%d:%d", resp.KeyCount, resp.StorageSize)
		}
		it, e2 := x.b.GetIterator()
		if e2 != nil {
			emb = errOf(e2)
		} else {
			n, sz := 0, 0
			for it.SeekToFirst(); it.Valid(); it.Next() {
				if !it.IsTombstone() {
					n++
					sz += len(it.Key()) + len(it.Value())
				}
			}
			emb = fmt.Sprintf("stats:%d:%d", n, sz)
		}
	case "Compact":
		if x.wouldBlock('w') {
			return "blocked", "blocked"
		}
		_, err := x.cl.Compact(ctx, &pb.CompactRequest{Force: f[0] == "1"})
		svc = errOf(err)
		// the embedded maintenance call that corresponds to "compact" changes no data (and is allowed on a replica)
		_, e2 := x.b.GetCompactionStats()
		emb = errOf(e2)
	case "GetNodeInfo":
		resp, err := x.cl.GetNodeInfo(ctx, &pb.GetNodeInfoRequest{})
		if err != nil {
			svc = errOf(err)
		} else {
			svc = fmt.Sprintf("node:%s:%s:ro%d:replicas%d:seq%d", strings.ToLower(resp.NodeRole.String()), orDash(resp.PrimaryAddress), b2i(resp.ReadOnly), len(resp.Replicas), resp.LastSequence)
		}
		// what the node IS: configured role and primary address, the engine's flag
		role, primary, nrep := "standalone", "", 0
		if x.mgrCfg != nil {
			switch x.mgrCfg.Mode {
			case "primary":
				role, primary = "primary", x.mgrCfg.ListenAddr
			case "replica":
				role, primary, nrep = "replica", x.mgrCfg.PrimaryAddr, 1
			}
		}
		emb = fmt.Sprintf("node:%s:%s:ro%d:replicas%d:seq0", role, orDash(primary), b2i(x.b.IsReadOnly()), nrep)
	default:
		svc = "bad-op"
	}
	return
}

func respValue(r *pb.GetResponse) []byte {
	if r == nil {
		return nil
	}
	return r.Value
}

func txRespValue(r *pb.TxGetResponse) []byte {
	if r == nil {
		return nil
	}
	return r.Value
}

func orDash(s string) string {
	if s == "" {
		return "-"
	}
	return s
}

func b2i(b bool) int {
	if b {
		return 1
	}
	return 0
}

// BatchWrite translated: one read-write transaction
func (x *svcEnv) twinBatch(raw [][3]string) string {
	if len(raw) == 0 {
		return "ok"
	}
	tx, err := x.b.BeginTransaction(false)
	if err != nil {
		return errOf(err)
	}
	for _, o := range raw {
		if o[0] == "d" {
			err = tx.Delete(bx(o[1]))
		} else {
			err = tx.Put(bx(o[1]), bx(o[2]))
		}
		if err != nil {
			tx.Rollback()
			return errOf(err)
		}
	}
	return errOf(tx.Commit())
}

// ---------- emb: facade methods called directly on both engines ----------

func walEntries(ws []string) []*wal.Entry {
	var es []*wal.Entry
	for i := 0; i+2 < len(ws); i += 3 {
		if ws[i] == "d" {
			es = append(es, &wal.Entry{Type: wal.OpTypeDelete, Key: bx(ws[i+1])})
		} else {
			es = append(es, &wal.Entry{Type: wal.OpTypePut, Key: bx(ws[i+1]), Value: bx(ws[i+2])})
		}
	}
	return es
}

func (x *svcEnv) embOn(e *engine.EngineFacade, txs map[string]interfaces.Transaction, ws []string, newID string) string {
	name, f := ws[0], ws[1:]
	switch name {
	case "Put":
		return errOf(e.Put(bx(f[0]), bx(f[1])))
	case "PutInternal":
		return errOf(e.PutInternal(bx(f[0]), bx(f[1])))
	case "Delete":
		return errOf(e.Delete(bx(f[0])))
	case "DeleteInternal":
		return errOf(e.DeleteInternal(bx(f[0])))
	case "ApplyBatch":
		return errOf(e.ApplyBatch(walEntries(f[1:])))
	case "ApplyBatchInternal":
		return errOf(e.ApplyBatchInternal(walEntries(f[1:])))
	case "Get":
		return embGet(e.Get(bx(f[0])))
	case "IsDeleted":
		d, err := e.IsDeleted(bx(f[0]))
		if err != nil {
			r := errOf(err)
			if r == "err:nf" {
				return "nf"
			}
			return r
		}
		return fmt.Sprintf("deleted:%d", b2i(d))
	case "IsReadOnly":
		return fmt.Sprintf("ro%d", b2i(e.IsReadOnly()))
	case "FlushImMemTables":
		return errOf(e.FlushImMemTables())
	case "Scan":
		return specScan(e.GetIterator, e.GetRangeIterator, parseScan(f))
	case "BeginTransaction":
		tx, err := e.BeginTransaction(f[0] == "ro")
		if err != nil {
			return errOf(err)
		}
		txs[newID] = tx
		return "tx:" + newID
	case "TxPut", "TxDelete", "TxGet", "TxCommit", "TxRollback", "TxScan", "TxIsReadOnly":
		tx, ok := txs[f[0]]
		if !ok {
			return "err:nohandle"
		}
		switch name {
		case "TxPut":
			return errOf(tx.Put(bx(f[1]), bx(f[2])))
		case "TxDelete":
			return errOf(tx.Delete(bx(f[1])))
		case "TxGet":
			return embGet(tx.Get(bx(f[1])))
		case "TxIsReadOnly":
			return fmt.Sprintf("ro%d", b2i(tx.IsReadOnly()))
		case "TxScan":
			return specScan(func() (iterator.Iterator, error) { return tx.NewIterator(), nil },
				func(lo, hi []byte) (iterator.Iterator, error) { return tx.NewRangeIterator(lo, hi), nil }, parseScan(f[1:]))
		case "TxCommit":
			return errOf(tx.Commit())
		default:
			return errOf(tx.Rollback())
		}
	}
	return "bad-op"
}

func (x *svcEnv) emb(ws []string) (string, string) {
	newID := ""
	switch ws[0] {
	case "BeginTransaction":
		need := byte('w')
		if ws[1] == "ro" {
			need = 'r'
		}
		if x.wouldBlock(need) {
			return "blocked", "blocked"
		}
		x.embNext++
		newID = fmt.Sprintf("e-%d", x.embNext)
	}
	ra := x.embOn(x.a, x.embA, ws, newID)
	rb := x.embOn(x.b, x.embB, ws, newID)
	switch ws[0] {
	case "BeginTransaction":
		if tx, ok := x.embA[newID]; ok {
			x.held[newID] = tx.IsReadOnly()
		}
	case "TxCommit", "TxRollback":
		if _, ok := x.embA[ws[1]]; ok && ra != "err:txclosed" {
			delete(x.held, ws[1])
		}
	}
	return ra, rb
}

// ---------- probe: exported facade methods / RPCs this harness does not know ----------

var knownFacade = map[string]bool{"Put": true, "PutInternal": true, "Get": true, "Delete": true, "DeleteInternal": true, "IsDeleted": true,
	"GetIterator": true, "GetRangeIterator": true, "BeginTransaction": true, "ApplyBatch": true, "ApplyBatchInternal": true,
	"FlushImMemTables": true, "TriggerCompaction": true, "CompactRange": true, "GetStats": true, "GetTransactionManager": true,
	"GetCompactionStats": true, "IsReadOnly": true, "Close": true, "GetWAL": true, "SetReadOnly": true, "GetRWLock": true,
	"IncrementTxCompleted": true, "IncrementTxAborted": true}

var knownRPC = map[string]bool{"Get": true, "Put": true, "Delete": true, "BatchWrite": true, "Scan": true, "BeginTransaction": true,
	"CommitTransaction": true, "RollbackTransaction": true, "TxGet": true, "TxPut": true, "TxDelete": true, "TxScan": true,
	"GetStats": true, "Compact": true, "GetNodeInfo": true}

// call an unknown method with synthesized arguments on engine a (and b, to keep the twins equal) and report whether
// the data changed
func (x *svcEnv) probe() string {
	var fac, rpcs []string
	t := reflect.TypeOf(x.a)
	for i := 0; i < t.NumMethod(); i++ {
		m := t.Method(i)
		if knownFacade[m.Name] || strings.HasPrefix(m.Name, "Verif") {
			// (Verif*: accessors that exist only in the harness build, files guarded by the tag `verif`; the product build's
			// method set is what kvfacts tabulates)
			continue
		}
		entry := m.Name + ":nocall"
		args, ok := synthArgs(m.Type)
		if ok && !x.closed {
			pre := x.digest(x.a)
			res := callSafely(reflect.ValueOf(x.a).Method(i), args)
			callSafely(reflect.ValueOf(x.b).Method(i), args)
			post := x.digest(x.a)
			entry = fmt.Sprintf("%s:changed%d:ro%d:%s", m.Name, b2i(pre != post), b2i(x.a.IsReadOnly()), res)
		}
		fac = append(fac, entry)
	}
	for _, m := range pb.KevoService_ServiceDesc.Methods {
		if !knownRPC[m.MethodName] {
			rpcs = append(rpcs, m.MethodName)
		}
	}
	for _, m := range pb.KevoService_ServiceDesc.Streams {
		if !knownRPC[m.StreamName] {
			rpcs = append(rpcs, m.StreamName)
		}
	}
	sort.Strings(fac)
	sort.Strings(rpcs)
	return strings.TrimRight(fmt.Sprintf("probe facade=%d rpc=%d %s %s", len(fac), len(rpcs), strings.Join(fac, ","), strings.Join(rpcs, ",")), " ")
}

func synthArgs(mt reflect.Type) ([]reflect.Value, bool) {
	var args []reflect.Value
	nb := 0
	for i := 1; i < mt.NumIn(); i++ { // 0 is the receiver
		in := mt.In(i)
		switch {
		case in == reflect.TypeOf([]byte(nil)):
			nb++
			args = append(args, reflect.ValueOf([]byte(fmt.Sprintf("probe%d", nb))))
		case in.Kind() == reflect.Bool:
			args = append(args, reflect.ValueOf(false))
		case in == reflect.TypeOf([]*wal.Entry(nil)):
			args = append(args, reflect.ValueOf([]*wal.Entry{{Type: wal.OpTypePut, Key: []byte("probeb"), Value: []byte("v")}}))
		case in.Kind() == reflect.Int || in.Kind() == reflect.Int64 || in.Kind() == reflect.Uint64:
			args = append(args, reflect.Zero(in))
		case in.Kind() == reflect.String:
			args = append(args, reflect.ValueOf("probe"))
		default:
			return nil, false
		}
	}
	return args, true
}

func callSafely(m reflect.Value, args []reflect.Value) (res string) {
	defer func() {
		if p := recover(); p != nil {
			res = "panic"
		}
	}()
	out := m.Call(args)
	res = "ok"
	for _, o := range out {
		if e, ok := o.Interface().(error); ok && e != nil {
			res = "err." + svcErrTok(e.Error())
		}
	}
	return
}

// ---------- step ----------

func (x *svcEnv) step(ws []string) (out string) {
	defer func() {
		if p := recover(); p != nil {
			out = "panic " + strings.ReplaceAll(fmt.Sprint(p), " ", "_")
		}
	}()
	if ws[0] == "open" {
		return x.open(ws)
	}
	if x.a == nil {
		return "not-open"
	}
	if x.wedged {
		return "skipped" // after a blocked apply the engines are wedged: nothing more can be said about this case
	}
	line := func(s, e string, pre string) string {
		o := "svc=" + s + " emb=" + e
		if strings.HasPrefix(s, "err:") || strings.HasPrefix(e, "err:") {
			o += " st=" + pre + "/" + x.digest(x.a)
		}
		return o
	}
	switch ws[0] {
	case "rpc", "emb":
		pre := x.digest(x.a)
		// every request runs under a watchdog: the script only issues requests that the lock model says cannot wait (wouldBlock);
		// one that does not return wedges the case (the rest is skipped) instead of hanging the check
		type res struct{ s, e string }
		done := make(chan res, 1)
		go func() {
			defer func() {
				if p := recover(); p != nil {
					done <- res{"panic:" + strings.ReplaceAll(fmt.Sprint(p), " ", "_"), "-"}
				}
			}()
			var r res
			if ws[0] == "rpc" {
				r.s, r.e = x.rpc(ws[1:])
			} else {
				r.s, r.e = x.emb(ws[1:])
			}
			done <- r
		}()
		var r res
		select {
		case r = <-done:
		case <-time.After(patience(12 * time.Second)):
			x.wedged = true
			return "svc=err:hung emb=- (the request did not return within 12 s although nothing it may wait for is held)"
		}
		svcQuiesce(x.a)
		svcQuiesce(x.b)
		if r.s == "blocked" {
			return "blocked"
		}
		return line(r.s, r.e, pre)
	case "apply":
		pre := x.digest(x.a)
		t, _ := strconv.Atoi(ws[1])
		x.seq++
		mk := func() *wal.Entry {
			return &wal.Entry{SequenceNumber: x.seq, Type: uint8(t), Key: bx(ws[2]), Value: bx(ws[3])}
		}
		// a replicated apply must never wait for client transactions (C16: the replica keeps applying): 5 s watchdog
		type res struct{ s, e string }
		done := make(chan res, 1)
		go func() { done <- res{errOf(x.appA.Apply(mk())), errOf(x.appB.Apply(mk()))} }()
		select {
		case r := <-done:
			svcQuiesce(x.a)
			svcQuiesce(x.b)
			return line(r.s, r.e, pre)
		case <-time.After(patience(5 * time.Second)):
			x.wedged = true
			return "svc=err:apply-blocked emb=- (a replicated entry was not applied within 5 s: the applier waits for something a client holds)"
		}
	case "scanrace":
		return x.scanRace(ws[1:])
	case "scancancel": // scancancel <prefix>: a streaming scan whose client goes away after the first pair (the server's Send fails): the scan's
		// internal transaction must still end - the next writer is not kept waiting
		ctx, cancel := context.WithCancel(context.Background())
		st, err := x.cl.Scan(ctx, &pb.ScanRequest{Prefix: bx(ws[1])})
		if err == nil {
			_, err = st.Recv()
		}
		cancel()
		time.Sleep(150 * time.Millisecond)
		return "scancancel ok"
	case "readonly":
		x.a.SetReadOnly(ws[1] == "on")
		x.b.SetReadOnly(ws[1] == "on")
		return "ok"
	case "dump":
		return "dump svc=" + x.digest(x.a) + " emb=" + x.digest(x.b)
	case "probe":
		return x.probe()
	case "close":
		// release the script's transactions first: Close itself does not wait for them, but the twins must agree
		e1, e2 := x.a.Close(), x.b.Close()
		x.closed = true
		return "svc=" + errOf(e1) + " emb=" + errOf(e2)
	}
	return "bad-op"
}

// scanRace: `scanrace <prefix> <batch ops…>` - a streaming Scan over <prefix> whose client stops reading after the first pair,
// and a BatchWrite that rewrites the scanned keys sent WHILE the scan is open. The embedded scan runs inside a read-only
// transaction, so no commit can fall between two of its pairs: the scan shows the state before the batch (all old) - never a mix.
// The batch is applied afterwards (twin: embedded batch).
func (x *svcEnv) scanRace(ws []string) string {
	if len(ws) < 4 || x.wouldBlock('w') {
		return "bad-op"
	}
	ops, raw := parseBatchOps(ws[1:])
	newVal := map[string][]byte{}
	for _, o := range ops {
		newVal[string(o.Key)] = o.Value
	}
	ctx, cancel := x.ctx()
	defer cancel()
	st, err := x.cl.Scan(ctx, &pb.ScanRequest{Prefix: bx(ws[0])})
	if err != nil {
		return "scanrace err:" + errOf(err)
	}
	var ps [][2][]byte
	m, err := st.Recv()
	if err != nil && err != io.EOF {
		return "scanrace err:first-" + errOf(err)
	}
	empty := err == io.EOF // nothing under the prefix (a shrunk script): the batch alone
	if !empty {
		ps = append(ps, [2][]byte{m.Key, m.Value})
	}
	done := make(chan error, 1)
	go func() {
		_, err := x.cl.BatchWrite(ctx, &pb.BatchWriteRequest{Operations: ops})
		done <- err
	}()
	time.Sleep(150 * time.Millisecond) // the scan is open, its client is slow; the batch is waiting (or, wrongly, being applied)
	for !empty {
		m, err := st.Recv()
		if err != nil {
			if err != io.EOF {
				return "scanrace err:" + errOf(err)
			}
			break
		}
		ps = append(ps, [2][]byte{m.Key, m.Value})
	}
	var berr error
	select {
	case berr = <-done:
	case <-time.After(patience(20 * time.Second)):
		x.wedged = true
		return "scanrace blocked-batch"
	}
	if berr != nil {
		return "scanrace err:batch-" + errOf(berr)
	}
	x.twinBatch(raw)
	svcQuiesce(x.a)
	svcQuiesce(x.b)
	nOld, nNew := 0, 0
	for _, p := range ps {
		if nv, ok := newVal[string(p[0])]; ok && bytes.Equal(nv, p[1]) {
			nNew++
		} else {
			nOld++
		}
	}
	switch {
	case nNew == 0:
		return "scanrace atomic-old"
	case nOld == 0:
		return "scanrace atomic-new"
	}
	return fmt.Sprintf("scanrace mixed old=%d new=%d (a commit fell between two pairs of one scan)", nOld, nNew)
}

func runService(r *runner) {
	x := &svcEnv{r: r}
	for {
		ws, ok := r.next()
		if !ok {
			break
		}
		r.emit(x.step(ws))
	}
	x.teardown()
}

// ---------- generator ----------

func genService(g *gen, n int, tier string, w *bufio.Writer) {
	for c := 0; c < n; c++ {
		genServiceCase(g, c, tier, w, g.intn(100))
	}
}

func genReplica(g *gen, n int, tier string, w *bufio.Writer) {
	for c := 0; c < n; c++ {
		// flavour ranges of genServiceCase: [50,78) replica, [78,86) node information, [0,50) general
		f := 50 + g.intn(28)
		switch x := g.intn(100); {
		case x < 12:
			f = 78 + g.intn(8)
		case x < 20:
			f = g.intn(50)
		}
		genServiceCase(g, c, tier, w, f)
	}
}

var svcPrefixes = [][]byte{[]byte("a"), []byte("user:"), []byte("key"), []byte("key1"), []byte("prefix/long/shared/path/"), []byte("k"), []byte("zz"),
	[]byte("\xff"), []byte("\x00"), []byte("b"), []byte("user:1"), []byte("m"), []byte("q")}
var svcSuffixes = [][]byte{[]byte("1"), []byte("0"), []byte("10"), []byte("2"), []byte("a"), []byte("c"), []byte("\x00"), []byte("\xff"), []byte("m"), []byte("z")}

type svcGen struct {
	g       *gen
	w       *bufio.Writer
	ro      bool
	closed  bool
	nextID  int
	open    []string        // open service handles
	isRO    map[string]bool // effective mode of open handles (service and embedded)
	done    []string        // finished service handles
	embNext int
	embOpen []string
	tier    string
}

func (s *svcGen) emit(parts ...string) { fmt.Fprintln(s.w, strings.Join(parts, " ")) }

func (s *svcGen) locks() (readers int, writer bool) {
	for _, ro := range s.isRO {
		if ro {
			readers++
		} else {
			writer = true
		}
	}
	return
}
func (s *svcGen) canR() bool { _, w := s.locks(); return s.closed || !w }
func (s *svcGen) canW() bool {
	if s.ro {
		return s.canR()
	}
	r, w := s.locks()
	return s.closed || (!w && r == 0)
}

func (s *svcGen) key() string {
	g := s.g
	switch c := g.intn(100); {
	case c < 86:
		return hx(keyAlphabet[g.intn(len(keyAlphabet))])
	case c < 96:
		return hx(g.bytesN(1 + g.intn(10)))
	case c < 98:
		return "=" // empty key: rejected by the service
	default:
		return fmt.Sprintf("*%d:%02x", g.pick(svcMaxKey-1, svcMaxKey, svcMaxKey+1, 2*svcMaxKey), 0x61+g.intn(3))
	}
}

func (s *svcGen) okKey() string { return hx(keyAlphabet[s.g.intn(len(keyAlphabet))]) }

// raw batches are applied as given (one sequence number for all entries): keep the keys distinct
func (s *svcGen) twoKeys() (string, string) {
	i := s.g.intn(len(keyAlphabet))
	j := (i + 1 + s.g.intn(len(keyAlphabet)-1)) % len(keyAlphabet)
	return hx(keyAlphabet[i]), hx(keyAlphabet[j])
}

func (s *svcGen) val() string {
	g := s.g
	switch c := g.intn(100); {
	case c < 8:
		return "="
	case c < 12:
		return "-"
	case c < 80:
		return hx(g.bytesN(1 + g.intn(8)))
	case c < 95:
		return hx(g.bytesN(30 + g.intn(60)))
	default:
		return fmt.Sprintf("*%d:%02x", 200+g.intn(3000), g.intn(256))
	}
}

func (s *svcGen) scanFields() []string {
	g := s.g
	opt := func(p int, f func() string) string {
		if g.chance(p, 100) {
			return f()
		}
		return "="
	}
	bound := func() string {
		k := append([]byte{}, keyAlphabet[g.intn(len(keyAlphabet))]...)
		if g.chance(1, 3) {
			k = append(k, 0)
		}
		return hx(k)
	}
	// every one of the 16 presence combinations of (prefix, suffix, start, end) is drawn with probability >= 1/40
	prefix := opt(40, func() string { return hx(svcPrefixes[g.intn(len(svcPrefixes))]) })
	suffix := opt(35, func() string { return hx(svcSuffixes[g.intn(len(svcSuffixes))]) })
	start := opt(45, bound)
	end := opt(45, bound)
	limit := "0"
	switch c := g.intn(100); {
	case c < 45:
	case c < 85:
		limit = strconv.Itoa(1 + g.intn(4))
	case c < 93:
		limit = strconv.Itoa(10 + g.intn(100))
	default:
		limit = strconv.Itoa(-1 - g.intn(3))
	}
	return []string{prefix, suffix, start, end, limit}
}

func (s *svcGen) batch(valid bool) []string {
	g := s.g
	m := 1 + g.intn(5)
	parts := []string{"BatchWrite", strconv.Itoa(m)}
	for i := 0; i < m; i++ {
		k := s.okKey()
		if !valid && g.chance(1, 3) {
			k = s.key()
		}
		switch c := g.intn(100); {
		case c < 70:
			parts = append(parts, "p", k, s.val())
		case c < 96 || valid:
			parts = append(parts, "d", k, "=")
		default:
			parts = append(parts, "x", k, "=")
		}
	}
	return parts
}

func (s *svcGen) anyHandle() string {
	g := s.g
	switch c := g.intn(100); {
	case c < 84 && len(s.open) > 0:
		return s.open[g.intn(len(s.open))]
	case c < 92 && len(s.done) > 0:
		return s.done[g.intn(len(s.done))]
	case c < 96:
		return fmt.Sprintf("tx-%d", s.nextID+1+g.intn(50))
	default:
		return g.pickStr("bogus", "tx-0", "tx--1", "TX-1", "e-1")
	}
}

func (g *gen) pickStr(xs ...string) string { return xs[g.r.Intn(len(xs))] }

func (s *svcGen) begin(ro bool) {
	mode := "rw"
	if ro {
		mode = "ro"
	}
	s.emit("rpc", "BeginTransaction", mode)
	if s.closed {
		return
	}
	s.nextID++
	id := fmt.Sprintf("tx-%d", s.nextID)
	s.open = append(s.open, id)
	s.isRO[id] = ro || s.ro
}

func (s *svcGen) finish(id string, commit bool) {
	if commit {
		s.emit("rpc", "CommitTransaction", id)
	} else {
		s.emit("rpc", "RollbackTransaction", id)
	}
	for i, h := range s.open {
		if h == id {
			s.open = append(s.open[:i:i], s.open[i+1:]...)
			s.done = append(s.done, id)
			delete(s.isRO, id)
			break
		}
	}
}

func (s *svcGen) txOp() {
	g := s.g
	id := s.anyHandle()
	switch c := g.intn(100); {
	case c < 30:
		s.emit("rpc", "TxPut", id, s.key(), s.val())
	case c < 42:
		s.emit("rpc", "TxDelete", id, s.key())
	case c < 67:
		s.emit("rpc", "TxGet", id, s.key())
	case c < 87:
		s.emit(append([]string{"rpc", "TxScan", id}, s.scanFields()...)...)
	default:
		s.finish(id, g.chance(2, 3))
	}
}

func (s *svcGen) generalStep() {
	g := s.g
	switch c := g.intn(100); {
	case c < 16:
		s.emit("rpc", "Put", s.key(), s.val())
	case c < 22:
		s.emit("rpc", "Delete", s.key())
	case c < 32:
		s.emit("rpc", "Get", s.key())
	case c < 39:
		if s.canW() {
			s.emit(append([]string{"rpc"}, s.batch(g.chance(4, 5))...)...)
		} else {
			s.txOp()
		}
	case c < 53:
		if s.canR() {
			s.emit(append([]string{"rpc", "Scan"}, s.scanFields()...)...)
		} else {
			s.txOp()
		}
	case c < 62:
		if s.canW() && g.chance(1, 2) {
			s.begin(false)
		} else if s.canR() {
			s.begin(true)
		} else {
			s.txOp()
		}
	case c < 88:
		s.txOp()
	case c < 91:
		if s.canR() {
			s.emit("rpc", "GetStats")
		}
	case c < 93:
		if s.canW() {
			s.emit("rpc", "Compact", "0")
		}
	case c < 95:
		s.emit("rpc", "GetNodeInfo")
	case c < 97:
		s.emit("emb", "Get", s.okKey())
	default:
		s.emit("dump")
	}
}

// a client mutation attempted on a read-only engine (or any engine): every mutating entry point, embedded and remote
func (s *svcGen) mutatorStep() {
	g := s.g
	switch c := g.intn(100); {
	case c < 14:
		s.emit("rpc", "Put", s.okKey(), s.val())
	case c < 24:
		s.emit("rpc", "Delete", s.okKey())
	case c < 36:
		if s.canW() {
			s.emit(append([]string{"rpc"}, s.batch(true)...)...)
		}
	case c < 46:
		s.emit("emb", "Put", s.okKey(), s.val())
	case c < 54:
		s.emit("emb", "Delete", s.okKey())
	case c < 64:
		k1, k2 := s.twoKeys()
		s.emit("emb", "ApplyBatch", "2", "p", k1, s.val(), "d", k2, "=")
	case c < 82:
		// a read-write transaction through the service
		if s.canW() {
			s.begin(false)
			id := s.open[len(s.open)-1]
			s.emit("rpc", "TxPut", id, s.okKey(), s.val())
			if g.chance(1, 2) {
				s.emit("rpc", "TxDelete", id, s.okKey())
			}
			s.finish(id, g.chance(3, 4))
		}
	default:
		// a read-write transaction through the embedded API
		if s.canW() {
			s.embNext++
			id := fmt.Sprintf("e-%d", s.embNext)
			s.emit("emb", "BeginTransaction", "rw")
			s.emit("emb", "TxIsReadOnly", id)
			s.emit("emb", "TxPut", id, s.okKey(), s.val())
			if g.chance(1, 2) {
				s.emit("emb", "TxDelete", id, s.okKey())
			}
			if g.chance(3, 4) {
				s.emit("emb", "TxCommit", id)
			} else {
				s.emit("emb", "TxRollback", id)
			}
		}
	}
}

func (s *svcGen) replicaStep() {
	g := s.g
	switch c := g.intn(100); {
	case c < 34:
		s.mutatorStep()
	case c < 52:
		switch t := g.intn(10); {
		case t < 5:
			s.emit("apply", "1", s.okKey(), s.val())
		case t < 8:
			s.emit("apply", "2", s.okKey(), "=")
		case t < 9:
			s.emit("apply", "3", s.okKey(), s.val())
		default:
			s.emit("apply", "9", s.okKey(), s.val())
		}
	case c < 60:
		switch g.intn(3) {
		case 0:
			s.emit("emb", "PutInternal", s.okKey(), s.val())
		case 1:
			s.emit("emb", "DeleteInternal", s.okKey())
		default:
			k1, k2 := s.twoKeys()
			s.emit("emb", "ApplyBatchInternal", "2", "p", k1, s.val(), "d", k2, "=")
		}
	case c < 70:
		s.emit("rpc", "Get", s.okKey())
	case c < 80:
		if s.canR() {
			s.emit(append([]string{"rpc", "Scan"}, s.scanFields()...)...)
		}
	case c < 85:
		s.emit("emb", "Get", s.okKey())
	case c < 88:
		s.emit("emb", "IsDeleted", s.okKey())
	case c < 91:
		s.emit("emb", "IsReadOnly")
	case c < 94:
		s.emit("rpc", "GetNodeInfo")
	case c < 96:
		if s.canR() {
			s.emit("rpc", "GetStats")
		}
	case c < 98:
		s.emit("emb", "FlushImMemTables")
	default:
		if s.canW() {
			s.emit("rpc", "Compact", "0")
		}
	}
}

// raceCase: see svcEnv.scanRace
func (s *svcGen) raceCase() {
	g := s.g
	n := g.pick(300, 500, 800)
	vlen := g.pick(700, 1024, 2000)
	mk := func(b int) []string {
		parts := []string{}
		for i := 0; i < n; i++ {
			parts = append(parts, "p", hx([]byte(fmt.Sprintf("zr%04d", i))), fmt.Sprintf("*%d:%02x", vlen, b))
		}
		return parts
	}
	s.emit(append([]string{"rpc", "BatchWrite", strconv.Itoa(n)}, mk(0x6f)...)...)
	s.emit("rpc", "Get", hx([]byte("zr0001")))
	s.emit(append([]string{"scanrace", hx([]byte("zr"))}, mk(0x6e)...)...)
	s.emit("rpc", "Get", hx([]byte("zr0001")))
	s.emit("scancancel", hx([]byte("zr")))
	s.emit("rpc", "BatchWrite", "1", "p", hx([]byte("zr-after-cancel")), "01") // the write lock is free
	s.emit("rpc", "Get", hx([]byte("zr-after-cancel")))
	s.emit("rpc", "Get", hx([]byte(fmt.Sprintf("zr%04d", n-1))))
	s.emit("dump")
}

func (s *svcGen) limitsCase(big, mid bool) {
	g := s.g
	kk := func(n int) string {
		if n == 0 {
			return "="
		}
		return fmt.Sprintf("*%d:%02x", n, 0x61+g.intn(4))
	}
	sizes := []int{0, svcMaxKey - 1, svcMaxKey, svcMaxKey + 1, 2 * svcMaxKey}
	s.emit("rpc", "Put", hx([]byte("a")), hx([]byte("1")))
	for _, n := range sizes {
		k := kk(n)
		s.emit("rpc", "Put", k, s.val())
		s.emit("rpc", "Get", k)
		if g.chance(1, 2) {
			s.emit("rpc", "Delete", k)
		}
	}
	// an invalid operation in the middle of a batch: nothing of the batch may be applied
	bad := kk(g.pick(0, svcMaxKey+1))
	s.emit("rpc", "BatchWrite", "3", "p", hx([]byte("b1")), "01", "p", bad, "02", "p", hx([]byte("b3")), "03")
	s.emit("rpc", "BatchWrite", "3", "p", hx([]byte("b1")), "01", "x", hx([]byte("b2")), "02", "p", hx([]byte("b3")), "03")
	s.emit("rpc", "BatchWrite", "2", "p", kk(svcMaxKey), "01", "d", kk(svcMaxKey-1), "=")
	// the key limits hold for EVERY operation type of a batch, at every position
	for _, badd := range []string{kk(0), kk(svcMaxKey + 1)} {
		switch g.intn(3) {
		case 0:
			s.emit("rpc", "BatchWrite", "3", "d", badd, "=", "p", hx([]byte("b4")), "04", "p", hx([]byte("b5")), "05")
		case 1:
			s.emit("rpc", "BatchWrite", "3", "p", hx([]byte("b4")), "04", "d", badd, "=", "p", hx([]byte("b5")), "05")
		default:
			s.emit("rpc", "BatchWrite", "3", "p", hx([]byte("b4")), "04", "p", hx([]byte("b5")), "05", "d", badd, "=")
		}
		s.emit("rpc", "Get", hx([]byte("b4")))
		s.emit("rpc", "Scan", hx([]byte("b")), "=", "=", "=", "0")
	}
	s.emit("rpc", "Get", hx([]byte("b1")))
	s.emit("rpc", "BatchWrite", "0")
	if mid {
		// a value WITHIN the documented limit but above gRPC's default message size (4 MB): served like any other
		n := g.pick(4*1024*1024+1, 5*1024*1024, 6*1024*1024+17)
		s.emit("rpc", "Put", hx([]byte("mid")), fmt.Sprintf("*%d:%02x", n, 0x61+g.intn(3)))
		s.emit("rpc", "Get", hx([]byte("mid")))
		s.emit("rpc", "Delete", hx([]byte("mid")))
		// a batch whose message is larger than any single value may be (3 x 4 MB): it reaches the handler like any other batch
		// (where the log refuses the commit, for the service and the embedded API alike) - the transport must not be what refuses it
		s.emit("rpc", "BatchWrite", "3", "p", hx([]byte("m1")), fmt.Sprintf("*%d:61", 4*1024*1024), "p", hx([]byte("m2")), fmt.Sprintf("*%d:62", 4*1024*1024),
			"p", hx([]byte("m3")), fmt.Sprintf("*%d:63", 4*1024*1024))
		s.emit("rpc", "Get", hx([]byte("m1")))
	}
	if big {
		for _, n := range []int{svcMaxValue, svcMaxValue + 1} {
			s.emit("rpc", "Put", hx([]byte("big")), fmt.Sprintf("*%d:%02x", n, 0x41+g.intn(3)))
			s.emit("rpc", "Get", hx([]byte("big")))
		}
		// the largest single request inside the documented limits: longest key with the largest value
		s.emit("rpc", "Put", kk(svcMaxKey), fmt.Sprintf("*%d:44", svcMaxValue))
		s.emit("rpc", "BatchWrite", "2", "p", hx([]byte("c1")), "01", "p", hx([]byte("c2")), fmt.Sprintf("*%d:42", svcMaxValue+1))
		s.emit("rpc", "Get", hx([]byte("c1")))
	}
	s.begin(false)
	id := s.open[0]
	for _, n := range sizes {
		k := kk(n)
		s.emit("rpc", "TxPut", id, k, s.val())
		s.emit("rpc", "TxGet", id, k)
		s.emit("rpc", "TxDelete", id, k)
	}
	if big {
		// (only the rejected size through a transaction: a buffered value beyond one log record — 32 KB — makes the COMMIT fail
		// in the log, for the service and the embedded API alike; that limit belongs to C03/C09)
		s.emit("rpc", "TxPut", id, hx([]byte("big2")), fmt.Sprintf("*%d:43", svcMaxValue+1))
	}
	s.emit("rpc", "TxGet", id, hx([]byte("a"))) // the handle survives every rejected request
	s.emit("rpc", "TxPut", id, hx([]byte("t")), "01")
	s.finish(id, true)
	s.emit("rpc", "Get", hx([]byte("t")))
	// a commit the LOG refuses (one buffered entry larger than a log record, 32 KB): the service and the embedded API fail
	// alike, nothing is applied, and the handle is dead afterwards (every later use is refused like any finished handle)
	s.begin(false)
	id = s.open[0]
	s.emit("rpc", "TxPut", id, hx([]byte("r1")), "01")
	s.emit("rpc", "TxPut", id, hx([]byte("r2")), fmt.Sprintf("*%d:%02x", g.pick(32768-17-2+1, 40000, 70000), 0x61+g.intn(3)))
	s.emit("rpc", "TxGet", id, hx([]byte("r1")))
	s.finish(id, true)
	s.emit("rpc", "TxGet", id, hx([]byte("r1")))
	s.emit("rpc", "TxGet", id, hx([]byte("t")))
	s.emit("rpc", "TxScan", id, "=", "=", "=", "=", "0")
	s.emit("rpc", "TxPut", id, hx([]byte("r3")), "03")
	s.emit("rpc", "CommitTransaction", id)
	s.emit("rpc", "RollbackTransaction", id)
	s.emit("rpc", "Get", hx([]byte("r1")))
	s.emit("rpc", "Put", hx([]byte("r4")), "04") // the write lock was released
	s.emit("rpc", "Get", hx([]byte("r4")))
	// batch size limit last (the data set grows by a thousand keys)
	for _, n := range []int{svcMaxBatch - 1, svcMaxBatch, svcMaxBatch + 1} {
		parts := []string{"rpc", "BatchWrite", strconv.Itoa(n)}
		for i := 0; i < n; i++ {
			parts = append(parts, "p", hx([]byte(fmt.Sprintf("n%04d", i%1200))), hx([]byte{byte(n), byte(i)}))
		}
		s.emit(parts...)
		s.emit("rpc", "Scan", hx([]byte("n")), "=", "=", "=", "3")
	}
}

func genServiceCase(g *gen, c int, tier string, w *bufio.Writer, flavour int) {
	s := &svcGen{g: g, w: w, isRO: map[string]bool{}, tier: tier}
	mem := g.pick(1<<20, 1<<20, 1<<20, 1<<20, 256, 1024, 4096)
	switch {
	case flavour < 50: // general request sequences
		fmt.Fprintf(w, "# case %d general\n", c)
		s.emit("open", "mode="+g.pickStr("none", "none", "standalone", "primary"), "ro=0", fmt.Sprintf("mem=%d", mem))
		for i, n := 0, 15+g.intn(45); i < n; i++ {
			s.generalStep()
		}
		if g.chance(1, 6) && !s.closed { // a scan that is open while a batch arrives
			for _, id := range append([]string{}, s.open...) {
				s.finish(id, true)
			}
			s.raceCase()
		}
	case flavour < 78: // replica: read-only engine + replicated apply
		fmt.Fprintf(w, "# case %d replica\n", c)
		startRO := g.chance(1, 2)
		s.ro = startRO
		s.emit("open", "mode=replica", fmt.Sprintf("ro=%d", b2i(startRO)), fmt.Sprintf("mem=%d", mem))
		for i, n := 0, 3+g.intn(6); i < n; i++ {
			if startRO || g.chance(1, 2) { // also before the switch to read-only: the applier is in use while the engine is still writable
				s.emit("apply", "1", s.okKey(), s.val())
			} else {
				s.emit("rpc", "Put", s.okKey(), s.val())
			}
		}
		if !startRO {
			s.emit("rpc", "GetNodeInfo")
			s.emit("readonly", "on")
			s.ro = true
		}
		s.emit("rpc", "GetNodeInfo")
		s.emit("probe")
		for i, n := 0, 12+g.intn(30); i < n; i++ {
			s.replicaStep()
		}
		if g.chance(1, 4) { // promoted: writes are accepted again
			for _, id := range append([]string{}, s.open...) {
				s.finish(id, true)
			}
			s.emit("readonly", "off")
			s.ro = false
			s.emit("rpc", "GetNodeInfo")
			for i := 0; i < 4; i++ {
				s.mutatorStep()
			}
		}
	case flavour < 86: // node information for every constructible configuration
		fmt.Fprintf(w, "# case %d nodeinfo\n", c)
		mode := g.pickStr("none", "disabled", "standalone", "primary", "replica", "weird")
		ro := mode == "replica" && g.chance(3, 4)
		s.ro = ro
		s.emit("open", "mode="+mode, fmt.Sprintf("ro=%d", b2i(ro)), fmt.Sprintf("mem=%d", mem))
		s.emit("rpc", "GetNodeInfo")
		s.emit("rpc", "Put", s.okKey(), s.val())
		s.emit("emb", "IsReadOnly")
		if mode != "none" && mode != "disabled" {
			s.emit("readonly", "on")
			s.ro = true
			s.emit("rpc", "GetNodeInfo")
			s.emit("rpc", "Put", s.okKey(), s.val())
			s.emit("readonly", "off")
			s.ro = false
			s.emit("rpc", "GetNodeInfo")
		}
		s.emit("probe")
	case flavour < 96: // request limits
		big := tier == "thorough" && g.chance(1, 20)
		fmt.Fprintf(w, "# case %d limits\n", c)
		if big {
			s.emit("open", "mode=none", "ro=0", "mem=1048576", "big=1")
		} else {
			s.emit("open", "mode=none", "ro=0", "mem=1048576")
		}
		s.limitsCase(big, tier == "thorough" || g.chance(1, 6))
	case flavour < 98: // KNOWN FINDING (marked): engine errors reported as "not found"
		fmt.Fprintf(w, "# case %d kf=get-error-as-notfound\n", c)
		s.emit("open", "mode=none", "ro=0", fmt.Sprintf("mem=%d", mem))
		k := s.okKey()
		s.emit("rpc", "Put", k, "01")
		s.begin(true)
		s.emit("rpc", "Get", k)
		s.emit("close")
		s.closed = true
		s.emit("rpc", "Get", k)
		s.emit("rpc", "TxGet", s.open[0], k)
		s.emit("rpc", "Put", k, "02")
		s.emit("rpc", "Delete", k)
		s.emit("rpc", "Scan", "=", "=", "=", "=", "0")
		s.emit("rpc", "BatchWrite", "1", "p", k, "03")
		// (BeginTransaction on a closed engine is not issued: RegistryImpl.Begin drops the engine's error and answers
		// "timed out" after 10 s — reported, C17)
		s.emit("rpc", "GetNodeInfo")
	default: // KNOWN FINDING (marked): a forced Compact writes a marker key into the user's key space
		fmt.Fprintf(w, "# case %d kf=compact-marker\n", c)
		ro := g.chance(1, 3)
		s.ro = ro
		mode := "none"
		if ro {
			mode = "replica"
		}
		s.emit("open", "mode="+mode, fmt.Sprintf("ro=%d", b2i(ro)), fmt.Sprintf("mem=%d", mem))
		if ro {
			s.emit("apply", "1", s.okKey(), s.val())
		} else {
			s.emit("rpc", "Put", s.okKey(), s.val())
		}
		s.emit("rpc", "Compact", "1")
		s.emit("rpc", "Get", compactMarkerHex)
		s.emit("rpc", "Scan", "=", "=", "=", "=", "0")
	}
	s.emit("dump")
}
