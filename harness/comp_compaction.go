package main

// component `compaction` (C12): the engine operations of component `engine` plus triggered / range compaction,
// log retirement and table dumps, on the real EngineFacade with tiny memtables so that many overlapping level-0
// files and deeper levels appear. See lean/Driver/CompactionDrv.lean for the model side of the protocol.
//
//	open mem=<bytes> max=<MaxMemTables> cut=<SSTableMaxSize (compared with the ENTRY count)> ratio=<CompactionRatio>
//	     [closure=1: model-side switch Cfg.rangeClosure, ignored here]
//	put k v | del k | batch n (p|d k v)* | tx n (p|d k v)* | get k | scan lo hi | flush | reopen
//	compact            TriggerCompaction (synchronous) -> ok trace=<hook sites> view=<pre>/<mid>/<post> ssts=[L/F/n,...]
//	crange lo hi       CompactRange                    -> ok trace=<hook sites> view=<pre>/<post> ssts=[...]
//	retire             delete the oldest non-current log files all of whose entries are covered by a table (oldest first, stop
//	                   at the first file that is not), except the newest non-empty one (`retire all`: that one too)
//	                                                   -> ok deleted=<n> files=<m> entries=<e>
//	sstdump            sst <n> L/F/[k:v:seq,...] ... in load order (deeper level first, then timestamp)

import (
	"bufio"
	"bytes"
	"errors"
	"fmt"
	"github.com/KevoDB/kevo/pkg/compaction"
	"hash/crc32"
	"os"
	"path/filepath"
	"sort"
	"strconv"
	"strings"
	"sync"
	"time"

	"github.com/KevoDB/kevo/pkg/config"
	"github.com/KevoDB/kevo/pkg/engine"
	"github.com/KevoDB/kevo/pkg/engine/storage"
	"github.com/KevoDB/kevo/pkg/sstable"
	"github.com/KevoDB/kevo/pkg/verifhook"
	"github.com/KevoDB/kevo/pkg/wal"
)

func init() {
	components["compaction"] = &component{gen: genCompaction, run: runCompaction}
}

// ---------- generator ----------

var cxKeys = [][]byte{
	[]byte("a"), []byte("b"), []byte("c"), []byte("d"), []byte("e"), []byte("f"), []byte("g"), []byte("h"),
	[]byte("ab"), []byte("a\x00"), []byte("k1"), []byte("k10"), []byte("k2"), []byte("zz"), []byte("\xff"), []byte("m"),
}

// cxRangeClosureFixed: set to true once CompactRange closes its selection under key-range overlap (see the suggested
// repair of KF-C12-RANGE); partial ranges then belong to the bulk of the cases.
const cxRangeClosureFixed = true

type cxGen struct {
	g       *gen
	w       *bufio.Writer
	nkeys   int
	vseq    int
	partial bool // crange over partial key ranges (can trigger KF-C12-RANGE)
	clock   bool // the tombstone tracker's clock moves between operations (`advance`)
}

func (c *cxGen) key() []byte { return cxKeys[c.g.intn(c.nkeys)] }

// values are short and distinct (a counter) so that every version is recognisable in the dumps
func (c *cxGen) val() []byte {
	c.vseq++
	if c.g.chance(1, 12) {
		return []byte{}
	}
	v := []byte(strconv.Itoa(c.vseq))
	if c.g.chance(1, 6) {
		v = append(v, bytes.Repeat([]byte{'x'}, 1+c.g.intn(20))...)
	}
	return v
}

func (c *cxGen) bound() string {
	if c.g.chance(1, 5) {
		return "-"
	}
	return hx(c.key())
}

func (c *cxGen) emit(parts ...string) { fmt.Fprintln(c.w, strings.Join(parts, " ")) }

// write ops: txDel = transactions may contain deletes (can trigger KF-C12-TOMBSTONE), facadeDel = facade deletes allowed
func (c *cxGen) write(facadeDel, txDel bool) {
	switch x := c.g.intn(100); {
	case x < 62:
		c.emit("put", hx(c.key()), hx(c.val()))
	case x < 76:
		if facadeDel {
			c.emit("del", hx(c.key()))
		} else {
			c.emit("put", hx(c.key()), hx(c.val()))
		}
	default:
		kind := "tx"
		if c.g.chance(1, 3) {
			kind = "batch"
		}
		m := 1 + c.g.intn(3)
		parts := []string{kind, "0"}
		used := map[string]bool{}
		for i := 0; i < m; i++ {
			k := c.key()
			if kind == "batch" && used[string(k)] {
				continue
			}
			used[string(k)] = true
			del := c.g.chance(1, 4)
			if del && ((kind == "tx" && !txDel) || (kind == "batch" && !facadeDel)) {
				del = false
			}
			if del {
				parts = append(parts, "d", hx(k), "=")
			} else {
				parts = append(parts, "p", hx(k), hx(c.val()))
			}
		}
		parts[1] = strconv.Itoa((len(parts) - 2) / 3)
		c.emit(parts...)
	}
}

func (c *cxGen) compactBlock() {
	c.emit("sstdump")
	if c.g.chance(1, 5) {
		lo, hi := []byte{0}, []byte{0xff, 0xff} // every key of the alphabet lies inside
		if c.partial || cxRangeClosureFixed {
			lo, hi = c.key(), c.key()
			if bytes.Compare(lo, hi) > 0 {
				lo, hi = hi, lo
			}
			if c.g.chance(1, 10) {
				lo, hi = hi, lo
			}
		}
		c.emit("crange", hx(lo), hx(hi))
	} else {
		c.emit("compact")
	}
	c.emit("sstdump")
}

func (c *cxGen) tail() {
	c.emit("flush")
	c.emit("flush")
	c.emit("scan - -")
	c.emit("sstdump")
	c.emit("retire")
	c.emit("reopen")
	c.emit("sstdump")
	c.emit("scan - -")
	for _, k := range cxKeys[:c.nkeys] {
		c.emit("get", hx(k))
	}
}

// Case kinds. The bulk (kind 0) stays inside the envelope in which the coded tombstone rule, the coded flush of recovered
// memtables and the coded CompactRange selection are sound: deletes only through the facade (tracked), no restart before
// the final retire + reopen + read-back, CompactRange over the whole key space. Kinds 1..4 are the marked minority that
// can reach the known findings (see KNOWN_FINDINGS.txt):
//
//	1 = deletes inside transactions                                             (KF-C12-TOMBSTONE)
//	2 = a restart between deletes and compactions; no writes after the restart  (KF-C12-TOMBSTONE)
//	3 = writes / flushes after a restart, then log retirement and a reopen      (KF-C12-REFLUSH, also mixed with TOMBSTONE)
//	4 = CompactRange over partial key ranges                                    (KF-C12-RANGE)
func genCompaction(g *gen, n int, tier string, w *bufio.Writer) {
	for i := 0; i < n; i++ {
		c := &cxGen{g: g, w: w, nkeys: 4 + g.intn(9)}
		kind := 0
		switch x := g.intn(100); {
		case x < 68:
			kind = 0
		case x < 76:
			kind = 1
		case x < 84:
			kind = 2
		case x < 92:
			kind = 3
		default:
			kind = 4
		}
		c.partial = kind == 4
		c.clock = g.chance(1, 4)
		mem := g.pick(48, 64, 64, 96, 128, 200)
		max := 2 + g.intn(3)
		cut := g.pick(2, 3, 5, 1000000, 1000000, 1000000)
		ratio := g.pick(2, 3, 10, 10)
		fmt.Fprintf(w, "# case %d kind=%d\n", i, kind)
		open := []string{"open", fmt.Sprintf("mem=%d", mem), fmt.Sprintf("max=%d", max), fmt.Sprintf("cut=%d", cut), fmt.Sprintf("ratio=%d", ratio)}
		if cxRangeClosureFixed {
			open = append(open, "closure=1") // tells the MODEL to use the repaired selection (Cfg.rangeClosure)
		}
		c.emit(open...)
		if kind >= 1 && kind <= 3 && g.chance(2, 3) {
			// start with some data in a deep level below an empty level 1
			for k := 2 + g.intn(4); k > 0; k-- {
				c.emit("put", hx(c.key()), hx(c.val()))
			}
			c.emit("flush")
			c.emit("crange", "00", "ffff")
			c.emit("crange", "00", "ffff")
		}
		rounds := 2 + g.intn(4)
		restartAfter := -1
		if kind == 2 || kind == 3 {
			restartAfter = g.intn(rounds)
			if kind == 3 {
				restartAfter = rounds - 1
			}
		}
		restarted := false
		for r := 0; r < rounds; r++ {
			quiet := restarted && kind == 2 // no writes and no flushes any more
			steps := 4 + g.intn(14)
			for s := 0; s < steps; s++ {
				switch x := g.intn(100); {
				case x < 70:
					if quiet {
						c.emit("get", hx(c.key()))
					} else {
						c.write(true, kind == 1)
					}
				case x < 80:
					c.emit("get", hx(c.key()))
				case x < 86:
					if !quiet {
						c.emit("flush")
					}
				case x < 90:
					c.emit("scan", c.bound(), c.bound())
				default:
					if c.clock && g.chance(1, 2) {
						// the tracker's clock: around the 24 h retention of a recorded delete (a minute of margin for the real time
						// that passes between the operations), half of it, a little
						c.emit("advance", strconv.Itoa(g.pick(86400, 86400-60, 43200, 43200-60, 600, 86400+60)))
					}
					c.compactBlock()
				}
			}
			if !quiet {
				c.emit("flush")
				if g.chance(1, 2) {
					c.emit("flush")
				}
			}
			for k := 1 + g.intn(3); k > 0; k-- {
				c.compactBlock()
			}
			if g.chance(1, 2) {
				c.emit("retire")
			}
			if r == restartAfter {
				c.emit("reopen")
				restarted = true
				for _, k := range cxKeys[:c.nkeys] {
					if g.chance(1, 3) {
						c.emit("get", hx(k))
					}
				}
			}
		}
		if restarted && kind == 3 && g.chance(1, 2) {
			// end inside the window: recovered history flushed again, the recovered active table not yet
			c.emit("flush")
			c.emit("put", hx(c.key()), hx(c.val()))
			c.emit("sstdump")
			c.emit("retire")
			c.emit("reopen")
			c.emit("scan - -")
			for _, k := range cxKeys[:c.nkeys] {
				c.emit("get", hx(k))
			}
			continue
		}
		if restarted && kind == 2 {
			c.emit("scan - -")
			c.emit("sstdump")
			c.emit("retire")
			c.emit("reopen")
			c.emit("scan - -")
			for _, k := range cxKeys[:c.nkeys] {
				c.emit("get", hx(k))
			}
			continue
		}
		c.tail()
	}
}

// ---------- executor ----------

type cxRun struct {
	r     *runner
	dir   string
	e     *engine.EngineFacade
	mu    sync.Mutex
	trace []byte
	mid   string
}

func (x *cxRun) stat(name string) uint64 {
	v := x.e.GetStats()[name]
	switch t := v.(type) {
	case uint64:
		return t
	case int:
		return uint64(t)
	case int64:
		return uint64(t)
	}
	return 0
}

func (x *cxRun) immCount() int { return int(x.stat("storage_immutable_memtable_count")) }

func (x *cxRun) quiesce(before int) {
	if x.immCount() <= before {
		return
	}
	deadline := time.Now().Add(patience(20 * time.Second))
	for x.immCount() != 0 && time.Now().Before(deadline) {
		time.Sleep(200 * time.Microsecond)
	}
}

func (x *cxRun) showW() string {
	next := uint64(0)
	if w := x.e.GetWAL(); w != nil {
		next = w.GetNextSequence()
	}
	return fmt.Sprintf("ok %d %d", x.stat("storage_last_sequence"), next)
}

func cxParam(ws []string, name string, def int) int {
	for _, w := range ws {
		if strings.HasPrefix(w, name+"=") {
			if n, err := strconv.Atoi(strings.TrimPrefix(w, name+"=")); err == nil {
				return n
			}
		}
	}
	return def
}

func (x *cxRun) openDir(ws []string) error {
	if ws != nil {
		cfg := config.NewDefaultConfig(x.dir)
		cfg.MemTableSize = int64(cxParam(ws, "mem", 64))
		cfg.MaxMemTables = cxParam(ws, "max", 4)
		cfg.SSTableMaxSize = int64(cxParam(ws, "cut", 1000000))
		cfg.CompactionRatio = float64(cxParam(ws, "ratio", 10))
		cfg.MaxLevelWithTombstones = cxParam(ws, "tomb", 1)
		cfg.MaxMemTableAge = 0
		cfg.CompactionInterval = 3600
		cfg.WALSyncMode = config.SyncNone
		if err := cfg.SaveManifest(x.dir); err != nil {
			return err
		}
	}
	e, err := engine.NewEngineFacade(x.dir)
	if err != nil {
		return err
	}
	x.e = e
	return nil
}

type cxTable struct {
	level, num int
	ents       []cxEnt
	err        bool
}

type cxEnt struct {
	k, v []byte
	seq  uint64
}

// every table of the directory in load order (deeper level first, then timestamp, then file number), read through
// real sstable readers
func cxTables(dir string) []cxTable {
	var out []cxTable
	for _, s := range listSSTs(filepath.Join(dir, "sst")) {
		t := cxTable{level: s.level, num: s.seq}
		rd, err := sstable.OpenReader(s.path)
		if err != nil {
			t.err = true
			out = append(out, t)
			continue
		}
		it := rd.NewIterator()
		for it.SeekToFirst(); it.Valid(); it.Next() {
			var v []byte
			if !it.IsTombstone() {
				v = append([]byte{}, it.Value()...)
			}
			t.ents = append(t.ents, cxEnt{k: append([]byte{}, it.Key()...), v: v, seq: it.SequenceNumber()})
		}
		rd.Close()
		out = append(out, t)
	}
	return out
}

func cxList(ts []cxTable) string {
	var p []string
	for _, t := range ts {
		if t.err {
			p = append(p, fmt.Sprintf("%d/%d/openerr", t.level, t.num))
		} else {
			p = append(p, fmt.Sprintf("%d/%d/%d", t.level, t.num, len(t.ents)))
		}
	}
	return "[" + strings.Join(p, ",") + "]"
}

// newest-wins merged view of the directory (tombstones = absent), as a checksum of "k:v;..."
func cxView(ts []cxTable) string {
	m := map[string][]byte{}
	for _, t := range ts { // oldest first: later tables overwrite
		for _, e := range t.ents {
			m[string(e.k)] = e.v
		}
	}
	var keys []string
	for k, v := range m {
		if v != nil {
			keys = append(keys, k)
		}
	}
	sort.Strings(keys)
	var p []string
	for _, k := range keys {
		p = append(p, hx([]byte(k))+":"+hx(m[k]))
	}
	return strconv.FormatUint(uint64(crc32.ChecksumIEEE([]byte(strings.Join(p, ";")))), 10)
}

func (x *cxRun) sstdump() string {
	ts := cxTables(x.dir)
	parts := []string{"sst", strconv.Itoa(len(ts))}
	for _, t := range ts {
		var es []string
		for _, e := range t.ents {
			es = append(es, fmt.Sprintf("%s:%s:%d", hx(e.k), hxv(e.v), e.seq))
		}
		if t.err {
			es = []string{"openerr"}
		}
		parts = append(parts, fmt.Sprintf("%d/%d/[%s]", t.level, t.num, strings.Join(es, ",")))
	}
	return strings.Join(parts, " ")
}

func (x *cxRun) hook(site string) {
	x.mu.Lock()
	defer x.mu.Unlock()
	switch site {
	case "compact.outputFinished":
		x.trace = append(x.trace, 'F')
	case "compact.outputsDone":
		x.trace = append(x.trace, 'D')
	case "compact.inputsMarked":
		x.trace = append(x.trace, 'M')
		// a crash here leaves inputs and outputs side by side
		x.mid = cxView(cxTables(x.dir))
	case "compact.inputDeleted":
		x.trace = append(x.trace, 'X')
		// experiment only (the deletion order is a Go map iteration, so this is not part of the compared protocol):
		// VERIF_C12_DELVIEW=1 appends the directory view after every single deletion to the `mid` field
		if os.Getenv("VERIF_C12_DELVIEW") != "" {
			x.mid += "," + cxView(cxTables(x.dir))
		}
	}
}

func (x *cxRun) compact(ws []string) string {
	pre := cxView(cxTables(x.dir))
	x.trace, x.mid = nil, "-"
	verifhook.Set(x.hook)
	var err error
	if ws[0] == "compact" {
		err = x.e.TriggerCompaction()
	} else {
		err = x.e.CompactRange(optBound(ws[1]), optBound(ws[2]))
	}
	verifhook.Set(nil)
	if err != nil {
		return "err " + errTok(err)
	}
	after := cxTables(x.dir)
	tr := string(x.trace)
	if tr == "" {
		tr = "-"
	}
	if ws[0] == "compact" {
		return fmt.Sprintf("ok trace=%s view=%s/%s/%s ssts=%s", tr, pre, x.mid, cxView(after), cxList(after))
	}
	return fmt.Sprintf("ok trace=%s view=%s/%s ssts=%s", tr, pre, cxView(after), cxList(after))
}

// retire: the sound retention rule of the property. An entry (k, seq) is covered if some table holds k with a sequence
// number >= seq. The longest run of oldest non-current files whose every entry is covered is deleted; the newest
// non-empty file is kept so that the sequence numbering continues after a restart (unless `retire all`).
func (x *cxRun) retire(all bool) string {
	if w := x.e.GetWAL(); w != nil {
		w.Sync()
	}
	maxSeq := map[string]uint64{}
	has := map[string]bool{}
	for _, t := range cxTables(x.dir) {
		for _, e := range t.ents {
			k := string(e.k)
			if !has[k] || e.seq > maxSeq[k] {
				maxSeq[k] = e.seq
			}
			has[k] = true
		}
	}
	files := walFiles(filepath.Join(x.dir, "wal"))
	type fi struct {
		path    string
		n       int
		covered bool
	}
	var infos []fi
	for _, f := range files {
		inf := fi{path: f, covered: true}
		wal.ReplayWALFile(f, func(e *wal.Entry) error {
			inf.n++
			k := string(e.Key)
			if !has[k] || maxSeq[k] < e.SequenceNumber {
				inf.covered = false
			}
			return nil
		})
		infos = append(infos, inf)
	}
	newestNonEmpty := -1
	for i, inf := range infos {
		if inf.n > 0 {
			newestNonEmpty = i
		}
	}
	deleted, left, entries := 0, 0, 0
	stop := false
	for i, inf := range infos {
		// oldest first; a newer file is never deleted while an older one stays
		if !stop && i < len(infos)-1 && inf.covered && (all || i != newestNonEmpty) {
			if os.Remove(inf.path) == nil {
				deleted++
				continue
			}
		}
		stop = true
		left++
		entries += inf.n
	}
	return fmt.Sprintf("ok deleted=%d files=%d entries=%d", deleted, left, entries)
}

func (x *cxRun) step(ws []string) (out string) {
	defer func() {
		if p := recover(); p != nil {
			verifhook.Set(nil)
			out = "panic " + strings.ReplaceAll(fmt.Sprint(p), " ", "_")
		}
	}()
	if ws[0] != "open" && x.e == nil {
		return "closed"
	}
	switch ws[0] {
	case "open":
		if x.e != nil {
			x.e.Close()
			x.e = nil
		}
		x.r.dropTemp()
		x.dir = x.r.tempDir()
		if err := x.openDir(ws[1:]); err != nil {
			return "err " + errTok(err)
		}
		return "ok"
	case "put", "del", "batch", "tx":
		before := x.immCount()
		var err error
		switch ws[0] {
		case "put":
			err = x.e.Put(unhx(ws[1]), unhx(ws[2]))
		case "del":
			err = x.e.Delete(unhx(ws[1]))
		case "batch":
			var es []*wal.Entry
			for _, o := range parseEngOps(ws[2:]) {
				if o[0] == "d" {
					es = append(es, &wal.Entry{Type: wal.OpTypeDelete, Key: unhx(o[1])})
				} else {
					es = append(es, &wal.Entry{Type: wal.OpTypePut, Key: unhx(o[1]), Value: unhx(o[2])})
				}
			}
			err = x.e.ApplyBatch(es)
		case "tx":
			tx, e2 := x.e.BeginTransaction(false)
			if e2 != nil {
				return "err " + errTok(e2)
			}
			for _, o := range parseEngOps(ws[2:]) {
				if o[0] == "d" {
					err = tx.Delete(unhx(o[1]))
				} else {
					err = tx.Put(unhx(o[1]), unhx(o[2]))
				}
				if err != nil {
					break
				}
			}
			if err == nil {
				err = tx.Commit()
			} else {
				tx.Rollback()
			}
		}
		if err != nil {
			return "err " + errTok(err)
		}
		x.quiesce(before)
		return x.showW()
	case "get":
		v, err := x.e.Get(unhx(ws[1]))
		if err != nil {
			if errors.Is(err, engine.ErrKeyNotFound) || errors.Is(err, storage.ErrKeyNotFound) {
				return "nf"
			}
			return "err " + errTok(err)
		}
		return "found " + hx(v)
	case "flush":
		if err := x.e.FlushImMemTables(); err != nil {
			return "err " + errTok(err)
		}
		return "ok"
	case "reopen":
		if err := x.e.Close(); err != nil {
			return "err close " + errTok(err)
		}
		x.e = nil
		if err := x.openDir(nil); err != nil {
			return "err " + errTok(err)
		}
		return x.showW()
	case "scan":
		lo, hi := optBound(ws[1]), optBound(ws[2])
		var parts []string
		it, err := x.e.GetIterator()
		if lo != nil || hi != nil {
			it, err = x.e.GetRangeIterator(lo, hi)
		}
		if err != nil {
			return "err " + errTok(err)
		}
		var prev []byte
		for it.SeekToFirst(); it.Valid(); it.Next() {
			if prev != nil && bytes.Compare(it.Key(), prev) <= 0 {
				parts = append(parts, "ORDER-VIOLATION")
			}
			prev = append([]byte{}, it.Key()...)
			if it.IsTombstone() {
				continue
			}
			parts = append(parts, hx(it.Key())+":"+hx(it.Value()))
			if len(parts) > 100000 {
				break
			}
		}
		return strings.TrimRight("scan "+strconv.Itoa(len(parts))+" "+strings.Join(parts, " "), " ")
	case "compact", "crange":
		if ws[0] == "crange" && len(ws) < 3 {
			return "bad-op"
		}
		return x.compact(ws)
	case "advance": // advance <seconds>: the tombstone tracker's clock moves on (every recorded deletion time is moved back)
		sec, _ := strconv.Atoi(ws[1])
		cm, ok := x.e.VerifCompactionManager().(interface {
			VerifCoordinator() compaction.CompactionCoordinator
		})
		if !ok {
			return "err no-coordinator-access"
		}
		co, ok := cm.VerifCoordinator().(interface {
			VerifTombstoneManager() compaction.TombstoneManager
		})
		if !ok {
			return "err no-tracker-access"
		}
		tr, ok := co.VerifTombstoneManager().(*compaction.TombstoneTracker)
		if !ok {
			return "err not-a-tracker"
		}
		tr.VerifShift(time.Duration(sec) * time.Second)
		return "ok"
	case "retire":
		return x.retire(len(ws) > 1 && ws[1] == "all")
	case "sstdump":
		return x.sstdump()
	}
	return "bad-op"
}

func runCompaction(r *runner) {
	x := &cxRun{r: r}
	for {
		ws, ok := r.next()
		if !ok {
			break
		}
		r.emit(x.step(ws))
	}
	if x.e != nil {
		x.e.Close()
	}
}
