package main

// component walconc (implementation only, C09): several goroutines append to ONE log at the same time (single operations of all
// sizes up to several fragments, batches, Sync and GetEntriesFrom calls in between). The log's own mutex is its contract: replaying
// the directory afterwards must yield every appended operation exactly once, intact, under the number Append returned for it, and
// the numbers must increase strictly in file order (batches: the numbers AppendBatch assigns).

import (
	"bufio"
	"bytes"
	"fmt"
	"sync"

	"github.com/KevoDB/kevo/pkg/config"
	"github.com/KevoDB/kevo/pkg/wal"
)

func init() {
	components["walconc"] = &component{gen: genWalConc, run: runWalConc}
}

func genWalConc(g *gen, n int, tier string, w *bufio.Writer) {
	for c := 0; c < n; c++ {
		fmt.Fprintf(w, "# case %d\n", c)
		fmt.Fprintf(w, "conc seed=%d threads=%d per=%d big=%d batches=%d sync=%d readers=%d\n", g.intn(1<<30), g.pick(2, 3, 4, 8), g.pick(40, 120, 300),
			g.pick(0, 1, 1), g.pick(0, 1), g.pick(0, 1, 2), g.pick(0, 1))
	}
}

func runWalConc(r *runner) {
	for {
		ws, ok := r.next()
		if !ok {
			break
		}
		if ws[0] != "conc" {
			r.emit("bad-op")
			continue
		}
		r.emit(walConcCase(r, parseKV(ws[1:])))
	}
}

func walConcCase(r *runner, kv map[string]string) (out string) {
	defer func() {
		if p := recover(); p != nil {
			out = fmt.Sprintf("conc panic=%v", p)
		}
	}()
	r.dropTemp()
	dir := r.tempDir()
	cfg := config.NewDefaultConfig(dir)
	switch atoi(kv["sync"]) {
	case 0:
		cfg.WALSyncMode = config.SyncNone
	case 1:
		cfg.WALSyncMode = config.SyncBatch
	default:
		cfg.WALSyncMode = config.SyncImmediate
	}
	w, err := wal.NewWAL(cfg, dir)
	if err != nil {
		return "conc err=open"
	}
	threads, per := atoi(kv["threads"]), atoi(kv["per"])
	type rec struct {
		key, val []byte
		typ      uint8
		seq      uint64
	}
	recs := make([][]rec, threads)
	var wg sync.WaitGroup
	var errs sync.Map
	stop := make(chan struct{})
	for t := 0; t < threads; t++ {
		wg.Add(1)
		go func(t int) {
			defer wg.Done()
			g := newGen(int64(atoi(kv["seed"]) + 7919*t))
			for i := 0; i < per; i++ {
				key := []byte(fmt.Sprintf("t%02d-%05d", t, i))
				vlen := g.intn(200)
				if kv["big"] == "1" && g.chance(1, 12) {
					vlen = g.pick(32768-40, 32768-len(key)-13, 32768, 40000, 70000)
				}
				val := g.bytesN(vlen)
				if kv["batches"] == "1" && g.chance(1, 6) {
					m := 2 + g.intn(4)
					var es []*wal.Entry
					for j := 0; j < m; j++ {
						es = append(es, &wal.Entry{Type: wal.OpTypePut, Key: []byte(fmt.Sprintf("%s-b%d", key, j)), Value: g.bytesN(g.intn(60))})
					}
					seq, err := w.AppendBatch(es)
					if err != nil {
						errs.Store(fmt.Sprintf("batch:%v", err), true)
						continue
					}
					for j, e := range es {
						_ = j
						recs[t] = append(recs[t], rec{key: e.Key, val: e.Value, typ: e.Type, seq: seq})
					}
					continue
				}
				typ := uint8(wal.OpTypePut)
				if g.chance(1, 8) {
					typ, val = wal.OpTypeDelete, nil
				}
				seq, err := w.Append(typ, key, val)
				if err != nil {
					errs.Store(fmt.Sprintf("append:%v", err), true)
					continue
				}
				recs[t] = append(recs[t], rec{key: key, val: val, typ: typ, seq: seq})
			}
		}(t)
	}
	var rg sync.WaitGroup
	if kv["readers"] == "1" {
		rg.Add(1)
		go func() {
			defer rg.Done()
			for {
				select {
				case <-stop:
					return
				default:
				}
				w.Sync()
				w.GetEntriesFrom(1)
			}
		}()
	}
	wg.Wait()
	close(stop)
	rg.Wait()
	if err := w.Close(); err != nil {
		return "conc err=close"
	}
	es, status := replayDirSafe(dir)
	if status != "ok" {
		return "conc replay=" + status
	}
	want := map[string]rec{}
	total := 0
	for _, l := range recs {
		for _, x := range l {
			want[string(x.key)] = x
			total++
		}
	}
	problems := []string{}
	note := func(f string, a ...interface{}) {
		if len(problems) < 3 {
			problems = append(problems, fmt.Sprintf(f, a...))
		}
	}
	errs.Range(func(k, _ interface{}) bool { note("error_%v", k); return true })
	seen := map[string]int{}
	var prev uint64
	for i, e := range es {
		x, ok := want[string(e.Key)]
		seen[string(e.Key)]++
		switch {
		case !ok:
			note("entry#%d_key_%x_never_appended", i, e.Key)
		case e.Type != x.typ || !bytes.Equal(e.Value, x.val):
			note("entry#%d_key_%s_differs(len_%d_want_%d)", i, e.Key, len(e.Value), len(x.val))
		case e.SequenceNumber < x.seq || e.SequenceNumber > x.seq+8:
			note("entry#%d_key_%s_seq_%d_but_append_returned_%d", i, e.Key, e.SequenceNumber, x.seq)
		}
		if e.SequenceNumber < prev {
			note("entry#%d_seq_%d_after_%d_(file_order_not_sequence_order)", i, e.SequenceNumber, prev)
		}
		prev = e.SequenceNumber
	}
	for k, n := range seen {
		if n != 1 {
			note("key_%s_replayed_%d_times", k, n)
		}
	}
	if len(es) != total {
		note("replayed_%d_appended_%d", len(es), total)
	}
	res := fmt.Sprintf("conc appended=%d replayed=%d files=%d", total, len(es), len(walFiles(dir)))
	if len(problems) > 0 {
		return res + " bad=" + problems[0]
	}
	return res + " ok"
}
